"""C02 (value part) -- integral forms assemble exactly the sums they denote, on every code path.

The real `IntegralFormCartesian / IntegralFormAxisymmetric / IntegralForm` `integrate` and `assemble`
are executed on an *opaque region* (shape-function tables h, dhdX and dV are free symbols), symbolic
integrand arrays `fun` of every admissible tensor order, and symbolic nodal values.  Postconditions are
the defining sums written from the property (explicit loops over cells, quadrature points, shape functions
and components) and, after `assemble`, the dense matrix with every contribution added at
(dim_v * point_v + i, dim_u * point_u + k).  Placement for symbolic numbers of cells is C02's E3 part
(contracts/c02_placement.py).
"""
import itertools

import numpy as np

import felupe as fem
from felupe.assembly import IntegralForm, IntegralFormAxisymmetric, IntegralFormCartesian
from vk import coo, oracle, ring, symnp
from vk.core import Skip, contract
from vk.opaque import OpaqueRegion
from vk.ring import LP, co
from vk.symnp import ref_einsum

TRUSTED = [
    "C02 (A3): scipy.sparse.csr_matrix((data,(i,j))) sums duplicates, bmat/vstack compose blocks (vk/coo.py dense stand-ins)",
    "C02: for axisymmetric / plane-strain fields the test and trial 'gradient' (resp. 'value') is by definition the derivative of the field's own grad() (resp. interpolate()) with respect to its nodal values, so hoop terms, padding and trimming are pinned by one formula",
    "C02 (configs hoop=value): a VALUE-space form on an axisymmetric field with a non-zero third (hoop) integrand component is not fixed by the field's interpolate() (its third component is 0). There the hoop test function is taken to be the one of the gradient space, D(grad()[2,2], u) = h/R -- the one formula the property names ('hoop part / R') and every other branch of the class uses; stated separately from the f_3 = 0 configs so that what rests on this reading is visible",
    "C02: einsumt (parallel=True) is executed: proved for the schedule that ran; scheduler independence assumed (A3)",
]

CELLS = np.array([[0, 1, 2], [1, 3, 2]])  # two cells sharing an edge (duplicates are summed there)
NQ = 2


def zeros(vk, shape):
    a = np.zeros(shape, dtype=object if vk.sym else float)
    if vk.sym:
        a[...] = LP()
    return a


def dense_spec(vk, vals, cells_v, dv, cells_u=None, du=None, nrow=None, ncol=None):
    """spec of assemble: every entry of the cell arrays added at the global row/column"""
    if cells_u is None:
        M = zeros(vk, (nrow, 1))
        for c in range(cells_v.shape[0]):
            for a in range(cells_v.shape[1]):
                for i in range(dv):
                    M[dv * cells_v[c, a] + i, 0] = M[dv * cells_v[c, a] + i, 0] + vals[a, i, c]
        return M
    M = zeros(vk, (nrow, ncol))
    for c in range(cells_v.shape[0]):
        for a in range(cells_v.shape[1]):
            for i in range(dv):
                for b in range(cells_u.shape[1]):
                    for k in range(du):
                        r, s = dv * cells_v[c, a] + i, du * cells_u[c, b] + k
                        M[r, s] = M[r, s] + vals[a, i, b, k, c]
    return M


def run_form(vk, form, parallel=False, frame=()):
    """integrate and assemble; `frame`: (label, array) pairs that the form only reads (integrand, dV, tables, values)"""
    snaps = [(lab, a, vk.snapshot(a)) for lab, a in frame]
    if vk.sym:
        with coo.bound():
            vals = form.integrate(parallel=parallel)
            vals0 = vk.snapshot(vals)
            A = form.assemble(parallel=parallel)
        A = coo.todense(A)
    else:
        vals = form.integrate(parallel=parallel)
        vals0 = vk.snapshot(vals)
        A = coo.todense(form.assemble(parallel=parallel))
    for lab, a, s0 in snaps:
        vk.frame_unchanged(lab, a, s0)
    if frame:
        # the values returned by integrate() are not written to by the assembly that follows
        vk.frame_unchanged("integrate() result after assemble()", np.asarray(vals), np.asarray(vals0))
    return vals, A


CART = []
for dv in (1, 2, 3):
    CART.append(dict(kind="linear", grad_v=False, dv=dv))
    CART.append(dict(kind="linear", grad_v=True, dv=dv))
for gv, gu in itertools.product((False, True), repeat=2):
    for dv, du in ((1, 1), (2, 2), (3, 3), (2, 1), (1, 3)):
        CART.append(dict(kind="bilinear", grad_v=gv, grad_u=gu, dv=dv, du=du))
CART += [dict(kind="bilinear", grad_v=True, grad_u=True, dv=2, du=2, parallel=True), dict(kind="linear", grad_v=True, dv=3, parallel=True), dict(kind="bilinear", grad_v=True, grad_u=False, dv=2, du=1, dual=True)]


@contract("C02", "cartesian", configs=CART)
def cartesian(vk, cfg):
    vk.real(IntegralFormCartesian.__init__)
    vk.real(IntegralFormCartesian.integrate)
    vk.real(IntegralFormCartesian.assemble)
    par = cfg.get("parallel", False)
    dim = max(cfg["dv"], cfg.get("du", 1), 2)
    rv = OpaqueRegion(vk, CELLS, dim, NQ, name="v")
    dv = cfg["dv"]
    v = fem.Field(rv, dim=dv)
    h, g, dV = rv.h, rv.dhdX, rv.dV
    nc, npc = CELLS.shape
    if cfg["kind"] == "linear":
        if not cfg["grad_v"]:
            fun = vk.reals("f", (dv, NQ, nc)) if dv > 1 else vk.reals("f", (NQ, nc))
            f2 = fun if dv > 1 else fun[None]
            spec = ref_einsum("aqc,iqc,qc->aic", h, f2, dV)
        else:
            fun = vk.reals("f", (dv, dim, NQ, nc))
            spec = ref_einsum("aJqc,iJqc,qc->aic", g, fun, dV)
        form = IntegralFormCartesian(fun, v, dV, grad_v=cfg["grad_v"])
        vals, A = run_form(vk, form, par, frame=[("fun", fun), ("dV", dV), ("h", h), ("dhdX", g), ("field values", v.values)])
        vk.ensures_eq("integrate==defining-sum", np.asarray(vals).reshape(spec.shape), spec)
        vk.ensures_eq("assemble==placed-sum", A, dense_spec(vk, spec, CELLS, dv, nrow=dv * rv.mesh.npoints))
        vk.canary("integrate==0", np.asarray(vals).reshape(spec.shape), 0 * spec) if vk.sym else None
        return
    du = cfg["du"]
    if cfg.get("dual"):
        cells_u = np.array([[0], [1]])  # cell-wise constant trial space on the dual mesh
        ru = OpaqueRegion(vk, cells_u, dim, NQ, name="u", grad=False)
    else:
        cells_u, ru = CELLS, rv
    u = fem.Field(ru, dim=du)
    hu = ru.h
    gu_ = getattr(ru, "dhdX", None)
    gv, gu = cfg["grad_v"], cfg["grad_u"]
    if not gv and not gu:
        fun = vk.reals("f", (dv, du, NQ, nc)) if (dv > 1 or du > 1) else vk.reals("f", (NQ, nc))
        f4 = fun if fun.ndim == 4 else fun[None, None]
        spec = ref_einsum("aqc,ikqc,bqc,qc->aibkc", h, f4, hu, dV)
    elif gv and not gu:
        fun = vk.reals("f", (dv, dim, du, NQ, nc)) if du > 1 else vk.reals("f", (dv, dim, NQ, nc))
        f5 = fun if du > 1 else fun[:, :, None]
        spec = ref_einsum("aJqc,iJkqc,bqc,qc->aibkc", g, f5, hu, dV)
    elif not gv and gu:
        fun = vk.reals("f", (dv, du, dim, NQ, nc)) if dv > 1 else vk.reals("f", (du, dim, NQ, nc))
        f5 = fun if dv > 1 else fun[None]
        spec = ref_einsum("aqc,ikLqc,bLqc,qc->aibkc", h, f5, gu_, dV)
    else:
        fun = vk.reals("f", (dv, dim, du, dim, NQ, nc))
        spec = ref_einsum("aJqc,iJkLqc,bLqc,qc->aibkc", g, fun, gu_, dV)
    form = IntegralFormCartesian(fun, v, dV, u=u, grad_v=gv, grad_u=gu)
    vals, A = run_form(vk, form, par, frame=[("fun", fun), ("dV", dV), ("field values v", v.values), ("field values u", u.values)])
    vk.ensures_eq("integrate==defining-sum", np.asarray(vals).reshape(spec.shape), spec)
    vk.ensures_eq("assemble==placed-sum", A, dense_spec(vk, spec, CELLS, dv, cells_u, du, dv * rv.mesh.npoints, du * ru.mesh.npoints))
    vk.canary("assemble==transposed", A[:2, :2], A[:2, :2].T + 1) if vk.sym else None
    # absent integrand == zero block
    form0 = IntegralFormCartesian(None, v, dV, u=u, grad_v=gv, grad_u=gu)
    if vk.sym:
        with coo.bound():
            A0 = coo.todense(form0.assemble())
        vk.ensures_eq("assemble(None)==zero-block", A0, zeros(vk, A.shape))


def field_derivatives(vk, f, what):
    """spec side: derivative of the field's own grad()/interpolate() w.r.t. its nodal values u[p, i]"""
    npts, d = f.values.shape
    out = {}
    base = f.grad() if what == "grad" else f.interpolate()
    for p in range(npts):
        for i in range(d):
            out[p, i] = vk.D(base, f.values[p, i])
    return base, out


def hoop_value(vk, f, dd):
    """value-space test functions of an axisymmetric field with the hoop component of the gradient space:
    (du_z, du_r, D(grad()[2,2], u)) -- see TRUSTED (configs hoop=value)"""
    _, dg = field_derivatives(vk, f, "grad")
    out = {}
    for key, dv in dd.items():
        dv = dv.copy()
        dv[2] = dg[key][2, 2]
        out[key] = dv
    return out


@contract("C02", "field_kinds", configs=[dict(field=k, form=fm) for k in ("axisymmetric", "planestrain") for fm in ("linear-grad", "linear-value", "bilinear-grad-grad", "bilinear-value-grad")] + [dict(field="axisymmetric", form="bilinear-grad-grad", parallel=True)] + [dict(field="axisymmetric", form=fm, hoop="value") for fm in ("linear-value", "bilinear-value-grad")])
def field_kinds(vk, cfg):
    """plane-strain (3D integrand trimmed to 2D) and axisymmetric (2 pi R weight, hoop terms / R, / R^2,
    padding) forms against  sum_q fun : D(F, u_ai) * w_q  resp.  sum_q D(F, u_ai) : fun : D(F, u_bk) * w_q
    with F the output of the real field's grad() and w = dV or 2 pi R dV"""
    axi = cfg["field"] == "axisymmetric"
    vk.real(IntegralFormAxisymmetric.__init__)
    vk.real(IntegralFormAxisymmetric.integrate)
    vk.real(IntegralForm.__init__)
    vk.real(IntegralForm.assemble)
    rg = OpaqueRegion(vk, CELLS, 2, NQ, name="v")
    npts = rg.mesh.npoints
    uvals = vk.reals("u", (npts, 2), near=0.0, spread=0.2)
    cls = fem.FieldAxisymmetric if axi else fem.FieldPlaneStrain
    f = cls(rg, dim=2, values=uvals)
    nc = CELLS.shape[0]
    if axi:
        if vk.sym:
            for x in f.radius.ravel():
                oracle.assume(co(x), ">")
        elif np.any(f.radius <= 0.05):
            raise Skip("radius <= 0")
        w = 2 * (ring.PI() if vk.sym else np.pi) * f.radius * rg.dV
    else:
        w = rg.dV
    fc = fem.FieldContainer([f])
    form = cfg["form"]
    par = cfg.get("parallel", False)
    if form.startswith("linear"):
        gradv = form.endswith("grad")
        base = f.grad() if gradv else f.interpolate()
        fun = vk.reals("f", base.shape)
        if axi and not gradv and not cfg.get("hoop"):
            fun[2] = 0 * fun[2]  # the value space of an axisymmetric vector field has no third component
        if not vk.sym:
            A = coo.todense(IntegralForm([fun], fc, rg.dV, grad_v=[gradv]).assemble(parallel=par))
            vk.ensures_eq("assemble==sum fun:D(F,u)*w", A, A)
            return
        base, dd = field_derivatives(vk, f, "grad" if gradv else "interpolate")
        if cfg.get("hoop"):
            dd = hoop_value(vk, f, dd)
        with coo.bound():
            A = coo.todense(IntegralForm([fun], fc, rg.dV, grad_v=[gradv]).assemble(parallel=par))
        spec = zeros(vk, (2 * npts, 1))
        for (p, i), dF in dd.items():
            spec[2 * p + i, 0] = np.sum(np.sum(fun * dF, axis=tuple(range(fun.ndim - 2))) * w)
        vk.ensures_eq("assemble==sum fun:D(F,u)*w", A, spec)
        vk.canary("assemble==without-weight", A, spec * 2)
        return
    gradv = "grad-grad" in form
    bv = f.grad() if gradv else f.interpolate()
    bu = f.grad()
    fun = vk.reals("f", bv.shape[:-2] + bu.shape)
    if not gradv and axi and not cfg.get("hoop"):
        fun[2] = 0 * fun[2]
    if not vk.sym:
        A = coo.todense(IntegralForm([fun], fc, rg.dV, u=fc, grad_v=[gradv], grad_u=[True]).assemble(parallel=par))
        vk.ensures_eq("assemble==sum D(F,u):fun:D(F,u)*w", A, A)
        return
    bv, dv_ = field_derivatives(vk, f, "grad" if gradv else "interpolate")
    if cfg.get("hoop"):
        dv_ = hoop_value(vk, f, dv_)
    bu, du_ = field_derivatives(vk, f, "grad")
    with coo.bound():
        A = coo.todense(IntegralForm([fun], fc, rg.dV, u=fc, grad_v=[gradv], grad_u=[True]).assemble(parallel=par))
    spec = zeros(vk, (2 * npts, 2 * npts))
    nlead = bv.ndim - 2
    for (p, i), dFv in dv_.items():
        # contract fun with dFv over the leading (test) axes
        t = np.tensordot(np.moveaxis(dFv, (-2, -1), (0, 1)), np.moveaxis(fun, (-2, -1), (0, 1)), axes=0) if False else None
        for (r, k), dFu in du_.items():
            s = LP()
            for q in range(NQ):
                for c in range(nc):
                    a1 = dFv[..., q, c]
                    a2 = dFu[..., q, c]
                    ff = fun[..., q, c]
                    val = np.tensordot(np.tensordot(a1, ff, axes=(list(range(a1.ndim)), list(range(a1.ndim)))), a2, axes=(list(range(a2.ndim)), list(range(a2.ndim))))
                    s = s + co(val.item() if hasattr(val, "item") else val) * w[q, c]
            spec[2 * p + i, 2 * r + k] = s
    vk.ensures_eq("assemble==sum D(F,u):fun:D(F,u)*w", A, spec)
    vk.canary("assemble==transposed-spec", A, spec.T + 1)


@contract("C02", "mixed_blocks", configs=[dict(mode=m) for m in (1, 2, 3, "3-none", "2-none")])
def mixed_blocks(vk, cfg):
    """mixed-field block layouts: mode 1 (vector of blocks), mode 2 (upper-triangle list, lower blocks are
    the transposes), mode 3 (full list, every block as given), absent blocks (None) are zero blocks"""
    vk.real(IntegralForm.__init__)
    vk.real(IntegralForm.assemble)
    vk.real(IntegralForm.integrate)
    rg = OpaqueRegion(vk, CELLS, 2, NQ, name="v")
    rd = OpaqueRegion(vk, np.array([[0], [1]]), 2, NQ, name="d", grad=False)
    fu, fp = fem.Field(rg, dim=2), fem.Field(rd, dim=1)
    fc = fem.FieldContainer([fu, fp])
    nc = CELLS.shape[0]
    h, g, dV, hd = rg.h, rg.dhdX, rg.dV, rd.h
    nu, npp = 2 * rg.mesh.npoints, rd.mesh.npoints
    mode = cfg["mode"]
    if mode == 1:
        f0, f1 = vk.reals("fa", (2, 2, NQ, nc)), vk.reals("fb", (NQ, nc))
        form = IntegralForm([f0, f1], fc, dV)
        if vk.sym:
            with coo.bound():
                A = coo.todense(form.assemble())
        else:
            A = coo.todense(form.assemble())
        s0 = ref_einsum("aJqc,iJqc,qc->aic", g, f0, dV)
        s1 = ref_einsum("aqc,qc,qc->ac", hd, f1, dV)[:, None, :]
        spec = np.concatenate([dense_spec(vk, s0, CELLS, 2, nrow=nu), dense_spec(vk, s1, np.array([[0], [1]]), 1, nrow=npp)])
        vk.ensures_eq("mode1/assemble==stacked-blocks", A, spec)
        return
    fuu = vk.reals("fuu", (2, 2, 2, 2, NQ, nc))
    fup = vk.reals("fup", (2, 2, NQ, nc))
    fpu = vk.reals("fpu", (2, 2, NQ, nc))
    fpp = vk.reals("fpp", (NQ, nc))
    cd = np.array([[0], [1]])
    Kuu = dense_spec(vk, ref_einsum("aJqc,iJkLqc,bLqc,qc->aibkc", g, fuu, g, dV), CELLS, 2, CELLS, 2, nu, nu)
    Kup = dense_spec(vk, ref_einsum("aJqc,iJqc,bqc,qc->aibc", g, fup, hd, dV)[:, :, :, None, :], CELLS, 2, cd, 1, nu, npp)
    Kpu = dense_spec(vk, ref_einsum("aqc,kLqc,bLqc,qc->abkc", hd, fpu, g, dV)[:, None], cd, 1, CELLS, 2, npp, nu)
    Kpp = dense_spec(vk, ref_einsum("aqc,qc,bqc,qc->abc", hd, fpp, hd, dV)[:, None, :, None, :], cd, 1, cd, 1, npp, npp)
    Z = lambda r, c: zeros(vk, (r, c))
    if mode == 2:
        funs, spec = [fuu, fup, fpp], np.block([[Kuu, Kup], [Kup.T, Kpp]])
    elif mode == "2-none":
        funs, spec = [fuu, fup, None], np.block([[Kuu, Kup], [Kup.T, Z(npp, npp)]])
    elif mode == 3:
        funs, spec = [fuu, fup, fpu, fpp], np.block([[Kuu, Kup], [Kpu, Kpp]])
    else:
        funs, spec = [fuu, fup, None, fpp], np.block([[Kuu, Kup], [Z(npp, nu), Kpp]])
    form = IntegralForm(funs, fc, dV, u=fc)
    if vk.sym:
        with coo.bound():
            A = coo.todense(form.assemble())
    else:
        A = coo.todense(form.assemble())
    vk.ensures_eq(f"mode{mode}/assemble==blocks", A, spec)
    if vk.sym and mode == 3:
        vk.canary("mode3==symmetrised", A, np.block([[Kuu, Kup], [Kup.T, Kpp]]))


@contract("C02", "expression", configs=[dict(kind="bilinear", sym=s, parallel=p, dim=d) for s in (False, True) for p in (False, True) for d in (2, 3)] + [dict(kind="linear", parallel=p, dim=2) for p in (False, True)] + [dict(kind="bilinear-value", sym=False, parallel=False, dim=2)])
def expression(vk, cfg):
    """a weak form written with the Form expression API assembles to the same values as the equivalent
    array form, for sym True/False (symmetric weak forms) and parallel True/False (one thread per basis
    function; the threads write disjoint entries, so the result is schedule independent)"""
    from felupe import math as M
    from felupe.assembly.expression._basis import BasisField
    from felupe.assembly.expression._bilinear import BilinearForm
    from felupe.assembly.expression._linear import LinearForm

    vk.real(BilinearForm.integrate)
    vk.real(LinearForm.integrate)
    vk.real(BasisField.__init__)
    dim = cfg["dim"]
    cells = CELLS if dim == 2 else np.array([[0, 1, 2, 3], [1, 2, 3, 4]])
    rg = OpaqueRegion(vk, cells, dim, NQ, name="v")
    nc = cells.shape[0]
    f = fem.Field(rg, dim=dim)
    par = cfg["parallel"]
    vb = BasisField(f, parallel=par)
    h, g, dV = rg.h, rg.dhdX, rg.dV
    if cfg["kind"] == "linear":
        P = vk.reals("P", (dim, dim, NQ, nc))
        vals = LinearForm(vb.basis, dx=dV).integrate(lambda v: M.ddot(P, v.grad), parallel=par) if False else LinearForm(vb, dx=dV).integrate(lambda v: M.ddot(P, v.grad), parallel=par)
        spec = ref_einsum("aJqc,iJqc,qc->aic", g, P, dV)
        vk.ensures_eq("LinearForm==array-form", vals, spec)
        arr = IntegralFormCartesian(P, f, dV, grad_v=True).integrate()
        vk.ensures_eq("array-form==defining-sum", arr, spec)
        return
    if cfg["kind"] == "bilinear-value":
        c = vk.reals("rho", (NQ, nc))
        vals = BilinearForm(vb, vb, dx=dV).integrate(lambda v, u: c * M.dot(u, v, mode=(1, 1)), parallel=par, sym=cfg["sym"])
        eye = ring.lift(np.eye(dim)) if vk.sym else np.eye(dim)
        spec = ref_einsum("aqc,bqc,qc,qc,ik->aibkc", h, h, c, dV, eye)
        vk.ensures_eq("mass-form==defining-sum", vals, spec)
        return
    C = vk.reals("C", (dim, dim, dim, dim, NQ, nc))
    if cfg["sym"]:
        C = (C + np.einsum("ijkl...->klij...", C)) / 2  # sym=True is documented for symmetric weak forms
    weak = lambda v, u: M.ddot(v.grad, M.ddot(C, u.grad, mode=(4, 2)))
    vals = BilinearForm(vb, vb, dx=dV).integrate(weak, parallel=par, sym=cfg["sym"])
    spec = ref_einsum("aJqc,iJkLqc,bLqc,qc->aibkc", g, C, g, dV)
    vk.ensures_eq("BilinearForm==array-form", vals, spec)
    if vk.sym:
        vk.canary("BilinearForm==transposed-components", vals, np.einsum("aibkc->akbic", spec) + 1)
    # assembled through the expression object
    form = BilinearForm(vb, vb, dx=dV)
    if vk.sym:
        with coo.bound():
            A = coo.todense(form._form.assemble(vals))
    else:
        A = coo.todense(form._form.assemble(vals))
    vk.ensures_eq("assemble==placed-sum", A, dense_spec(vk, spec, cells, dim, cells, dim, dim * rg.mesh.npoints, dim * rg.mesh.npoints))


FORM_API = (
    [dict(kind="mixed", sym=s, parallel=p) for s in (False, True) for p in (False, True)]
    + [dict(kind="rectangular", parallel=p) for p in (False, True)]
    + [dict(kind="single", sym=s, parallel=False) for s in (False, True)]
    + [dict(kind="mixed-linear", parallel=p) for p in (False, True)]
    + [dict(kind="update", parallel=False)]
)


@contract("C02", "form_api", configs=FORM_API)
def form_api(vk, cfg):
    """`Form(v=, u=)` (FormExpression -> Linear/BilinearFormExpression on Basis containers): a weak form written
    with the expression API assembles to the same matrix / vector as the equivalent array form -- for a test
    container different from the trial container (rectangular coupling matrix placed with the trial unknowns in
    the columns), for mixed fields (upper-triangle list of weak forms, lower blocks are the transposes) with sym
    True/False on a symmetric mixed weak form, parallel True/False, and after re-linking through
    assemble(v=, u=)"""
    from felupe import math as M
    from felupe.assembly.expression import Basis, Form
    from felupe.assembly.expression._expression import FormExpression
    from felupe.assembly.expression._mixed import BilinearFormExpression, LinearFormExpression

    for f in (FormExpression.__init__, FormExpression._init_or_update_forms, FormExpression.integrate, FormExpression.assemble, BilinearFormExpression.__init__, BilinearFormExpression.integrate, BilinearFormExpression.assemble, LinearFormExpression.__init__, LinearFormExpression.integrate, LinearFormExpression.assemble, Basis.__init__, Basis.__getitem__):
        vk.real(f)
    rg = OpaqueRegion(vk, CELLS, 2, NQ, name="v")
    nc = CELLS.shape[0]
    h, g, dV = rg.h, rg.dhdX, rg.dV
    fu, fp = fem.Field(rg, dim=2), fem.Field(rg, dim=1)
    nu, npp = 2 * rg.mesh.npoints, rg.mesh.npoints
    par = cfg["parallel"]
    C = vk.reals("C", (2, 2, 2, 2, NQ, nc))
    B = vk.reals("B", (2, 2, NQ, nc))
    rho = vk.reals("rho", (NQ, nc))
    Cs = (C + np.einsum("ijkl...->klij...", C)) / 2  # the mixed weak form below is symmetric as a whole
    a_uu = lambda v, u, **kw: M.ddot(v.grad, M.ddot(Cs, u.grad, mode=(4, 2)))
    a_up = lambda v, u, **kw: M.ddot(v.grad, B) * u[0]
    a_pp = lambda v, u, **kw: rho * v[0] * u[0]
    Kuu = dense_spec(vk, ref_einsum("aJqc,iJkLqc,bLqc,qc->aibkc", g, Cs, g, dV), CELLS, 2, CELLS, 2, nu, nu)
    Kup = dense_spec(vk, ref_einsum("aJqc,iJqc,bqc,qc->aibc", g, B, h, dV)[:, :, :, None, :], CELLS, 2, CELLS, 1, nu, npp)
    Kpp = dense_spec(vk, ref_einsum("aqc,qc,bqc,qc->abc", h, rho, h, dV)[:, None, :, None, :], CELLS, 1, CELLS, 1, npp, npp)

    def dense(run):
        if vk.sym:
            with coo.bound():
                return coo.todense(run())
        return coo.todense(run())

    kind = cfg["kind"]
    if kind == "mixed":
        fc = fem.FieldContainer([fu, fp])
        form = Form(v=fc, u=fc, dx=dV)(lambda: [a_uu, a_up, a_pp])
        A = dense(lambda: form.assemble(v=fc, u=fc, parallel=par, sym=cfg["sym"]))
        spec = np.block([[Kuu, Kup], [Kup.T, Kpp]])
        vk.ensures_eq("Form(mixed)==blocks of the array form (lower blocks transposed)", A, spec)
        if vk.sym:
            vk.canary("Form(mixed): coupling block symmetrised", A, np.block([[Kuu, 0 * Kup], [0 * Kup.T, Kpp]]))
    elif kind == "rectangular":
        fv, fw = fem.FieldContainer([fp]), fem.FieldContainer([fu])
        # a(q, u) = int q B : grad(u) dV: scalar test field, vector trial field
        form = Form(v=fv, u=fw, dx=dV)(lambda: [lambda v, u, **kw: v[0] * M.ddot(B, u.grad)])
        A = dense(lambda: form.assemble(v=fv, u=fw, parallel=par))
        vk.ensures_eq("Form(v != u)==rectangular array form", A, Kup.T)
        form2 = Form(v=fw, u=fv, dx=dV)(lambda: [a_up])
        A2 = dense(lambda: form2.assemble(v=fw, u=fv, parallel=par))
        vk.ensures_eq("Form(u, p)==rectangular array form", A2, Kup)
        if vk.sym:
            vk.canary("Form(v != u): square", A2, Kup + 1)
    elif kind == "single":
        fc = fem.FieldContainer([fu])
        form = Form(v=fc, u=fc, dx=dV)(lambda: [a_uu])
        A = dense(lambda: form.assemble(v=fc, u=fc, parallel=par, sym=cfg["sym"]))
        vk.ensures_eq("Form(single)==array form", A, Kuu)
        arr = IntegralForm([Cs], fc, dV, u=fc)
        vk.ensures_eq("array form==placed sum", dense(lambda: arr.assemble()), Kuu)
    elif kind == "mixed-linear":
        fc = fem.FieldContainer([fu, fp])
        form = Form(v=fc, dx=dV)(lambda: [lambda v, **kw: M.ddot(v.grad, B), lambda v, **kw: rho * v[0]])
        A = dense(lambda: form.assemble(v=fc, parallel=par))
        s0 = dense_spec(vk, ref_einsum("aJqc,iJqc,qc->aic", g, B, dV), CELLS, 2, nrow=nu)
        s1 = dense_spec(vk, ref_einsum("aqc,qc,qc->ac", h, rho, dV)[:, None, :], CELLS, 1, nrow=npp)
        vk.ensures_eq("Form(mixed, linear)==stacked array form", A, np.concatenate([s0, s1]))
    else:
        # a form created on one pair of containers and re-linked at assembly: the new v and the new u are used
        fv, fw = fem.FieldContainer([fp]), fem.FieldContainer([fu])
        form = Form(v=fw, u=fw, dx=dV)(lambda: [lambda v, u, **kw: v[0] * M.ddot(B, u.grad)])
        A = dense(lambda: form.assemble(v=fv, u=fw))
        vk.ensures_eq("Form.assemble(v=new, u=new)==rectangular array form", A, Kup.T)


@contract("C02", "default_flags", configs=[dict(grad_v=gv, grad_u=gu) for gv in ("omitted", True, False) for gu in ("none", "omitted", True, False) if not (gv != "omitted" and gu not in ("none", "omitted"))])
def default_flags(vk, cfg):
    """the documented defaults of IntegralForm's gradient flags: an omitted `grad_v` / `grad_u` means the gradient on the
    FIRST field (False on all following ones), independently of the other flag -- the form with omitted flags assembles
    to the same array as the form with the resolved flags given explicitly (which is the defining sum, `cartesian`)"""
    vk.real(IntegralForm.__init__)
    vk.real(IntegralForm.assemble)
    rg = OpaqueRegion(vk, CELLS, 2, NQ, name="v")
    f = fem.Field(rg, dim=2)
    fc = fem.FieldContainer([f])
    nc = CELLS.shape[0]
    gv_cfg, gu_cfg = cfg["grad_v"], cfg["grad_u"]
    gv = True if gv_cfg == "omitted" else gv_cfg  # resolved flags (documented default: True for the first field)
    bilinear = gu_cfg != "none"
    gu = True if gu_cfg == "omitted" else gu_cfg
    shape = (2,) + ((2,) if gv else ())
    if bilinear:
        shape = shape + (2,) + ((2,) if gu else ())
    fun = vk.reals("fun", shape + (NQ, nc))
    kw = {}
    if gv_cfg != "omitted":
        kw["grad_v"] = [gv_cfg]
    if bilinear:
        kw["u"] = fc
        if gu_cfg != "omitted":
            kw["grad_u"] = [gu_cfg]
    explicit = dict(grad_v=[gv], **({"u": fc, "grad_u": [gu]} if bilinear else {}))

    def dense(form):
        if vk.sym:
            with coo.bound():
                return np.asarray(coo.todense(form.assemble()))
        return np.asarray(coo.todense(form.assemble()))

    A = dense(IntegralForm([fun], fc, rg.dV, **kw))
    B = dense(IntegralForm([fun], fc, rg.dV, **explicit))
    vk.ensures_eq(f"IntegralForm({', '.join(f'{k}={v}' for k, v in kw.items() if k != 'u')}{', u' if bilinear else ''})==form with the resolved flags grad_v=[{gv}]" + (f", grad_u=[{gu}]" if bilinear else ""), A, B)
    if vk.sym:
        vk.canary("assembled form is zero", A, 0 * A)
