"""C07 -- a successful Newton solve returns an equilibrium that honours the constraints.

E2 (loop-cut, vk/loopcut.py) on the real `felupe.tools._newton.newtonrhapson` with abstract
fun / jac / solve / update / check (callee contracts as stubs); E1 (exact symbolic execution) on the real
`check`, `Results.update_statevars`, `solve.partition`, `solve.solve`, `tools._newton.solve`,
`tools._solve.solve`, `fun_items`, `jac_items`, `update` / `FieldContainer.__add__`, `dof.partition`,
`dof.apply`.  Postconditions are transcribed from the property text:

  * success is reported  =>  the last `check` returned success for exactly the returned (x, fun(x));
    Res.x is the last `update` result, Res.fun is `fun(Res.x)` (evaluated after that update),
    iterations = number of updates; items are linked to the returned iterate;
  * not converged (exhaustion / NaN / maxiter <= 0)  =>  raises instead of returning;
  * `check`: success <=> fnorm < ftol and xnorm < xtol, fnorm = |f[dof1]| / (eps + |f[dof0]|); state
    variables are committed for every item iff success (no state committed on failure);
  * each partitioned linear solve satisfies K11 du1 = -r1 - K10 (ext0 - u0) and du[dof0] = ext0 - u0, hence
    the updated field carries exactly the prescribed values on all prescribed unknowns (1..3 fields);
  * a linear problem has zero residual on the free unknowns after the first update (=> `check` succeeds
    => by the E2 contract newtonrhapson returns with iterations == 1).
"""
import contextlib
import inspect
import io
import itertools

import numpy as np
import z3

import felupe as fem
import felupe.tools._newton as NW
from vk import loopcut as lc
from vk import oracle, ring, symnp
from vk.core import contract
from vk.loopcut import LoopSpec, SBool, SInt, Tok, Val, UF, same, seqlen, zval
from vk.ring import LP, co

TRUSTED = [
    "C07/E2: the loop-cut rewrite of vk/loopcut.py (adds loop_entry/iter_expr/havoc/cut_iter/loop_back/loop_exit/on_yield instrumentation, drops nothing: checked every run by stripping the instrumentation and comparing ASTs) and its path explorer; Boogie-style soundness of 'assert Inv; havoc; assume Inv' with the induction zero/first/iter/exit",
    "C07/E2: callee contracts used as stubs in newtonrhapson: fun/jac/solve/update are functions of their arguments (uninterpreted FUN/JAC/SOLVE/UPDATE); check returns (xnorm, fnorm, success) and commits state variables only by its own contract (proved separately on the real check); fun_items links every item field to x before assembling (proved separately on the real fun_items)",
    "C07/E2: np.isnan/np.any on the two norms = 'one of the norms is NaN' (np shim of vk/loopcut.py); inspect.signature is executed for real on the stub's signature",
    "C07/E2: `if verbose:` blocks of newtonrhapson are display-only (mechanical AST non-interference scan every run); E2 paths are explored with verbose=False, verbose=True only in the bounded cross-check",
    "C07/E1: scipy.sparse csr_matrix is replaced by the dense stand-in vk/sparse_stub.py (row/column fancy slicing, dot, +=, *=, resize = zero padding, toarray) -- assumed dependency contract; spsolve is replaced by the exact symbolic solve (np.linalg.solve reference of vk/symnp.py on the densified matrix) = assumed contract 'solver(A, b) returns x with A x = b' under det A != 0",
    "C07/E1: number of items / fields / boundaries enumerated (0..3 items, 1..3 fields); A2-style uniformity in the number of mesh points",
    "C07: xtol = +inf (as passed by newtonrhapson) is modelled by a symbolic xtol with the case xnorm < xtol; NaN norms are modelled by Boolean NaN flags (IEEE: comparisons with NaN are false) -- A1",
]

# =====================================================================================================
# E2: newtonrhapson
# =====================================================================================================
FUN = UF("FUN", Val, Val)
JAC = UF("JAC", Val, Val)
SOLVE = UF("SOLVE", Val, Val, Val)
UPDATE = UF("UPDATE", Val, Val, Val)
NEG = UF("NEG", Val, Val)
KEYS = ["x", "dof1", "dof0", "ext0", "solver"]


class Recorder:
    """stand-in for item.results: every attribute write / update_statevars call is a ghost event"""

    def __init__(s, owner):
        object.__setattr__(s, "_owner", owner)

    def __setattr__(s, n, v):
        lc.cur().event("commit", item=s._owner, what=f"write results.{n}")

    def update_statevars(s):
        lc.cur().event("commit", item=s._owner, what="update_statevars")


class StubItem:
    def __init__(s, name):
        s.name = name
        s.field = Tok("field_" + name)
        s.results = Recorder(s)

    def __repr__(s):
        return f"<item {s.name}>"


class NewtonEnv:
    """the abstract environment of one newtonrhapson path: arguments, callee stubs, ghost state"""

    def __init__(s, P, cfg):
        s.P, s.cfg = P, cfg
        G = P.ghost
        s.items = [StubItem("a"), StubItem("b")] if cfg["items"] else None
        s.x0 = Tok("x0") if cfg["x0"] else None
        s.x_start = s.x0 if s.x0 is not None else (s.items[0].field if s.items else None)
        s.tol, s.dof0, s.dof1, s.ext0, s.solver = Tok("tol"), Tok("dof0"), Tok("dof1"), Tok("ext0"), Tok("solver")
        s.args, s.kwargs = (Tok("arg0"),), {"parallel": Tok("kw_parallel")}
        s.passed = dict(x=None, dof1=s.dof1, dof0=s.dof0, ext0=s.ext0, solver=s.solver)
        s.solve = s.make_solve(cfg["solve_sig"])
        s.expected_keys = [k for k in KEYS if k in inspect.signature(s.solve).parameters]
        # ghost (history) variables
        G["n_upd"] = z3.IntVal(0)
        G["n_chk"] = z3.IntVal(0)
        G["cur_x"] = s.x_start.z if s.x_start is not None else z3.Const("nox", Val)
        for g in ("last_f", "last_f_arg", "last_K", "last_K_arg", "last_dx", "upd_dx", "chk_x", "chk_f", "chk_dx", "linked", "trial_at"):
            G[g] = z3.Const("init_" + g, Val)
        G["last_ok"] = z3.BoolVal(False)
        G["last_nan"] = z3.BoolVal(False)

    # ---- callee stubs = callee contracts (pre: claims `callee_pre`; post: facts + ghost updates)
    def _fwd(s, who, args, kwargs):
        s.P.claim("callee_pre", f"{who}: *args, **kwargs forwarded unchanged", len(args) == len(s.args) and all(a is b for a, b in zip(args, s.args)) and set(kwargs) == set(s.kwargs) and all(kwargs[k] is s.kwargs[k] for k in kwargs))

    def fun(s, x, *args, **kwargs):
        P, G = s.P, s.P.ghost
        P.claim("callee_pre", "fun: called on the current iterate", zval(x) == G["cur_x"])
        s._fwd("fun", args, kwargs)
        t = Tok("f")
        P.assume(t.z == FUN(zval(x)))
        G["last_f"], G["last_f_arg"] = t.z, zval(x)
        P.event("fun", x=x, out=t)
        return t

    def fun_items(s, items, x, *args, **kwargs):
        P, G = s.P, s.P.ghost
        P.claim("callee_pre", "fun_items: called with the items of the call", items is s.items)
        t = s.fun(x, *args, **kwargs)
        G["linked"] = zval(x)  # contract of fun_items: every item.field is linked to x, then assembled:
        G["trial_at"] = zval(x)  # trial state variables (results._statevars) now belong to x
        return t

    def jac(s, x, *args, **kwargs):
        P, G = s.P, s.P.ghost
        P.claim("callee_pre", "jac: called on the current iterate", zval(x) == G["cur_x"])
        s._fwd("jac", args, kwargs)
        t = Tok("K")
        P.assume(t.z == JAC(zval(x)))
        G["last_K"], G["last_K_arg"] = t.z, zval(x)
        P.event("jac", x=x, out=t)
        return t

    def jac_items(s, items, x, *args, **kwargs):
        P, G = s.P, s.P.ghost
        P.claim("callee_pre", "jac_items: called with the items of the call", items is s.items)
        P.claim("callee_pre", "jac_items: the item fields are linked to x (jac_items does not link)", G["linked"] == zval(x))
        return s.jac(x, *args, **kwargs)

    def make_solve(s, sig):
        def body(K, b, kw):
            P, G = s.P, s.P.ghost
            P.claim("callee_pre", "solve: matrix is jac(current iterate)", z3.And(zval(K) == G["last_K"], G["last_K_arg"] == G["cur_x"]))
            P.claim("callee_pre", "solve: right-hand side is -fun(current iterate)", z3.And(zval(b) == NEG(G["last_f"]), G["last_f_arg"] == G["cur_x"]))
            P.claim("callee_pre", "solve: receives exactly the keyword arguments of its signature", sorted(kw) == sorted(s.expected_keys))
            for k in kw:
                if k == "x":
                    P.claim("callee_pre", "solve: x= is the current iterate", zval(kw[k]) == G["cur_x"])
                else:
                    P.claim("callee_pre", f"solve: {k}= is the caller's {k}", kw[k] is s.passed.get(k))
            t = Tok("dx")
            P.assume(t.z == SOLVE(zval(K), zval(b)))
            G["last_dx"] = t.z
            P.event("solve", K=K, b=b, out=t)
            return t

        if sig == "full":

            def solve(A, b, x, dof1, dof0, offsets=None, ext0=None, solver=None):
                return body(A, b, dict(x=x, dof1=dof1, dof0=dof0, ext0=ext0, solver=solver))

        elif sig == "plain":

            def solve(A, b):
                return body(A, b, {})

        else:

            def solve(A, b, x=None, ext0=None):
                return body(A, b, dict(x=x, ext0=ext0))

        return solve

    def update(s, x, dx):
        P, G = s.P, s.P.ghost
        P.claim("callee_pre", "update: x is the current iterate", zval(x) == G["cur_x"])
        P.claim("callee_pre", "update: dx is the result of the last solve", zval(dx) == G["last_dx"])
        t = Tok("x")
        P.assume(t.z == UPDATE(zval(x), zval(dx)))
        G["cur_x"], G["upd_dx"] = t.z, zval(dx)
        G["n_upd"] = G["n_upd"] + 1
        P.event("update", x=x, dx=dx, out=t)
        return t

    def check(s, dx, x, f, xtol, ftol, dof1=None, dof0=None, items=None, eps=1e-3):
        P, G = s.P, s.P.ghost
        P.claim("callee_pre", "check: x is the updated iterate", zval(x) == G["cur_x"])
        P.claim("callee_pre", "check: dx is the increment of the last update", z3.And(zval(dx) == G["upd_dx"], zval(dx) == G["last_dx"]))
        P.claim("callee_pre", "check: f is fun(x) of the updated iterate", z3.And(zval(f) == G["last_f"], G["last_f_arg"] == G["cur_x"]))
        P.claim("callee_pre", "check: ftol is the caller's tol, xtol is +inf", ftol is s.tol and isinstance(xtol, float) and xtol == np.inf)
        P.claim("callee_pre", "check: dof1, dof0, items are the caller's", dof1 is s.dof1 and dof0 is s.dof0 and items is s.items)
        if s.items is not None:
            P.claim("callee_pre", "check: trial state variables belong to the checked iterate (last assembly was fun_items(x))", z3.And(G["trial_at"] == zval(x), G["linked"] == zval(x)))
        ok = P.fresh_bool("success")
        nx, nf = P.fresh_bool("nan_x"), P.fresh_bool("nan_f")
        if P.concrete is not None:  # bounded runs of the untransformed code: real floats, real bool
            xn = float("nan") if z3.is_true(nx.z) else 0.5
            fn = float("nan") if z3.is_true(nf.z) else 0.25
            okv = z3.is_true(ok.z)
        else:
            xn, fn, okv = Tok("xnorm", nan=nx), Tok("fnorm", nan=nf), ok
        G["n_chk"] = G["n_chk"] + 1
        G["last_ok"], G["last_nan"] = ok.z, z3.Or(nx.z, nf.z)
        G["chk_x"], G["chk_f"], G["chk_dx"] = zval(x), zval(f), zval(dx)
        P.event("check", x=x, f=f, dx=dx, ok=ok)
        return xn, fn, okv

    def call_kwargs(s, maxiter, verbose=False):
        kw = dict(x0=s.x0, solve=s.solve, maxiter=maxiter, update=s.update, check=s.check, args=s.args, kwargs=s.kwargs, tol=s.tol, items=s.items, dof1=s.dof1, dof0=s.dof0, ext0=s.ext0, solver=s.solver, verbose=verbose)
        if s.items is None:
            kw.update(fun=s.fun, jac=s.jac)
        return kw

    def overrides(s):
        return {"fun_items": s.fun_items, "jac_items": s.jac_items}


class NewtonLoop(LoopSpec):
    header = "for iteration in range(maxiter)"
    label = "L0"
    types = {"success": "bool", "iteration": "int", "xnorm": "normtok", "fnorm": "normtok"}

    def __init__(s, env):
        s.env = env

    def fresh(s, P, name, old, k):
        if name == "kwargs_solve":  # after >= 1 iterations: exactly the signature keys, arbitrary (stale) values
            return {key: Tok("stale_" + key) for key in s.env.expected_keys}
        return NotImplemented

    def inv(s, I, P, loc, k, k0, entry):
        G, env = P.ghost, s.env
        x, f = loc["x"], loc["f"]
        I.holds("number of updates == k", G["n_upd"] == k)
        I.holds("number of checks == k", G["n_chk"] == k)
        I.holds("x is the current iterate", zval(x) == G["cur_x"])
        I.holds("f is the last fun result", zval(f) == G["last_f"])
        I.holds("f == fun(x)", z3.And(G["last_f_arg"] == zval(x), zval(f) == FUN(zval(x))))
        I.holds("len(xnorms) == k", seqlen(loc["xnorms"]) == k)
        I.holds("len(fnorms) == k", seqlen(loc["fnorms"]) == k)
        if env.items is not None:
            I.holds("items are linked to x and their trial state belongs to x", z3.And(G["linked"] == zval(x), G["trial_at"] == zval(x)))
        if k0:
            I.holds("x is the start value", same(x, env.x_start))
            I.holds("kwargs_solve is empty", loc["kwargs_solve"] == {})
        else:
            I.holds("the last check failed", z3.Not(G["last_ok"]))
            I.holds("the last norms were not NaN", z3.Not(G["last_nan"]))
            I.holds("success is the flag of the last check", loc["success"].z == G["last_ok"] if isinstance(loc["success"], SBool) else z3.BoolVal(loc["success"]) == G["last_ok"])
            I.holds("iteration == k - 1", lc._zi(loc["iteration"]) == k - 1)
            I.holds("the last check examined (dx, x, f) of the last update", z3.And(G["chk_x"] == zval(x), G["chk_f"] == zval(f), G["chk_dx"] == G["upd_dx"]))
            I.holds("kwargs_solve has exactly the signature keys", sorted(loc["kwargs_solve"]) == sorted(env.expected_keys))


def newton_post(P, env, outcome, mode):
    """postconditions of newtonrhapson, from the property text (used for cut paths and bounded runs)"""
    G = P.ghost
    direct = [e for e in P.events if e["kind"] == "commit"]
    if outcome[0] == "return":
        R = outcome[1]
        ok = isinstance(R, NW.NewtonResult)
        P.claim("post_return", "returns a NewtonResult", ok)
        if not ok:
            return
        P.claim("post_return", "the last check returned success", G["last_ok"])
        P.claim("post_return", "Res.success is True", R.success.z if isinstance(R.success, SBool) else R.success is True)
        P.claim("post_return", "at least one update was made", G["n_upd"] >= 1)
        P.claim("post_return", "Res.x is the last update result", zval(R.x) == G["cur_x"])
        P.claim("post_return", "Res.fun is fun(Res.x), evaluated after that update", z3.And(zval(R.fun) == G["last_f"], G["last_f_arg"] == zval(R.x), zval(R.fun) == FUN(zval(R.x))))
        P.claim("post_return", "the successful check examined exactly (Res.x, Res.fun)", z3.And(G["chk_x"] == zval(R.x), G["chk_f"] == zval(R.fun), G["chk_dx"] == G["upd_dx"]))
        P.claim("post_return", "Res.iterations == number of updates", lc._zi(R.iterations) == G["n_upd"])
        P.claim("post_return", "one norm pair recorded per iteration", z3.And(seqlen(R.xnorms) == G["n_upd"], seqlen(R.fnorms) == G["n_upd"]))
        if env.items is not None:
            P.claim("post_return", "items are linked to Res.x and their trial state belongs to Res.x", z3.And(G["linked"] == zval(R.x), G["trial_at"] == zval(R.x)))
    elif outcome[0] == "raise":
        e = outcome[1]
        if mode == "zero":
            P.claim("post_raise", "maxiter <= 0 raises", True)
        else:
            P.claim("post_raise", "raises only when not converged", z3.Not(G["last_ok"]))
            P.claim("post_raise", "not converged raises ValueError", isinstance(e, ValueError))
            if mode == "exit":
                P.claim("post_raise", "exhaustion message", isinstance(e, ValueError) and "Maximum number of iterations" in str(e))
            else:
                P.claim("post_raise", "raised inside the loop only on NaN norms", G["last_nan"])
    if mode == "zero" and outcome[0] != "raise":
        P.claim("post_raise", "maxiter <= 0 raises", False)
    if mode == "exit" and outcome[0] != "raise":
        P.claim("post_raise", "exhaustion without success raises ValueError", False)
    P.claim("frame", "newtonrhapson itself commits no state variables (only check may)", not direct)


def _silently(f):
    buf = io.StringIO()
    with contextlib.redirect_stdout(buf):
        return f()


def explore_newton(cfg, assume_inv=True, wrap=None):
    """all paths of the cut newtonrhapson for one configuration"""
    target = wrap(NW.newtonrhapson) if wrap else NW.newtonrhapson
    holder = {}

    def run(P):
        env = NewtonEnv(P, cfg)
        spec = NewtonLoop(env)
        if "factory" not in holder:
            holder["factory"], holder["info"] = lc.compile_cut(target, [spec])
        rt = lc.Runtime(P, [spec], assume_inv=assume_inv)
        f = holder["factory"](rt, env.overrides())
        maxiter = P.fresh_int("maxiter")
        out = lc.execute(lambda: _silently(lambda: f(**env.call_kwargs(maxiter))))
        newton_post(P, env, out, P.modes.get("L0"))
        return out

    res = lc.explore(run)
    return res, holder["info"]


def verbose_noninterference(fn):
    """AST scan: statements under `if verbose:` only print / time; names assigned there are read nowhere else"""
    _, src = lc.source_of(fn)
    import ast

    tree = ast.parse(src)
    inside, outside_reads = set(), set()
    ok, why = True, ""
    guarded = []
    for n in ast.walk(tree):
        if isinstance(n, ast.If) and isinstance(n.test, ast.Name) and n.test.id == "verbose" and not n.orelse:
            guarded.append(n)
    ids = {id(x) for g in guarded for st in g.body for x in ast.walk(st)}
    allowed_calls = {"print", "perf_counter", "append", "diff", "sum"}
    for g in guarded:
        for st in g.body:
            for x in ast.walk(st):
                if isinstance(x, ast.Name) and isinstance(x.ctx, ast.Store):
                    inside.add(x.id)
                if isinstance(x, ast.Call):
                    nm = x.func.attr if isinstance(x.func, ast.Attribute) else getattr(x.func, "id", "?")
                    if nm not in allowed_calls:
                        ok, why = False, f"call {nm} in a verbose block"
                    if nm == "append" and not (isinstance(x.func.value, ast.Name) and x.func.value.id in ("soltimes", "runtimes")):
                        ok, why = False, "append to a non-display list in a verbose block"
                if isinstance(x, (ast.Return, ast.Raise, ast.Break, ast.Continue, ast.Yield)):
                    ok, why = False, "control transfer in a verbose block"
    first = [g for g in guarded]
    for n in ast.walk(tree):
        if isinstance(n, ast.Name) and isinstance(n.ctx, ast.Load) and id(n) not in ids and n.id in inside:
            ok, why = False, f"display-only name {n.id} read outside a verbose block"
    # the block that *defines* verbose (verbose is None) is not a `if verbose:` block; fine
    return ok, why or f"{len(guarded)} verbose blocks; display-only names {sorted(inside)}", len(guarded)


NEWTON_CFGS = [dict(items=i, x0=x, solve_sig=sg) for i, x, sg in [(False, True, "full"), (True, True, "full"), (True, False, "full"), (False, True, "plain"), (True, False, "partial")]]


@contract("C07", "newtonrhapson", configs=NEWTON_CFGS, engine="E2")
def newtonrhapson_e2(vk, cfg):
    """loop-cut contract of the Newton iteration protocol (unbounded in the number of iterations)"""
    if not vk.sym:
        return
    vk.real(NW.newtonrhapson)
    try:
        res, info = explore_newton(cfg)
    except lc.Unsupported as e:
        raise oracle.Undecided(f"loop-cut engine: {e}")
    vk.ensures_true("rewrite/drops-nothing (instrumentation stripped == original AST)", info["preserves_original"], f"{info['statements_original']} -> {info['statements_rewritten']} statements; loops {info['loops']}", backend="ast")
    ok, why, nblocks = verbose_noninterference(NW.newtonrhapson)
    vk.ensures_true("verbose-noninterference (verbose blocks are display-only)", ok and nblocks >= 1, why, backend="ast")
    lc.emit(vk, "newtonrhapson", res)
    outcomes = sorted({(P.modes.get("L0"), lc.outcome_text(o).split("(")[0]) for P, o in res if o[0] != "infeasible"})
    vk.note(f"newtonrhapson[{cfg}] feasible paths: " + "; ".join(f"{P.id} -> {lc.outcome_text(o)}" for P, o in res if o[0] != "infeasible"))
    # path cover: every mode was explored, and the iter/first modes have a returning, a raising and a continuing path
    want = {("zero", "raise UnboundLocalError"), ("exit", "raise ValueError"), ("iter", "return"), ("iter", "raise ValueError"), ("iter", "back edge L0"), ("first", "return"), ("first", "raise ValueError"), ("first", "back edge L0")}
    vk.ensures_true("path-cover (zero/first/iter/exit x return/raise/back edge all feasible)", want <= set(outcomes), str(outcomes), backend="z3")
    # vacuity guards: (1) drop the invariant assumption, (2) a false postcondition
    res2, _ = explore_newton(cfg, assume_inv=False)
    vk.canary_bool("Inv dropped (havoc without assume) must break an obligation", lc.refuted_any(res2) is not None)
    bad = 0
    for P, o in res:
        if o[0] == "return":
            P.claims = [{"kind": "canary", "name": "iterations == updates + 1", "claim": lc._zi(o[1].iterations) == P.ghost["n_upd"] + 1, "pc": list(P.pc)}]
            bad += lc.refuted_any([(P, o)]) is not None
    vk.canary_bool("Res.iterations == updates + 1", bad >= 1)
    # bounded cross-check: the UNTRANSFORMED function, same stubs, every decision script up to 3 iterations
    n, fails = 0, []
    for verbose in (False, True):
        for m in range(0, 4):
            for script in itertools.product([(1, 0), (0, 0), (0, 1)], repeat=m):
                conc = {"success": [s_ for s_, _ in script], "nan_x": [n_ for _, n_ in script], "nan_f": [0] * m}

                def run(P, m=m, verbose=verbose):
                    env = NewtonEnv(P, cfg)
                    saved = (NW.fun_items, NW.jac_items)
                    NW.fun_items, NW.jac_items = env.fun_items, env.jac_items
                    try:
                        out = lc.execute(lambda: _silently(lambda: NW.newtonrhapson(**env.call_kwargs(m, verbose=verbose))))
                    finally:
                        NW.fun_items, NW.jac_items = saved
                    # which mode does this concrete run correspond to?
                    nchk = len(P.events_of("check"))
                    last_ok = bool(P.events_of("check")) and z3.is_true(P.events_of("check")[-1]["ok"].z)
                    mode = "zero" if m == 0 else ("exit" if (nchk == m and not last_ok and not any(script[i][1] for i in range(nchk))) else "iter")
                    newton_post(P, env, out, mode)
                    return out

                P, out, badc = lc.concrete_run(run, conc)
                n += 1
                if badc:
                    fails.append(f"maxiter={m} verbose={verbose} script={script}: {lc.outcome_text(out)}: {badc[:2]}")
    vk.bounded_standin("untransformed newtonrhapson, same stubs, all decision scripts", "maxiter <= 3, (success, NaN) per iteration, verbose in {False, True}", n, not fails, "; ".join(fails[:3]))
