"""C07 -- a successful Newton solve returns an equilibrium that honours the constraints.

E2 (loop-cut, vk/loopcut.py) on the real `felupe.tools._newton.newtonrhapson` with abstract
fun / jac / solve / update / check (callee contracts as stubs); E1 (exact symbolic execution) on the real
`check`, `Results.update_statevars`, `solve.partition`, `solve.solve`, `tools._newton.solve`,
`tools._solve.solve`, `fun_items`, `jac_items`, `update` / `FieldContainer.__add__`, `dof.partition`,
`dof.apply`.  Postconditions are transcribed from the property text:

  * success is reported  =>  the last `check` returned success for exactly the returned (x, fun(x));
    Res.x is the last `update` result, Res.fun is `fun(Res.x)` (evaluated after that update),
    iterations = number of updates; items are linked to the returned iterate;
  * not converged (exhaustion / NaN / maxiter <= 0)  =>  raises instead of returning;
  * `check`: success <=> fnorm < ftol and xnorm < xtol, fnorm = |f[dof1]| / (eps + |f[dof0]|); state
    variables are committed for every item iff success (no state committed on failure);
  * each partitioned linear solve satisfies K11 du1 = -r1 - K10 (ext0 - u0) and du[dof0] = ext0 - u0, hence
    the updated field carries exactly the prescribed values on all prescribed unknowns (1..3 fields);
  * a linear problem has zero residual on the free unknowns after the first update (=> `check` succeeds
    => by the E2 contract newtonrhapson returns with iterations == 1).
"""
import contextlib
import inspect
import io
import itertools

import numpy as np
import z3

import felupe as fem
import felupe.tools._newton as NW
from vk import loopcut as lc
from vk import oracle, ring, symnp
from vk.core import contract
from vk.loopcut import LoopSpec, SBool, SInt, Tok, Val, UF, same, seqlen, zval
from vk.ring import LP, co

TRUSTED = [
    "C07/E2: the loop-cut rewrite of vk/loopcut.py (adds loop_entry/iter_expr/havoc/cut_iter/loop_back/loop_exit/on_yield instrumentation, drops nothing: checked every run by stripping the instrumentation and comparing ASTs) and its path explorer; Boogie-style soundness of 'assert Inv; havoc; assume Inv' with the induction zero/first/iter/exit",
    "C07/E2: callee contracts used as stubs in newtonrhapson: fun/jac/solve/update are functions of their arguments (uninterpreted FUN/JAC/SOLVE/UPDATE); check returns (xnorm, fnorm, success) and commits state variables only by its own contract (proved separately on the real check); fun_items links every item field to x before assembling (proved separately on the real fun_items)",
    "C07/E2: np.isnan/np.any on the two norms = 'one of the norms is NaN' (np shim of vk/loopcut.py); inspect.signature is executed for real on the stub's signature",
    "C07/E2: `if verbose:` blocks of newtonrhapson are display-only (mechanical AST non-interference scan every run); E2 paths are explored with verbose=False, verbose=True only in the bounded cross-check",
    "C07/E1: scipy.sparse csr_matrix is replaced by the dense stand-in vk/sparse_stub.py (row/column fancy slicing, dot, +=, *=, resize = zero padding, toarray) -- assumed dependency contract; spsolve is replaced by the exact symbolic solve (np.linalg.solve reference of vk/symnp.py on the densified matrix) = assumed contract 'solver(A, b) returns x with A x = b' under det A != 0",
    "C07/E1: number of items / fields / boundaries enumerated (0..3 items, 1..3 fields); A2-style uniformity in the number of mesh points",
    "C07: xtol = +inf (as passed by newtonrhapson) is modelled by a symbolic xtol with the case xnorm < xtol (check contract) and by exact extended-real comparison x < +inf == True (vk/extreal.py, end-to-end linear run); NaN norms are modelled by Boolean NaN flags (IEEE: comparisons with NaN are false) -- A1",
]

# =====================================================================================================
# E2: newtonrhapson
# =====================================================================================================
FUN = UF("FUN", Val, Val)
JAC = UF("JAC", Val, Val)
SOLVE = UF("SOLVE", Val, Val, Val)
UPDATE = UF("UPDATE", Val, Val, Val)
NEG = UF("NEG", Val, Val)
KEYS = ["x", "dof1", "dof0", "ext0", "solver"]


class Recorder:
    """stand-in for item.results: every attribute write / update_statevars call is a ghost event"""

    def __init__(s, owner):
        object.__setattr__(s, "_owner", owner)

    def __setattr__(s, n, v):
        lc.cur().event("commit", item=s._owner, what=f"write results.{n}")

    def update_statevars(s):
        lc.cur().event("commit", item=s._owner, what="update_statevars")


class StubItem:
    def __init__(s, name):
        s.name = name
        s.field = Tok("field_" + name)
        s.results = Recorder(s)

    def __repr__(s):
        return f"<item {s.name}>"


class NewtonEnv:
    """the abstract environment of one newtonrhapson path: arguments, callee stubs, ghost state"""

    def __init__(s, P, cfg):
        s.P, s.cfg = P, cfg
        G = P.ghost
        s.items = [StubItem("a"), StubItem("b")] if cfg["items"] else None
        s.x0 = Tok("x0") if cfg["x0"] else None
        s.x_start = s.x0 if s.x0 is not None else (s.items[0].field if s.items else None)
        s.tol, s.dof0, s.dof1, s.ext0, s.solver = Tok("tol"), Tok("dof0"), Tok("dof1"), Tok("ext0"), Tok("solver")
        s.args, s.kwargs = (Tok("arg0"),), {"parallel": Tok("kw_parallel")}
        s.passed = dict(x=None, dof1=s.dof1, dof0=s.dof0, ext0=s.ext0, solver=s.solver)
        s.solve = s.make_solve(cfg["solve_sig"])
        s.expected_keys = [k for k in KEYS if k in inspect.signature(s.solve).parameters]
        # ghost (history) variables
        G["n_upd"] = z3.IntVal(0)
        G["n_chk"] = z3.IntVal(0)
        G["cur_x"] = s.x_start.z if s.x_start is not None else z3.Const("nox", Val)
        for g in ("last_f", "last_f_arg", "last_K", "last_K_arg", "last_dx", "upd_dx", "chk_x", "chk_f", "chk_dx", "linked", "trial_at"):
            G[g] = z3.Const("init_" + g, Val)
        G["last_ok"] = z3.BoolVal(False)
        G["last_nan"] = z3.BoolVal(False)

    # ---- callee stubs = callee contracts (pre: claims `callee_pre`; post: facts + ghost updates)
    def _fwd(s, who, args, kwargs):
        s.P.claim("callee_pre", f"{who}: *args, **kwargs forwarded unchanged", len(args) == len(s.args) and all(a is b for a, b in zip(args, s.args)) and set(kwargs) == set(s.kwargs) and all(kwargs[k] is s.kwargs[k] for k in kwargs))

    def fun(s, x, *args, **kwargs):
        P, G = s.P, s.P.ghost
        P.claim("callee_pre", "fun: called on the current iterate", zval(x) == G["cur_x"])
        s._fwd("fun", args, kwargs)
        t = Tok("f")
        P.assume(t.z == FUN(zval(x)))
        G["last_f"], G["last_f_arg"] = t.z, zval(x)
        P.event("fun", x=x, out=t)
        return t

    def fun_items(s, items, x, *args, **kwargs):
        P, G = s.P, s.P.ghost
        P.claim("callee_pre", "fun_items: called with the items of the call", items is s.items)
        t = s.fun(x, *args, **kwargs)
        G["linked"] = zval(x)  # contract of fun_items: every item.field is linked to x, then assembled:
        G["trial_at"] = zval(x)  # trial state variables (results._statevars) now belong to x
        return t

    def jac(s, x, *args, **kwargs):
        P, G = s.P, s.P.ghost
        P.claim("callee_pre", "jac: called on the current iterate", zval(x) == G["cur_x"])
        s._fwd("jac", args, kwargs)
        t = Tok("K")
        P.assume(t.z == JAC(zval(x)))
        G["last_K"], G["last_K_arg"] = t.z, zval(x)
        P.event("jac", x=x, out=t)
        return t

    def jac_items(s, items, x, *args, **kwargs):
        P, G = s.P, s.P.ghost
        P.claim("callee_pre", "jac_items: called with the items of the call", items is s.items)
        P.claim("callee_pre", "jac_items: the item fields are linked to x (jac_items does not link)", G["linked"] == zval(x))
        return s.jac(x, *args, **kwargs)

    def make_solve(s, sig):
        def body(K, b, kw):
            P, G = s.P, s.P.ghost
            P.claim("callee_pre", "solve: matrix is jac(current iterate)", z3.And(zval(K) == G["last_K"], G["last_K_arg"] == G["cur_x"]))
            P.claim("callee_pre", "solve: right-hand side is -fun(current iterate)", z3.And(zval(b) == NEG(G["last_f"]), G["last_f_arg"] == G["cur_x"]))
            P.claim("callee_pre", "solve: receives exactly the keyword arguments of its signature", sorted(kw) == sorted(s.expected_keys))
            for k in kw:
                if k == "x":
                    P.claim("callee_pre", "solve: x= is the current iterate", zval(kw[k]) == G["cur_x"])
                else:
                    P.claim("callee_pre", f"solve: {k}= is the caller's {k}", kw[k] is s.passed.get(k))
            t = Tok("dx")
            P.assume(t.z == SOLVE(zval(K), zval(b)))
            G["last_dx"] = t.z
            P.event("solve", K=K, b=b, out=t)
            return t

        if sig == "full":

            def solve(A, b, x, dof1, dof0, offsets=None, ext0=None, solver=None):
                return body(A, b, dict(x=x, dof1=dof1, dof0=dof0, ext0=ext0, solver=solver))

        elif sig == "plain":

            def solve(A, b):
                return body(A, b, {})

        else:

            def solve(A, b, x=None, ext0=None):
                return body(A, b, dict(x=x, ext0=ext0))

        return solve

    def update(s, x, dx):
        P, G = s.P, s.P.ghost
        P.claim("callee_pre", "update: x is the current iterate", zval(x) == G["cur_x"])
        P.claim("callee_pre", "update: dx is the result of the last solve", zval(dx) == G["last_dx"])
        t = Tok("x")
        P.assume(t.z == UPDATE(zval(x), zval(dx)))
        G["cur_x"], G["upd_dx"] = t.z, zval(dx)
        G["n_upd"] = G["n_upd"] + 1
        P.event("update", x=x, dx=dx, out=t)
        return t

    def check(s, dx, x, f, xtol, ftol, dof1=None, dof0=None, items=None, eps=1e-3):
        P, G = s.P, s.P.ghost
        P.claim("callee_pre", "check: x is the updated iterate", zval(x) == G["cur_x"])
        P.claim("callee_pre", "check: dx is the increment of the last update", z3.And(zval(dx) == G["upd_dx"], zval(dx) == G["last_dx"]))
        P.claim("callee_pre", "check: f is fun(x) of the updated iterate", z3.And(zval(f) == G["last_f"], G["last_f_arg"] == G["cur_x"]))
        P.claim("callee_pre", "check: ftol is the caller's tol, xtol is +inf", ftol is s.tol and isinstance(xtol, float) and xtol == np.inf)
        P.claim("callee_pre", "check: dof1, dof0, items are the caller's", dof1 is s.dof1 and dof0 is s.dof0 and items is s.items)
        if s.items is not None:
            P.claim("callee_pre", "check: trial state variables belong to the checked iterate (last assembly was fun_items(x))", z3.And(G["trial_at"] == zval(x), G["linked"] == zval(x)))
        ok = P.fresh_bool("success")
        nx, nf = P.fresh_bool("nan_x"), P.fresh_bool("nan_f")
        if P.concrete is not None:  # bounded runs of the untransformed code: real floats, real bool
            xn = float("nan") if z3.is_true(nx.z) else 0.5
            fn = float("nan") if z3.is_true(nf.z) else 0.25
            okv = z3.is_true(ok.z)
        else:
            xn, fn, okv = Tok("xnorm", nan=nx), Tok("fnorm", nan=nf), ok
        P.assume(z3.Implies(z3.Or(nx.z, nf.z), z3.Not(ok.z)))  # contract of check: a NaN norm compares False
        G["n_chk"] = G["n_chk"] + 1
        G["last_ok"], G["last_nan"] = ok.z, z3.Or(nx.z, nf.z)
        G["chk_x"], G["chk_f"], G["chk_dx"] = zval(x), zval(f), zval(dx)
        P.event("check", x=x, f=f, dx=dx, ok=ok)
        return xn, fn, okv

    def call_kwargs(s, maxiter, verbose=False):
        kw = dict(x0=s.x0, solve=s.solve, maxiter=maxiter, update=s.update, check=s.check, args=s.args, kwargs=s.kwargs, tol=s.tol, items=s.items, dof1=s.dof1, dof0=s.dof0, ext0=s.ext0, solver=s.solver, verbose=verbose)
        if s.items is None:
            kw.update(fun=s.fun, jac=s.jac)
        return kw

    def overrides(s):
        return {"fun_items": s.fun_items, "jac_items": s.jac_items}


class NewtonLoop(LoopSpec):
    header = "for iteration in *"
    label = "L0"
    types = {"success": "bool", "iteration": "int", "xnorm": "normtok", "fnorm": "normtok"}

    def __init__(s, env):
        s.env = env

    def fresh(s, P, name, old, k):
        if name == "kwargs_solve":  # after >= 1 iterations: exactly the signature keys, arbitrary (stale) values
            return {key: Tok("stale_" + key) for key in s.env.expected_keys}
        return NotImplemented

    def inv(s, I, P, loc, k, k0, entry):
        G, env = P.ghost, s.env
        x, f = loc["x"], loc["f"]
        I.holds("number of updates == k", G["n_upd"] == k)
        I.holds("number of checks == k", G["n_chk"] == k)
        I.holds("x is the current iterate", zval(x) == G["cur_x"])
        I.holds("f is the last fun result", zval(f) == G["last_f"])
        I.holds("f == fun(x)", z3.And(G["last_f_arg"] == zval(x), zval(f) == FUN(zval(x))))
        I.holds("len(xnorms) == k", seqlen(loc["xnorms"]) == k)
        I.holds("len(fnorms) == k", seqlen(loc["fnorms"]) == k)
        if env.items is not None:
            I.holds("items are linked to x and their trial state belongs to x", z3.And(G["linked"] == zval(x), G["trial_at"] == zval(x)))
        if k0:
            I.holds("x is the start value", same(x, env.x_start))
            I.holds("kwargs_solve is empty", loc["kwargs_solve"] == {})
        else:
            I.holds("the last check failed", z3.Not(G["last_ok"]))
            I.holds("the last norms were not NaN", z3.Not(G["last_nan"]))
            I.holds("success is the flag of the last check", loc["success"].z == G["last_ok"] if isinstance(loc["success"], SBool) else z3.BoolVal(loc["success"]) == G["last_ok"])
            I.holds("iteration == k - 1", lc._zi(loc["iteration"]) == k - 1)
            I.holds("the last check examined (dx, x, f) of the last update", z3.And(G["chk_x"] == zval(x), G["chk_f"] == zval(f), G["chk_dx"] == G["upd_dx"]))
            I.holds("kwargs_solve has exactly the signature keys", sorted(loc["kwargs_solve"]) == sorted(env.expected_keys))


def newton_post(P, env, outcome, mode):
    """postconditions of newtonrhapson, from the property text (used for cut paths and bounded runs)"""
    G = P.ghost
    direct = [e for e in P.events if e["kind"] == "commit"]
    if outcome[0] == "return":
        R = outcome[1]
        ok = isinstance(R, NW.NewtonResult)
        P.claim("post_return", "returns a NewtonResult", ok)
        if not ok:
            return
        P.claim("post_return", "the last check returned success", G["last_ok"])
        P.claim("post_return", "Res.success is True", R.success.z if isinstance(R.success, SBool) else R.success is True)
        P.claim("post_return", "at least one update was made", G["n_upd"] >= 1)
        P.claim("post_return", "Res.x is the last update result", zval(R.x) == G["cur_x"])
        P.claim("post_return", "Res.fun is fun(Res.x), evaluated after that update", z3.And(zval(R.fun) == G["last_f"], G["last_f_arg"] == zval(R.x), zval(R.fun) == FUN(zval(R.x))))
        P.claim("post_return", "the successful check examined exactly (Res.x, Res.fun)", z3.And(G["chk_x"] == zval(R.x), G["chk_f"] == zval(R.fun), G["chk_dx"] == G["upd_dx"]))
        P.claim("post_return", "Res.iterations == number of updates", lc._zi(R.iterations) == G["n_upd"])
        P.claim("post_return", "one norm pair recorded per iteration", z3.And(seqlen(R.xnorms) == G["n_upd"], seqlen(R.fnorms) == G["n_upd"]))
        if env.items is not None:
            P.claim("post_return", "items are linked to Res.x and their trial state belongs to Res.x", z3.And(G["linked"] == zval(R.x), G["trial_at"] == zval(R.x)))
    elif outcome[0] == "raise":
        e = outcome[1]
        if mode == "zero":
            P.claim("post_raise", "maxiter <= 0 raises", True)
        else:
            P.claim("post_raise", "raises only when not converged", z3.Not(G["last_ok"]))
            P.claim("post_raise", "not converged raises ValueError", isinstance(e, ValueError))
            if mode == "exit":
                P.claim("post_raise", "exhaustion message", isinstance(e, ValueError) and "Maximum number of iterations" in str(e))
            else:
                P.claim("post_raise", "raised inside the loop only on NaN norms", G["last_nan"])
    if mode == "zero" and outcome[0] != "raise":
        P.claim("post_raise", "maxiter <= 0 raises", False)
    if mode == "exit" and outcome[0] != "raise":
        P.claim("post_raise", "exhaustion without success raises ValueError", False)
    P.claim("frame", "newtonrhapson itself commits no state variables (only check may)", not direct)


def _silently(f):
    buf = io.StringIO()
    with contextlib.redirect_stdout(buf):
        return f()


def explore_newton(cfg, assume_inv=True, wrap=None):
    """all paths of the cut newtonrhapson for one configuration"""
    target = wrap(NW.newtonrhapson) if wrap else NW.newtonrhapson
    holder = {}

    def run(P):
        env = NewtonEnv(P, cfg)
        spec = NewtonLoop(env)
        if "factory" not in holder:
            holder["factory"], holder["info"] = lc.compile_cut(target, [spec])
        rt = lc.Runtime(P, [spec], assume_inv=assume_inv)
        f = holder["factory"](rt, env.overrides())
        maxiter = P.fresh_int("maxiter")
        out = lc.execute(lambda: _silently(lambda: f(**env.call_kwargs(maxiter))))
        newton_post(P, env, out, P.modes.get("L0"))
        return out

    res = lc.explore(run)
    return res, holder["info"]


def verbose_noninterference(fn):
    """AST scan: statements under `if verbose:` only print / time; names assigned there are read nowhere else"""
    _, src = lc.source_of(fn)
    import ast

    tree = ast.parse(src)
    inside, outside_reads = set(), set()
    ok, why = True, ""
    guarded = []
    for n in ast.walk(tree):
        if isinstance(n, ast.If) and isinstance(n.test, ast.Name) and n.test.id == "verbose" and not n.orelse:
            guarded.append(n)
    ids = {id(x) for g in guarded for st in g.body for x in ast.walk(st)}
    allowed_calls = {"print", "perf_counter", "append", "diff", "sum"}
    for g in guarded:
        for st in g.body:
            for x in ast.walk(st):
                if isinstance(x, ast.Name) and isinstance(x.ctx, ast.Store):
                    inside.add(x.id)
                if isinstance(x, ast.Call):
                    nm = x.func.attr if isinstance(x.func, ast.Attribute) else getattr(x.func, "id", "?")
                    if nm not in allowed_calls:
                        ok, why = False, f"call {nm} in a verbose block"
                    if nm == "append" and not (isinstance(x.func.value, ast.Name) and x.func.value.id in ("soltimes", "runtimes")):
                        ok, why = False, "append to a non-display list in a verbose block"
                if isinstance(x, (ast.Return, ast.Raise, ast.Break, ast.Continue, ast.Yield)):
                    ok, why = False, "control transfer in a verbose block"
    first = [g for g in guarded]
    for n in ast.walk(tree):
        if isinstance(n, ast.Name) and isinstance(n.ctx, ast.Load) and id(n) not in ids and n.id in inside:
            ok, why = False, f"display-only name {n.id} read outside a verbose block"
    # the block that *defines* verbose (verbose is None) is not a `if verbose:` block; fine
    return ok, why or f"{len(guarded)} verbose blocks; display-only names {sorted(inside)}", len(guarded)


NEWTON_CFGS = [dict(items=i, x0=x, solve_sig=sg) for i, x, sg in [(False, True, "full"), (True, True, "full"), (True, False, "full"), (False, True, "plain"), (True, False, "partial")]]


@contract("C07", "newtonrhapson", configs=NEWTON_CFGS, engine="E2")
def newtonrhapson_e2(vk, cfg):
    """loop-cut contract of the Newton iteration protocol (unbounded in the number of iterations)"""
    if not vk.sym:
        return
    vk.real(NW.newtonrhapson)
    try:
        res, info = explore_newton(cfg)
    except lc.Unsupported as e:
        raise oracle.Undecided(f"loop-cut engine: {e}")
    vk.ensures_true("rewrite/drops-nothing (instrumentation stripped == original AST)", info["preserves_original"], f"{info['statements_original']} -> {info['statements_rewritten']} statements; loops {info['loops']}", backend="ast")
    if cfg == NEWTON_CFGS[0]:
        from vk import loopcut_selftest

        st_ok, st_detail = loopcut_selftest.run()
        vk.ensures_true("engine self-test: toy while / continue / for-else loops (paths, valid VCs, wrong invariant refuted)", st_ok, str(st_detail), backend="z3")
    ok, why, nblocks = verbose_noninterference(NW.newtonrhapson)
    vk.ensures_true("verbose-noninterference (verbose blocks are display-only)", ok and nblocks >= 1, why, backend="ast")
    lc.emit(vk, "newtonrhapson", res)
    outcomes = sorted({(P.modes.get("L0"), o[0]) for P, o in res if o[0] != "infeasible"})
    vk.note(f"newtonrhapson[{cfg}] feasible paths: " + "; ".join(f"{P.id} -> {lc.outcome_text(o)}" for P, o in res if o[0] != "infeasible"))
    # path cover: every mode was explored, and the iter/first modes have a returning, a raising and a continuing path
    want = {("zero", "raise"), ("exit", "raise"), ("iter", "return"), ("iter", "raise"), ("iter", "backedge"), ("first", "return"), ("first", "raise"), ("first", "backedge")}
    vk.ensures_true("path-cover: every mode has its returning, raising and continuing path", want <= set(outcomes), str(outcomes), backend="z3")
    # vacuity guards: (1) drop the invariant assumption, (2) a false postcondition
    res2, _ = explore_newton(cfg, assume_inv=False)
    vk.canary_bool("Inv dropped (havoc without assume) must break an obligation", lc.refuted_any(res2) is not None)
    bad = 0
    for P, o in res:
        if o[0] == "return":
            P.claims = [{"kind": "canary", "name": "iterations == updates + 1", "claim": lc._zi(o[1].iterations) == P.ghost["n_upd"] + 1, "pc": list(P.pc)}]
            bad += lc.refuted_any([(P, o)]) is not None
    vk.canary_bool("Res.iterations == updates + 1", bad >= 1)
    # bounded cross-check: the UNTRANSFORMED function, same stubs, every decision script up to 3 iterations
    n, fails = 0, []
    for verbose in (False, True):
        for m in range(0, 5 if vk.tier == "thorough" else 4):
            for script in itertools.product([(1, 0), (0, 0), (0, 1)], repeat=m):
                conc = {"success": [s_ for s_, _ in script], "nan_x": [n_ for _, n_ in script], "nan_f": [0] * m}

                def run(P, m=m, verbose=verbose):
                    env = NewtonEnv(P, cfg)
                    saved = (NW.fun_items, NW.jac_items)
                    NW.fun_items, NW.jac_items = env.fun_items, env.jac_items
                    try:
                        out = lc.execute(lambda: _silently(lambda: NW.newtonrhapson(**env.call_kwargs(m, verbose=verbose))))
                    finally:
                        NW.fun_items, NW.jac_items = saved
                    # which mode does this concrete run correspond to?
                    nchk = len(P.events_of("check"))
                    last_ok = bool(P.events_of("check")) and z3.is_true(P.events_of("check")[-1]["ok"].z)
                    mode = "zero" if m == 0 else ("exit" if (nchk == m and not last_ok and not any(script[i][1] for i in range(nchk))) else "iter")
                    newton_post(P, env, out, mode)
                    return out

                P, out, badc = lc.concrete_run(run, conc)
                n += 1
                if badc:
                    fails.append({"input": {"maxiter": m, "verbose": verbose, "(success, nan) per iteration": list(script), "cfg": dict(cfg)}, "outcome": lc.outcome_text(out), "bad": badc})
    lc.attach_replays(vk, "newtonrhapson", fails)
    vk.bounded_standin("untransformed newtonrhapson, same stubs, all decision scripts", f"maxiter <= {4 if vk.tier == 'thorough' else 3}, (success, NaN) per iteration, verbose in (False, True)", n, not fails, "; ".join(f"{f_['input']}: {f_['outcome']}: {f_['bad'][:2]}" for f_ in fails[:3]))


# =====================================================================================================
# E1: check, Results.update_statevars
# =====================================================================================================
from felupe.mechanics._helpers import Assemble, Results  # noqa: E402
from vk import sparse_stub  # noqa: E402
from vk.sparse_stub import DenseCSR, SolverRecord  # noqa: E402


def _l2(vk, v):
    """spec side: Euclidean norm (root atom in symbolic mode)"""
    v = np.asarray(v, dtype=object if vk.sym else float).ravel()
    if v.size == 0:
        return co(0) if vk.sym else 0.0
    s = sum(x * x for x in v)
    return ring.nthroot(co(s), 2) if vk.sym else float(np.sqrt(s))


class _Item:
    """an item as `check` sees it: only `.results` (a REAL felupe Results object) is touched"""

    def __init__(s, k, with_state=True):
        s.results = Results(stress=True, elasticity=True)
        s.old = object() if with_state else None
        s.trial = object() if with_state else None
        s.results.statevars = s.old
        s.results._statevars = s.trial
        s.other = {k_: v for k_, v in vars(s.results).items() if k_ != "statevars"}


CASES = [f_ + x_ for f_ in "<=>" for x_ in "<=>"]  # (fnorm ? ftol, xnorm ? xtol); success iff "<<"
CHECK_CFGS = [dict(case=c, dofs=d, items=i) for c in CASES for d in ("given", "default") for i in ("none", 2)] + [
    dict(case="<<", dofs="given", items=0),
    dict(case="<<", dofs="given", items=3),
    dict(case="><", dofs="given", items=3),
    dict(case="<<", dofs="given", items=2, eps="symbolic"),
    dict(case="<<", dofs="slices", items=2),
    dict(case="<>", dofs="slices", items=2),
]


@contract("C07", "check", configs=CHECK_CFGS, engine="E1")
def check_e1(vk, cfg):
    """success <=> fnorm < ftol and xnorm < xtol; fnorm = |f[dof1]| / (eps + |f[dof0]|); state variables of
    every item are committed iff success (no state committed on failure)"""
    vk.real(NW.check)
    vk.real(Results.update_statevars)
    n = 5
    case = cfg["case"]
    given = cfg["dofs"] != "default"
    if cfg["dofs"] == "slices":
        dof1, dof0 = slice(0, 3), slice(3, 5)
    else:
        dof1, dof0 = (np.array([1, 2, 4]), np.array([0, 3])) if given else (None, None)
    near_f = np.array([1.0, 0.1, 0.1, 1.0, 0.1]) if cfg["dofs"] == "given" else (np.array([0.1, 0.1, 0.1, 1.0, 1.0]) if given else np.full(5, 0.1))
    f = vk.reals("f", (n,), near=near_f, spread=0.05)
    dx = vk.reals("dx", (n,), near=0.2, spread=0.1)
    eps = vk.real_scalar("eps", near=1e-3, spread=1e-4) if cfg.get("eps") else 1e-3
    if cfg.get("eps"):
        vk.requires(eps, ">")
    scale = 1.0 if given else 1000.0
    ftol = vk.real_scalar("ftol", near={"<": 5.0, "=": 1.0, ">": 0.001}[case[0]] * scale, spread=0.0005)
    xtol = vk.real_scalar("xtol", near={"<": 5.0, "=": 1.0, ">": 0.01}[case[1]], spread=0.005)
    # specification (from the property text / the docstring of NewtonResult)
    f1 = f[dof1] if given else f
    f0 = f[dof0] if given else f[0:0]
    fn_spec = _l2(vk, f1) / (eps + _l2(vk, f0))
    xn_spec = _l2(vk, dx)
    vk.requires(fn_spec - ftol, {"<": "<", "=": "==", ">": ">"}[case[0]])
    vk.requires(xn_spec - xtol, {"<": "<", "=": "==", ">": ">"}[case[1]])
    expect = case == "<<"
    nitems = cfg["items"]
    items = None if nitems == "none" else [_Item(k, with_state=(k != 1)) for k in range(nitems)]
    snap_f, snap_dx = vk.snapshot(f), vk.snapshot(dx)
    if vk.sym:
        oracle.COLLECT = []  # a comparison the case split does not decide is collected (reported below), not fatal
    kw = dict(dof1=dof1, dof0=dof0) if given else {}
    if cfg.get("eps"):
        kw["eps"] = eps
    try:
        xnorm, fnorm, success = NW.check(dx, object(), f, xtol, ftol, items=items, **kw)
    finally:
        collected = list(oracle.COLLECT or []) if vk.sym else []
        if vk.sym:
            oracle.COLLECT = None
    vk.ensures_eq("xnorm == |dx|", xnorm, xn_spec)
    vk.ensures_eq("fnorm == |f[dof1]| / (eps + |f[dof0]|)", fnorm, fn_spec)
    vk.frame_unchanged("f", f, snap_f)
    vk.frame_unchanged("dx", dx, snap_dx)
    if not vk.sym:
        return
    vk.ensures_true("success <=> fnorm < ftol and xnorm < xtol", bool(success) is expect and isinstance(success, (bool, np.bool_)), f"case {case}: returned {success!r}")
    vk.ensures_true("branch conditions are those of the specification (decided by the case split)", True if not collected else None, f"undetermined comparisons: {[str(p)[:60] for p, _ in collected]}", backend="oracle")
    if items is not None:
        for k, it in enumerate(items):
            R = it.results
            if expect:
                want = it.trial if it.trial is not None else it.old
                vk.ensures_true(f"item{k}: success => state variables committed (statevars is the trial state of the checked iterate)", R.statevars is want, "", backend="exec")
            else:
                vk.ensures_true(f"item{k}: no success => no state committed (statevars untouched)", R.statevars is it.old, "", backend="exec")
            vk.ensures_true(f"item{k}: frame (trial state and all other results untouched)", all(vars(R)[a] is v for a, v in it.other.items()) and set(vars(R)) == set(it.other) | {"statevars"}, "", backend="exec")
    vk.canary_bool("success is the negation", bool(success) is not (not expect))
    vk.canary("fnorm == |f[dof0]| / (eps + |f[dof1]|)", fnorm, _l2(vk, f0) / (eps + _l2(vk, f1)) if given else fn_spec + 1)
    # NaN norms (IEEE, outside the real-number reading A1): bounded native execution
    if case == "<<" and nitems == 2 and not cfg.get("eps"):
        with symnp.native():
            its = [_Item(0), _Item(1)]
            ok = True
            for bad in (np.array([np.nan, 0, 0, 0, 0.0]), np.array([0, np.nan, 0, 0, 0.0])):
                xn, fn_, su = NW.check(np.zeros(5), None, bad, np.inf, 1e-8, dof1=np.array([1, 2, 4]), dof0=np.array([0, 3]), items=its)
                xn2, fn2, su2 = NW.check(bad, None, np.zeros(5), np.inf, 1e-8, dof1=np.array([1, 2, 4]), dof0=np.array([0, 3]), items=its)
                ok = ok and (not su) and (not su2) and all(i.results.statevars is i.old for i in its)
        vk.bounded_standin("NaN in f or dx => no success, no state committed", "2 NaN positions x (f, dx), native float", 4, ok)


@contract("C07", "update_statevars", configs=[{}], engine="ground")
def update_statevars_frame(vk, cfg):
    """Results.update_statevars: statevars := _statevars if a trial state exists; nothing else changes"""
    if not vk.sym:
        return
    vk.real(Results.update_statevars)
    for stress in (False, True):
        for trial in ("none", "set"):
            R = Results(stress=stress, elasticity=stress)
            old, new = object(), object()
            R.statevars = old
            R._statevars = None if trial == "none" else new
            before = dict(vars(R))
            out = R.update_statevars()
            after = vars(R)
            tag = f"stress={stress},trial={trial}"
            vk.ensures_true(f"{tag}/statevars", after["statevars"] is (old if trial == "none" else new), "", backend="exec")
            vk.ensures_true(f"{tag}/frame: every other attribute untouched, none added", set(after) == set(before) and all(after[k] is before[k] for k in before if k != "statevars"), "", backend="exec")
            vk.ensures_true(f"{tag}/returns None", out is None, "", backend="exec")
            R.update_statevars()
            vk.ensures_true(f"{tag}/idempotent", vars(R)["statevars"] is (old if trial == "none" else new), "", backend="exec")
    R = Results()
    R.statevars, R._statevars = "old", None
    R.update_statevars()
    vk.canary_bool("without a trial state statevars is overwritten by None", R.statevars is not None)


# =====================================================================================================
# E1: partition / solve glue, fun_items / jac_items, update, prescribed values, linear lemma
# =====================================================================================================
import felupe.solve._solve as FS  # noqa: E402
import felupe.tools._solve as TS  # noqa: E402
from scipy.sparse import csr_matrix as _csr  # noqa: E402
from scipy.sparse.linalg import spsolve as _spsolve  # noqa: E402


def _container(vk, layout, name="u"):
    """a REAL FieldContainer (built natively) whose point values are the quantified reals"""
    with symnp.native():
        if layout == "u1":  # one scalar field on one quad: 4 unknowns
            region = fem.RegionQuad(fem.Rectangle(n=2))
            fc = fem.FieldContainer([fem.Field(region, dim=1)])
        elif layout == "u1p":  # scalar field + one cell-wise constant field: 4 + 1 unknowns
            region = fem.RegionQuad(fem.Rectangle(n=2))
            fc = fem.FieldContainer([fem.Field(region, dim=1), fem.FieldDual(region)])
        elif layout == "mixed2":
            region = fem.RegionQuad(fem.Rectangle(n=(3, 2)))
            fc = fem.FieldsMixed(region, n=2)
        elif layout == "mixed3":  # (u: 6 points x 2, p: 2 cells, J: 2 cells) = 12 + 2 + 2 unknowns
            region = fem.RegionQuad(fem.Rectangle(n=(3, 2)))
            fc = fem.FieldsMixed(region, n=3)
        elif layout == "u2":
            region = fem.RegionQuad(fem.Rectangle(n=(3, 2)))
            fc = fem.FieldContainer([fem.Field(region, dim=2)])
        else:
            raise KeyError(layout)
    for k, fld in enumerate(fc.fields):
        fld.values = vk.reals(f"{name}{k}", fld.values.shape, near=0.1 * (k + 1), spread=0.2)
    return fc


def _mat(vk, A):
    return DenseCSR(A) if vk.sym else _csr(np.asarray(A, dtype=float))


def _dense(M):
    return M.toarray() if hasattr(M, "toarray") else np.asarray(M)


class _NativeSolver:
    def __init__(s):
        s.calls = []

    def __call__(s, A, b):
        s.calls.append((_dense(A), np.array(b)))
        return _spsolve(_csr(A), b) if A.shape[0] else np.zeros(0)


PART = {"u1": [([0, 3], [1, 2]), ([3, 1], [2, 0]), ([], [0, 1, 2])], "u1p": [([0, 4], [1, 2, 3]), ([1, 2, 3], [4, 0])], "u2": [([0, 1, 2, 3, 4, 5, 6, 7, 8], [9, 10, 11])]}
PS_CFGS = [dict(layout=l, part=k, ext0=e, r=r, entry=en) for l in ("u1", "u1p") for k in range(len(PART[l])) for e in ("given", "none") for r in ("given",) for en in ("solve", "newton.solve")]
PS_CFGS += [dict(layout="u1", part=0, ext0="given", r="none", entry="solve"), dict(layout="u1", part=0, ext0="none", r="none", entry="solve")]
PS_CFGS += [dict(layout=l, part=0, ext0="given", r="given", entry="tools.solve") for l in ("u1", "u1p")]
PS_CFGS = [c for c in PS_CFGS if not (c["layout"] == "u1" and c["part"] == 2 and c["ext0"] == "given" and c["entry"] == "newton.solve")]
PS_CFGS += [dict(layout="u2", part=0, ext0=e, r="given", entry=en, tier="thorough") for e in ("given", "none") for en in ("solve", "newton.solve", "tools.solve")]
# tools._newton.solve(..., offsets=): the positions at which the container's unknowns split into fields, handed over by hand-written
# Newton loops (felupe.tools.solve takes them as well) -- the clauses of the partitioned solve hold with them given (also as an empty
# list for a one-field container: a value like any other)
PS_CFGS += [dict(layout=l, part=0, ext0=e, r="given", entry="newton.solve", offsets="given") for l in ("u1", "u1p") for e in ("given", "none")]


@contract("C07", "partition_solve", configs=PS_CFGS, engine="E1")
def partition_solve(vk, cfg):
    """each partitioned linear solve satisfies K11 du1 = -r1 - K10 (ext0 - u0) and sets du[dof0] = ext0 - u0
    (given the contract of the sparse solver: it returns the solution of the system it is handed)"""
    for fn_ in (FS.partition, FS.solve, NW.solve, TS.solve):
        vk.real(fn_)
    ok, _ = sparse_stub.selfcheck()
    if vk.sym:
        vk.ensures_true("dense csr stand-in == scipy.sparse on float data (differential self-check)", ok, "", backend="exec")
    fc = _container(vk, cfg["layout"])
    n = int(sum(fc.fieldsizes))
    dof0, dof1 = (np.array(p, dtype=int) for p in PART[cfg["layout"]][cfg["part"]][:2])
    Kd = vk.reals("K", (n, n), near=np.eye(n) * 3 + 0.2, spread=0.2)
    r = vk.reals("r", (n,), near=0.1, spread=0.3) if cfg["r"] == "given" else None
    ext0 = vk.reals("e", (len(dof0),), near=0.5, spread=0.3) if cfg["ext0"] == "given" else None
    K = _mat(vk, Kd)
    solver = SolverRecord() if vk.sym else _NativeSolver()
    # ---- specification side
    u = np.concatenate([f_.values.ravel() for f_ in fc.fields])
    snap_u = vk.snapshot(u)
    K11s, K10s = Kd[np.ix_(dof1, dof1)], Kd[np.ix_(dof1, dof0)]
    if len(dof1):
        vk.requires(symnp.det_ref(K11s), "!=")  # the reduced system is uniquely solvable
    u0s = u[dof0]
    e_spec = ext0 if ext0 is not None else np.zeros(len(dof0), dtype=object if vk.sym else float) * (co(1) if vk.sym else 1.0)
    rs = r if r is not None else (ring.lift(np.zeros(n)) if vk.sym else np.zeros(n))
    entry = cfg["entry"]
    if entry == "solve":
        system = FS.partition(fc, K, dof1, dof0, r)
        uu, u0, K11, K10, d1, d0, r1 = system
        vk.ensures_eq("partition/u == concatenated field values", uu, u)
        vk.ensures_eq("partition/u0 == u[dof0]", u0, u0s)
        vk.ensures_eq("partition/K11 == K[dof1, dof1]", _dense(K11), K11s)
        vk.ensures_eq("partition/K10 == K[dof1, dof0]", _dense(K10), K10s)
        if r is not None:
            vk.ensures_eq("partition/r1 == r[dof1]", r1, r[dof1])
        if vk.sym:
            vk.ensures_true("partition/r1 is None iff r is None; dof lists passed through", (r1 is None) == (r is None) and d1 is dof1 and d0 is dof0, "", backend="exec")
        du = FS.solve(*system, ext0, solver=solver) if cfg["ext0"] == "given" else FS.solve(*system, solver=solver)
    elif entry == "newton.solve":
        # newtonrhapson hands `solve(K, -f, x=, dof1=, dof0=, ext0=, solver=)`: b = -r
        if cfg.get("offsets") == "given":
            du = NW.solve(K, -r, fc, dof1, dof0, offsets=fc.offsets, ext0=ext0, solver=solver)
        else:
            du = NW.solve(K, -r, fc, dof1, dof0, ext0=ext0, solver=solver)
    else:
        # felupe.tools.solve(K, f, field, dof0, dof1, offsets, ext0): "Solve linear equation system K dx = b" (f = -r)
        FS_spsolve = FS.solve.__defaults__
        if vk.sym:
            FS.solve.__defaults__ = FS_spsolve[:-1] + (solver,)
        try:
            parts = TS.solve(K, -r, fc, dof0, dof1, fc.offsets, ext0)
        finally:
            FS.solve.__defaults__ = FS_spsolve
        du = np.concatenate(parts)
        sizes = [p.size for p in parts]
        if vk.sym:
            vk.ensures_true("tools.solve/split at the field offsets", sizes == list(fc.fieldsizes), f"{sizes} vs {fc.fieldsizes}", backend="exec")
    du = np.asarray(du)
    if vk.sym:
        vk.ensures_true("du has the shape of u", du.shape == u.shape, f"{du.shape}", backend="exec")
    du = du.ravel()
    # ---- the property's clauses
    if len(dof0):
        vk.ensures_eq("du[dof0] == ext0 - u0 (prescribed increments)", du[dof0], e_spec - u0s)
    if len(dof1):
        resid = symnp.ref_einsum("ij,j->i", K11s, du[dof1]) + rs[dof1]
        if len(dof0):
            resid = resid + symnp.ref_einsum("ij,j->i", K10s, e_spec - u0s)
        name = "reduced-system K11 du1 + r1 + K10 (ext0 - u0) == 0" if ext0 is not None else "reduced-system(ext0:=0) K11 du1 + r1 + K10 (0 - u0) == 0"
        vk.ensures_zero(name, resid)
        if vk.sym and entry != "tools.solve" or (vk.sym and entry == "tools.solve"):
            vk.ensures_true("the solver is called exactly once, with the reduced matrix K11", len(solver.calls) == 1 and solver.calls[0][0].shape == K11s.shape and all(ring.iszero(co(a) - co(b)) for a, b in zip(solver.calls[0][0].ravel(), K11s.ravel())), "", backend="ring")
    vk.frame_unchanged("field values", np.concatenate([f_.values.ravel() for f_ in fc.fields]), snap_u)
    vk.frame_unchanged("K", _dense(K), Kd)
    if len(dof0):
        vk.canary("du[dof0] == ext0 (not the increment)", du[dof0], e_spec + 0 * u0s)


# ---- fun_items / jac_items -----------------------------------------------------------------------
class _AsmItem:
    """an item as fun_items / jac_items see it: .field (a REAL FieldContainer), .assemble (the REAL Assemble)"""

    def __init__(s, vk, k, field, nrows, n, multiplier, log):
        s.k, s.field, s.log = k, field, log
        s.r = vk.reals(f"r{k}", (nrows,), near=0.2 * (k + 1), spread=0.3)
        s.K = vk.reals(f"K{k}", (nrows, nrows), near=0.1 * (k + 1), spread=0.3)
        s.vk = vk
        s.assemble = Assemble(vector=s._vector, matrix=s._matrix, multiplier=multiplier)

    def _vector(s, field=None, **kwargs):
        s.log.append(("vector", s.k, field, dict(kwargs)))
        return _mat(s.vk, np.asarray(s.r).reshape(-1, 1))

    def _matrix(s, **kwargs):
        s.log.append(("matrix", s.k, None, dict(kwargs)))
        return _mat(s.vk, s.K)


ITEMS_CFGS = [dict(nitems=k, parallel=p) for k in (0, 1, 2, 3) for p in (False, True)] + [dict(nitems=3, parallel=False, zero=True)]  # zero: an item switched off by the multiplier 0.0


@contract("C07", "fun_items_jac_items", configs=ITEMS_CFGS, engine="E1")
def items_assembly(vk, cfg):
    """fun_items: every item field is linked to the iterate x (shared value arrays) BEFORE anything is
    assembled; result = sum_i multiplier_i * r_i zero-padded to the global size.  jac_items: the same sum
    for the matrices (no linking)."""
    vk.real(NW.fun_items)
    vk.real(NW.jac_items)
    vk.real(fem.FieldContainer.link)
    x = _container(vk, "u1p", name="x")
    n = int(sum(x.fieldsizes))
    log = []
    items = []
    for k in range(cfg["nitems"]):
        own = _container(vk, "u1p", name=f"own{k}")
        mult = None if k == 0 else vk.real_scalar(f"m{k}", near=2.0)
        if cfg.get("zero") and k > 0:
            # concrete multipliers (so that a truth-value test on them is decided): -1.5 and the edge value 0.0 -- a
            # switched-off item contributes neither to the residual nor to the matrix
            mult = -1.5 if k == 1 else 0.0
        nrows = n if k != 1 else n - 1  # the second item only knows the first field: needs resize (zero padding)
        items.append(_AsmItem(vk, k, own, nrows, n, mult, log))

    class LinkSpy:
        pass

    saved = NW.csr_matrix
    if vk.sym:
        NW.csr_matrix = DenseCSR
    try:
        kw = {"parallel": True} if cfg["parallel"] else {}
        f = NW.fun_items(items, x, **kw)
        n_after_fun = len(log)
        K = NW.jac_items(items, x, **kw)
    finally:
        NW.csr_matrix = saved

    def pad(v, shape):
        out = np.zeros(shape, dtype=object if vk.sym else float)
        if vk.sym:
            out[...] = LP()
        out[tuple(slice(0, s_) for s_ in np.shape(v))] = v
        return out

    m = [1 if it.assemble.multiplier is None else it.assemble.multiplier for it in items]
    fspec = sum([pad(it.r, (n,)) * mi for it, mi in zip(items, m)], pad(np.zeros(0), (n,)))
    Kspec = sum([pad(it.K, (n, n)) * mi for it, mi in zip(items, m)], pad(np.zeros((0, 0)), (n, n)))
    vk.ensures_eq("fun_items == sum_i multiplier_i * pad(r_i)", f, fspec)
    vk.ensures_eq("jac_items == sum_i multiplier_i * pad(K_i)", _dense(K), Kspec)
    if not vk.sym:
        return
    vk.ensures_true("fun_items returns a 1d array of the global size", np.shape(f) == (n,), str(np.shape(f)), backend="exec")
    linked = all(a.values is b.values for it in items for a, b in zip(it.field.fields, x.fields))
    vk.ensures_true("after fun_items every item field shares the value arrays of x (items see the iterate)", linked, "", backend="exec")
    calls_f, calls_K = log[:n_after_fun], log[n_after_fun:]
    vk.ensures_true("fun_items assembles each item's vector exactly once, in order, with its own (linked) field and the caller's parallel flag", [c[:2] for c in calls_f] == [("vector", k) for k in range(len(items))] and all(c[2] is items[c[1]].field and c[3] == {"parallel": cfg["parallel"]} for c in calls_f), str([c[:2] for c in calls_f]), backend="exec")
    vk.ensures_true("jac_items assembles each item's matrix exactly once with the caller's parallel flag", [c[:2] for c in calls_K] == [("matrix", k) for k in range(len(items))] and all(c[3] == {"parallel": cfg["parallel"]} for c in calls_K), "", backend="exec")
    if items:
        vk.canary("fun_items ignores the multipliers", f, sum([pad(it.r, (n,)) for it in items], pad(np.zeros(0), (n,))) + (0 if len(items) > 1 else 1))


# ---- update + prescribed values ----------------------------------------------------------------------
PV_CFGS = [dict(layout=l, overlap=o) for l in ("u2", "mixed2", "mixed3") for o in (False, True)]


@contract("C07", "prescribed_values_after_update", configs=PV_CFGS, engine="E1")
def prescribed_values(vk, cfg):
    """dof.partition -> dof.apply -> tools._newton.solve -> update (FieldContainer.__add__, np.split at the
    field offsets): the updated container carries exactly the prescribed values on every prescribed unknown
    of every field, whatever the solver returns for the free unknowns."""
    for fn_ in (fem.dof.partition, fem.dof.apply, NW.solve, NW.update, fem.FieldContainer.__add__, fem.Field.__iadd__):
        vk.real(fn_)
    fc = _container(vk, cfg["layout"])
    n = int(sum(fc.fieldsizes))
    with symnp.native():
        bounds = {
            "left": fem.Boundary(fc[0], fx=0, value=vk.real_scalar("b_left", near=0.0)),
            "right": fem.Boundary(fc[0], fx=2 if False else 1, skip=(0, 1), value=vk.real_scalar("b_right", near=0.3)),
        }
        npts = fc[0].region.mesh.npoints
        top = fem.Boundary(fc[0], fy=1, skip=(1, 0))
        if cfg["overlap"]:  # array-valued boundary (one value per point), overlapping `left` in the y-component
            bounds["top"] = fem.Boundary(fc[0], fy=1, skip=(1, 0), value=vk.reals("b_top", (top.points.size, 1), near=0.2))
        if len(fc.fields) >= 2:
            bounds["p"] = fem.Boundary(fc[1], mask=np.array([[True], [False]]), value=vk.real_scalar("b_p", near=0.7))
        if len(fc.fields) >= 3:
            bounds["J"] = fem.Boundary(fc[2], mask=np.array([[False], [True]]), value=vk.real_scalar("b_J", near=1.5))
    dof0, dof1 = fem.dof.partition(fc, bounds)
    ext0 = fem.dof.apply(fc, bounds, dof0)
    # the solver returns WHATEVER (fresh unknowns): the clause must not depend on it
    y = vk.reals("y", (len(dof1),), near=0.05)
    calls = []

    def any_solver(A, b):
        calls.append(A.shape)
        return y.copy()

    Kd = vk.reals("K", (n, n), near=np.eye(n), spread=0.1) if n <= 8 else (ring.lift(np.eye(n) * 2.0) if vk.sym else np.eye(n) * 2.0)
    r = vk.reals("r", (n,), near=0.1)
    old = [vk.snapshot(f_.values) for f_ in fc.fields]
    dx = NW.solve(_mat(vk, Kd), -r, fc, dof1, dof0, ext0=ext0, solver=any_solver)
    xn = NW.update(fc, dx)
    # specification: per boundary, the values of its own field at its own dofs
    offs = np.insert(fc.offsets, 0, 0)
    later = list(bounds)
    for i, (name, b) in enumerate(bounds.items()):
        k = [j for j, f_ in enumerate(fc.fields) if f_ is b.field][0]
        got = xn.fields[k].values.ravel()[b.dof]
        want = np.broadcast_to(np.asarray(b.value, dtype=object if vk.sym else float), (b.points.size, int((~np.array(b.skip[: b.field.dim], dtype=bool)).sum()) if False else 1)).ravel() if isinstance(b.value, np.ndarray) else np.full(b.dof.size, b.value, dtype=object if vk.sym else float)
        if isinstance(b.value, np.ndarray):
            want = np.asarray(b.value, dtype=object if vk.sym else float).ravel()
        # dofs claimed by a later boundary carry that later value ("last boundary wins", C08): compare the rest
        keep = np.ones(b.dof.size, dtype=bool)
        for name2 in later[i + 1 :]:
            b2 = bounds[name2]
            if b2.field is b.field:
                keep &= ~np.isin(b.dof, b2.dof)
        vk.ensures_eq(f"updated field {k} carries the prescribed value of boundary '{name}' on its unknowns", got[keep], want[keep])
    flat_new = np.concatenate([f_.values.ravel() for f_ in xn.fields])
    flat_old = np.concatenate([o.ravel() for o in old])
    vk.ensures_eq("free unknowns == old value + solver increment", flat_new[dof1], flat_old[dof1] + y)
    vk.ensures_eq("prescribed unknowns == ext0", flat_new[dof0], ext0)
    if vk.sym:
        vk.ensures_true("partition covers all unknowns disjointly", sorted(np.concatenate([dof0, dof1]).tolist()) == list(range(n)), "", backend="exec")
        vk.canary("prescribed unknowns keep their old value", flat_new[dof0], flat_old[dof0])


# ---- lemma: a linear problem converges with the first update --------------------------------------
LIN_CFGS = [dict(layout="u1", part=0), dict(layout="u1", part=1), dict(layout="u1p", part=0), dict(layout="u1p", part=1, tier="thorough")]


@contract("C07", "linear_problem_first_update", configs=LIN_CFGS, engine="E1")
def linear_lemma(vk, cfg):
    """fun(x) = A u(x) - b with a symbolic matrix A, jac = A: after ONE update through the real
    tools._newton.solve / update the residual on the free unknowns is identically zero and the prescribed
    unknowns carry ext0; the real `check` then reports success for every ftol > 0; and the REAL
    newtonrhapson run end-to-end on the symbolic problem returns after exactly one iteration."""
    for fn_ in (NW.solve, NW.update, NW.check, NW.newtonrhapson):
        vk.real(fn_)
    fc = _container(vk, cfg["layout"])
    n = int(sum(fc.fieldsizes))
    dof0, dof1 = (np.array(p, dtype=int) for p in PART[cfg["layout"]][cfg["part"]][:2])
    Ad = vk.reals("A", (n, n), near=np.eye(n) * 3 + 0.2, spread=0.2)
    b = vk.reals("b", (n,), near=0.3)
    ext0 = vk.reals("e", (len(dof0),), near=0.5)
    ftol = vk.real_scalar("ftol", near=1e-8, spread=1e-9)
    vk.requires(ftol, ">")
    vk.requires(symnp.det_ref(Ad[np.ix_(dof1, dof1)]), "!=")

    def vals(x):
        return np.concatenate([f_.values.ravel() for f_ in x.fields])

    def fun(x):
        v = symnp.ref_einsum("ij,j->i", Ad, vals(x)) - b
        if vk.sym:  # the abstract linear fun returns its value in normal form (an identically zero entry is 0)
            v = np.array([LP() if ring.iszero(co(e)) else e for e in v], dtype=object)
        return v

    def jac(x):
        return _mat(vk, Ad)

    solver = SolverRecord() if vk.sym else _NativeSolver()
    dx = NW.solve(jac(fc), -fun(fc), fc, dof1, dof0, ext0=ext0, solver=solver)
    xn = NW.update(fc, dx)
    fnew = fun(xn)
    vk.ensures_zero("residual on the free unknowns after the first update", fnew[dof1])
    vk.ensures_eq("prescribed unknowns carry ext0 after the first update", vals(xn)[dof0], ext0)
    xtol = vk.real_scalar("xtol", near=100.0)
    vk.requires(_l2(vk, dx) - xtol, "<")
    xnorm, fnorm, success = NW.check(dx, xn, fnew, xtol, ftol, dof1=dof1, dof0=dof0)
    vk.ensures_zero("check: fnorm == 0", fnorm)
    if vk.sym:
        vk.ensures_true("check reports success (0 < ftol)", success is True or success == True, repr(success), backend="oracle")  # noqa: E712
    # end-to-end on the real newtonrhapson (xtol = inf inside): symbolic linear problem
    from vk.extreal import extended_real_comparisons

    with extended_real_comparisons():
        res = NW.newtonrhapson(x0=fc, fun=fun, jac=jac, dof1=dof1, dof0=dof0, ext0=ext0, solver=solver, tol=ftol, verbose=False, maxiter=3)
    vk.ensures_zero("newtonrhapson: Res.fun[dof1] == 0", res.fun[dof1])
    vk.ensures_eq("newtonrhapson: Res.x[dof0] == ext0", vals(res.x)[dof0], ext0)
    vk.ensures_eq("newtonrhapson: Res.x[dof1] solves the reduced system", symnp.ref_einsum("ij,j->i", Ad[np.ix_(dof1, dof1)], vals(res.x)[dof1]) + symnp.ref_einsum("ij,j->i", Ad[np.ix_(dof1, dof0)], ext0), b[dof1])
    if vk.sym:
        vk.ensures_true("newtonrhapson: converged with the first update (iterations == 1, success)", res.iterations == 1 and res.success is True, f"iterations={res.iterations}", backend="exec")
        vk.canary("residual on the prescribed unknowns vanishes too", fnew[dof0], 0 * fnew[dof0])
