"""C10 / C06 -- the 3D second gradient of a plane-strain field is the 2D second gradient of the in-plane
field embedded in 3D, with zeros for every out-of-plane index.

The real `FieldPlaneStrain._hess_2d` and `FieldPlaneStrain.hess` are executed on a generic cell (free node
coordinates, the valid-cell precondition det dX/dr > 0 at the quadrature points) of real region templates
built with `hess=True`, with symbolic nodal values.  The specification is computed independently of the
region tables: the interpolated field u_i(r) = sum_a u_ai h_a(r) and the isoparametric map
X(r) = sum_a X_a h_a(r) are formed from the element's shape functions at a *symbolic* reference point
(C04 contract), differentiated twice with the spec-side derivative operator and the inverse Jacobian
(chain rule d/dX_j = sum_k (dr_k/dX_j) d/dr_k applied twice), and evaluated at the quadrature points.
"""
import numpy as np

import felupe as fem
from contracts.c06_regions import build
from vk import ring
from vk.core import contract
from vk.ring import LP, co
from vk.symnp import adj_ref, det_ref

TRUSTED = [
    "C10/plane-strain hessian: the element shape functions at a symbolic reference point are those of the C04 contract; quadrature points are the exact rationals denoted by the float tables (A1); np.pad is executed (real numpy) on exact values",
]


def _second_gradient_spec(vk, el, X, u, qp):
    """independent spec: d2u_i/dX_j dX_k at the reference points qp, shape (2, 2, 2, nq)"""
    n, dim = X.shape
    r = ring.symarray("rr", (dim,))
    h = [co(x) for x in np.asarray(el.function(r)).ravel()]
    Xr = [sum((co(X[a, i]) * h[a] for a in range(n)), LP()) for i in range(dim)]
    ur = [sum((co(u[a, i]) * h[a] for a in range(n)), LP()) for i in range(u.shape[1])]
    J = np.empty((dim, dim), dtype=object)
    for i in range(dim):
        for j in range(dim):
            J[i, j] = ring.D(Xr[i], r[j])
    G = adj_ref(J) / det_ref(J)  # G[k, j] = dr_k / dX_j

    def ddX(fr, j):
        return sum((ring.D(fr, r[k]) * G[k, j] for k in range(dim)), LP())

    nq = len(qp)
    out = np.empty((len(ur), dim, dim, nq), dtype=object)
    for i in range(len(ur)):
        for j in range(dim):
            d1 = ddX(ur[i], j)
            for k in range(dim):
                d2 = ddX(d1, k)
                for q in range(nq):
                    out[i, j, k, q] = ring.evalat(d2, {r[m]: co(float(qp[q][m])) for m in range(dim)})
    return out


CFGS = [
    dict(template="RegionQuad", cell="generic"),
    dict(template="RegionTriangle", cell="generic"),
    dict(template="RegionTriangleMINI", cell="generic"),
    dict(template="RegionQuadraticQuad", cell="affine"),
]


@contract("C10", "planestrain_hess", configs=CFGS)
def planestrain_hess(vk, cfg):
    """FieldPlaneStrain._hess_2d == true second derivative of the interpolated in-plane field;
    FieldPlaneStrain.hess == its embedding in 3x3x3 with zeros for every out-of-plane index"""
    name = cfg["template"]
    vk.real(fem.FieldPlaneStrain._hess_2d)
    vk.real(fem.FieldPlaneStrain.hess)
    region, mesh, X, geo_el, el, qp, dets, domain, space = build(vk, name, cfg["cell"] == "generic", hess=True)
    tol = None
    n, dim = X.shape
    nq = len(qp)
    u = vk.reals("u", (n, 2), near=0.0, spread=0.5)
    snap = vk.snapshot(u)
    f = fem.FieldPlaneStrain(region, dim=2, values=u)
    H2 = f._hess_2d()
    H3 = f.hess()
    if vk.sym:
        spec2 = _second_gradient_spec(vk, el, X, u, qp).reshape(2, 2, 2, nq, 1)
        spec3 = np.empty((3, 3, 3, nq, 1), dtype=object)
        spec3[...] = LP()
        spec3[:2, :2, :2] = spec2
    else:
        spec2 = np.full((2, 2, 2, nq, 1), np.nan)
        spec3 = np.full((3, 3, 3, nq, 1), np.nan)
    vk.ensures_eq("_hess_2d==d2u/dXdX of the interpolated field", H2, spec2, tol=tol)
    vk.ensures_eq("hess==2D second gradient embedded in 3D (zeros out of plane)", H3, spec3, tol=tol)
    # options: out= (written and returned by _hess_2d; documented as unusable, i.e. ignored, by hess), order=
    buf = np.zeros(H2.shape, dtype=object if vk.sym else float)
    if vk.sym:
        buf[...] = LP()
    got = f._hess_2d(out=buf)
    if vk.sym:
        vk.ensures_true("_hess_2d(out=buffer) returns the buffer", got is buf, "", backend="exec")
    vk.ensures_eq("_hess_2d(out=buffer)", buf, spec2, tol=tol)
    buf3 = np.zeros(H2.shape, dtype=object if vk.sym else float)
    if vk.sym:
        buf3[...] = LP()
    vk.ensures_eq("hess(out=, order='F')", f.hess(out=buf3, order="F"), spec3, tol=tol)
    vk.ensures_eq("_hess_2d(order='F')", f._hess_2d(order="F"), spec2, tol=tol)
    vk.frame_unchanged("nodal values", f.values, snap)
    if vk.sym:
        vk.ensures_true("hess shape (3, 3, 3, q, c)", np.shape(H3) == (3, 3, 3, nq, 1) and np.shape(H2) == (2, 2, 2, nq, 1), f"{np.shape(H3)}", backend="exec")
        # canaries: a non-zero out-of-plane entry / the naive (un-pushed) reference hessian must be refuted
        wrong = spec3.copy()
        wrong[2, 2, 2] = spec3[0, 0, 0] + 1
        vk.canary("out-of-plane entry non-zero", H3[2, 2, 2], wrong[2, 2, 2])
        if space[1] > 1 or name == "RegionQuad":
            vk.canary("hess==0", H2, 0 * H2)
