"""C17 / C08 -- the field helpers of felupe.math (`extract`, `interpolate`, `hess`, `grad`) are thin
wrappers: for every field (and every field of a container, in order) they return exactly what the field's
own method returns -- which, stated from the definitions, is the nodal values contracted with the region's
shape-function tables (h, dhdX, d2hdXdX) at every quadrature point of every cell.

The real wrappers are executed on REAL `Field` / `FieldPlaneStrain` / `FieldContainer` objects living on an
opaque region (free symbols for h, dhdX, d2hdXdX: the Region contract, C06), with symbolic nodal values.  The
postconditions are whole arrays written as explicit-loop einsums on the spec side; all flag combinations of
`extract` (grad bool / per-field list, sym, add_identity), keyword pass-through of `hess` / `grad` (out=),
and both branches of `hess` / `grad` (callable method of a field, stored attribute of a basis array).
"""
import itertools

import numpy as np

import felupe as fem
from felupe import math as M
from felupe.assembly.expression import BasisField
from vk import ring
from vk.core import contract
from vk.opaque import OpaqueRegion
from vk.ring import LP
from vk.symnp import ref_einsum

TRUSTED = [
    "C17/field wrappers: the region tables h, dhdX, d2hdXdX are free symbols (Region contract, proved from the real elements in C04/C06); np.pad is executed (real numpy) on exact values",
]

CELLS = np.array([[0, 1, 2], [1, 3, 2]])
NQ = 2


def _zeros(vk, shape):
    a = np.zeros(shape, dtype=object if vk.sym else float)
    if vk.sym:
        a[...] = LP()
    return a


def _eye(vk, d, batch):
    e = np.eye(d).reshape((d, d) + (1,) * len(batch))
    e = np.broadcast_to(e, (d, d) + tuple(batch))
    return ring.lift(np.array(e)) if vk.sym else np.array(e)


def _embed(vk, a, lead, d3=3):
    """spec: an array with `lead` leading tensor axes of size 2 embedded in size-3 axes, zeros elsewhere"""
    out = _zeros(vk, (d3,) * lead + a.shape[lead:])
    out[tuple([slice(2)] * lead)] = a
    return out


def _spec_field(vk, kind, u, rg, what):
    """value / gradient / hessian of the interpolated field from the definitions u_i = sum_a u_ai h_a"""
    uc = u[CELLS]  # (c, a, i)
    if what == "value":
        s = ref_einsum("cai,aqc->iqc", uc, rg.h)
        return _embed(vk, s, 1) if kind == "planestrain" else s
    if what == "grad":
        s = ref_einsum("cai,aJqc->iJqc", uc, rg.dhdX)
        return _embed(vk, s, 2) if kind == "planestrain" else s
    s = ref_einsum("cai,aJKqc->iJKqc", uc, rg.d2hdXdX)
    return _embed(vk, s, 3) if kind == "planestrain" else s


def _spec_extract(vk, kind, u, rg, grad, sym, add_identity):
    if not grad:
        return _spec_field(vk, kind, u, rg, "value")
    g = _spec_field(vk, kind, u, rg, "grad")
    if sym:
        g = (g + np.einsum("ij...->ji...", g)) / 2
    if add_identity:
        g = g + _eye(vk, g.shape[0], g.shape[2:])
    return g


KINDS = {"field2": (fem.Field, 2), "field3": (fem.Field, 3), "planestrain": (fem.FieldPlaneStrain, 2)}


@contract("C17", "field_wrappers", configs=[dict(kind=k) for k in KINDS])
def field_wrappers(vk, cfg):
    """math.extract / interpolate / hess / grad return, per field and in order, the field's own
    extract / interpolate / hess / grad == nodal values contracted with the region tables"""
    kind = cfg["kind"]
    cls, dim = KINDS[kind]
    for fn in (M.extract, M.interpolate, M.hess, M.grad):
        vk.real(fn)
    rg = OpaqueRegion(vk, CELLS, dim, NQ, hess=True)
    npts = rg.mesh.npoints
    u = vk.reals("u", (npts, dim), near=0.1, spread=0.4)
    p = vk.reals("p", (npts, 1), near=0.5, spread=0.4)
    f = cls(rg, dim=dim, values=u)
    g = fem.Field(rg, dim=1, values=p)
    fc = fem.FieldContainer([f, g])
    snap_u, snap_p = vk.snapshot(u), vk.snapshot(p)

    # ---- extract: container (every flag combination; bool = first field only, list = per field)
    flags = list(itertools.product((True, False), repeat=3))
    for gr, sy, ai in flags:
        tag = f"grad={int(gr)},sym={int(sy)},add_identity={int(ai)}"
        res = M.extract(fc, grad=gr, sym=sy, add_identity=ai)
        if vk.sym:
            vk.ensures_true(f"extract(container)/{tag}/one result per field, in order", isinstance(res, tuple) and len(res) == 2, f"{type(res).__name__} of length {len(res)}", backend="exec")
        vk.ensures_eq(f"extract(container)/{tag}/field0", res[0], _spec_extract(vk, kind, u, rg, gr, sy, ai))
        vk.ensures_eq(f"extract(container)/{tag}/field1==interpolated values", res[1], _spec_field(vk, "field", p, rg, "value"))
        # the same call on the single field (Field.extract)
        vk.ensures_eq(f"extract(field)/{tag}", M.extract(f, grad=gr, sym=sy, add_identity=ai), _spec_extract(vk, kind, u, rg, gr, sy, ai))
    res = M.extract(fc, grad=[False, True], sym=False, add_identity=False)
    vk.ensures_eq("extract(container)/grad=[0,1]/field0", res[0], _spec_field(vk, kind, u, rg, "value"))
    vk.ensures_eq("extract(container)/grad=[0,1]/field1", res[1], _spec_extract(vk, "field", p, rg, True, False, False))
    dflt = M.extract(fc)
    vk.ensures_eq("extract(container)/defaults==I+grad, values", dflt[0], _spec_extract(vk, kind, u, rg, True, False, True))

    # ---- interpolate
    vk.ensures_eq("interpolate(field)", M.interpolate(f), _spec_field(vk, kind, u, rg, "value"))
    vk.ensures_eq("interpolate(scalar field)", M.interpolate(g), _spec_field(vk, "field", p, rg, "value"))

    # ---- hess / grad: callable branch (field method, keywords passed through) and attribute branch
    hspec = _spec_field(vk, kind, u, rg, "hess")
    gspec = _spec_field(vk, kind, u, rg, "grad")
    vk.ensures_eq("hess(field)", M.hess(f), hspec)
    vk.ensures_eq("hess(scalar field)", M.hess(g), _spec_field(vk, "field", p, rg, "hess"))
    vk.ensures_eq("grad(field)", M.grad(f), gspec)
    vk.ensures_eq("grad(field, sym=True)", M.grad(f, sym=True), (gspec + np.einsum("ij...->ji...", gspec)) / 2)
    if kind != "planestrain":  # the plane-strain methods document that out= cannot be used (padding)
        bh, bg = _zeros(vk, hspec.shape), _zeros(vk, gspec.shape)
        rh, rgd = M.hess(f, out=bh), M.grad(f, out=bg)
        if vk.sym:
            vk.ensures_true("hess/grad(field, out=buffer) return the buffer", rh is bh and rgd is bg, "", backend="exec")
        vk.ensures_eq("hess(field, out=buffer)", bh, hspec)
        vk.ensures_eq("grad(field, out=buffer)", bg, gspec)
    else:
        vk.ensures_eq("hess(field, order='F')", M.hess(f, order="F"), hspec)
    basis = BasisField(fem.Field(rg, dim=dim, values=u)).basis
    eye = _eye(vk, dim, ())
    hb, gb = M.hess(basis), M.grad(basis)
    if vk.sym:
        vk.ensures_true("hess/grad(basis array) return the stored attribute", hb is basis.hess and gb is basis.grad, "", backend="exec")
    vk.ensures_eq("hess(basis array)==delta_ij d2h_a/dXdX", hb, ref_einsum("ij,aklqc->aijklqc", eye, rg.d2hdXdX))
    vk.ensures_eq("grad(basis array)==delta_ij dh_a/dX", gb, ref_einsum("ij,akqc->aijkqc", eye, rg.dhdX))

    # ---- n (index of the field in the container), dim (number of columns of the padded values), axis (norm): the
    # documented selection.  Container [f, g, f2]: n=2 is the LAST field, n=1 the scalar one
    for fn in (M.displacement, M.deformation_gradient, M.right_cauchy_green_deformation, M.strain, M.norm):
        vk.real(fn)
    u2 = vk.reals("u2", (npts, dim), near=-0.1, spread=0.4)
    f2 = cls(rg, dim=dim, values=u2)
    fcn = fem.FieldContainer([f, g, f2])
    last = 2

    def padded(vals, ncol):
        out = _zeros(vk, (vals.shape[0], ncol))
        out[:, : vals.shape[1]] = vals
        return out

    vk.ensures_eq("displacement(container)/defaults==values of field 0 in 3 columns", M.displacement(fcn), padded(u, 3))
    vk.ensures_eq("displacement(container, n=last)==values of the last field in 3 columns", M.displacement(fcn, n=last), padded(u2, 3))
    vk.ensures_eq("displacement(container, n=1)==scalar field with two zero columns", M.displacement(fcn, n=1), padded(p, 3))
    vk.ensures_eq("displacement(container, dim=field dimension, n=last)==the values (no column added)", M.displacement(fcn, dim=dim, n=last), u2)
    vk.ensures_eq("displacement(container, dim=5, n=last)==values in 5 columns", M.displacement(fcn, dim=5, n=last), padded(u2, 5))
    vk.ensures_eq("displacement(container, dim=1, n=1)==the scalar values", M.displacement(fcn, dim=1, n=1), p)
    F2 = _spec_extract(vk, kind, u2, rg, True, False, True)
    C2 = ref_einsum("kiqc,kjqc->ijqc", F2, F2)
    vk.ensures_eq("deformation_gradient(container, n=last)==I+grad of the last field", M.deformation_gradient(fcn, n=last), F2)
    vk.ensures_eq("deformation_gradient(container)==I+grad of field 0", M.deformation_gradient(fcn), _spec_extract(vk, kind, u, rg, True, False, True))
    vk.ensures_eq("right_cauchy_green_deformation(container, n=last)==F^T F of the last field", M.right_cauchy_green_deformation(fcn, n=last), C2)
    # norm: axis=None is the norm of the whole array, axis=k the norms along that axis; a list gives one entry per item
    # (stated through the square: the root atom is non-negative)
    G2 = _spec_field(vk, kind, u2, rg, "grad")
    n0 = M.norm(G2, axis=0)
    vk.ensures_eq("norm(A, axis=0)^2==sum over axis 0 of A^2", n0 * n0, (G2 * G2).sum(axis=0))
    n1 = M.norm([G2[0], G2[1]], axis=0)
    vk.ensures_eq("norm([A0, A1], axis=0)^2==per item: sum over axis 0", n1 * n1, np.array([(G2[0] * G2[0]).sum(axis=0), (G2[1] * G2[1]).sum(axis=0)]))
    nn = M.norm([G2[0], G2[1]])
    vk.ensures_eq("norm([A0, A1])^2==per item: sum of all squares", nn * nn, np.array([(G2[0] * G2[0]).sum(), (G2[1] * G2[1]).sum()]))
    if vk.sym:
        from vk import oracle, symnp
        from vk.ring import co

        vk.ensures_true("norm(axis=0)>=0, shape == shape without axis 0", np.shape(n0) == G2.shape[1:] and all(oracle.decide(co(x), ">=") for x in np.asarray(n0, dtype=object).ravel()), str(np.shape(n0)))
        # strain(container, n) / EvaluateFieldContainer.strain / log_strain / green_lagrange_strain (n): Seth-Hill strain
        # of the n-th field -- under the eigh contract (backend stub: the matrix handed to the backend identifies the field)
        vk.real(fem.field.EvaluateFieldContainer.strain)
        vk.real(fem.field.EvaluateFieldContainer.log_strain)
        vk.real(fem.field.EvaluateFieldContainer.green_lagrange_strain)
        seen = {}
        d3 = C2.shape[0]
        batch = C2.shape[2:]

        def backend(a, UPLO="L"):
            seen["arg"] = np.asarray(a)
            seen["w"], seen["V"] = ring.symarray("lam", batch + (d3,)), ring.symarray("vec", batch + (d3, d3))
            return seen["w"], seen["V"]

        def strain_spec(k):
            lam, N = ref_einsum("qca->aqc", seen["w"]), ref_einsum("qcia->iaqc", seen["V"])
            st = symnp._sqrt(lam)
            fk = symnp._OVERRIDES["log"](st) if k == 0 else (st**k - 1) / k
            return ref_einsum("aqc,iaqc,jaqc->ijqc", fk, N, N)

        C0 = ref_einsum("kiqc,kjqc->ijqc", _spec_extract(vk, kind, u, rg, True, False, True), _spec_extract(vk, kind, u, rg, True, False, True))
        ev = fem.field.EvaluateFieldContainer(fcn)
        symnp.LINALG_STUBS.update(eigh=backend)
        try:
            for label, call, k in (
                ("math.strain(container, n=last)", lambda: M.strain(fcn, n=last), 0),
                ("math.strain(container, k=2, n=last)", lambda: M.strain(fcn, k=2, n=last), 2),
                ("evaluate.strain(n=last)", lambda: ev.strain(n=last), 0),
                ("evaluate.strain(k=-2, n=last)", lambda: ev.strain(k=-2, n=last), -2),
                ("evaluate.log_strain(n=last)", lambda: ev.log_strain(n=last), 0),
                ("evaluate.green_lagrange_strain(n=last)", lambda: ev.green_lagrange_strain(n=last), 2),
            ):
                E_ = call()
                vk.ensures_eq(f"{label}/decomposes C of the last field", seen["arg"], ref_einsum("ijqc->qcij", C2))
                vk.ensures_eq(f"{label}==sum_a f(lambda_a) N_a (x) N_a", E_, strain_spec(k))
            M.strain(fcn)
            vk.ensures_eq("math.strain(container)/decomposes C of field 0", seen["arg"], ref_einsum("ijqc->qcij", C0))
            ev.green_lagrange_strain()
            vk.ensures_eq("evaluate.green_lagrange_strain()/decomposes C of field 0", seen["arg"], ref_einsum("ijqc->qcij", C0))
            M.strain(fcn, n=last)
            vk.canary("math.strain(container, n=last) decomposes C of field 0", seen["arg"], ref_einsum("ijqc->qcij", C0))
        finally:
            symnp.LINALG_STUBS.clear()

    # ---- frame: nothing above changes the nodal values
    vk.frame_unchanged("u", f.values, snap_u)
    vk.frame_unchanged("p", g.values, snap_p)
    if vk.sym:
        vk.canary("hess(field)==0", M.hess(f), 0 * hspec)
        vk.canary("extract==grad without identity", dflt[0], _spec_extract(vk, kind, u, rg, True, False, False))
        vk.canary("interpolate==values of the first cell point", M.interpolate(f)[0], ref_einsum("c,qc->qc", u[CELLS][:, 0, 0], 1 + 0 * rg.h[0]))
