"""C16 (continued) -- meshes that live in a `MeshContainer` are meshes: after `MeshContainer(meshes)` / `append`
(no merging) every mesh of the container refers to the container's points array, its bookkeeping describes THAT
array (npoints, ndof, points without cells = the points of the other meshes), its cells keep the coordinates they
had, and the transformations of the property applied to such meshes -- concatenation, stacking -- keep every
cell's corner coordinates (hence the covered volume and the orientation).  E1: free point coordinates."""
import numpy as np

import felupe as fem
from contracts.c20_container import _mark, _sym_meshes
from vk.core import contract

TRUSTED = ["C16/container: mesh sizes fixed (three meshes with 4..8 points, 1..2 cells); the container code applies only index-uniform numpy operations along the point and cell axes (A2)"]


@contract("C16", "container_meshes", configs=[dict(dim=2), dict(dim=3)], engine="E1")
def container_meshes(vk, cfg):
    dim = cfg["dim"]
    meshes = _sym_meshes(vk, dim)
    corners = [np.array(m.points[m.cells]) for m in meshes]
    _mark(vk, fem.MeshContainer, "__init__")
    _mark(vk, fem.MeshContainer, "append")
    vk.real(fem.mesh.concatenate)
    vk.real(fem.mesh.stack)
    cont = fem.MeshContainer(meshes, merge=False)
    ntot = sum(len(m.points) for m in meshes)
    off = 0
    for k, (m, c0) in enumerate(zip(cont.meshes, corners)):
        if vk.sym:
            ok = m.points is cont.points and m.npoints == ntot and m.ndof == ntot * dim and len(m.points) == ntot
            vk.ensures_true(f"mesh {k} of the container: points is the container's array, npoints / ndof describe it", ok, f"npoints={m.npoints} ndof={m.ndof} len(points)={len(m.points)} (container: {ntot})", backend="exec")
            own = set(range(off, off + len(meshes[k].points)))
            used = set(int(i) for i in np.unique(meshes[k].cells)) if False else set(int(i) + off for i in np.unique(meshes[k].cells))
            ok = set(int(i) for i in m.points_without_cells) == set(range(ntot)) - used and set(int(i) for i in m.points_with_cells) == used
            vk.ensures_true(f"mesh {k} of the container: points without cells == all points not used by its cells", ok, f"{sorted(int(i) for i in m.points_without_cells)}", backend="exec")
        vk.ensures_eq(f"mesh {k} of the container: cell corner coordinates unchanged", m.points[m.cells], c0)
        off += len(meshes[k].points)
    # concatenation of the container's meshes of one cell type (first and last): every cell keeps its corners
    same = [0, 2]
    cc = fem.mesh.concatenate([cont.meshes[i] for i in same])
    vk.ensures_eq("concatenate(container meshes): cell corner coordinates == those of the given meshes, in order", cc.points[cc.cells], np.concatenate([corners[i] for i in same]))
    st = cont.stack(same)
    vk.ensures_eq("stack(container meshes): cell corner coordinates == those of the given meshes, in order", st.points[st.cells], np.concatenate([corners[i] for i in same]))
    if vk.sym:
        vk.ensures_true("stack: points is the container's array", st.points is cont.points or np.array_equal(st.points, cont.points), "", backend="exec")
        vk.canary("concatenate: second block == first block", cc.points[cc.cells][len(corners[0]) :], corners[0][: len(corners[2])])
