"""C19 / C09 (post-processing of characteristic curves) -- `felupe.tools.curve(x, y, num)`.

`curve` takes the recorded per-substep abscissae x (displacements) and ordinates y (summed boundary forces, the
quantity of `tools.force`) and returns (a) the recorded data and (b) an interpolated curve for plotting.
Clause (C19 "post-processing returns the quantities it names"; C09 "reaction force recorded by a
characteristic-curve job"): (a) is EXACTLY the given entries, in order, paired index by index -- x truncated to
the number of recorded forces (a job that stopped early has more ramp values than results) -- and the inputs
are not modified; (b) runs from the first to the last recorded abscissa in `num` equidistant samples and passes
through every recorded point (linear for 2, quadratic for 3, cubic for >= 4 points: data sampled from a
polynomial of that degree are reproduced).

Ground contract: the real function is executed natively on closed sentinel data (pairwise distinct,
non-monotone ordinates, non-equidistant abscissae); (a) is decided bitwise -- the function only moves whole
arrays, so distinct sentinels are exhaustive for the data flow; (b) in tolerance form on the closed data.
"""
import numpy as np

import felupe as fem
from vk import symnp
from vk.core import contract

TRUSTED = [
    "C19 (curve): scipy.interpolate.interp1d (kinds linear / quadratic / cubic) is an assumed dependency; its interpolation property is only observed on the closed data of the contract (tolerance 1e-10)",
    "C19 (curve): a single recorded point (len(y) == 1) raises NotImplementedError inside interp1d(kind=None): no curve exists for one point; recorded as a note, no property clause",
]

CFG = [dict(n=n, extra=e, num=m, container=c) for n in (2, 3, 4, 5, 9) for e in (0, 3) for m in (None, 7) for c in ("ndarray",)] + [dict(n=4, extra=2, num=None, container="list"), dict(n=3, extra=0, num=5, container="list")]


@contract("C19", "curve", configs=CFG, engine="ground")
def curve(vk, cfg):
    if not vk.sym:
        return
    from felupe.tools._post import curve as real_curve

    vk.real(real_curve)
    n, extra, num = cfg["n"], cfg["extra"], cfg["num"]
    with symnp.native():
        rng = np.random.RandomState(100 * n + extra)
        x = np.cumsum(0.2 + rng.rand(n + extra))  # strictly increasing, not equidistant
        y = rng.permutation(np.arange(1, n + 1) * 1.25) + rng.rand(n) * 0.01  # pairwise distinct, not monotone
        x0, y0 = x.copy(), y.copy()
        xin, yin = (list(x), list(y)) if cfg["container"] == "list" else (x, y)
        kw = {} if num is None else {"num": num}
        data, interp = real_curve(xin, yin, **kw)
        m = 50 if num is None else num
        distinct = len(set(y0)) == n and len(set(x0)) == n + extra and not np.array_equal(np.sort(y0), y0)
        shape_ok = np.shape(data) == (2, n) and np.shape(interp) == (2, m)
        data_x = bool(shape_ok and np.array_equal(data[0], x0[:n]))
        data_y = bool(shape_ok and np.array_equal(data[1], y0))
        frame = bool(np.array_equal(np.asarray(xin), x0) and np.array_equal(np.asarray(yin), y0))
        ends = bool(shape_ok and interp[0][0] == x0[0] and interp[0][-1] == x0[n - 1])
        lin = bool(shape_ok and np.array_equal(interp[0], np.linspace(x0[0], x0[n - 1], num=m)))
        # (b) interpolation property: equidistant data so that the recorded abscissae are sample points
        k = min(n, 4) - 1  # polynomial degree of the interpolant
        xe = np.linspace(0.5, 2.5, n + extra)
        coef = rng.rand(k + 1) + 0.5
        ye = np.polyval(coef, xe[:n])
        ms = 3 * (n - 1) + 1
        d2, i2 = real_curve(xe, ye, num=ms)
        through = bool(np.max(np.abs(i2[1][::3] - ye)) <= 1e-10 * np.max(np.abs(ye)) and np.array_equal(d2[1], ye))
        repro = bool(np.max(np.abs(i2[1] - np.polyval(coef, i2[0]))) <= 1e-10 * np.max(np.abs(ye)))
        # non-polynomial data: still through every recorded point
        yn = np.sin(3 * xe[:n]) + 2
        d3, i3 = real_curve(xe, yn, num=ms)
        through_n = bool(np.max(np.abs(i3[1][::3] - yn)) <= 1e-10 * np.max(np.abs(yn)))
        single = None
        try:
            real_curve(x0, y0[:1])
            single = "returned"
        except NotImplementedError:
            single = "NotImplementedError"
        except Exception as e:  # noqa
            single = type(e).__name__
    vk.ensures_true("data: shapes (2, len(y)) and (2, num)", bool(shape_ok), f"{np.shape(data)} {np.shape(interp)}", backend="exec")
    vk.ensures_true("data[0]==x[:len(y)] (bitwise, in order)", data_x, "", backend="exec")
    vk.ensures_true("data[1]==y (bitwise, in order)", data_y, "", backend="exec")
    vk.ensures_true("frame: x, y not modified", frame, "", backend="exec")
    vk.ensures_true("interpolated abscissae == linspace(first, last recorded abscissa, num)", lin and ends, "", backend="exec")
    vk.ensures_true("interpolated curve passes through every recorded point (polynomial data)", through, "", backend="exec")
    vk.ensures_true("interpolated curve passes through every recorded point (general data)", through_n, "", backend="exec")
    vk.ensures_true(f"data sampled from a degree-{k} polynomial are reproduced (kind by number of points)", repro, "", backend="exec")
    vk.note(f"curve(x, y) with a single recorded point: {single} (no curve for one point; no property clause)")
    vk.canary_bool("sentinel ordinates repeat or are sorted", distinct)
    vk.canary_bool("data[1]==y reversed", not (shape_ok and np.array_equal(data[1], y0[::-1])))
