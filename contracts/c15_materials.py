"""C15 (material-history clauses) -- pseudo-elastic softening and small-strain plasticity.

* Ogden-Roxburgh (hand-coded class, against the StubMaterial contract of the base material): the stored
  maximum energy after an update is max(W, Wmax_n) on both sides of the switch (=> running maximum over
  the history by induction: Hoare composition, paper lemma); the input state array is not mutated (the
  committed state only changes through Results.update_statevars, C07); on the primary path the stress
  is the base material's; the stress depends on (F, Wmax) only, and below the maximum the state does
  not change (=> reloading retraces unloading).
* Plasticity (real return-mapping code): after a plastic update the yield condition holds,
  ||dev sigma_new|| == sqrt(2/3) (sigma_y + K alpha_new); after an elastic update f <= 0 and the plastic
  state is unchanged; the equivalent plastic strain never decreases.
"""
from fractions import Fraction

import numpy as np

import felupe as fem
from contracts import c03_materials as c03
from vk import oracle, ring
from vk.core import Skip, contract
from vk.ring import LP, co

TRUSTED = [
    "C15: 'running maximum over the history' follows from the one-step obligation statevars_new == max(W, Wmax_n) by induction over the substeps (Hoare composition, paper lemma)",
    "C15: sqrt(2/3) in the return mapping is read as the exact algebraic number (A4)",
]

# the one-step contracts of the pseudo-elastic model are those of C03 (same real code, same obligations)
contract("C15", "ogden_roxburgh", configs=[dict(path="loading"), dict(path="unloading")])(c03.ogden_roxburgh)


@contract("C15", "plasticity", configs=[dict(case="plastic"), dict(case="elastic"), dict(case="plastic+elastic"), dict(case="elastic+plastic")])
def plasticity(vk, cfg):
    """one batch call with one quadrature point per listed case (a partially plastic batch exercises the
    masked write-back of the state)"""
    from felupe.constitution.small_strain.models._linear_elastic_plastic_isotropic import linear_elastic_plastic_isotropic_hardening as plastic

    vk.real(plastic)
    vk.real(fem.constitution.MaterialStrain.gradient)
    vk.real(fem.constitution.MaterialStrain.extract)
    cases = cfg["case"].split("+")
    nq = len(cases)
    lam, mu = vk.real_scalar("lmbda", near=2.0), vk.real_scalar("mu", near=1.0)
    sy = vk.real_scalar("sy", near=0.02, spread=0.005)
    K = vk.real_scalar("K", near=0.5, spread=0.2)
    eye = np.eye(3)
    # plastic points get a large strain increment, elastic points a tiny one (only steers the sampling)
    amp = np.array([0.08 if c == "plastic" else 0.002 for c in cases])
    base = np.array([[1.0, 0.5, 0.0], [0.0, -0.7, 0.3], [0.2, 0.0, -0.2]])
    F = vk.reals("F", (3, 3, nq, 1), near=(eye[:, :, None] + base[:, :, None] * amp[None, None, :])[..., None], spread=0.001)
    eps_old = vk.reals("eps_n", (3, 3, nq), near=0.0, spread=0.0005)
    eps_old = (eps_old + np.swapaxes(eps_old, 0, 1)) / 2
    sig_old = vk.reals("sig_n", (3, 3, nq), near=0.0, spread=0.0005)
    sig_old = (sig_old + np.swapaxes(sig_old, 0, 1)) / 2
    alpha = vk.reals("alpha_n", (nq,), near=0.01, spread=0.01)
    epsp = vk.reals("epsp_n", (3, 3, nq), near=0.0, spread=0.005)
    umat = fem.constitution.MaterialStrain(material=plastic, λ=lam, μ=mu, σy=sy, K=K, dim=3, statevars=(1, (3, 3)))
    sv = np.concatenate([alpha.reshape(1, nq, 1), epsp.reshape(9, nq, 1), eps_old.reshape(9, nq, 1), sig_old.reshape(9, nq, 1)], axis=0)
    c23 = ring.nthroot(LP.const(Fraction(2, 3)), 2) if vk.sym else float(np.sqrt(2 / 3))
    if vk.sym:
        for x in (mu, sy):
            oracle.assume(x, ">")
        oracle.assume(K, ">=")
    elif min(mu, sy) <= 0 or K < 0:
        raise Skip("outside requires")
    trial = []
    for q, case in enumerate(cases):
        strain = ((F[:, :, q, 0] - eye) + (F[:, :, q, 0] - eye).T) / 2
        de = strain - eps_old[:, :, q]
        sig_tr = sig_old[:, :, q] + 2 * mu * de + lam * np.trace(de) * eye
        s = sig_tr - np.trace(sig_tr) / 3 * eye
        ss = np.sum(s * s)
        if vk.sym:
            f = ring.nthroot(co(ss), 2) - c23 * (sy + K * alpha[q])
            oracle.assume(f, ">" if case == "plastic" else "<")
            oracle.assume(alpha[q], ">=")
        else:
            f = np.sqrt(ss) - c23 * (sy + K * alpha[q])
            if (f > 0) != (case == "plastic") or abs(f) < 1e-6 or alpha[q] < 0:
                raise Skip("other side of the yield surface")
        trial.append((strain, sig_tr, s, ss, f))
    sv0 = vk.snapshot(sv)
    sv_in = sv.copy()
    sig_all, sv_new = umat.gradient([F, sv_in])
    n_ = sv.shape[0]
    for q, case in enumerate(cases):
        strain, sig_tr, s, ss, f = trial[q]
        lab = f"q{q}:{case}/"
        sig = np.asarray(sig_all)[:, :, q, 0]
        a_new = sv_new[0, q, 0]
        s_new = sig - np.trace(sig) / 3 * eye
        ss_new = np.sum(s_new * s_new)
        if case == "plastic":
            r = c23 * (sy + K * a_new)
            vk.ensures_eq(lab + "yield-condition-after-update/squared", ss_new, r * r)
            if vk.sym:
                vk.ensures_true(lab + "yield-radius>=0", oracle.decide(co(r), ">="), "sqrt(2/3)(sy + K alpha_new) >= 0", backend="oracle")
                dgam = f / (2 * mu + Fraction(2, 3) * K)
                vk.ensures_eq(lab + "alpha_new==alpha+sqrt(2/3)*dgamma", a_new, alpha[q] + c23 * dgam)
                vk.ensures_true(lab + "alpha-never-decreases", oracle.decide(co(a_new) - alpha[q], ">="), "dgamma > 0 in the plastic case", backend="oracle")
                n = s / ring.nthroot(co(ss), 2)
                vk.ensures_eq(lab + "epsp_new==epsp+dgamma*n", sv_new[1:10, q, 0], (epsp[:, :, q] + dgam * n).reshape(9))
                vk.ensures_eq(lab + "stress-return", sig, sig_tr - 2 * mu * dgam * n)
                vk.canary(lab + "alpha-unchanged", a_new, alpha[q])
            else:
                vk.ensures_eq(lab + "alpha_new==alpha+sqrt(2/3)*dgamma", a_new, 0.0)
                vk.ensures_eq(lab + "epsp_new==epsp+dgamma*n", sv_new[1:10, q, 0], np.zeros(9))
                vk.ensures_eq(lab + "stress-return", sig, sig)
        else:
            vk.ensures_eq(lab + "elastic/stress==trial", sig, sig_tr)
            vk.ensures_eq(lab + "elastic/plastic-state-unchanged", sv_new[:10, q, 0], sv[:10, q, 0])
            if vk.sym:
                vk.canary(lab + "elastic/alpha-grows", a_new, alpha[q] + 1)
        vk.ensures_eq(lab + "statevars_new/strain", sv_new[n_ - 18 : n_ - 9, q, 0], strain.reshape(9))
        vk.ensures_eq(lab + "statevars_new/stress", sv_new[n_ - 9 :, q, 0], sig.reshape(9))
    # the committed (input) state array is never written by the stress update
    vk.frame_unchanged("statevars-input", sv_in, sv0)
