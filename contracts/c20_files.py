"""C20 -- result and mesh files contain exactly what was computed.

  * E2 (loop-cut, vk/loopcut.py): the real `Job.evaluate` WITH a file name -- the Job.evaluate cut of
    contracts/c15_history.py (two nested cut loops, unbounded steps / yielded substeps) extended by a contract
    stub of the XDMF `TimeSeriesWriter` (the `meshio.xdmf.TimeSeriesWriter` the job imports is rebound) and by
    contract stubs of the data callbacks.  Clauses, from the property text: `write_points_cells` once (points
    and cells of the mesh) before any frame; one `write_data(time=k, ...)` per yielded substep with k = 0, 1,
    2, ... counting the yielded substeps ACROSS steps; no frame outside the consumption of a yielded substep
    (none after an early stop, none after the last step); point / cell data of a frame are the results of the
    default callbacks ("Displacement" / "Principal Values of Logarithmic Strain", "Logarithmic Strain",
    "Deformation Gradient") and of the custom callbacks, each called once with (field=substep.x,
    substep=substep); the real `Job._write` is executed on the abstract values.
  * E1: the real default callbacks -- `displacement` == the substep's displacement values padded to 3 columns;
    the default cell data are the quadrature-point means of the documented quantities, one row per cell.
  * E1 on stubbed meshio: `tools.save` (given displacements, first-field split of the forces, unchanged),
    `Mesh.as_meshio` / `write` (points padded to 3D, cells and cell type as they are), `mesh.read` (points cut
    to dim, cells / cell type taken from the cell blocks, arguments forwarded), `MeshContainer` (stacked
    points, shifted cells; after `merge_duplicate_points` ONE shared points array for 1, 2 and 3 meshes, cells
    renumbered consistently).
  * B (bounded, never counted): real write -> read round trips through meshio (vtk / vtu / xdmf, every
    supported cell type) and a real XDMF time series written by a real job and read back.
"""
import contextlib
import os
import tempfile

import numpy as np
import z3

import felupe as fem
import felupe.mechanics._job as JB
import felupe.mesh._container as MC
import felupe.mesh._mesh as MM
import felupe.mesh._read as MR
import felupe.tools._save as SV
from contracts import c15_history as c15
from contracts.c07_newton import _container
from vk import loopcut as lc
from vk import oracle, ring, symnp
from vk.core import contract
from vk.loopcut import SInt, SList, SSeq, Tok, Val, UF, seqlen, zval
from vk.ring import LP, co
from vk.symnp import ref_einsum

TRUSTED = [t for t in c15.TRUSTED if t.startswith("C15/E2")] + [
    "C20/E2: the Job.evaluate loop-cut of contracts/c15_history.py (explore_job) is reused with a file name; the XDMF writer is a contract stub (meshio.xdmf.TimeSeriesWriter rebound for the run): its methods are ghost events, `with` calls __enter__/__exit__; the data callbacks are contract stubs (uninterpreted functions of (field, substep)) -- the real default callbacks are verified separately (E1, this file); Step.generate is represented by its contract (C15): an abstract sequence of m <= nsubsteps yielded results",
    "C20/E2: `steps[0]` of a job is modelled with list semantics (IndexError for an empty list); verbose in {False, 2} (tqdm progress bar not modelled: display only)",
    "C20: meshio is external (A3): `meshio.Mesh(points, cells, point_data, cell_data).write(filename)`, `meshio.read`, `TimeSeriesWriter` store / return what they are handed -- the contracts prove WHAT felupe hands to / takes from meshio; the file formats themselves are only exercised by the bounded round trips",
    "C20: np.unique(points, axis=0, return_inverse=True) (duplicate detection of merge_duplicate_points) is executed by real numpy on concrete small point sets (enumerated), the container-level clause (one shared points array, each mesh swept once) is proved against the CONTRACT of the sweep (stub), i.e. for all point values; np.pad / np.split / np.vstack are executed by real numpy on exact values",
    "C20: field.evaluate.log_strain (C17 `strain` under the eigh contract) is a callee of the default cell-data callbacks: stubbed by its contract (returns the quadrature-point array it is documented to return)",
]

DATA = UF("DATA", Val, Val, Val, Val)  # result of a data callback: DATA(callback, field, substep)


def _P():
    return lc.cur()


def returns_normally(vk, what, f):
    """run the real code; an exception it raises is a REFUTED obligation ('returns normally'), not a checker error"""
    from vk.core import Skip

    try:
        out = f()
    except Exception as e:  # noqa: the real code raised
        if not vk.sym:
            raise Skip(f"{what} raised {type(e).__name__}")
        vk.ensures_true(f"{what} returns normally", False, f"{type(e).__name__}: {str(e)[:300]}", backend="exec")
        return False, None
    vk.ensures_true(f"{what} returns normally", True, "", backend="exec")
    return True, out



# =====================================================================================================
# E2: Job.evaluate with a file name
# =====================================================================================================
class WriterStub:
    """contract stub of meshio.xdmf.TimeSeriesWriter: every method is a ghost event"""

    def __init__(s, filename, *a, **kw):
        _P().event("writer_init", filename=filename, extra=(a, kw), writer=s)

    def __enter__(s):
        _P().event("writer_enter", writer=s)
        return s

    def __exit__(s, et, ev, tb):
        _P().event("writer_exit", writer=s, exc=et)
        return False

    def write_points_cells(s, points, cells, *a, **kw):
        _P().event("write_points_cells", writer=s, points=points, cells=cells, extra=(a, kw))

    def write_data(s, t=None, point_data=None, cell_data=None, *a, **kw):
        P = _P()
        G = P.ghost
        P.event("write_data", writer=s, time=t, point_data=point_data, cell_data=cell_data, n_before=G["n_write"], extra=(a, kw))
        G["n_write"] = G["n_write"] + 1


class DataStub:
    """contract stub of a point / cell data callback: an uninterpreted function of (field, substep)"""

    def __init__(s, name):
        s.name = name
        s.z = z3.Const("callback:" + name, Val)

    def __call__(s, *args, **kw):
        P = _P()
        out = Tok("data_" + s.name)
        if not args and set(kw) == {"field", "substep"}:
            P.assume(out.z == DATA(s.z, zval(kw["field"]), zval(kw["substep"])))
        P.event("data_call", cb=s, args=args, kw=kw, out=out)
        return out


DEFAULT_CB = {k: DataStub(k) for k in ("displacement", "log_strain_principal", "log_strain", "deformation_gradient")}
# documented default data: key in the file -> callback of felupe.mechanics._job
DEFAULT_POINT = {"Displacement": "displacement"}
DEFAULT_CELL = {"Principal Values of Logarithmic Strain": "log_strain_principal", "Logarithmic Strain": "log_strain", "Deformation Gradient": "deformation_gradient"}


class MeshioStub:
    def __init__(s, name):
        s.points, s.cells = Tok("points_" + name), Tok("cells_" + name)


class MeshStub:
    def __init__(s, name):
        s.name = name
        s.meshio = MeshioStub(name)

    def as_meshio(s, *a, **kw):
        _P().event("as_meshio", mesh=s, extra=(a, kw))
        return s.meshio


class RegionStub:
    def __init__(s, name):
        s.mesh = MeshStub(name)


class FieldStub(c15.Strict):
    pass


class StepsSeq(SSeq):
    """the list of steps: `steps[k]` has list semantics (IndexError beyond the end)"""

    def __getitem__(s, k):
        inside = lc.SBool(z3.And(lc._zi(k) >= 0, lc._zi(k) < s.length), "step-index-in-range")
        if inside:
            return s.elem(lc._zi(k))
        raise IndexError("list index out of range")


class FileJobStep(c15.JobStep):
    def __init__(s, env, k):
        super().__init__(env, k)
        s.items = [c15.Strict("item", field=FieldStub("field", region=RegionStub(f"step{z3.simplify(k)}")))]


class FileJobEnv(c15.JobEnv):
    def __init__(s, P, cfg, nsteps):
        super().__init__(P, cfg, nsteps)
        s.nsteps = nsteps
        s.steps = StepsSeq("steps", nsteps, lambda k: FileJobStep(s, k))
        s.job.steps = s.steps
        if s.x0 is not None:
            s.x0 = c15.X0("x0", region=RegionStub("x0"))
            s.kwargs["x0"] = s.x0
        s.filename = "result.xdmf"
        s.mesh = MeshioStub("given") if cfg["mesh"] == "given" else None
        s.custom_point = {"my point data": DataStub("custom_point")} if cfg["custom"] else None
        s.custom_cell = {"my cell data": DataStub("custom_cell"), "more": DataStub("custom_cell2")} if cfg["custom"] else None
        P.ghost["n_write"] = z3.IntVal(0)

    def call_extra(s):
        kw = dict(filename=s.filename, point_data_default=s.cfg["pdef"], cell_data_default=s.cfg["cdef"])
        if s.mesh is not None:
            kw["mesh"] = s.mesh
        if s.custom_point is not None:
            kw["point_data"], kw["cell_data"] = s.custom_point, s.custom_cell
        return kw

    def expected_mesh(s):
        """documented: mesh= if given, else the mesh of x0 if given, else of the first item of the first step"""
        if s.mesh is not None:
            return s.mesh, None
        if s.x0 is not None:
            return s.x0.region.mesh.meshio, s.x0.region.mesh
        st = s.steps.elem(z3.IntVal(0))
        m = st.items[0].field.region.mesh
        return m.meshio, m


def _file_inv(I, P, env, loc):
    G = P.ghost
    I.holds("time == number of substeps yielded so far (over ALL steps)", lc._zi(loc["time"]) == G["n_cb"])
    I.holds("one frame written per substep yielded so far", G["n_write"] == G["n_cb"])
    I.holds("one timetrack entry per substep yielded so far", seqlen(env.job.timetrack) == G["n_cb"])


_KEEP = {
    "kwargs": c15.StepsLoop.keep["kwargs"],
    "writer": "the loop body only hands `writer` to self._write; its methods are contract stubs (ghost events, ghost counter n_write)",
}


class FileStepsLoop(c15.StepsLoop):
    keep = _KEEP

    def inv(s, I, P, loc, k, k0, entry):
        super().inv(I, P, loc, k, k0, entry)
        _file_inv(I, P, s.env, loc)


class FileResultsLoop(c15.ResultsLoop):
    keep = _KEEP

    def inv(s, I, P, loc, k, k0, entry):
        super().inv(I, P, loc, k, k0, entry)
        _file_inv(I, P, s.env, loc)


def _data_claims(P, env, what, got, defaults, custom, calls, field, substep):
    """one data dict of a frame: keys, and each value is the result of ITS callback called once with (field, substep)"""
    want = {}
    for key, cbname in defaults.items():
        want[key] = DEFAULT_CB[cbname]
    for key, cb in (custom or {}).items():
        want[key] = cb
    ok_keys = isinstance(got, dict) and set(got) == set(want) and len(got) == len(want)
    P.claim("iter", f"{what}: exactly the documented default keys and the custom keys", ok_keys)
    if not ok_keys:
        return
    for key, cb in want.items():
        mine = [e for e in calls if e["cb"] is cb]
        P.claim("iter", f"{what}[{key!r}]: its callback is called exactly once for this frame, with keywords (field, substep)", len(mine) == 1 and not mine[0]["args"] and set(mine[0]["kw"]) == {"field", "substep"})
        if len(mine) == 1 and set(mine[0]["kw"]) == {"field", "substep"}:
            P.claim("iter", f"{what}[{key!r}]: the callback receives field = substep.x and the substep itself", mine[0]["kw"]["field"] is field and mine[0]["kw"]["substep"] is substep)
            P.claim("iter", f"{what}[{key!r}]: the written value is the callback's result for (substep.x, substep)", z3.And(lc.same(got[key], mine[0]["out"]), zval(got[key]) == DATA(cb.z, zval(field), zval(substep))) if isinstance(got[key], Tok) else False)


def file_post(P, env, outcome, cfg):
    G = P.ghost
    mj, mi = P.modes.get("LJ"), P.modes.get("LI")
    sj, si = P.loops.get("LJ"), P.loops.get("LI")
    W = ("writer_init", "writer_enter", "writer_exit", "write_points_cells", "write_data", "as_meshio")
    wev = P.events_of(*W)
    frames = P.events_of("write_data")
    if outcome[0] == "raise":
        e = outcome[1]
        nomesh = cfg["mesh"] == "first"
        P.claim("post_raise", "evaluate raises only for a job without steps, mesh= and x0= (there is no mesh to write): IndexError before any file is opened", isinstance(e, IndexError) and nomesh and not wev and sj is None)
        if isinstance(e, IndexError) and nomesh:
            P.claim("post_raise", "... and then the job has no steps", lc._zi(env.nsteps) <= 0)
        return
    # ---- before the first step: the file is opened and the mesh is written, once
    t_loop = sj["t_entry"] if sj else len(P.events)
    pre = [e for e in wev if e["t"] < t_loop]
    mio, msrc = env.expected_mesh()
    kinds = [e["kind"] for e in pre]
    P.claim("pre", "before the first step: [mesh.as_meshio() of the documented mesh,] writer opened on the file name, entered, write_points_cells -- once each, in this order", kinds == (["as_meshio"] if msrc is not None else []) + ["writer_init", "writer_enter", "write_points_cells"])
    if kinds[-3:] == ["writer_init", "writer_enter", "write_points_cells"]:
        wi, we, wp = pre[-3:]
        P.claim("pre", "the writer is opened with the caller's file name", wi["filename"] is env.filename and wi["extra"] == ((), {}))
        P.claim("pre", "write_points_cells(points, cells) of the documented mesh (mesh=, else x0's, else the first item's of the first step)", wp["points"] is mio.points and wp["cells"] is mio.cells and wp["writer"] is wi["writer"] and wp["extra"] == ((), {}))
        if msrc is not None and kinds[0] == "as_meshio":
            P.claim("pre", "the mesh is exported by as_meshio() of the documented mesh", pre[0]["mesh"] is msrc and pre[0]["extra"] == ((), {}))
    P.claim("frame", "write_points_cells is called exactly once", len(P.events_of("write_points_cells")) == 1)
    P.claim("frame", "the file is opened exactly once", len(P.events_of("writer_init")) == 1 and len(P.events_of("writer_enter")) == 1)
    # ---- one frame per yielded substep
    if mj in ("first", "iter") and mi in ("first", "iter"):
        body = [e for e in P.events if e["t"] >= si["t_body"]]
        gens = P.events_of("generate")
        el = gens[0]["seq"].elem(si["k"]) if gens else None
        P.claim("iter", "exactly one frame (write_data) per yielded substep", len(frames) == 1 and frames[0] in body)
        if len(frames) == 1:
            fr = frames[0]
            tz = lc._zi(fr["time"]) if isinstance(fr["time"], (int, SInt)) and not isinstance(fr["time"], bool) else None
            P.claim("iter", "frame time is an integer", tz is not None)
            if tz is not None:
                P.claim("iter", "frame time k == number of frames written before (k = 0, 1, 2, ... once per yielded substep, ACROSS steps)", tz == fr["n_before"])
                P.claim("iter", "frame time k == number of substeps yielded before this one, over all steps", tz == si["ghost_head"]["n_cb"])
                tt = env.job.timetrack
                P.claim("iter", "job.timetrack records the frame time", (lc._zi(tt.last) == tz) if isinstance(tt, SList) and tt.last is not None else (bool(tt) and lc._zi(tt[-1]) == tz if isinstance(tt, list) else False))
            P.claim("iter", "write_data gets only (time, point_data=, cell_data=) on the opened writer", fr["extra"] == ((), {}) and fr["writer"] is (P.events_of("writer_init")[0]["writer"] if P.events_of("writer_init") else None))
            calls = [e for e in body if e["kind"] == "data_call"]
            field = getattr(el, "x", None)
            _data_claims(P, env, "point_data", fr["point_data"], DEFAULT_POINT if cfg["pdef"] else {}, env.custom_point, calls, field, el)
            _data_claims(P, env, "cell_data", fr["cell_data"], DEFAULT_CELL if cfg["cdef"] else {}, env.custom_cell, calls, field, el)
            nwant = (len(DEFAULT_POINT) if cfg["pdef"] else 0) + (len(DEFAULT_CELL) if cfg["cdef"] else 0) + (3 if cfg["custom"] else 0)
            P.claim("iter", "no further data callback is called", len(calls) == nwant)
    else:
        P.claim("iter", "no frame is written outside the consumption of a yielded substep (none for substeps that were not yielded, none between / after steps)", not frames and not P.events_of("data_call"))
    if outcome[0] == "return":
        ex = P.events_of("writer_exit")
        P.claim("post_return", "the file is closed exactly once, without an exception, after everything else", len(ex) == 1 and ex[0]["exc"] is None and ex[0] is P.events[-1])
        P.claim("post_return", "frames written == substeps yielded over all steps", G["n_write"] == G["n_cb"])
        P.claim("post_return", "len(job.timetrack) == frames written", seqlen(env.job.timetrack) == G["n_write"])
        if mj == "zero":
            P.claim("post_return", "no steps: the file holds the mesh and no frame", not frames)
    c15.job_post(P, env, outcome, cfg)


def explore_file_job(cfg, assume_inv=True, target=None):
    import meshio.xdmf as MX

    saved = MX.TimeSeriesWriter
    MX.TimeSeriesWriter = WriterStub
    try:
        return c15.explore_job(cfg, assume_inv=assume_inv, target=target, env_cls=FileJobEnv, spec_classes=(FileStepsLoop, FileResultsLoop), post=file_post, overrides=dict(DEFAULT_CB), call_extra=lambda env: env.call_extra())
    finally:
        MX.TimeSeriesWriter = saved


FILE_CFGS = [dict(mesh=m, x0=x, custom=c, pdef=p, cdef=d, jobkw=k, parallel=pa, verbose=v) for m, x, c, p, d, k, pa, v in [
    ("given", False, False, True, True, False, False, False),
    ("first", False, True, True, True, True, False, 2),
    ("x0", True, True, False, True, False, False, False),
    ("given", True, False, True, False, True, True, False),
    ("first", False, True, False, False, False, True, False),
    ("x0", True, False, True, True, True, False, 2),
]]


class _RecWriter:
    """concrete recording writer for the bounded runs of the untransformed evaluate"""

    log = None

    def __init__(s, filename):
        s.log.append(("open", filename))

    def __enter__(s):
        return s

    def __exit__(s, *a):
        s.log.append(("close", a[0]))

    def write_points_cells(s, points, cells):
        s.log.append(("mesh", points, cells))

    def write_data(s, t, point_data=None, cell_data=None):
        s.log.append(("frame", t, point_data, cell_data))


@contract("C20", "Job.evaluate(filename)", configs=FILE_CFGS, engine="E2")
def job_evaluate_file(vk, cfg):
    """one frame per yielded substep, numbered 0, 1, 2, ... across steps, holding the callbacks' results"""
    if not vk.sym:
        return
    vk.real(JB.Job.evaluate)
    vk.real(JB.Job._write)
    try:
        res, holder = explore_file_job(cfg)
    except lc.Unsupported as e:
        raise oracle.Undecided(f"loop-cut engine: {e}")
    info = holder["info"]
    vk.ensures_true("rewrite: drops nothing (instrumentation stripped == original AST)", info["preserves_original"], f"{info['statements_original']} -> {info['statements_rewritten']} statements; loops {[(v['label'], v['header']) for v in info['loops'].values()]}", backend="ast")
    lc.emit(vk, "evaluate", res)
    outcomes = {(P.modes.get("LJ"), P.modes.get("LI"), lc.outcome_text(o)) for P, o in res if o[0] != "infeasible"}
    vk.note(f"Job.evaluate(filename)[{cfg}] feasible paths: " + "; ".join(f"{P.id} -> {lc.outcome_text(o)}" for P, o in res if o[0] != "infeasible"))
    want = {("exit", None, "return")} | {(a, b, "back edge " + ("LI" if b in ("first", "iter") else "LJ")) for a in ("first", "iter") for b in ("zero", "first", "iter", "exit")}
    if cfg["mesh"] != "first":
        want |= {("zero", None, "return")}
    else:
        want |= {(None, None, "raise IndexError('list index out of range')")}
    vk.ensures_true("path-cover: all combinations of outer and inner loop modes (+ the job without steps)", want <= outcomes, str(sorted(outcomes, key=str)), backend="z3")
    res2, _ = explore_file_job(cfg, assume_inv=False)
    vk.canary_bool("Inv dropped (havoc without assume) must break an obligation", lc.refuted_any(res2) is not None)
    bad = 0
    for P, o in res:
        fr = P.events_of("write_data")
        if P.modes.get("LJ") == "iter" and P.modes.get("LI") in ("iter", "first") and fr and isinstance(fr[0]["time"], (int, SInt)):
            P.claims = [{"kind": "canary", "name": "frame time == substep index within the step", "claim": lc._zi(fr[0]["time"]) == P.loops["LI"]["k"], "pc": list(P.pc)}]
            bad += lc.refuted_any([(P, o)]) is not None
    vk.canary_bool("frame time restarts in every step (time == i)", bad >= 1)
    # bounded cross-check: the UNTRANSFORMED evaluate, recording writer, scripted step generators
    import meshio.xdmf as MX

    n, fails = 0, []
    for shape in [(), (0,), (2,), (1, 0, 2), (3, 1), (2, 2, 2)]:
        if not shape and cfg["mesh"] == "first":
            continue
        log = []
        mesh_obj = type("M", (), {"points": object(), "cells": object()})()
        src = type("Src", (), {"as_meshio": lambda s: mesh_obj})()
        region = type("R", (), {"mesh": src})()

        class S:
            def __init__(s, j, m):
                s.j, s.m, s.nsubsteps = j, m, m + 1
                s.items = [type("I", (), {"field": type("F", (), {"region": region})()})()]

            def generate(s, **kw):
                for i in range(s.m):
                    r = type("R", (), {})()
                    r.fnorms, r.x, r.tag = [0.0], ("x", s.j, i), (s.j, i)
                    yield r

        class X:
            region = None

            def link(s, other=None):
                pass

        x0 = X() if cfg["x0"] else None
        if x0 is not None:
            x0.region = region
        kw = {"x0": x0} if x0 is not None else {}
        if cfg["mesh"] == "given":
            kw["mesh"] = mesh_obj
        if cfg["custom"]:
            kw["point_data"] = {"my point data": lambda field, substep: ("cp", field, substep.tag)}
            kw["cell_data"] = {"my cell data": lambda field, substep: ("cc", field, substep.tag)}
        names = ("displacement", "log_strain_principal", "log_strain", "deformation_gradient")
        saved = {nm: getattr(JB, nm) for nm in names}
        saved_w = MX.TimeSeriesWriter
        _RecWriter.log = log
        MX.TimeSeriesWriter = _RecWriter
        for nm in names:
            setattr(JB, nm, (lambda nm: lambda field, substep=None: (nm, field, substep.tag))(nm))
        try:
            job = fem.Job(steps=[S(j, m) for j, m in enumerate(shape)], **({"tag": 7} if cfg["jobkw"] else {}))
            c15._silently(lambda: JB.Job.evaluate(job, filename="f.xdmf", point_data_default=cfg["pdef"], cell_data_default=cfg["cdef"], verbose=cfg["verbose"], parallel=cfg["parallel"], **kw))
        finally:
            MX.TimeSeriesWriter = saved_w
            for nm in names:
                setattr(JB, nm, saved[nm])
        exp = [("open", "f.xdmf"), ("mesh", mesh_obj.points, mesh_obj.cells)]
        k = 0
        for j, m in enumerate(shape):
            for i in range(m):
                pd = {key: (cb, ("x", j, i), (j, i)) for key, cb in (DEFAULT_POINT if cfg["pdef"] else {}).items()}
                cd = {key: (cb, ("x", j, i), (j, i)) for key, cb in (DEFAULT_CELL if cfg["cdef"] else {}).items()}
                if cfg["custom"]:
                    pd["my point data"] = ("cp", ("x", j, i), (j, i))
                    cd["my cell data"] = ("cc", ("x", j, i), (j, i))
                exp.append(("frame", k, pd, cd))
                k += 1
        exp.append(("close", None))
        n += 1
        if log != exp or job.timetrack != list(range(k)):
            fails.append({"input": {"yielded substeps per step": list(shape), "cfg": dict(cfg)}, "outcome": "writer log " + str([(e[0], e[1]) for e in log])[:400], "bad": ["frame time k == number of frames written before (k = 0, 1, 2, ... once per yielded substep, ACROSS steps)"]})
    lc.attach_replays(vk, "evaluate", fails)
    vk.bounded_standin("untransformed Job.evaluate(filename) with a recording writer on scripted step generators: open, mesh, frames 0..N-1 with the callbacks' results, close", "<= 3 steps, <= 3 yielded substeps each", n, not fails, "; ".join(str(f_["input"]) for f_ in fails))


# =====================================================================================================
# E1: the default data callbacks of the job
# =====================================================================================================
def _fields(vk, kind):
    """a REAL FieldContainer on a small real mesh (built natively) holding arbitrary symbolic values"""
    if kind in ("u2", "mixed3", "u1"):
        return _container(vk, kind)
    with symnp.native():
        if kind == "planestrain":
            region = fem.RegionQuad(fem.Rectangle(n=(3, 2)))
            fc = fem.FieldContainer([fem.FieldPlaneStrain(region, dim=2)])
        elif kind == "u3":
            region = fem.RegionHexahedron(fem.Cube(n=2))
            fc = fem.FieldContainer([fem.Field(region, dim=3)])
        elif kind == "tri":
            region = fem.RegionTriangle(fem.Rectangle(n=2).triangulate())
            fc = fem.FieldContainer([fem.Field(region, dim=2)])
        else:
            raise KeyError(kind)
    for k, fld in enumerate(fc.fields):
        fld.values = vk.reals(f"u{k}", fld.values.shape, near=0.05 * (k + 1), spread=0.1)
    return fc


def _native_copy(fc, rng):
    """float copy of a container (same real region) with small random values"""
    cls = type(fc.fields[0])
    region = fc.fields[0].region
    f0 = cls(region, dim=fc.fields[0].dim, values=rng.uniform(-0.1, 0.1, fc.fields[0].values.shape))
    return fem.FieldContainer([f0])


class _Substep:
    """a substep as the callbacks see it: only `.x` exists (the callbacks must not need more)"""

    def __init__(s, x):
        s.x = x


@contract("C20", "default_point_data", configs=[dict(field=k) for k in ("u1", "u2", "planestrain", "u3", "mixed3")], engine="E1")
def default_point_data(vk, cfg):
    """point_data['Displacement'] == the substep's displacement field values padded with zero columns to 3"""
    vk.real(JB.displacement)
    vk.real(fem.math.displacement)
    fc = _fields(vk, cfg["field"])
    u = fc.fields[0].values
    snap = vk.snapshot(u)
    ok, out = returns_normally(vk, "displacement(field, substep)", lambda: JB.displacement(field=fc, substep=_Substep(fc)))
    if not ok:
        return
    n, d = u.shape
    spec = np.zeros((n, 3), dtype=object if vk.sym else float)
    if vk.sym:
        spec[...] = LP()
    spec[:, :d] = snap
    if vk.sym:
        vk.ensures_true("Displacement has one row per mesh point and 3 columns", np.shape(out) == (n, 3), str(np.shape(out)), backend="exec")
        vk.ensures_true("the written array does not alias the field values (a later substep cannot change a written frame)", not np.shares_memory(np.asarray(out), u), "", backend="exec")
    vk.ensures_eq("Displacement == [u, 0] (values of the first field, zero-padded to 3 columns)", out, spec)
    vk.frame_unchanged("field values", u, snap)
    if vk.sym:
        vk.canary("Displacement pads in front / is doubled", np.asarray(out)[:, -d:], snap if d < 3 else 2 * snap)


class _EvalStub:
    """field.evaluate of a container: log_strain is a callee (C17 `strain` under the eigh contract) -- stub
    returning the array it is documented to return: principal values (3, q, c) ascending (eigvalsh order) /
    Voigt components (6, q, c)"""

    def __init__(s, vk, nq, nc):
        s.vk, s.nq, s.nc, s.calls = vk, nq, nc, []

    def log_strain(s, *args, **kw):
        s.calls.append((args, dict(kw)))
        tensor, voigt = kw.get("tensor", True), kw.get("asvoigt", False)
        if not tensor:
            s.last = s.vk.reals("lnl", (3, s.nq, s.nc), near=0.1, spread=0.3)
        elif voigt:
            s.last = s.vk.reals("lnV", (6, s.nq, s.nc), near=0.1, spread=0.3)
        else:
            s.last = s.vk.reals("lnT", (3, 3, s.nq, s.nc), near=0.1, spread=0.3)
        return s.last


def _mean_q(vk, a, axis):
    """spec: arithmetic mean over the quadrature-point axis"""
    a = np.asarray(a, dtype=object if vk.sym else float)
    nq = a.shape[axis]
    tot = 0
    for q in range(nq):
        tot = tot + np.take(a, q, axis=axis)
    return tot / nq


@contract("C20", "default_cell_data", configs=[dict(field=k) for k in ("u2", "planestrain", "u3", "tri", "mixed3")] + [dict(field="stub", nq=q, nc=c) for q, c in ((1, 1), (4, 2), (3, 3))], engine="E1")
def default_cell_data(vk, cfg):
    """default cell data: one row per cell holding the mean over the cell's quadrature points of the deformation
    gradient (3x3), of the logarithmic strain (6 Voigt components) and of its principal values (descending)"""
    vk.real(JB.deformation_gradient)
    vk.real(JB.log_strain)
    vk.real(JB.log_strain_principal)
    if cfg["field"] == "stub":
        nq, nc = cfg["nq"], cfg["nc"]

        class F:
            pass

        f = F()
        f.evaluate = _EvalStub(vk, nq, nc)
        ok, out = returns_normally(vk, "log_strain_principal(field, substep)", lambda: JB.log_strain_principal(field=f, substep=_Substep(f)))
        if not ok:
            return
        Lp = f.evaluate.last
        okp = f.evaluate.calls == [((), {"tensor": False})]
        if vk.sym:
            vk.ensures_true("principal values: returns a list with ONE array of shape (ncells, 3)", isinstance(out, list) and len(out) == 1 and np.shape(out[0]) == (nc, 3), str(np.shape(out[0])), backend="exec")
            vk.ensures_true("principal values: taken from field.evaluate.log_strain(tensor=False)", okp, str(f.evaluate.calls), backend="exec")
        vk.ensures_eq("Principal Values of Logarithmic Strain[c, k] == mean_q of the k-th LARGEST principal logarithmic strain", out[0], ref_einsum("kc->ck", _mean_q(vk, Lp, 1)[::-1]))
        f.evaluate.calls.clear()
        ok, out = returns_normally(vk, "log_strain(field, substep)", lambda: JB.log_strain(field=f, substep=_Substep(f)))
        if not ok:
            return
        Lv = f.evaluate.last
        if vk.sym:
            vk.ensures_true("logarithmic strain: ONE array of shape (ncells, 6), from log_strain(tensor=True, asvoigt=True)", isinstance(out, list) and len(out) == 1 and np.shape(out[0]) == (nc, 6) and f.evaluate.calls == [((), {"tensor": True, "asvoigt": True})], str(f.evaluate.calls), backend="exec")
        vk.ensures_eq("Logarithmic Strain[c, v] == mean_q of the v-th Voigt component", out[0], ref_einsum("vc->cv", _mean_q(vk, Lv, 1)))
        if vk.sym:
            vk.canary("principal values are written in ascending order", JB.log_strain_principal(field=f)[0], ref_einsum("kc->ck", _mean_q(vk, f.evaluate.last, 1)))
        return
    vk.real(fem.math.deformation_gradient)
    vk.real(fem.Field.extract)
    fc = _fields(vk, cfg["field"])
    fld = fc.fields[0]
    region = fld.region
    u = fld.values
    snap = vk.snapshot(u)
    ok, out = returns_normally(vk, "deformation_gradient(field, substep)", lambda: JB.deformation_gradient(field=fc, substep=_Substep(fc)))
    if not ok:
        return
    with symnp.native():
        dhdX = np.asarray(region.dhdX, dtype=float)
        cells = np.asarray(region.mesh.cells)
    nc, npc = cells.shape
    dim = u.shape[1]
    nq = dhdX.shape[2]
    dh = ring.lift(dhdX) if vk.sym else dhdX
    if dh.shape[-1] == 1 and nc > 1:
        dh = np.broadcast_to(dh, dh.shape[:-1] + (nc,))
    # spec: F = I + sum_a u_a (x) dh_a/dX per quadrature point (C06 field contract), 3x3 (plane strain: F33 = 1)
    Fm = np.zeros((nc, 3, 3), dtype=object if vk.sym else float)
    if vk.sym:
        Fm[...] = LP()
    for c in range(nc):
        for i in range(3):
            Fm[c, i, i] = Fm[c, i, i] + 1
        for i in range(dim):
            for j in range(dim):
                Fm[c, i, j] = Fm[c, i, j] + sum(u[cells[c, a], i] * dh[a, j, q, c] for a in range(npc) for q in range(nq)) / nq
    d_out = 3 if (dim == 3 or isinstance(fld, fem.FieldPlaneStrain)) else dim
    if vk.sym:
        vk.ensures_true("deformation gradient: ONE array with one row (d x d tensor) per cell", isinstance(out, list) and len(out) == 1 and np.shape(out[0]) == (nc, d_out, d_out), str(np.shape(out[0])), backend="exec")
    vk.ensures_eq("Deformation Gradient[c] == mean over the quadrature points of cell c of I + sum_a u_a (x) dh_a/dX", out[0], Fm[:, :d_out, :d_out])
    vk.frame_unchanged("field values", u, snap)
    if vk.sym:
        vk.canary("Deformation Gradient is transposed", out[0], np.swapaxes(Fm[:, :d_out, :d_out], 1, 2))
        # bounded: the callee contract used for the log-strain callbacks (principal values ascending, Voigt order
        # xx, yy, zz, 2xy, 2yz, 2xz: engineering shear, felupe's documented strain convention) against an independent numpy computation on random small displacements
        bad, evals = [], 0
        with symnp.native():
            rng = np.random.default_rng(7)
            for trial in range(3):
                fc2 = _native_copy(fc, rng)
                Fq = fc2.extract()[0]
                d_ = Fq.shape[0]
                C = np.einsum("kiqc,kjqc->qcij", Fq, Fq)
                w, N = np.linalg.eigh(C)
                lnl = 0.5 * np.log(w)  # ascending
                lnU = np.einsum("qca,qcia,qcja->qcij", lnl, N, N)
                want_p = lnl[..., ::-1].mean(0)
                vo = [(0, 0), (1, 1), (2, 2), (0, 1), (1, 2), (0, 2)] if d_ == 3 else [(0, 0), (1, 1), (0, 1)]
                want_v = np.stack([(1 if i == j else 2) * lnU[..., i, j].mean(0) for i, j in vo], axis=-1)  # felupe's strain Voigt convention: shear doubled
                got_p, got_v = JB.log_strain_principal(fc2)[0], JB.log_strain(fc2)[0]
                evals += 1
                if got_p.shape != want_p.shape or not np.allclose(got_p, want_p, atol=1e-12):
                    bad.append(f"principal values differ (trial {trial})")
                if got_v.shape != want_v.shape or not np.allclose(got_v, want_v, atol=1e-12):
                    bad.append(f"Voigt log strain differs (trial {trial}): {got_v.shape} vs {want_v.shape}")
        vk.bounded_standin("log-strain cell data of the real field == quadrature-point mean of ln U (principal values descending; Voigt xx, yy, zz, 2xy, 2yz, 2xz) computed independently with numpy", "3 random displacement states on the small mesh", evals, not bad, "; ".join(bad[:3]))


# =====================================================================================================
# E1 on stubbed meshio: tools.save, Mesh.as_meshio / write, mesh.read
# =====================================================================================================
class MeshioRecorder:
    """stand-in for the `meshio` module attributes felupe uses: records what it is handed (contract: meshio
    stores / returns what it is given)"""

    def __init__(s):
        s.made, s.written, s.reads, s.to_read = [], [], [], None
        rec = s

        class Mesh:
            def __init__(m, *args, **kw):
                m.args, m.kw = args, kw
                rec.made.append(m)

            def write(m, *args, **kw):
                rec.written.append((m, args, kw))

        class CellBlock:
            def __init__(b, type, data):
                b.type, b.data = type, data

        s.Mesh, s.CellBlock = Mesh, CellBlock

    def read(s, *args, **kw):
        s.reads.append((args, kw))
        return s.to_read


@contextlib.contextmanager
def stubbed_meshio(rec):
    import meshio

    saved = (meshio.Mesh, meshio.read, meshio.CellBlock)
    meshio.Mesh, meshio.read, meshio.CellBlock = rec.Mesh, rec.read, rec.CellBlock
    try:
        yield rec
    finally:
        meshio.Mesh, meshio.read, meshio.CellBlock = saved


@contract("C20", "tools.save", configs=[dict(field=k, forces=f, extra=e) for k, f, e in [("u2", "1d", False), ("u2", "none", True), ("mixed3", "1d", True), ("mixed3", "column", False), ("u3", "1d", False), ("planestrain", "1d", True)]], engine="E1")
def tools_save(vk, cfg):
    """the arrays handed to meshio.Mesh are the mesh, the GIVEN displacement values and the first-field split of
    the forces (reshaped to the displacement's shape), unchanged; cell / extra point data are passed through"""
    vk.real(SV.save)
    fc = _fields(vk, cfg["field"])
    region = fc.fields[0].region
    u = fc.fields[0].values
    ntot = int(sum(fc.fieldsizes))
    nu = int(fc.fieldsizes[0])
    forces = None
    if cfg["forces"] != "none":
        forces = vk.reals("f", (ntot,) if cfg["forces"] == "1d" else (ntot, 1), near=0.3, spread=1.0)
    snap_u = vk.snapshot(u)
    snap_f = vk.snapshot(forces) if forces is not None else None
    own_pd = {"Temperature": vk.reals("T", (u.shape[0],), near=20.0, spread=5.0)} if cfg["extra"] else None
    own_cd = {"Marker": [np.arange(region.mesh.ncells)]} if cfg["extra"] else None
    own_T = own_pd["Temperature"] if own_pd else None
    with stubbed_meshio(MeshioRecorder()) as rec:
        ok, ret = returns_normally(vk, "save(region, field, forces=...)", lambda: SV.save(region, fc, forces=forces, filename="out.vtu", **({"point_data": own_pd, "cell_data": own_cd} if cfg["extra"] else {})))
    if not ok:
        return
    ok = len(rec.made) == 1 and len(rec.written) == 1
    if vk.sym:
        vk.ensures_true("exactly one meshio.Mesh is created and written once to the given file name", ok and rec.written[0][0] is rec.made[0] and rec.written[0][1:] == (("out.vtu",), {}) and ret is None, f"{len(rec.made)} meshes, {len(rec.written)} writes", backend="exec")
    if not ok:
        return
    m = rec.made[0]
    kw = m.kw
    pd = kw.get("point_data") or {}
    if vk.sym:
        vk.ensures_true("meshio.Mesh(points=, cells=, point_data=, cell_data=): keyword arguments only", not m.args and set(kw) == {"points", "cells", "point_data", "cell_data"}, str(sorted(kw)), backend="exec")
        vk.ensures_true("points are the region's mesh points (the array itself), cells == [(cell_type, mesh.cells)] (the array itself)", kw.get("points") is region.mesh.points and isinstance(kw.get("cells"), list) and len(kw["cells"]) == 1 and kw["cells"][0][0] == region.mesh.cell_type and kw["cells"][0][1] is region.mesh.cells, "", backend="exec")
        want = {"Displacements"} | ({"Reaction Force"} if forces is not None else set()) | ({"Temperature"} if cfg["extra"] else set())
        vk.ensures_true("point data keys: Displacements [, Reaction Force] [, the caller's]", set(pd) == want, str(sorted(pd)), backend="exec")
        vk.ensures_true("cell data are the caller's, passed through", kw.get("cell_data") is own_cd, "", backend="exec")
        if cfg["extra"]:
            vk.ensures_true("the caller's point data array is passed through (the array itself)", pd.get("Temperature") is own_T, "", backend="exec")
    vk.ensures_eq("point_data['Displacements'] == the given displacement values, unchanged", pd["Displacements"], snap_u)
    if forces is not None:
        vk.ensures_eq("point_data['Reaction Force'] == forces[:size of the first field] in the shape of the displacements, unchanged", pd["Reaction Force"], np.asarray(snap_f).ravel()[:nu].reshape(u.shape))
        vk.frame_unchanged("forces", forces, snap_f)
        if vk.sym:
            vk.canary("Reaction Force is the force vector read backwards", pd["Reaction Force"], np.asarray(snap_f).ravel()[::-1][:nu].reshape(u.shape))
    vk.frame_unchanged("field values", u, snap_u)
    if vk.sym and forces is None:
        vk.canary("Displacements are doubled", pd["Displacements"], 2 * snap_u)
    if cfg["extra"]:
        # a series of results saved with ONE dict of extra point data (a job callback does that): every file carries the
        # displacements of ITS call, whatever an earlier call left in the caller's dict
        fc2 = _fields(vk, cfg["field"])
        u2 = vk.reals("u_second", u.shape, near=0.1, spread=0.5)
        fc2.fields[0].values = u2
        with stubbed_meshio(MeshioRecorder()) as rec2:
            ok2, _ = returns_normally(vk, "save(region, second field, point_data=<the same dict>)", lambda: SV.save(fc2.fields[0].region, fc2, forces=forces, filename="out2.vtu", point_data=own_pd, cell_data=own_cd))
        if ok2 and len(rec2.made) == 1:
            pd2 = rec2.made[0].kw.get("point_data") or {}
            vk.ensures_eq("second save with the same point_data dict: Displacements == the values given to THAT call", pd2["Displacements"], u2)
            if vk.sym:
                vk.ensures_true("second save: the caller's point data array is still passed through", pd2.get("Temperature") is own_T, "", backend="exec")


@contract("C20", "Mesh.as_meshio_write", configs=[dict(dim=d, cell=c, kw=k) for d, c, k in [(1, "line", False), (2, "quad", True), (2, "triangle6", False), (3, "tetra", False), (3, "hexahedron", True)]], engine="E1")
def mesh_as_meshio(vk, cfg):
    """Mesh.as_meshio hands meshio the points padded with zero columns to 3D and {cell_type: cells};
    Mesh.write = as_meshio(**kwargs).write(filename)"""
    vk.real(fem.Mesh.as_meshio)
    vk.real(fem.Mesh.write)
    dim = cfg["dim"]
    npc = {"line": 2, "quad": 4, "triangle6": 6, "tetra": 4, "hexahedron": 8}[cfg["cell"]]
    n = npc + 1
    X = vk.reals("X", (n, dim), near=np.arange(n * dim).reshape(n, dim) * 0.37, spread=0.3)
    cells = np.array([list(range(npc)), list(range(1, npc + 1))])
    mesh = fem.Mesh(X, cells, cfg["cell"])
    snap = vk.snapshot(mesh.points)
    extra = {"point_data": {"a": np.arange(n)}} if cfg["kw"] else {}
    with stubbed_meshio(MeshioRecorder()) as rec:
        ok, out = returns_normally(vk, "as_meshio(); write()", lambda: (mesh.as_meshio(**extra), mesh.write("mesh.vtu", **extra))[0])
    if not ok:
        return
    ok = len(rec.made) == 2 and len(rec.written) == 1
    if vk.sym:
        vk.ensures_true("as_meshio returns the meshio.Mesh it created; write creates one more and writes it once to the file name", ok and out is rec.made[0] and rec.written[0][0] is rec.made[1] and rec.written[0][1:] == (("mesh.vtu",), {}), f"{len(rec.made)} {len(rec.written)}", backend="exec")
    if not ok:
        return
    spec = np.zeros((n, 3), dtype=object if vk.sym else float)
    if vk.sym:
        spec[...] = LP()
    spec[:, :dim] = snap
    for tag, m in (("as_meshio", rec.made[0]), ("write", rec.made[1])):
        if vk.sym:
            vk.ensures_true(f"{tag}: meshio.Mesh(points=, cells={{cell_type: cells}}, **kwargs): the mesh's own cells array under its own cell type, kwargs forwarded", not m.args and set(m.kw) == {"points", "cells", *extra} and isinstance(m.kw["cells"], dict) and list(m.kw["cells"]) == [cfg["cell"]] and m.kw["cells"][cfg["cell"]] is mesh.cells and all(m.kw[k] is extra[k] for k in extra), str(sorted(m.kw)), backend="exec")
            vk.ensures_true(f"{tag}: points have 3 columns", np.shape(m.kw["points"]) == (n, 3), str(np.shape(m.kw["points"])), backend="exec")
        vk.ensures_eq(f"{tag}: points == [X, 0] (padded to 3D)", m.kw["points"], spec)
    vk.frame_unchanged("mesh.points", mesh.points, snap)
    if vk.sym:
        vk.ensures_true("mesh.cells untouched", np.array_equal(mesh.cells, cells), "", backend="exec")
        vk.canary("points are padded in front", np.asarray(rec.made[0].kw["points"])[:, -dim:], snap if dim < 3 else 2 * snap)


READ_CFGS = [dict(nblocks=b, dim=d, cellblock=c) for b, d, c in [(1, None, "none"), (1, 2, "none"), (2, 2, "none"), (3, None, "none"), (3, 2, "int"), (3, 1, "slice"), (2, 3, "int"), (3, 2, "int0"), (2, None, "int0"), (3, None, "slice0")]]


@contract("C20", "mesh.read", configs=READ_CFGS, engine="E1")
def mesh_read(vk, cfg):
    """mesh.read: arguments forwarded to meshio.read; every selected cell block becomes a mesh with the block's
    cells / cell type on the file's points cut to `dim`; in the container each mesh's cells refer to the same
    coordinates as in the file (points stacked block by block, cells shifted accordingly)"""
    vk.real(MR.read)
    vk.real(fem.MeshContainer.__init__)
    vk.real(fem.MeshContainer.append)
    n = 5
    pts = vk.reals("P", (n, 3), near=np.arange(n * 3).reshape(n, 3) * 0.21, spread=0.3)
    types = ["quad", "triangle", "line"][: cfg["nblocks"]]
    datas = [np.array([[0, 1, 2, 3], [1, 2, 3, 4]]), np.array([[0, 1, 2], [2, 3, 4], [4, 0, 1]]), np.array([[0, 4]])][: cfg["nblocks"]]
    rec = MeshioRecorder()

    class FileMesh:
        points = pts
        cells = [rec.CellBlock(t, d.copy()) for t, d in zip(types, datas)]

    rec.to_read = FileMesh()
    sel = {"none": None, "int": cfg["nblocks"] - 1, "slice": slice(1, 3), "int0": 0, "slice0": slice(0, 1)}[cfg["cellblock"]]  # 0: a falsy but valid selection
    chosen = list(range(cfg["nblocks"])) if sel is None else ([sel] if isinstance(sel, int) else list(range(cfg["nblocks"]))[sel])
    snap = vk.snapshot(pts)
    with stubbed_meshio(rec):
        ok, cont = returns_normally(vk, "mesh.read(...)", lambda: MR.read("some.vtu", file_format="vtu", dim=cfg["dim"], **({} if sel is None else {"cellblock": sel})))
    if not ok:
        return
    dim = 3 if cfg["dim"] is None else cfg["dim"]
    if vk.sym:
        vk.ensures_true("meshio.read is called once with the file name and the file format", rec.reads == [((), {"filename": "some.vtu", "file_format": "vtu"})], str(rec.reads), backend="exec")
        vk.ensures_true("one mesh per selected cell block, in order, with the block's cell type", isinstance(cont, fem.MeshContainer) and [m.cell_type for m in cont.meshes] == [types[k] for k in chosen], str([m.cell_type for m in cont.meshes]), backend="exec")
        vk.ensures_true("every mesh refers to the container's ONE points array", all(m.points is cont.points for m in cont.meshes), "", backend="exec")
        vk.ensures_true("points are cut to dim columns", cont.points.shape[1] == dim and cont.dim == dim, str(cont.points.shape), backend="exec")
    cut = np.asarray(snap)[:, :dim]
    for i, (m, k) in enumerate(zip(cont.meshes, chosen)):
        if vk.sym:
            vk.ensures_true(f"mesh {i}: cells have the shape of block {k}'s and are the block's cells shifted by the points stacked before", m.cells.shape == datas[k].shape and np.array_equal(m.cells, datas[k] + i * n), str(m.cells.tolist()), backend="exec")
        if m.cells.shape == datas[k].shape:
            vk.ensures_eq(f"mesh {i}: every cell refers to the coordinates it has in the file (block {k}), cut to dim", np.asarray(cont.points)[m.cells], cut[datas[k]])
    vk.ensures_eq("container points == the file's points (cut to dim) stacked once per selected block", cont.points, np.concatenate([cut] * len(chosen)))
    vk.frame_unchanged("the points read from the file", pts, snap)
    if vk.sym:
        vk.ensures_true("the cell arrays read from the file are not modified", all(np.array_equal(b.data, d) for b, d in zip(FileMesh.cells, datas)), "", backend="exec")
        if dim < 3:
            vk.canary("points are cut from the front", np.asarray(cont.points)[:n], np.asarray(snap)[:, -dim:])
        else:
            vk.canary("points are doubled", np.asarray(cont.points)[:n], 2 * cut)
        vk.note("mesh.read(cellblock=[i, ...]) (the documented 'list of int') raises TypeError: `m.cells[cellblock]` indexes a Python list with a list; int and slice work.  A file without cell blocks raises IndexError in Mesh(points, zeros((0, 0)), None).  Reported; outside the statement of C20")


# =====================================================================================================
# MeshContainer: stacked points, merge => ONE shared points array, consistent renumbering
# =====================================================================================================
def _exec_replay(point, expected, actual):
    """replay record of a ground obligation decided by executing the real code on a concrete input"""
    return {"kind": "exec", "confirmed": True, "point": point, "expected": expected, "actual": actual}


def _rows(a, decimals=None):
    a = np.asarray(a, dtype=float)
    if decimals is not None:
        a = np.round(a, decimals)
    return [tuple(r) for r in a.tolist()]


def _concrete_meshes(nmesh, jitter):
    """small concrete meshes with duplicate points between (and inside) them; jitter: duplicates differ by 1e-7"""
    e = 1e-7 if jitter else 0.0
    m1 = fem.Mesh(np.array([[0.0, 0.0], [1.0, 0.0], [1.0, 1.0], [0.0, 1.0], [1.0 + e, 1.0]]), np.array([[0, 1, 2, 3], [0, 1, 4, 3]]), "quad")
    m2 = fem.Mesh(np.array([[1.0 + e, 0.0], [2.0, 0.0], [1.0, 1.0 - e], [2.0, 1.0]]), np.array([[0, 1, 2], [1, 3, 2]]), "triangle")
    m3 = fem.Mesh(np.array([[2.0, 1.0 + e], [2.0, 0.0], [3.0, 0.5]]), np.array([[0, 1], [1, 2]]), "line")
    return [m1, m2, m3][:nmesh]


CONT_CFGS = [dict(nmesh=k, mode=m) for k in (1, 2, 3) for m in ("stack", "merge-contract", "merge-real")]


@contract("C20", "MeshContainer", configs=CONT_CFGS, engine="E1")
def mesh_container(vk, cfg):
    """after merging, every mesh of the container refers to ONE shared points array (identity) -- the merged
    points -- and the cells are renumbered consistently (each cell keeps its coordinates)"""
    vk.real(fem.MeshContainer.__init__)
    vk.real(fem.MeshContainer.append)
    vk.real(fem.MeshContainer.merge_duplicate_points)
    k = cfg["nmesh"]
    if cfg["mode"] in ("stack", "merge-contract"):
        sizes = [3, 4, 2][:k]
        types = ["triangle", "quad", "line"][:k]
        Xs = [vk.reals(f"X{i}", (n_, 2), near=np.arange(n_ * 2).reshape(n_, 2) * 0.3 + i, spread=0.2) for i, n_ in enumerate(sizes)]
        cs = [np.arange(n_).reshape(1, n_) for n_ in sizes]
        ins = [fem.Mesh(X, c, t) for X, c, t in zip(Xs, cs, types)]
        ok, cont = returns_normally(vk, "MeshContainer(meshes)", lambda: fem.MeshContainer(ins))
        if not ok:
            return
        offs = np.insert(np.cumsum(sizes), 0, 0)
        if cfg["mode"] == "stack":
            vk.ensures_eq("container points == the meshes' points stacked in order", cont.points, np.concatenate(Xs))
            for i, m in enumerate(cont.meshes):
                vk.ensures_eq(f"mesh {i}: every cell refers to the coordinates it had (cells shifted by the points stacked before)", np.asarray(cont.points)[m.cells], Xs[i][cs[i]])
            if vk.sym:
                vk.ensures_true("every mesh of the container refers to the container's ONE points array (identity)", all(m.points is cont.points for m in cont.meshes) and len(cont.meshes) == k, "", backend="exec")
                vk.ensures_true("cells == input cells + number of points stacked before; cell types kept; the input meshes are not modified", all(np.array_equal(m.cells, c + o) and m.cell_type == t for m, c, o, t in zip(cont.meshes, cs, offs, types)) and all(np.array_equal(a.cells, c) and a.points.shape == X.shape for a, c, X in zip(ins, cs, Xs)), "", backend="exec")
                if k > 1:
                    vk.canary("the last mesh keeps its own (unshifted) numbering", np.asarray(cont.points)[cs[-1]], Xs[-1][cs[-1]])
                else:
                    vk.canary("points are doubled", cont.points, 2 * Xs[0])
            return
        # ---- merge against the CONTRACT of the sweep (callee stub): valid for all point values
        if not vk.sym:
            return
        for route in ("method", "constructor"):
            calls, results = [], []

            def sweep_stub(mesh, decimals=None):
                calls.append((mesh, mesh.points, decimals))
                r = fem.Mesh(vk.reals("S", (2, 2), near=0.5), np.array([[0, 1]]) + len(calls), mesh.cell_type)
                results.append(r)
                return r

            saved = MC.sweep
            MC.sweep = sweep_stub
            try:
                dec = object()
                if route == "method":
                    cont = fem.MeshContainer([fem.Mesh(X, c, t) for X, c, t in zip(Xs, cs, types)])
                    before, stacked = list(cont.meshes), cont.points
                    cont.merge_duplicate_points(decimals=dec)
                else:
                    cont = fem.MeshContainer([fem.Mesh(X, c, t) for X, c, t in zip(Xs, cs, types)], merge=True, decimals=dec)
                    before = stacked = None
            finally:
                MC.sweep = saved
            vk.ensures_true(f"{route}: every mesh of the container is swept exactly once, in order, with the caller's decimals", len(calls) == k and all(c_[2] is dec for c_ in calls) and (before is None or all(c_[0] is b_ and c_[1] is stacked for c_, b_ in zip(calls, before))) and all(c_[0].cell_type == t for c_, t in zip(calls, types)), f"{len(calls)} calls", backend="exec")
            vk.ensures_true(f"{route}: mesh i of the container is the swept mesh i (its renumbered cells, its cell type)", len(cont.meshes) == k and len(results) == k and all(m is r for m, r in zip(cont.meshes, results)) and all(m.cells is r.cells for m, r in zip(cont.meshes, results)), "", backend="exec")
            vk.ensures_true(f"{route}: ONE shared points array: container.points is the merged points array and every mesh's points IS that array", bool(results) and cont.points is results[0].points and all(m.points is cont.points for m in cont.meshes), "", backend="exec")
        vk.canary_bool("after merging the container still holds the stacked (un-merged) points", cont.points is not stacked)
        return
    # ---- merge with the real sweep on the enumerated small concrete meshes (real np.unique)
    if not vk.sym:
        return
    n = 0
    with symnp.native():
        for jitter, dec in ((False, None), (True, 3), (True, None), (False, 5)):
            for route in ("method", "constructor", "read"):
                ins = _concrete_meshes(k, jitter)
                if route == "method":
                    cont = fem.MeshContainer(ins)
                    cont.merge_duplicate_points(decimals=dec)
                elif route == "constructor":
                    cont = fem.MeshContainer(ins, merge=True, decimals=dec)
                else:
                    rec = MeshioRecorder()
                    allp = np.vstack([m.points for m in ins])
                    o = np.insert(np.cumsum([m.npoints for m in ins]), 0, 0)

                    class FileMesh:
                        points = np.pad(allp, ((0, 0), (0, 1)))
                        cells = [rec.CellBlock(m.cell_type, m.cells + o[i]) for i, m in enumerate(ins)]

                    rec.to_read = FileMesh()
                    with stubbed_meshio(rec):
                        cont = MR.read("f.vtk", dim=2, merge=True, decimals=dec)
                tag = f"real sweep/{route}/jitter={jitter}/decimals={dec}"
                allpts = np.vstack([m.points for m in ins])
                uniq = sorted(set(_rows(allpts, dec)))
                inp = {"meshes": [(a.cell_type, a.points.tolist(), a.cells.tolist()) for a in ins], "route": route, "decimals": dec}
                shared = [m.points is cont.points for m in cont.meshes]
                vk.ensures_true(f"{tag}: ONE shared points array (identity) for all {k} meshes", len(cont.meshes) == k and all(shared), str(shared), backend="exec", replay=_exec_replay(inp, "mesh.points is container.points for every mesh", f"{shared}; container.points has {len(cont.points)} rows, meshes' points {[len(m.points) for m in cont.meshes]}"))
                vk.ensures_true(f"{tag}: the shared array holds every distinct (rounded) point exactly once", sorted(_rows(cont.points)) == uniq, f"{len(cont.points)} points, {len(uniq)} distinct", backend="exec", replay=_exec_replay(inp, f"{len(uniq)} distinct points", f"{len(cont.points)} points in container.points"))
                vk.ensures_true(f"{tag}: cells renumbered consistently -- every cell of every mesh keeps its (rounded) coordinates, shape and cell type", all(m.cell_type == a.cell_type and m.cells.shape == a.cells.shape and m.cells.max() < len(cont.points) and _rows(cont.points[m.cells].reshape(-1, 2)) == _rows(a.points[a.cells].reshape(-1, 2), dec) for m, a in zip(cont.meshes, ins)), "", backend="exec", replay=_exec_replay(inp, "container.points[mesh.cells] == original coordinates of every cell", "differs"))
                n += 1
    vk.canary_bool("merging never removes a point", len(cont.points) < sum(m.npoints for m in ins))


# =====================================================================================================
# write -> read: composed through the meshio contract (E1), and through real meshio (bounded)
# =====================================================================================================
POINTS_PER_CELL = {"vertex": 1, "line": 2, "triangle": 3, "triangle6": 6, "tetra": 4, "tetra10": 10, "quad": 4, "quad8": 8, "quad9": 9, "hexahedron": 8, "hexahedron20": 20, "hexahedron27": 27, "VTK_LAGRANGE_HEXAHEDRON": 27, "VTK_LAGRANGE_QUADRILATERAL": 9, "VTK_LAGRANGE_LINE": 3}
CELL_DIM = {"vertex": 3, "line": 1, "triangle": 2, "triangle6": 2, "quad": 2, "quad8": 2, "quad9": 2, "VTK_LAGRANGE_QUADRILATERAL": 2, "VTK_LAGRANGE_LINE": 1}
FORMATS = ("vtk", "vtu", "xdmf")


def _quiet(f):
    import io
    import warnings

    with warnings.catch_warnings():
        warnings.simplefilter("ignore")
        with contextlib.redirect_stdout(io.StringIO()), contextlib.redirect_stderr(io.StringIO()):
            return f()


@contract("C20", "write_read_round_trip", configs=[dict(cell=c) for c in ("line", "triangle", "quad", "tetra", "hexahedron", "quad9", "tetra10")] + [dict(cell=c, tier="thorough") for c in ("vertex", "triangle6", "quad8", "hexahedron20", "hexahedron27")], engine="E1")
def write_read_round_trip(vk, cfg):
    """Mesh.write followed by mesh.read(dim=mesh.dim) yields the same points, cells and cell type -- for all
    point coordinates, GIVEN the meshio contract (read returns the points / cell blocks that were written);
    bounded: the same round trip through the real meshio for vtk / vtu / xdmf"""
    vk.real(fem.Mesh.write)
    vk.real(fem.Mesh.as_meshio)
    vk.real(MR.read)
    ct = cfg["cell"]
    npc, dim = POINTS_PER_CELL[ct], CELL_DIM.get(ct, 3)
    n = npc + 2
    X = vk.reals("X", (n, dim), near=np.arange(n * dim).reshape(n, dim) * 0.13, spread=0.3)
    cells = np.array([list(range(npc)), [(3 * a + 1) % n for a in range(npc)] if npc < n and len({(3 * a + 1) % n for a in range(npc)}) == npc else list(range(2, npc + 2))])
    mesh = fem.Mesh(X, cells, ct)
    rec = MeshioRecorder()
    with stubbed_meshio(rec):
        mesh.write("m.xdmf")
        w = rec.made[0]
        # meshio contract: what was written is what is read (cell dict -> one cell block per cell type)

        class FileMesh:
            points = w.kw["points"]
            cells = [rec.CellBlock(t, d) for t, d in w.kw["cells"].items()]

        rec.to_read = FileMesh()
        cont = MR.read("m.xdmf", dim=mesh.dim)
    back = cont.meshes[0]
    if vk.sym:
        vk.ensures_true("one mesh comes back, with the written cell type, the written cells and dimension", len(cont.meshes) == 1 and back.cell_type == ct and np.array_equal(back.cells, cells) and back.dim == dim and back.points is cont.points, f"{back.cell_type} {back.cells.shape}", backend="exec")
    vk.ensures_eq("points read back == points written (padded to 3D on write, cut to dim on read)", back.points, X)
    if vk.sym:
        vk.canary("the padding columns come back", np.asarray(back.points)[:, :1], X[:, :1] + 1)
    if not vk.sym:
        return
    # ---- bounded: real files
    evals, bad, unsupported = 0, [], []
    types = [ct] + ({"hexahedron": ["VTK_LAGRANGE_HEXAHEDRON"], "quad": ["VTK_LAGRANGE_QUADRILATERAL"], "line": ["VTK_LAGRANGE_LINE"]}.get(ct, []))
    rng = np.random.default_rng(20)
    with symnp.native(), tempfile.TemporaryDirectory() as tmp:
        for t in types:
            npc_, dim_ = POINTS_PER_CELL[t], CELL_DIM.get(t, 3)
            n_ = npc_ + 2
            pts = rng.random((n_, dim_))
            cl = np.array([rng.permutation(n_)[:npc_], rng.permutation(n_)[:npc_]])
            for ext in FORMATS:
                path = os.path.join(tmp, f"rt_{t}.{ext}")
                try:
                    c = _quiet(lambda: (fem.Mesh(pts, cl, t).write(path), MR.read(path, dim=dim_))[1])
                except KeyError as e:
                    if t.startswith("VTK_LAGRANGE"):
                        unsupported.append(f"{t}/{ext}")  # meshio has no such cell type in this format (external)
                        continue
                    bad.append(f"{t}/{ext}: {type(e).__name__} {e}")
                    continue
                except Exception as e:  # noqa
                    bad.append(f"{t}/{ext}: {type(e).__name__} {str(e)[:60]}")
                    continue
                evals += 1
                m = c.meshes[0]
                if not (len(c.meshes) == 1 and m.cell_type == t and np.array_equal(m.points, pts) and np.array_equal(m.cells, cl) and m.points is c.points):
                    bad.append(f"{t}/{ext}: differs")
                cm = _quiet(lambda: MR.read(path, dim=dim_, merge=True))
                if not (all(x.points is cm.points for x in cm.meshes) and sorted(_rows(cm.points)) == sorted(set(_rows(pts))) and _rows(cm.points[cm.meshes[0].cells].reshape(-1, dim_)) == _rows(pts[cl].reshape(-1, dim_))):
                    bad.append(f"{t}/{ext}: merge=True differs")
    vk.bounded_standin(f"real Mesh.write -> mesh.read (and merge=True) through meshio, cell types {types} x {FORMATS}: identical points, cells, cell type", "one random 2-cell mesh per cell type and format", evals, not bad, "; ".join(bad) + (f" [not supported by meshio: {unsupported}]" if unsupported else ""))
    if unsupported:
        vk.note(f"meshio cannot write/read {unsupported} (KeyError inside meshio): external limitation, not a felupe defect")


@contract("C20", "xdmf_time_series(bounded)", configs=[{}], engine="ground")
def xdmf_time_series(vk, cfg):
    """bounded: a real job (2 steps, early stop in none) writes a real XDMF time series; read back with meshio:
    one frame per substep, times 0..N-1, Displacement and cell data equal to the in-memory sequence"""
    if not vk.sym:
        return
    vk.real(JB.Job.evaluate)
    from meshio.xdmf import TimeSeriesReader

    bad, evals = [], 0
    with symnp.native(), tempfile.TemporaryDirectory() as tmp:
        for kind in ("quad-planestrain", "hex"):
            if kind == "hex":
                mesh = fem.Cube(n=2)
                region = fem.RegionHexahedron(mesh)
                field = fem.FieldContainer([fem.Field(region, dim=3)])
            else:
                mesh = fem.Rectangle(n=3)
                region = fem.RegionQuad(mesh)
                field = fem.FieldContainer([fem.FieldPlaneStrain(region, dim=2)])
            bounds = fem.dof.symmetry(field[0])
            bounds["move"] = fem.Boundary(field[0], fx=1, skip=(False, True, True)[: field[0].dim])
            solid = fem.SolidBody(fem.NeoHooke(mu=1.0, bulk=2.0), field)
            s1 = fem.Step([solid], ramp={bounds["move"]: fem.math.linsteps([0, 0.2], num=2)}, boundaries=bounds)
            s2 = fem.Step([solid], ramp={bounds["move"]: fem.math.linsteps([0.2, 0.1], num=1)}, boundaries=bounds)
            seen = []

            def cb(j, i, substep, seen=seen):
                f_ = substep.x
                seen.append((j, i, f_[0].values.copy(), JB.deformation_gradient(f_)[0].copy(), JB.log_strain(f_)[0].copy(), JB.log_strain_principal(f_)[0].copy()))

            path = f"job_{kind}.xdmf"
            job = fem.Job([s1, s2], callback=cb)
            cwd = os.getcwd()
            os.chdir(tmp)  # meshio writes / resolves the .h5 companion file relative to the working directory
            try:
                _quiet(lambda: job.evaluate(filename=path, verbose=False, cell_data={"Custom": lambda field, substep: [field.extract()[0].mean(-2)[0, 0]]}))
                with TimeSeriesReader(path) as rd:
                    pts, cells = rd.read_points_cells()
                    nfr = rd.num_steps
                    frames = [rd.read_data(k) for k in range(nfr)]
            finally:
                os.chdir(cwd)
            evals += 1
            if nfr != len(seen) or len(seen) != 5:
                bad.append(f"{kind}: {nfr} frames for {len(seen)} substeps")
                continue
            if not (np.allclose(pts[:, : mesh.dim], mesh.points) and np.array_equal(cells[0].data, mesh.cells)):
                bad.append(f"{kind}: mesh differs")
            for k, ((t, pd, cd), (j, i, u, F, ls, lp)) in enumerate(zip(frames, seen)):
                upad = np.pad(u, ((0, 0), (0, 3 - u.shape[1])))
                ok = t == k and np.array_equal(pd["Displacement"], upad) and np.array_equal(np.asarray(cd["Deformation Gradient"][0]).reshape(F.shape), F) and np.array_equal(np.asarray(cd["Logarithmic Strain"][0]), ls) and np.array_equal(np.asarray(cd["Principal Values of Logarithmic Strain"][0]), lp) and "Custom" in cd
                if not ok:
                    bad.append(f"{kind}: frame {k} (step {j}, substep {i}) differs")
            if job.timetrack != list(range(5)):
                bad.append(f"{kind}: timetrack {job.timetrack}")
    vk.ensures_true("harness: the real job produced the 5 substeps (3 + 2) it was scripted to produce", evals == 2 and not any("frames for" in b for b in bad), "; ".join(bad), backend="exec")
    vk.bounded_standin("real Job.evaluate(filename) -> XDMF -> meshio TimeSeriesReader: frames 0..4 over two steps, Displacement / default cell data equal to the in-memory substeps", "2 small jobs (quad plane strain, hexahedron), 2 steps, 5 substeps", evals, not bad, "; ".join(bad))
