"""C17 -- batched tensor algebra equals its mathematical definition for every batch item.

Contracts on every routine of felupe.math (_tensor, _solve, _spatial, _math, parts of _field): the real
functions are executed on symbolic tensors (every entry a free real) at tensor dimensions 1..3 and batch
shapes {(), (2,1), broadcast (1,1)}; the postcondition is entrywise equality with the textbook index
formula (spec side: explicit-loop einsum, Leibniz determinant, adjugate), for all real inputs.  Flag
variants (sym, determinant=, full_output, out=None/fresh/reused, parallel) must return the same values;
frame: inputs unchanged, outputs do not alias inputs unless `out` is given.
"""
import itertools

import numpy as np

import felupe as fem
from felupe import math as M
from vk import ring, symnp
from vk.core import contract
from vk.ring import LP, co
from vk.symnp import adj_ref, det_ref, ref_einsum

TRUSTED = [
    "C17: eigen-decomposition backends (np.linalg.eig/eigh/eigvals/eigvalsh) and np.linalg.solve are external: the wrappers are verified against the backend contract (stub returns symbolic pairs with A v = lambda v assumed); np.cross, np.trace, np.pad, np.linspace are executed (real numpy) on exact values",
    "C17: einsumt (threaded einsum) is executed for parallel=True: proved for the schedule that ran; independence of the external scheduler is assumed (einsumt == einsum)",
]

BATCHES = {"none": (), "b21": (2, 1)}


def T(vk, name, lead, batch, near=None):
    return vk.reals(name, tuple(lead) + tuple(batch), near=near, spread=0.4)


def eye_like(vk, d, batch):
    e = np.eye(d).reshape((d, d) + (1,) * len(batch))
    return ring.lift(e) if vk.sym else e


def sub(s, batch):
    """append batch letters to an einsum spec"""
    b = "yz"[: len(batch)]
    ins, out = s.split("->")
    return ",".join(x + b for x in ins.split(",")) + "->" + out + b


def frame(vk, name, arrs, fn):
    """call fn, then assert the input arrays are unchanged and the result does not alias them"""
    snaps = [vk.snapshot(a) for a in arrs]
    res = fn()
    for k, (a, s0) in enumerate(zip(arrs, snaps)):
        vk.frame_unchanged(f"{name}/arg{k}", a, s0)
    return res


def out_variants(vk, name, shape, call, spec, arrs):
    """out=None, fresh buffer, reused buffer (second call with the same buffer on other data)"""
    r = frame(vk, name, arrs, lambda: call(None))
    vk.ensures_eq(f"{name}/out=None", r, spec)
    buf = np.zeros(shape, dtype=object if vk.sym else float)
    if vk.sym:
        buf[...] = LP.const(7)  # garbage that must be overwritten
    else:
        buf[...] = 7.0
    r2 = call(buf)
    vk.ensures_eq(f"{name}/out=fresh", r2, spec)
    if vk.sym:
        vk.ensures_true(f"{name}/out=fresh/returns-buffer", r2 is buf or np.shares_memory(r2, buf), "result is the given buffer")
    r3 = call(buf)
    vk.ensures_eq(f"{name}/out=reused", r3, spec)


BATCHES["b11"] = (1, 1)
CONFIGS = [dict(group="basic", d=d, batch=b) for d in (1, 2, 3) for b in ("none", "b21")] + [dict(group="inverse", d=d, batch=b) for d in (1, 2, 3) for b in ("b11", "b21")] + [
    dict(group="products", d=d, batch=b) for d in (2, 3) for b in ("none", "b21")
] + [dict(group="modes", d=3, batch=b) for b in ("none", "b21")] + [dict(group="modes", d=2, batch="b21")] + [
    dict(group="broadcast", d=3, batch="b21"),
    dict(group="eigen", d=2, batch="b21"),
    dict(group="eigen", d=3, batch="b21"),
    dict(group="solve", d=2, batch="b21"),
    dict(group="solve", d=3, batch="none"),
    dict(group="spatial", d=3, batch="none"),
    dict(group="linsteps", d=1, batch="none"),
] + [dict(group=g_, d=d_, batch="b21", layout="F") for g_, d_ in (("basic", 2), ("basic", 3), ("inverse", 3), ("products", 3), ("modes", 3), ("solve", 2), ("eigen", 2))]  # column-major inputs


@contract("C17", "tensor", configs=CONFIGS)
def tensor(vk, cfg):
    d, batch = cfg["d"], BATCHES[cfg["batch"]]
    g = cfg["group"]
    I = np.eye(d)
    if g == "basic":
        A = T(vk, "A", (d, d), batch, near=eye_like(vk, d, batch) if False else None)
        B = T(vk, "B", (d, d), batch)
        for f in (M.transpose, M.sym, M.trace, M.dev, M.det, M.identity, M.tovoigt):
            vk.real(f)
        vk.ensures_eq("transpose", frame(vk, "transpose", [A], lambda: M.transpose(A)), ref_einsum(sub("ij->ji", batch), A))
        A4 = T(vk, "Q", (d, d, d, d), batch)
        vk.ensures_eq("majortranspose", M.majortranspose(A4), ref_einsum(sub("ijkl->klij", batch), A4))
        if len(batch) == 2:
            # ravel / reshape (used by the small-strain framework to store tensors in the state vector): row-major over the
            # LEADING tensor axes, whatever the memory order of the argument; trailing axes are batch axes
            vk.real(M.ravel)
            vk.real(M.reshape)
            Ar = frame(vk, "ravel", [A], lambda: M.ravel(A))
            vk.ensures_eq("ravel/[i*d+j]==A[i,j]", Ar, np.array([A[i, j] for i in range(d) for j in range(d)], dtype=A.dtype).reshape((d * d,) + tuple(batch)))
            vk.ensures_eq("reshape(ravel(A))==A", M.reshape(Ar, (d, d)), A)
            A4r = M.ravel(A4)
            vk.ensures_eq("ravel(4th order)/[((i*d+j)*d+k)*d+l]==A[i,j,k,l]", A4r, np.array([A4[i, j, k, l] for i in range(d) for j in range(d) for k in range(d) for l in range(d)], dtype=A.dtype).reshape((d**4,) + tuple(batch)))
            vk.ensures_eq("reshape(ravel(4th order))==A", M.reshape(A4r, (d, d, d, d)), A4)
            # trailing_axes: how many trailing axes are batch axes (reshape; ravel forwards only the default, see note)
            b0, b1 = batch
            flat1 = np.array([A[i, j, y] for i in range(d) for j in range(d) for y in range(b0)], dtype=A.dtype).reshape((d * d * b0, b1))
            vk.ensures_eq("reshape(flat, (d, d, b0), trailing_axes=1)==A", M.reshape(flat1, (d, d, b0), trailing_axes=1), A)
            vk.note("observation (no clause of C17 names the helpers): math.ravel(A, trailing_axes=k) raises ValueError for k != 2 -- the argument is not handed on to reshape; the only caller (MaterialStrain) uses the default")
            if vk.sym and d > 1:
                vk.canary("ravel is column-major", Ar, np.array([A[j, i] for i in range(d) for j in range(d)], dtype=object).reshape((d * d,) + tuple(batch)))
        symspec = (A + ref_einsum(sub("ij->ji", batch), A)) / 2
        out_variants(vk, "sym", A.shape, lambda out: M.sym(A, out=out), symspec, [A])
        trspec = ref_einsum(sub("ii->", batch), A)
        r = frame(vk, "trace", [A], lambda: M.trace(A))
        vk.ensures_eq("trace", r, trspec)
        if batch:  # out= : "the calculation is done into this array" (np.trace needs an array buffer: trailing axes)
            out_variants(vk, "trace(out)", A.shape[2:], lambda out: M.trace(A, out=out), trspec, [A])
        devspec = A - trspec / d * eye_like(vk, d, batch)
        out_variants(vk, "dev", A.shape, lambda out: M.dev(A, out=out), devspec, [A])
        detspec = det_ref(A)
        if batch:  # det/inv need at least one trailing axis for d >= 2 (np.multiply(..., out=scalar) is not admissible)
            out_variants(vk, "det", A.shape[2:], lambda out: M.det(A, out=out), detspec, [A])
            vk.canary("det==trace+1", M.det(A), trspec + 1)
        idn = M.identity(A)
        vk.ensures_eq("identity", np.broadcast_to(idn, A.shape), np.broadcast_to(eye_like(vk, d, batch), A.shape))
        voigt = {1: [(0, 0)], 2: [(0, 0), (1, 1), (0, 1)], 3: [(0, 0), (1, 1), (2, 2), (0, 1), (1, 2), (0, 2)]}[d]
        vk.ensures_eq("tovoigt", frame(vk, "tovoigt", [A], lambda: M.tovoigt(A)), np.array([A[i, j] for i, j in voigt]))
        vk.ensures_eq("tovoigt-strain", M.tovoigt(A, strain=True), np.array([A[i, j] * (1 if i == j else 2) for i, j in voigt]))
        if d == 3 or d == 2:
            vk.real(M.equivalent_von_mises)
            r = M.equivalent_von_mises(A)
            pad = np.zeros((3, 3) + batch, dtype=object if vk.sym else float)
            if vk.sym:
                pad[...] = LP()
            pad[:d, :d] = A
            dA = pad - ref_einsum(sub("ii->", batch), pad) / 3 * eye_like(vk, 3, batch)
            vk.ensures_eq("von-mises-squared", r * r, 3 / 2 * ref_einsum(sub("ij,ij->", batch), dA, dA))
            if vk.sym:
                from vk import oracle

                vk.ensures_true("von-mises>=0", all(oracle.decide(co(x), ">=") for x in np.asarray(r, dtype=object).ravel()), "root atom is positive")
    elif g == "inverse":
        near = eye_like(vk, d, batch)
        A = T(vk, "A", (d, d), batch, near=np.broadcast_to(np.eye(d).reshape((d, d) + (1,) * len(batch)), (d, d) + batch))
        vk.real(M.inv)
        vk.real(M.cof)
        vk.real(M.det)
        detA = det_ref(A)
        vk.requires(detA if not np.ndim(detA) else detA.ravel()[0], "!=") if False else None
        if vk.sym:
            from vk import oracle

            for x in np.asarray(detA, dtype=object).ravel():
                oracle.assume(x, ">")
        else:
            if np.any(np.asarray(detA) <= 0):
                from vk.core import Skip

                raise Skip("det <= 0")
        spec = adj_ref(A) / detA
        Id = np.broadcast_to(eye_like(vk, d, batch), A.shape)

        def variants(name, Amat, **kw):
            out_variants(vk, name, Amat.shape, lambda out: M.inv(Amat, out=out, **kw), adj_ref(Amat) / det_ref(Amat), [Amat])

        variants("inv", A)
        iA = M.inv(A)
        vk.ensures_eq("inv.A==I", ref_einsum(sub("ik,kj->ij", batch), iA, A), Id)
        vk.ensures_eq("A.inv==I", ref_einsum(sub("ik,kj->ij", batch), A, iA), Id)
        vk.ensures_eq("inv/determinant-given", frame(vk, "inv-det", [A], lambda: M.inv(A, determinant=M.det(A))), spec)
        r, dd = M.inv(A, full_output=True)
        vk.ensures_eq("inv/full_output/inverse", r, spec)
        vk.ensures_eq("inv/full_output/det", dd, detA)
        S = (A + ref_einsum(sub("ij->ji", batch), A)) / 2
        variants("inv/sym=True", S, sym=True)
        vk.ensures_eq("cof", frame(vk, "cof", [A], lambda: M.cof(A)), ref_einsum(sub("ij->ji", batch), adj_ref(A)))
        vk.ensures_eq("cof/sym=True", M.cof(S, sym=True), ref_einsum(sub("ij->ji", batch), adj_ref(S)))
        # out= : "the calculation is done into this array": same values for a fresh (garbage-filled) and a reused buffer, the
        # result lives in the buffer's memory
        out_variants(vk, "cof(out)", A.shape, lambda out: M.cof(A, out=out), ref_einsum(sub("ij->ji", batch), adj_ref(A)), [A])
        out_variants(vk, "cof(out)/sym=True", S.shape, lambda out: M.cof(S, sym=True, out=out), ref_einsum(sub("ij->ji", batch), adj_ref(S)), [S])
        vk.canary("inv==adj", M.inv(A), adj_ref(A) + 0 * A)
    elif g == "products":
        A = T(vk, "A", (d, d), batch)
        B = T(vk, "B", (d, d), batch)
        for f in (M.dya, M.cdya_ik, M.cdya_il, M.cdya, M.dot, M.ddot, M.cross, M.inplane):
            vk.real(f)
        for par in (False, True):
            p = f"/parallel={par}"
            vk.ensures_eq("cdya_ik" + p, frame(vk, "cdya_ik" + p, [A, B], lambda: M.cdya_ik(A, B, parallel=par)), ref_einsum(sub("ij,kl->ikjl", batch), A, B))
            vk.ensures_eq("cdya_il" + p, M.cdya_il(A, B, parallel=par), ref_einsum(sub("ij,kl->ilkj", batch), A, B))
            spec = (ref_einsum(sub("ij,kl->ikjl", batch), A, B) + ref_einsum(sub("ij,kl->ilkj", batch), A, B)) / 2
            if not par:
                out_variants(vk, "cdya", (d, d, d, d) + batch, lambda out: M.cdya(A, B, out=out), spec, [A, B])
            else:
                vk.ensures_eq("cdya" + p, M.cdya(A, B, parallel=True), spec)
            vk.ensures_eq("dot22" + p, frame(vk, "dot" + p, [A, B], lambda: M.dot(A, B, parallel=par)), ref_einsum(sub("ik,kj->ij", batch), A, B))
            vk.ensures_eq("ddot22" + p, M.ddot(A, B, parallel=par), ref_einsum(sub("ij,ij->", batch), A, B))
        out_variants(vk, "dya2", (d, d, d, d) + batch, lambda out: M.dya(A, B, out=out), ref_einsum(sub("ij,kl->ijkl", batch), A, B), [A, B])
        v, w = T(vk, "v", (d,), batch), T(vk, "w", (d,), batch)
        vk.ensures_eq("dya1", M.dya(v, w, mode=1), ref_einsum(sub("i,j->ij", batch), v, w))
        vk.canary("dot==dot-transposed", M.dot(A, B), ref_einsum(sub("ik,kj->ji", batch), A, B))
        if d == 3:
            c = M.cross(v, w)
            vk.ensures_eq("cross", c, np.array([v[1] * w[2] - v[2] * w[1], v[2] * w[0] - v[0] * w[2], v[0] * w[1] - v[1] * w[0]]))
        vecs = [v, w]
        vk.ensures_eq("inplane", frame(vk, "inplane", [A, v, w], lambda: M.inplane(A, vecs)), ref_einsum(sub("ij,ai,bj->ab", batch), A, np.array(vecs), np.array(vecs)))
    elif g == "modes":
        ops = {1: T(vk, "v", (d,), batch), 2: T(vk, "A", (d, d), batch), 3: T(vk, "T", (d, d, d), batch), 4: T(vk, "Q", (d, d, d, d), batch)}
        ops2 = {1: T(vk, "w", (d,), batch), 2: T(vk, "B", (d, d), batch), 3: T(vk, "S", (d, d, d), batch), 4: T(vk, "R", (d, d, d, d), batch)}
        vk.real(M.dot)
        vk.real(M.ddot)
        vk.real(M.dddot)
        modes_dot = {(1, 1): "i,i->", (2, 1): "ij,j->i", (1, 2): "i,ij->j", (2, 3): "im,mjk->ijk", (3, 2): "ijm,mk->ijk", (4, 1): "ijkl,l->ijk", (1, 4): "i,ijkl->jkl", (2, 4): "im,mjkl->ijkl", (4, 2): "ijkm,ml->ijkl", (2, 2): "ik,kj->ij"}
        if d == 2:
            modes_dot[(4, 4)] = "ijkp,plmn->ijklmn"
        for mode, s in modes_dot.items():
            for par in ((False, True) if mode in ((2, 1), (2, 4)) else (False,)):
                a, b = ops[mode[0]], ops2[mode[1]]
                vk.ensures_eq(f"dot/mode={mode[0]}{mode[1]}/parallel={par}", frame(vk, f"dot{mode}", [a, b], lambda: M.dot(a, b, mode=mode, parallel=par)), ref_einsum(sub(s, batch), a, b))
        modes_ddot = {(2, 2): "ij,ij->", (2, 4): "ij,ijkl->kl", (4, 2): "ijkl,kl->ij", (2, 3): "ij,ijk->k", (3, 2): "ijk,jk->i", (4, 4): "ijkl,klmn->ijmn"}
        for mode, s in modes_ddot.items():
            if mode == (4, 4) and d == 3 and vk.tier != "thorough":
                continue
            for par in ((False, True) if mode == (4, 2) else (False,)):
                a, b = ops[mode[0]], ops2[mode[1]]
                vk.ensures_eq(f"ddot/mode={mode[0]}{mode[1]}/parallel={par}", frame(vk, f"ddot{mode}", [a, b], lambda: M.ddot(a, b, mode=mode, parallel=par)), ref_einsum(sub(s, batch), a, b))
        vk.ensures_eq("dddot", M.dddot(ops[3], ops2[3]), ref_einsum(sub("ijk,ijk->", batch), ops[3], ops2[3]))
        vk.ensures_eq("dddot/parallel=True", M.dddot(ops[3], ops2[3], parallel=True), ref_einsum(sub("ijk,ijk->", batch), ops[3], ops2[3]))
        # mode: (3, 3) is the only documented mode; every other mode tuple is rejected (TypeError), never answered with some
        # other contraction; the mode given explicitly (also as the equal tuple built at run time) is the default
        vk.ensures_eq("dddot/mode=(3,3) given", M.dddot(ops[3], ops2[3], mode=tuple([3, 3])), ref_einsum(sub("ijk,ijk->", batch), ops[3], ops2[3]))
        if vk.sym:
            for bad in ((3, 2), (2, 3), (3,), (4, 4)):
                try:
                    got = M.dddot(ops[3], ops2[3], mode=bad)
                    raised = False
                except TypeError:
                    raised = True
                vk.ensures_true(f"dddot/mode={bad} is rejected (TypeError)", raised, "" if raised else f"returned an array of shape {np.shape(got)}", backend="exec")
        vk.canary("ddot24==ddot42", M.ddot(ops[2], ops2[4], mode=(2, 4)), ref_einsum(sub("ijkl,kl->ij", batch), ops2[4], ops[2]))
    elif g == "broadcast":
        # a size-one batch axis broadcasts against a full one
        A = T(vk, "A", (d, d), (2, 1))
        B = T(vk, "B", (d, d), (1, 1))
        Bf = np.broadcast_to(B, A.shape)
        vk.ensures_eq("dot", M.dot(A, B), ref_einsum("ikyz,kjyz->ijyz", A, Bf))
        vk.ensures_eq("ddot", M.ddot(A, B), ref_einsum("ijyz,ijyz->yz", A, Bf))
        vk.ensures_eq("dya", M.dya(A, B), ref_einsum("ijyz,klyz->ijklyz", A, Bf))
        vk.ensures_eq("cdya", M.cdya(A, B), (ref_einsum("ijyz,klyz->ikjlyz", A, Bf) + ref_einsum("ijyz,klyz->ilkjyz", A, Bf)) / 2)
        vk.ensures_eq("cdya_ik", M.cdya_ik(A, B), ref_einsum("ijyz,klyz->ikjlyz", A, Bf))
        Q = T(vk, "Q", (d, d, d, d), (1, 1))
        vk.ensures_eq("ddot42", M.ddot(Q, A, mode=(4, 2)), ref_einsum("ijklyz,klyz->ijyz", np.broadcast_to(Q, (d, d, d, d, 2, 1)), A))
    elif g == "eigen":
        # wrappers against the backend contract: backend gets matrices in the last two axes and returns
        # (w[..., a], V[..., i, a]) with A V = V diag(w) (assumed); the wrapper must move the axes back
        A = T(vk, "A", (d, d), batch)
        for f in (M.eig, M.eigh, M.eigvals, M.eigvalsh, M.strain):
            vk.real(f)
        if not vk.sym:
            return
        S = (A + ref_einsum(sub("ij->ji", batch), A)) / 2
        seen = {}

        def backend_pairs(a, UPLO="L"):
            a = np.asarray(a)
            vk.ensures_eq("backend-argument-layout", a, ref_einsum("ijyz->yzij", seen["arg"]))
            w = ring.symarray("lam", batch + (d,))
            V = ring.symarray("vec", batch + (d, d))
            seen["w"], seen["V"] = w, V
            return w, V

        def backend_vals(a):
            return backend_pairs(a)[0]

        symnp.LINALG_STUBS.update(eigh=backend_pairs, eigvalsh=backend_vals)
        try:
            seen["arg"] = S
            w, V = M.eigh(S)
            vk.ensures_eq("eigh/eigenvalues-axis-order", w, ref_einsum("yza->ayz", seen["w"]))
            vk.ensures_eq("eigh/eigenvectors-axis-order", V, ref_einsum("yzia->iayz", seen["V"]))
            # UPLO (documented: "whether the calculation is done with the lower triangular part of `a` ('L', default) or
            # the upper triangular part ('U')"), against the backend contract  eigh(a, UPLO) = eigenpairs of the symmetric
            # matrix whose UPLO-triangle is that of a:  the matrix the backend effectively decomposes must be the symmetric
            # completion of the requested triangle of the argument
            def effective(arg, uplo):
                e = np.empty(arg.shape, dtype=object)
                for i in range(d):
                    for j in range(d):
                        lo, hi = max(i, j), min(i, j)
                        e[..., i, j] = arg[..., lo, hi] if uplo == "L" else arg[..., hi, lo]
                return e

            def backend_uplo(a, UPLO="L"):
                seen["eff"] = effective(np.asarray(a), UPLO)
                w = ring.symarray("lamU", batch + (d,))
                V = ring.symarray("vecU", batch + (d, d))
                seen["w"], seen["V"] = w, V
                return w, V

            symnp.LINALG_STUBS.update(eigh=backend_uplo)
            wU, VU = M.eigh(S, UPLO="U")
            vk.ensures_eq("eigh(UPLO='U')/symmetric argument: the matrix decomposed is the argument (either triangle)", seen["eff"], ref_einsum("ijyz->yzij", S))
            vk.ensures_eq("eigh(UPLO='U')/eigenvalues-axis-order", wU, ref_einsum("yza->ayz", seen["w"]))
            vk.ensures_eq("eigh(UPLO='U')/eigenvectors-axis-order", VU, ref_einsum("yzia->iayz", seen["V"]))
            M.eigh(A, UPLO="L")
            vk.ensures_eq("eigh(UPLO='L')/general argument: the lower triangle is decomposed", seen["eff"], effective(ref_einsum("ijyz->yzij", A), "L"))
            M.eigh(A, UPLO="U")
            vk.ensures_eq("eigh(UPLO='U')/general argument: the upper triangle is decomposed", seen["eff"], effective(ref_einsum("ijyz->yzij", A), "U"))
            if d > 1:
                vk.canary("eigh(UPLO='L') decomposes the upper triangle", (M.eigh(A, UPLO="L"), seen["eff"])[1], effective(ref_einsum("ijyz->yzij", A), "U"))
            symnp.LINALG_STUBS.update(eigh=backend_pairs)
            seen["arg"] = A
            w2, V2 = M.eig(A, eig=backend_pairs)
            vk.ensures_eq("eig/eigenvalues-axis-order", w2, ref_einsum("yza->ayz", seen["w"]))
            vk.ensures_eq("eig/eigenvectors-axis-order", V2, ref_einsum("yzia->iayz", seen["V"]))
            # eigvals: backend receives a.T (batch first, matrix transposed: same eigenvalues)
            def backend_vals_T(a):
                a = np.asarray(a)
                vk.ensures_eq("eigvals/backend-argument-is-transposed-batch-first", a, ref_einsum("ijyz->zyji", seen["arg"]))
                w = ring.symarray("lamT", batch[::-1] + (d,))
                seen["wT"] = w
                return w

            symnp.LINALG_STUBS.update(eigvalsh=backend_vals_T)
            seen["arg"] = S
            ev = M.eigvalsh(S)
            vk.ensures_eq("eigvalsh/axis-order", ev, ref_einsum("zya->ayz", seen["wT"]))
            evs = M.eigvalsh(S, shear=True)
            ij = [(1, 0), (2, 0), (2, 1)] if d == 3 else [(1, 0)]
            lam = ref_einsum("zya->ayz", seen["wT"])
            vk.ensures_eq("eigvalsh/shear", evs, np.concatenate([lam, np.array([lam[i] - lam[j] for i, j in ij])]))
            seen["arg"] = A
            ev2 = M.eigvals(A, eigvals=backend_vals_T)
            vk.ensures_eq("eigvals/axis-order", ev2, ref_einsum("zya->ayz", seen["wT"]))
            # Seth-Hill strain under the eigh contract: sum_a f(lambda_a) N_a (x) N_a
            symnp.LINALG_STUBS.update(eigh=backend_pairs)
            seen["arg"] = S
            for k in (0, 2, -2, 1):
                E = M.strain(None, C=S, k=k) if False else M.strain(None, C=S, fun=M.strain_stretch_1d, k=k)
                lam = ref_einsum("yza->ayz", seen["w"])
                N = ref_einsum("yzia->iayz", seen["V"])
                st = symnp._sqrt(lam)
                f = symnp._OVERRIDES["log"](st) if k == 0 else (st**k - 1) / k
                vk.ensures_eq(f"strain/k={k}", E, ref_einsum("ayz,iayz,jayz->ijyz", f, N, N))
                # flag variants: Voigt storage of the strain tensor (doubled shear components) and principal values only
                Ev = M.strain(None, C=S, k=k, asvoigt=True)
                Eref = ref_einsum("ayz,iayz,jayz->ijyz", f, ref_einsum("yzia->iayz", seen["V"]), ref_einsum("yzia->iayz", seen["V"]))
                vk.ensures_eq(f"strain/asvoigt/k={k}", Ev, M.tovoigt(Eref, strain=True))
                symnp.LINALG_STUBS.update(eigvalsh=backend_vals_T)
                Ep = M.strain(None, C=S, tensor=False, k=k)
                stv = symnp._sqrt(ref_einsum("zya->ayz", seen["wT"]))
                vk.ensures_eq(f"strain/principal-values(tensor=False)/k={k}", Ep, symnp._OVERRIDES["log"](stv) if k == 0 else (stv**k - 1) / k)
                if k == 2:
                    vk.canary("strain/principal-values(tensor=False) ignore k", Ep, symnp._OVERRIDES["log"](stv))
        finally:
            symnp.LINALG_STUBS.clear()
    elif g == "solve":
        vk.real(M.solve_nd)
        vk.real(M.solve_2d)
        if not batch:
            # n=1: A x = b under the np.linalg.solve contract (exact reference inverse)
            A = vk.reals("A", (d, d, 2), near=np.broadcast_to(np.eye(d)[:, :, None], (d, d, 2)))
            b = vk.reals("b", (d, 2))
            if vk.sym:
                from vk import oracle

                for q in range(2):
                    oracle.assume(det_ref(A[:, :, q]), ">")
            x = M.solve_nd(A, b, solve=symnp._linalg_solve if vk.sym else np.linalg.solve)
            vk.ensures_eq("solve_nd/A.x==b", ref_einsum("ijq,jq->iq", A, x), b)
        else:
            # n=2: fourth-order system  A_ijkl x_kl = b_ij  (per batch item)
            A = vk.reals("A", (d, d, d, d, 1), near=np.einsum("ik,jl->ijkl", np.eye(d), np.eye(d))[..., None])
            b = vk.reals("b", (d, d, 1))
            if vk.sym:
                from vk import oracle

                oracle.assume(det_ref(A.reshape(d * d, d * d, 1)[:, :, 0]), ">")
            x = M.solve_2d(A, b, solve=symnp._linalg_solve if vk.sym else np.linalg.solve)
            vk.ensures_eq("solve_2d/A:x==b", ref_einsum("ijklq,klq->ijq", A, x), b)
    elif g == "spatial":
        vk.real(M.rotation_matrix)
        if not vk.sym:
            return
        t = ring.var("alpha_deg")
        for dim, axis in [(2, 0), (3, 0), (3, 1), (3, 2)]:
            R = M.rotation_matrix(t, dim=dim, axis=axis)
            a = t * ring.PI() / 180
            c, s_ = ring.fn("cos", a), ring.fn("sin", a)
            # cos^2 + sin^2 = 1 is the defining relation of the atoms (applied on the spec side)
            RtR = ref_einsum("ki,kj->ij", R, R)
            one = c * c + s_ * s_
            vk.ensures_eq(f"rotation/dim={dim},axis={axis}/orthogonal-modulo-c2+s2", RtR, np.eye(dim) * one if dim == 2 else _blockone(dim, axis, one))
            vk.ensures_eq(f"rotation/dim={dim},axis={axis}/det==c2+s2", det_ref(R), one)
            # right-handed rotation about the axis: R e_j for the in-plane basis
            if dim == 3:
                j, k = [(1, 2), (2, 0), (0, 1)][axis]
                vk.ensures_eq(f"rotation/dim=3,axis={axis}/right-handed", np.array([R[j, j], R[k, j], R[j, k], R[k, k], R[axis, axis]]), np.array([c, s_, -s_, c, co(1)]))
            else:
                vk.ensures_eq("rotation/dim=2/counter-clockwise", R, np.array([[c, -s_], [s_, c]]))
        # a negative axis counts from the end (the convention of the library's own axis arguments, e.g. the default
        # axis=-1 of mesh.expand): the same rotation as about axis + 3
        for axis in (-1, -2, -3):
            try:
                Rn = M.rotation_matrix(t, dim=3, axis=axis)
            except Exception as e:  # noqa: BLE001
                vk.ensures_true(f"rotation/dim=3,axis={axis}/returns (axis counted from the end)", False, f"{type(e).__name__}: {str(e)[:160]}", backend="exec")
                continue
            vk.ensures_eq(f"rotation/dim=3,axis={axis}/==rotation about axis {axis + 3}", Rn, M.rotation_matrix(t, dim=3, axis=axis + 3))
    elif g == "linsteps":
        vk.real(M.linsteps)
        if not vk.sym:
            return
        # symbolic break points (all real milestone values; the NUMBER of points and of steps is concrete): the real linsteps on
        # ring elements, sample k of interval i is p_i + k (p_(i+1) - p_i) / num_i, the end point is p_last
        for npt, num, endpoint in ((2, 3, True), (3, 2, True), (3, [1, 3], False), (4, [2, 1, 3], True), (1, 2, True)):
            P = vk.reals(f"p{npt}", (npt,), near=0.5, spread=1.0)
            nums = list(np.tile(np.array([num]).ravel(), max(1, npt - 1))[: max(1, npt - 1)]) if np.ndim(num) == 0 else list(num)
            r = M.linsteps(P, num=num, endpoint=endpoint)
            exp = [P[i] + (P[i + 1] - P[i]) * k / int(nums[i]) for i in range(npt - 1) for k in range(int(nums[i]))] + ([P[-1]] if endpoint else [])
            tag = f"linsteps(points[{npt}], num={num}, endpoint={endpoint})"
            vk.ensures_true(f"{tag}/number of samples == sum(num)" + (" + 1" if endpoint else ""), len(r) == len(exp), f"{len(r)} vs {len(exp)}", backend="exec")
            if len(r) == len(exp):
                vk.ensures_eq(f"{tag}/sample k of interval i == p_i + k (p_(i+1) - p_i) / num_i", np.asarray(r, dtype=object), np.array(exp, dtype=object))
        # closed form on concrete break points (np.linspace is real numpy on floats): bounded in the
        # number of break points / steps, exact in the values
        import fractions

        ok, n = True, 0
        for pts in ([0, 1], [0, 1, -1], [0.5, 2, 2, 3], [1]):
            for num in (1, 2, 5, [2, 3, 4][: max(1, len(pts) - 1)]):
                for endpoint in (True, False):
                    with symnp.native():
                        r = M.linsteps(pts, num=num, endpoint=endpoint)
                    nums = np.array([num]).ravel()
                    if len(nums) == 1:
                        nums = np.tile(nums, max(1, len(pts) - 1))
                    exp = []
                    for a, b, k in zip(pts[:-1], pts[1:], nums):
                        exp += [a + (b - a) * i / k for i in range(k)]
                    if endpoint:
                        exp.append(pts[-1])
                    n += 1
                    ok = ok and len(r) == len(exp) and np.allclose(r, exp, rtol=0, atol=1e-14)
        vk.bounded_standin("linsteps closed form", "break points <= 4, steps <= 5", n, ok)
        # axis embedding: column `axis` carries the sequence (the entry of `values` for that column is documented as not
        # used), every other column is constant at its entry of `values` (scalar: the same for all)
        ok, n, bad = True, 0, ""
        for axes_ in (1, 2, 3):
            for axis_ in range(axes_):
                for vals in (0.0, 1.5, [7.0, -2.0, 9.0][:axes_], [0.0, 3.0, 0.0][:axes_]):
                    for endpoint in (True, False):
                        with symnp.native():
                            r = M.linsteps([0, 1, -1], num=2, endpoint=endpoint, axis=axis_, axes=axes_, values=vals)
                            seq = M.linsteps([0, 1, -1], num=2, endpoint=endpoint)
                        v = np.broadcast_to(np.asarray(vals, dtype=float), (axes_,))
                        good = r.shape == (len(seq), axes_) and np.array_equal(r[:, axis_], seq) and all(np.all(r[:, k] == v[k]) for k in range(axes_) if k != axis_)
                        n += 1
                        if not good and not bad:
                            bad = f"linsteps([0, 1, -1], num=2, endpoint={endpoint}, axis={axis_}, axes={axes_}, values={vals}) = {np.asarray(r).tolist()}"
                        ok = ok and good
        vk.bounded_standin("linsteps axis embedding (column `axis` == the sequence, other columns == values)", "axes <= 3, every axis, 4 kinds of values, endpoint on/off" + (": " + bad if bad else ""), n, bool(ok))


def _blockone(dim, axis, one):
    E = np.empty((dim, dim), dtype=object)
    for i in range(dim):
        for j in range(dim):
            E[i, j] = (co(1) if i == axis else one) if i == j else LP()
    return E
