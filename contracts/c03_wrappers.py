"""C03 (AD wrappers) -- tensortrax / jax `Hyperelastic`, `Material`, `total_lagrange`, `updated_lagrange`:
the stress the wrapper returns is the derivative of the model's energy (P == F . 2 dpsi/dC for an abstract
psi(C), with the model fed exactly F^T F) and the elasticity is the derivative of that stress
(A == D(P, F)), for EVERY model function passed in (abstract psi / abstract material, AD by contract).
These are the wrapper contracts of contracts/c11_objectivity.py (same real code, same obligations),
registered under C03 because they carry C03's "stress / elasticity are true derivatives" clause for all
AD-wrapped models at once."""
from contracts import c11_objectivity as c11
from vk.core import contract

TRUSTED = list(getattr(c11, "TRUSTED", []))

contract("C03", "ad_wrapper", configs=c11.WRAP_CONFIGS)(c11.wrapper)
contract("C03", "ad_lagrange", configs=c11.LAG_CONFIGS)(c11.lagrange)
