"""C07 (options) -- the data classes around the Newton solver keep what they are given.

`NewtonResult(x, fun, jac, success, iterations, xnorms, fnorms)`: "A data class which represents the result found by
Newton's method.  All parameters are available as attributes." -- the property observes the outcome of a solve through
exactly these attributes (NewtonResult.x / .fun / .success / .iterations / .fnorms), and a hand-written loop stores the
Jacobian in `.jac`.  `Evaluate(gradient, hessian, stress=, cauchy_stress=, kirchhoff_stress=)` (mechanics/_helpers.py):
the evaluate methods of an item; a `stress` callable that is given is the item's `evaluate.stress`, otherwise it is the
first block of `gradient`.  Ground contracts: every parameter given (positionally and by keyword, falsy values 0 /
False / empty list / 0.0 included: a value that is given is not "not given") is the attribute, object-identical.
"""
import inspect

import numpy as np

import felupe.tools._newton as NW
from felupe.mechanics._helpers import Evaluate
from vk.core import contract

PARAMS = ["x", "fun", "jac", "success", "iterations", "xnorms", "fnorms"]


@contract("C07", "options_newton_result", configs=[dict(values=v) for v in ("objects", "falsy", "arrays")], engine="ground")
def newton_result(vk, cfg):
    if not vk.sym:
        return
    vk.real(NW.NewtonResult.__init__)
    sig = [p for p in inspect.signature(NW.NewtonResult.__init__).parameters if p != "self"]
    vk.ensures_true("signature: the documented parameters in the documented order", sig == PARAMS, f"{sig}", backend="exec")
    if cfg["values"] == "objects":
        vals = {k: object() for k in PARAMS}
    elif cfg["values"] == "falsy":
        vals = dict(x=0.0, fun=0, jac=0.0, success=False, iterations=0, xnorms=[], fnorms=())
    else:
        vals = dict(x=np.zeros(3), fun=np.zeros(3), jac=np.zeros((3, 3)), success=np.bool_(True), iterations=np.int64(2), xnorms=np.zeros(2), fnorms=np.zeros(2))
    for how, R in (("keywords", NW.NewtonResult(**vals)), ("positional", NW.NewtonResult(*[vals[k] for k in PARAMS]))):
        for k in PARAMS:
            vk.ensures_true(f"{how}/attribute {k} is the parameter {k}", getattr(R, k, None) is vals[k], f"{getattr(R, k, None)!r}", backend="exec")
        vk.ensures_true(f"{how}/no further attributes", sorted(vars(R)) == sorted(PARAMS), f"{sorted(vars(R))}", backend="exec")
    # one optional parameter at a time: the others keep the documented default None
    for k in PARAMS[1:]:
        R = NW.NewtonResult(vals["x"], **{k: vals[k]})
        ok = getattr(R, k) is vals[k] and R.x is vals["x"] and all(getattr(R, j) is None for j in PARAMS[1:] if j != k)
        vk.ensures_true(f"only {k} given/attribute {k} is the parameter, the others are None", ok, "", backend="exec")
    R = NW.NewtonResult(vals["x"], jac=vals["jac"])
    vk.canary_bool("jac is stored as fun", R.fun is not vals["jac"])


@contract("C07", "options_evaluate", configs=[{}], engine="ground")
def evaluate_helper(vk, cfg):
    if not vk.sym:
        return
    vk.real(Evaluate.__init__)
    calls = []

    def gradient(field=None, **kwargs):
        calls.append(("gradient", field, kwargs))
        return ["P", "statevars"]

    hessian, cauchy, kirchhoff = (lambda field=None: ["A"]), (lambda field=None: "sigma"), (lambda field=None: "tau")
    class FalsyCallable:
        """a callable object whose truth value is False (e.g. a container-like evaluator with __len__ == 0)"""

        def __call__(self, field=None):
            return "S"

        def __len__(self):
            return 0

    for given, stress in (("callable", lambda field=None: "S"), ("callable object with truth value False", FalsyCallable())):
        for extra in ({}, dict(cauchy_stress=cauchy, kirchhoff_stress=kirchhoff)):
            E = Evaluate(gradient, hessian, stress=stress, **extra)
            tag = f"stress={given}" + (",cauchy_stress,kirchhoff_stress" if extra else "")
            vk.ensures_true(f"{tag}/evaluate.stress is the stress handed over", E.stress is stress, f"{E.stress!r}", backend="exec")
            vk.ensures_true(f"{tag}/evaluate.gradient, .hessian are the callables handed over", E.gradient is gradient and E.hessian is hessian, "", backend="exec")
            if extra:
                vk.ensures_true(f"{tag}/evaluate.cauchy_stress, .kirchhoff_stress are the callables handed over", E.cauchy_stress is cauchy and E.kirchhoff_stress is kirchhoff, "", backend="exec")
            else:
                vk.ensures_true(f"{tag}/no cauchy_stress attribute without the callable", not hasattr(E, "cauchy_stress"), "", backend="exec")
    # default: the stress is the first block of the gradient at the field handed over, keywords forwarded
    E = Evaluate(gradient, hessian)
    calls.clear()
    fld = object()
    out = E.stress(fld, parallel=True)
    vk.ensures_true("stress omitted/evaluate.stress(field, **kw) == gradient(field, **kw)[0]", out == "P" and calls == [("gradient", fld, {"parallel": True})], f"{out!r}, {calls!r}", backend="exec")
    calls.clear()
    out = E.stress()
    vk.ensures_true("stress omitted/evaluate.stress() == gradient(None)[0]", out == "P" and calls == [("gradient", None, {})], f"{out!r}, {calls!r}", backend="exec")
    E = Evaluate(gradient, hessian, stress=lambda field=None: "S")
    vk.canary_bool("a stress handed over is replaced by the gradient's first block", E.stress() == "S")
