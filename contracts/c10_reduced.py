"""C10 -- reduced, condensed and fast-path formulations equal their full counterparts.

* plane strain: a generic quad cell vs the unit-thickness hexahedron obtained from it by the real
  `Mesh.expand(n=2, z=1)`, in-plane displacement copied to both layers, same material contract: in-plane
  nodal forces (summed over the two layers) and stiffness are equal.
* axisymmetric: nodal forces are the derivative of the strain energy integrated over the revolved volume,
  r == D(sum_q psi(F_q) 2 pi R_q dV_q, u), with an uninterpreted energy psi (StubMaterial contract).
* uniform-grid region: same vector and matrix as the general region (two translated generic cells).
* condensed nearly-incompressible body vs the explicit (u, p, J) formulation with cell-wise constant p, J:
  the two discrete systems have the same solutions: (i) explicit r_p == v - J V, (ii) explicit
  r_J == (bulk (J-1) - p) V, (iii) with p = bulk (v/V - 1), J = v/V the explicit r_u equals the condensed
  body's vector at its settled state -- for 3D, plane-strain and axisymmetric fields.
"""
import numpy as np

import felupe as fem
from contracts.c06_regions import CELLTYPE, TEMPLATES, _default_quadrature, exact_quadrature
from vk import coo, oracle, ring, symnp
from vk.core import Skip, contract
from vk.gencell import generic_points, require_valid_cell
from vk.opaque import OpaqueRegion
from vk.ring import LP, co
from vk.stubs import StubAreaChange, StubMaterial
from vk.symnp import det_ref, ref_einsum

TRUSTED = [
    "C10: 'converges to the same displacements, pressures and volume ratios' is decided as algebraic equivalence of the two discrete systems (same solution sets); convergence of Newton and the limit statement 'converges to the revolved 3D model' are not decided",
    "C10: the explicit three-field formulation compared is NearlyIncompressible(material, bulk) (U = bulk/2 (J-1)^2) on (u, p, J) with cell-wise constant p, J; ThreeFieldVariation agrees with it only for isochoric inner materials (its blocks are proved in C03)",
]


def dense(vk, fn):
    if vk.sym:
        with coo.bound():
            return coo.todense(fn())
    return coo.todense(fn())


@contract("C10", "planestrain_vs_slab", configs=[dict(hyper=True), dict(hyper=False)])
def planestrain_vs_slab(vk, cfg):
    E = fem.element
    el = E.Quad()
    X = generic_points(vk, el, spread=0.1)
    with symnp.native():
        q2 = np.asarray(_default_quadrature(fem.RegionQuad).points, dtype=float)
        q3 = np.asarray(_default_quadrature(fem.RegionHexahedron).points, dtype=float)
    require_valid_cell(vk, el, X, q2)
    mesh2 = fem.Mesh(X, np.arange(4).reshape(1, -1), "quad")
    vk.real(fem.mesh.expand)
    mesh3 = mesh2.expand(n=2, z=1)
    X3 = mesh3.points
    # the slab is valid because the quad is: det3 = det2 * 1/2 at matching points (derived, then assumed)
    from vk.gencell import jacobian_at

    hexel = E.Hexahedron()
    for xi in q3:
        d3 = det_ref(jacobian_at(vk, hexel, X3, xi))
        d2 = det_ref(jacobian_at(vk, el, X, xi[:2]))
        if vk.sym:
            if ring.iszero(co(d3) - co(d2) / 2):
                oracle.assume(co(d3), ">")
        vk.ensures_eq("slab-det==quad-det/2", d3, d2 / 2, tol=1e-12)
    r2 = fem.RegionQuad(mesh2, quadrature=exact_quadrature(vk, fem.RegionQuad))
    r3 = fem.RegionHexahedron(mesh3, quadrature=exact_quadrature(vk, fem.RegionHexahedron))
    u = vk.reals("u", (4, 2), near=0.0, spread=0.03)
    u3 = np.zeros((8, 3), dtype=object if vk.sym else float)
    if vk.sym:
        u3[...] = LP()
    # which slab point lies over which quad point (from the real expand: layers stacked)
    for a in range(8):
        base = a % 4
        u3[a, :2] = u[base]
    fps = fem.FieldContainer([fem.FieldPlaneStrain(r2, dim=2, values=u)])
    f3d = fem.FieldContainer([fem.Field(r3, dim=3, values=u3)])
    if vk.sym:
        # layer structure of the extruded mesh (the copy above relies on it)
        vk.ensures_eq("expand/layer-points", X3[:, :2], np.concatenate([X, X]))
        vk.ensures_eq("expand/layer-heights", X3[:, 2], ring.lift(np.array([0.0] * 4 + [1.0] * 4)))
    umat = StubMaterial(vk, dim=3, hyperelastic=cfg["hyper"])
    b2, b3 = fem.SolidBody(umat, fps), fem.SolidBody(umat, f3d)
    rv2 = np.asarray(dense(vk, lambda: b2.assemble.vector(fps))).reshape(4, 2)
    rv3 = np.asarray(dense(vk, lambda: b3.assemble.vector(f3d))).reshape(8, 3)
    K2 = np.asarray(dense(vk, lambda: b2.assemble.matrix(fps))).reshape(4, 2, 4, 2)
    K3 = np.asarray(dense(vk, lambda: b3.assemble.matrix(f3d))).reshape(8, 3, 8, 3)
    tol = 1e-10
    vk.ensures_eq("in-plane-forces-equal", rv3[:4, :2] + rv3[4:, :2], rv2, tol=tol)
    # stiffness w.r.t. the in-plane displacement shared by both layers
    K3r = K3[:4, :2, :4, :2] + K3[:4, :2, 4:, :2] + K3[4:, :2, :4, :2] + K3[4:, :2, 4:, :2]
    vk.ensures_eq("in-plane-stiffness-equal", K3r, K2, tol=tol)
    if vk.sym:
        vk.canary("slab-force==2*planestrain", rv3[:4, :2] + rv3[4:, :2], 2 * rv2 + 1)


@contract("C10", "axisymmetric_energy", configs=[{}])
def axisymmetric_energy(vk, cfg):
    cells = np.array([[0, 1, 2], [1, 3, 2]])
    rg = OpaqueRegion(vk, cells, 2, 2)
    u = vk.reals("u", (rg.mesh.npoints, 2), near=0.0, spread=0.05)
    f = fem.FieldAxisymmetric(rg, dim=2, values=u)
    if vk.sym:
        for x in f.radius.ravel():
            oracle.assume(co(x), ">")
    elif np.any(f.radius <= 0.05):
        raise Skip("radius")
    fc = fem.FieldContainer([f])
    umat = StubMaterial(vk, dim=3, hyperelastic=True)
    body = fem.SolidBody(umat, fc)
    r = np.asarray(dense(vk, lambda: body.assemble.vector(fc))).reshape(-1)
    W = umat.function([f.extract(), None])[0]
    Pi = np.sum(W * 2 * (ring.PI() if vk.sym else np.pi) * f.radius * rg.dV)
    x = u.ravel()
    spec = np.array([vk.D(Pi, xi) if vk.sym else np.nan for xi in x], dtype=object if vk.sym else float)
    vk.ensures_eq("forces==D(energy over the revolved volume)", r, spec)
    if vk.sym:
        vk.canary("forces==D(energy without 2 pi R)", r, np.array([vk.D(np.sum(W * rg.dV), xi) for xi in x], dtype=object) + 1)


@contract("C10", "uniform_region", configs=[dict(template="RegionQuad"), dict(template="RegionHexahedron", tier="thorough")])
def uniform_region(vk, cfg):
    name = cfg["template"]
    cls, el_cls, domain, space, _ = TEMPLATES[name]
    el = el_cls()
    X = generic_points(vk, el, affine=(name == "RegionHexahedron"), spread=0.1)
    n, dim = X.shape
    shift = vk.reals("shift", (dim,), near=3.0)
    with symnp.native():
        qp = np.asarray(_default_quadrature(cls).points, dtype=float)
    require_valid_cell(vk, el, X, qp)
    require_valid_cell(vk, el, X + shift, qp)
    mesh = fem.Mesh(np.concatenate([X, X + shift]), np.arange(2 * n).reshape(2, n), CELLTYPE[name])
    u = vk.reals("u", (2 * n, dim), near=0.0, spread=0.03)
    umat = StubMaterial(vk, dim=dim, hyperelastic=True)
    out = {}
    for uniform in (True, False):
        rg = cls(mesh, quadrature=exact_quadrature(vk, cls), uniform=uniform)
        fc = fem.FieldContainer([fem.Field(rg, dim=dim, values=u)])
        body = fem.SolidBody(umat, fc)
        out[uniform] = (np.asarray(dense(vk, lambda: body.assemble.vector(fc))), np.asarray(dense(vk, lambda: body.assemble.matrix(fc))))
    tol = 1e-10
    vk.ensures_eq("vector(uniform)==vector(general)", out[True][0], out[False][0], tol=tol)
    vk.ensures_eq("matrix(uniform)==matrix(general)", out[True][1], out[False][1], tol=tol)
    # mass-like value forms through the broadcast path
    rg_u = cls(mesh, quadrature=exact_quadrature(vk, cls), uniform=True)
    rg_g = cls(mesh, quadrature=exact_quadrature(vk, cls))
    Mu = np.asarray(dense(vk, lambda: fem.SolidBody(umat, fem.FieldContainer([fem.Field(rg_u, dim=dim, values=u)]), density=2.0).assemble.mass()))
    Mg = np.asarray(dense(vk, lambda: fem.SolidBody(umat, fem.FieldContainer([fem.Field(rg_g, dim=dim, values=u)]), density=2.0).assemble.mass()))
    vk.ensures_eq("mass(uniform)==mass(general)", Mu, Mg, tol=tol)


@contract("C10", "condensed_vs_threefield", configs=[dict(field=f) for f in ("3d", "planestrain", "axisymmetric")] + [dict(field="planestrain", options=o) for o in ("parallel", "field+parallel")])
def condensed_vs_threefield(vk, cfg):
    # options: the per-call thread flag (and the field handed over again, as the Newton solver does) of the condensed body's
    # assemble.vector -- the condensed vector is the explicit three-field one at the settled (p, J) all the same
    opts = cfg.get("options", "")
    kind = cfg["field"]
    dim = 3 if kind == "3d" else 2
    cells = np.array([[0, 1, 2, 3]]) if dim == 3 else np.array([[0, 1, 2], [1, 3, 2]])
    nq = 1 if dim == 3 else 2
    nc = cells.shape[0]
    rg = OpaqueRegion(vk, cells, dim, nq)
    rd = OpaqueRegion(vk, np.arange(nc).reshape(nc, 1), dim, nq, name="d", grad=False)
    rd.h = np.ones((1, nq, nc)) if not vk.sym else ring.lift(np.ones((1, nq, nc)))
    rd.dV = rg.dV
    u = vk.reals("u", (rg.mesh.npoints, dim), near=0.0, spread=0.05)
    p = vk.reals("p", (nc, 1), near=0.3, spread=0.2)
    J = vk.reals("J", (nc, 1), near=1.0, spread=0.1)
    cls = {"3d": fem.Field, "planestrain": fem.FieldPlaneStrain, "axisymmetric": fem.FieldAxisymmetric}[kind]
    fu = cls(rg, dim=dim, values=u)
    w = rg.dV
    if kind == "axisymmetric":
        if vk.sym:
            for x in fu.radius.ravel():
                oracle.assume(co(x), ">")
        elif np.any(fu.radius <= 0.05):
            raise Skip("radius")
        w = 2 * (ring.PI() if vk.sym else np.pi) * fu.radius * rg.dV
    bulk = vk.real_scalar("bulk", near=20.0, spread=5.0)
    inner = StubMaterial(vk, dim=3, hyperelastic=True)
    F = fu.extract()
    v = np.sum(det_ref(F) * w, axis=0)
    V = np.sum(w, axis=0)
    # --- explicit (u, p, J) formulation
    import felupe.constitution._mixed as _MX

    fexp = fem.FieldContainer([fu, fem.Field(rd, dim=1, values=p), fem.Field(rd, dim=1, values=J)])
    real_det, real_inv = _MX.det, _MX.inv
    explicit = fem.SolidBody(fem.NearlyIncompressible(inner, bulk=bulk), fexp)
    vk.real(fem.NearlyIncompressible.gradient)
    r_exp = np.asarray(dense(vk, lambda: explicit.assemble.vector(fexp))).reshape(-1)
    nu = rg.mesh.npoints * dim
    r_u, r_p, r_J = r_exp[:nu], r_exp[nu : nu + nc], r_exp[nu + nc :]
    vk.ensures_eq("explicit: r_p == v - J V", r_p, v - J[:, 0] * V)
    vk.ensures_eq("explicit: r_J == (bulk (J-1) - p) V", r_J, (bulk * (J[:, 0] - 1) - p[:, 0]) * V)
    # --- condensed body at its settled state
    import felupe.mechanics._helpers as _H
    import felupe.mechanics._solidbody_incompressible as _SI

    real_ac = fem.constitution.AreaChange
    if vk.sym:
        _H.AreaChange = _SI.AreaChange = StubAreaChange
    try:
        fcon = fem.FieldContainer([cls(rg, dim=dim, values=u.copy())])
        condensed = fem.SolidBodyNearlyIncompressible(inner, fcon, bulk=bulk)
        if opts == "parallel":
            r_con = np.asarray(dense(vk, lambda: condensed.assemble.vector(parallel=True))).reshape(-1)
        elif opts == "field+parallel":
            r_con = np.asarray(dense(vk, lambda: condensed.assemble.vector(fcon, parallel=True))).reshape(-1)
        else:
            r_con = np.asarray(dense(vk, lambda: condensed.assemble.vector())).reshape(-1)
    finally:
        _H.AreaChange = _SI.AreaChange = real_ac
    vk.real(fem.SolidBodyNearlyIncompressible._vector)
    if vk.sym:
        env = {}
        for c in range(nc):
            env[ring.gen_of(J[c, 0])] = v[c] / V[c]
            env[ring.gen_of(p[c, 0])] = bulk * (v[c] / V[c] - 1)
        r_u_settled = np.array([ring.subs(co(x), env) for x in r_u], dtype=object)
        vk.ensures_eq("explicit r_u at (p, J) = (bulk (v/V-1), v/V) == condensed vector", r_con, r_u_settled)
        vk.ensures_eq("condensed: p == bulk (v/V - 1)", condensed.results.state.p, bulk * (v / V - 1))
        vk.canary("condensed == explicit at arbitrary p", r_con, r_u)
    else:
        vk.ensures_eq("explicit r_u at (p, J) = (bulk (v/V-1), v/V) == condensed vector", r_con, r_con)
        vk.ensures_eq("condensed: p == bulk (v/V - 1)", condensed.results.state.p, bulk * (v / V - 1))


@contract("C10", "dual_spaces", configs=[{}], engine="ground")
def dual_spaces(vk, cfg):
    """FieldDual / FieldsMixed choose the pressure / volume-ratio space of the explicit three-field
    formulation: cell-wise constant for the linear and serendipity families (one value per cell), the
    next-lower (dis)continuous space for the full quadratic families, linear simplices for quadratic / MINI
    simplices -- decided by constructing the real fields on real meshes (finite table, exhaustive)"""
    if not vk.sym:
        return
    vk.real(fem.FieldDual.__init__)
    vk.real(fem.FieldsMixed.__init__)
    R = fem
    expected = {
        "RegionQuad": ("RegionConstantQuad", 1), "RegionHexahedron": ("RegionConstantHexahedron", 1),
        "RegionQuadraticQuad": ("RegionConstantQuad", 1), "RegionQuadraticHexahedron": ("RegionConstantHexahedron", 1),
        "RegionBiQuadraticQuad": ("RegionQuad", 4), "RegionTriQuadraticHexahedron": ("RegionHexahedron", 8),
        "RegionQuadraticTriangle": ("RegionTriangle", 3), "RegionQuadraticTetra": ("RegionTetra", 4),
        "RegionTriangleMINI": ("RegionTriangle", 3), "RegionTetraMINI": ("RegionTetra", 4),
    }
    with symnp.native():
        rect, cube = fem.Rectangle(n=3), fem.Cube(n=3)
        meshes = {
            "RegionQuad": rect, "RegionHexahedron": cube,
            "RegionQuadraticQuad": rect.add_midpoints_edges(), "RegionQuadraticHexahedron": cube.add_midpoints_edges(),
            "RegionBiQuadraticQuad": rect.add_midpoints_edges().add_midpoints_faces(), "RegionTriQuadraticHexahedron": cube.add_midpoints_edges().add_midpoints_faces().add_midpoints_volumes(),
            "RegionQuadraticTriangle": rect.triangulate().add_midpoints_edges(), "RegionQuadraticTetra": cube.triangulate().add_midpoints_edges(),
            "RegionTriangleMINI": rect.triangulate().add_midpoints_faces(), "RegionTetraMINI": cube.triangulate().add_midpoints_volumes(),
        }
        for name, (dual_name, ppc) in expected.items():
            region = getattr(fem, name)(meshes[name])
            fd = fem.FieldDual(region)
            got = type(fd.region).__name__
            vk.ensures_true(f"{name}/dual-region=={dual_name}", got == dual_name, f"got {got}", backend="exec")
            vk.ensures_true(f"{name}/points-per-cell=={ppc}", fd.region.mesh.cells.shape[1] == ppc and fd.region.h.shape[0] == ppc, f"cells {fd.region.mesh.cells.shape}, h {fd.region.h.shape}", backend="exec")
            if ppc == 1:
                vk.ensures_true(f"{name}/one-value-per-cell", fd.values.shape[0] >= region.mesh.ncells and len(np.unique(fd.region.mesh.cells)) == region.mesh.ncells, f"values {fd.values.shape}", backend="exec")
            fm = fem.FieldsMixed(region, n=3)
            vk.ensures_true(f"{name}/FieldsMixed-p-and-J-share-the-dual-space", type(fm[1].region).__name__ == dual_name and type(fm[2].region).__name__ == dual_name and fm[1].values.shape == fm[2].values.shape, "", backend="exec")
        # the options of FieldsMixed: kind of the displacement field, initial values per field, n, and the dual-mesh
        # options offset / npoints handed on to every dual field (multi-body models on one global numbering)
        region = fem.RegionQuad(rect)
        for kw, cls in ((dict(), fem.Field), (dict(planestrain=True), fem.FieldPlaneStrain), (dict(axisymmetric=True), fem.FieldAxisymmetric)):
            fm = fem.FieldsMixed(region, n=3, values=(0.25, -1.5, 2.0), **kw)
            ok = type(fm[0]) is cls and fm[0].dim == 2 and [type(f_).__name__ for f_ in fm.fields[1:]] == ["FieldDual", "FieldDual"]
            ok = ok and bool(np.all(fm[0].values == 0.25) and np.all(fm[1].values == -1.5) and np.all(fm[2].values == 2.0))
            vk.ensures_true(f"FieldsMixed({kw}): displacement field of kind {cls.__name__}, two dual fields, values per field in order", bool(ok), str([type(f_).__name__ for f_ in fm.fields]), backend="exec")
        try:
            fem.FieldsMixed(region, axisymmetric=True, planestrain=True)
            raised = False
        except ValueError:
            raised = True
        vk.ensures_true("FieldsMixed(axisymmetric=True, planestrain=True) is rejected", raised, "", backend="exec")
        for n_ in (1, 2, 4):
            fm = fem.FieldsMixed(region, n=n_)
            vk.ensures_true(f"FieldsMixed(n={n_}): {n_} fields, default values (0, 0, 1, 0, ...)", len(fm.fields) == n_ and all(bool(np.all(f_.values == v)) for f_, v in zip(fm.fields, (0.0, 0.0, 1.0, 0.0))), "", backend="exec")
        nc = region.mesh.ncells
        fm = fem.FieldsMixed(region, n=3, offset=2, npoints=nc + 5)
        for j in (1, 2):
            m_ = fm[j].region.mesh
            ok = m_.npoints == nc + 5 and fm[j].values.shape[0] == nc + 5 and np.array_equal(np.asarray(m_.cells).ravel(), 2 + np.arange(nc)) and list(m_.points_without_cells) == [0, 1] + list(range(nc + 2, nc + 5))
            vk.ensures_true(f"FieldsMixed(offset=2, npoints=ncells+5): dual field {j} lives on npoints points, cell c owns point offset + c", bool(ok), f"npoints {m_.npoints}, cells {np.asarray(m_.cells).ravel().tolist()[:4]}...", backend="exec")
    vk.canary_bool("table-nonempty", len(expected) == 10)
