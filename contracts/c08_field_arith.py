"""C08 -- field update / arithmetic keeps the global numbering: the same (field, point, component) unknown
is read and written at the same place by every arithmetic operator of `Field` and `FieldContainer`.

Engine E3 (vk/idxmap.py): the real methods are executed on index-map arrays -- the number of points of
every field is symbolic, value tables and operands are uninterpreted real functions -- and the
postconditions are forall-statements over (point, component) decided by z3; paired native runs (real numpy,
small random instances, all indices enumerated) validate the model and give native failing inputs.

Stated from the property ("the same global index denotes the same (field, point, component) unknown ...
field update", fields laid out consecutively):

  field_arith   Field.__add__/__sub__/__mul__/__truediv__ (new field, operands unchanged) and
                __iadd__/__isub__/__imul__/__itruediv__ (exactly self.values modified, self returned):
                entry (p, i) of the result is  old[p, i] (op) operand(p, i)  for every operand kind the code
                accepts: an array of the values shape, a flat vector read at dim*p + i, a row of `dim`
                values (one per component), another Field; anything else is rejected (TypeError) without
                touching the values.  Field.copy: deep w.r.t. the values (either side can be modified
                without changing the other).
  container_arith  FieldContainer.__mul__/__truediv__/__imul__/__itruediv__ act field by field: unknown
                (field j, point p, component i) is combined with entry OFF_j + dim_j*p + i of a flat vector
                (OFF_j = sum of the sizes of the fields before j), with entry (p, i) of the j-th array of a
                list, or with the j-th field of another container; FieldContainer.values() lists the value
                table of field j at position j.
  from_mesh_container  (modular) the field is built on RegionVertex(container.as_vertex_mesh()) -- callee
                stubs -- with dim defaulting to the mesh dimension; the real Field.__init__ then numbers
                the unknowns dof[p, i] = dim*p + i on the vertex cells (C08 `indices` contract).
"""
from types import SimpleNamespace

import numpy as np

import felupe
import felupe.field._base as FB
import felupe.field._container as FC
import felupe.field._indices as FI
from vk import e3fix as F
from vk import idxmap as X
from vk.core import contract

TRUSTED = list(X.TRUSTED) + [
    "C08: FieldContainer arithmetic with a flat vector whose length equals the number of fields is by design read as a list of per-field arrays (API ambiguity); the flat-vector contracts require total size != number of fields",
    "C08/field arithmetic: true division is real division (z3 total `/`; divisors are required non-zero); float rounding of the quotient is outside the model (A1)",
    "C08/from_mesh_container: verified against callee stubs for MeshContainer.as_vertex_mesh (returns the vertex mesh of the container: an arbitrary mesh with one point per cell) and RegionVertex (a region on that mesh); the end-to-end run with the real callees on concrete containers is a bounded stand-in",
]


def _shape_is(a, shape):
    return len(a.shape) == len(shape) and all(X.same_size(p, q) for p, q in zip(a.shape, shape))


def _nonzero(E, name, shape):
    """arbitrary reals != 0 (divisors)"""
    a = E.reals(name, shape)
    if not E.sym:
        a = np.where(a == 0, 3.0, a)
        return a
    rng = [(f"k{j}", d) for j, d in enumerate(shape)]
    E.assume_forall(rng, lambda *idx: E.Not(E.eq(E.at(a, *idx), 0)))
    return a


OPS = {
    "__add__": (lambda a, b: a + b, False),
    "__sub__": (lambda a, b: a - b, False),
    "__mul__": (lambda a, b: a * b, False),
    "__truediv__": (lambda a, b: a / b, False),
    "__iadd__": (lambda a, b: a + b, True),
    "__isub__": (lambda a, b: a - b, True),
    "__imul__": (lambda a, b: a * b, True),
    "__itruediv__": (lambda a, b: a / b, True),
}


def _div(E, a, b):
    return X.tdiv(a, b) if E.sym else a / b


def _apply(E, opname, a, b):
    if "truediv" in opname:
        return _div(E, a, b)
    return OPS[opname][0](a, b)


# ------------------------------------------------------------------------------------------------
def _field_arith(E, cfg):
    dim = cfg["dim"]
    E.scope()
    m = F.mesh(E, "m", 4)
    n = m.npoints
    f = F.field(E, m, dim, values="sym")
    g = F.field(E, m, dim, values="sym", name="g")
    old = E.reals("old", (n, dim))
    rng = [("p", n), ("i", dim)]
    operands = {
        "values-shape": (E.reals("dv", (n, dim)), _nonzero(E, "zv", (n, dim)), lambda a, p, i: E.at(a, p, i)),
        "flat": (E.reals("df", (n * dim,)), _nonzero(E, "zf", (n * dim,)), lambda a, p, i: E.at(a, dim * p + i)),
        "row": (E.reals("dr", (dim,)), _nonzero(E, "zr", (dim,)), lambda a, p, i: E.at(a, i)),
        "field": (E.reals("dg", (n, dim)), _nonzero(E, "zg", (n, dim)), lambda a, p, i: E.at(a, p, i)),
    }
    for opname, (_, inplace) in OPS.items():
        for kind, (plain, nonzero, at) in operands.items():
            arr = nonzero if "truediv" in opname else plain
            f.values = old.copy()
            if kind == "field":
                g.values = arr.copy()
                operand = g
            else:
                operand = arr.copy()
            with E.run(FB):
                new = getattr(f, opname)(operand)
            tag = f"{opname}/{kind}"
            E.check(f"{tag}/result", type(new) is felupe.Field and (new is f) == inplace and (new.values is f.values) == inplace and new.dim == dim and _shape_is(new.values, (n, dim)), "a Field (self iff in-place; a new value table otherwise) with a (npoints, dim) value table")
            E.forall(f"{tag}/entrywise", rng, lambda p, i: E.eq(E.at(new.values, p, i), _apply(E, opname, E.at(old, p, i), at(arr, p, i))))
            if not inplace:
                E.forall(f"{tag}/frame/self", rng, lambda p, i: E.eq(E.at(f.values, p, i), E.at(old, p, i)))
            opv = operand.values if kind == "field" else operand
            if kind == "flat":
                E.forall(f"{tag}/frame/operand", [("k", n * dim)], lambda k: E.eq(E.at(opv, k), E.at(arr, k)))
            elif kind == "row":
                E.forall(f"{tag}/frame/operand", [("i", dim)], lambda i: E.eq(E.at(opv, i), E.at(arr, i)))
            else:
                E.forall(f"{tag}/frame/operand", rng, lambda p, i: E.eq(E.at(opv, p, i), E.at(arr, p, i)))
            if opname == "__mul__" and kind == "flat" and dim > 1:
                E.canary("flat-vector-read-point-major", rng, lambda p, i: E.eq(E.at(new.values, p, i), E.at(old, p, i) * E.at(arr, p + i * E.val(n))))
            if opname == "__itruediv__" and kind == "values-shape":
                E.canary("itruediv-multiplies", rng, lambda p, i: E.eq(E.at(new.values, p, i), E.at(old, p, i) * E.at(arr, p, i)))
            if opname == "__add__" and kind == "field":
                E.canary("add-modifies-self", rng, lambda p, i: E.eq(E.at(f.values, p, i), E.at(old, p, i) + E.at(arr, p, i)))
        # any other operand (a python scalar) is rejected and nothing is modified
        f.values = old.copy()
        raised = False
        try:
            with E.run(FB):
                getattr(f, opname)(2.0)
        except TypeError:
            raised = True
        E.check(f"{opname}/scalar-rejected", raised, "a python scalar operand raises TypeError")
        E.forall(f"{opname}/scalar-rejected/frame", rng, lambda p, i: E.eq(E.at(f.values, p, i), E.at(old, p, i)))

    # ---- copy: deep with respect to the values
    dv = operands["values-shape"][0]
    f.values = old.copy()
    with E.run(FB):
        c = f.copy()
    E.check("copy/result", type(c) is felupe.Field and c is not f and c.values is not f.values and c.dim == dim and _shape_is(c.values, (n, dim)) and c.indices is not f.indices, "a new Field with its own value table")
    E.forall("copy/values-equal", rng, lambda p, i: E.eq(E.at(c.values, p, i), E.at(old, p, i)))
    E.forall("copy/dof-equal", rng, lambda p, i: E.eq(E.at(c.indices.dof, p, i), dim * p + i))
    with E.run(FB):
        c += dv.copy()
        c.fill(7.0) if cfg.get("fill") else None
    E.forall("copy/modify-copy/original-unchanged", rng, lambda p, i: E.eq(E.at(f.values, p, i), E.at(old, p, i)))
    E.forall("copy/modify-copy/copy-updated", rng, lambda p, i: E.eq(E.at(c.values, p, i), 7.0 if cfg.get("fill") else E.at(old, p, i) + E.at(dv, p, i)))
    with E.run(FB):
        c2 = f.copy()
        f -= dv.copy()
    E.forall("copy/modify-original/copy-unchanged", rng, lambda p, i: E.eq(E.at(c2.values, p, i), E.at(old, p, i)))
    E.canary("copy-shares-values", rng, lambda p, i: E.eq(E.at(c2.values, p, i), E.at(old, p, i) - E.at(dv, p, i)))


@contract("C08", "field_arith", configs=[dict(dim=1), dict(dim=2, fill=True), dict(dim=3)], engine="E3")
def field_arith(vk, cfg):
    """Field arithmetic acts entry-wise on the (point, component) value table for every accepted operand
    kind; non-in-place operators return a new field and leave both operands unchanged; copy is deep"""
    for nm in ("__add__", "__sub__", "__mul__", "__truediv__", "__iadd__", "__isub__", "__imul__", "__itruediv__", "copy", "fill"):
        vk.real(getattr(felupe.Field, nm))
    X.paired(vk, _field_arith, cfg)


# ------------------------------------------------------------------------------------------------
def _fields(E, dims):
    nas = [4] + [1] * (len(dims) - 1)
    nc = E.size("ncells", 1)
    meshes = [F.mesh(E, f"f{j}", na, ncells=nc) for j, na in enumerate(nas)]
    fs = [F.field(E, m, d, values="sym", name=f"f{j}") for j, (m, d) in enumerate(zip(meshes, dims))]
    return meshes, fs


def _container_arith(E, cfg):
    dims = cfg["dims"]
    nf = len(dims)
    E.scope()
    meshes, fs = _fields(E, dims)
    cont = F.container(E, fs)
    off, tot = F.spec_offsets(fs)
    ns = [m.npoints for m in meshes]
    old = [E.reals(f"old{j}", (ns[j], dims[j])) for j in range(nf)]
    # values(): the value table of field j at position j
    for j in range(nf):
        fs[j].values = old[j].copy()
    with E.run(FC):
        vals = cont.values()
    E.check("values/one-table-per-field-in-order", isinstance(vals, tuple) and len(vals) == nf and all(v is f_.values for v, f_ in zip(vals, fs)), "values()[j] is the value table of field j")
    for j in range(nf):
        E.forall(f"values/field{j}", [("p", ns[j]), ("i", dims[j])], lambda p, i: E.eq(E.at(vals[j], p, i), E.at(old[j], p, i)))
    if nf > 1:
        E.canary("values-reversed", [("p", ns[0]), ("i", dims[0])], lambda p, i: E.eq(E.at(vals[0], p, i), E.at(old[-1], p, i) + 1))
    E.assume(E.Not(E.eq(E.val(tot), nf)))
    dx = E.reals("dx", (tot,))
    dz = _nonzero(E, "dz", (tot,))
    others = [F.field(E, m, d, values="sym", name=f"o{j}") for j, (m, d) in enumerate(zip(meshes, dims))]
    other = F.container(E, others)
    for opname in ("__mul__", "__truediv__", "__imul__", "__itruediv__"):
        inplace = OPS[opname][1]
        vec = dz if "truediv" in opname else dx
        for form in ("flat", "list", "container"):
            for j in range(nf):
                fs[j].values = old[j].copy()
            parts = [vec[(off[j]) : (off[j] + ns[j] * dims[j])] for j in range(nf)]
            if form == "flat":
                arg = vec.copy()
            elif form == "list":
                arg = [p_.copy() for p_ in parts]
            else:
                for j in range(nf):
                    others[j].values = parts[j].reshape(-1, dims[j]).copy()
                arg = other
            with E.run(FC, FB, _container=dict(len=E.len)):
                new = getattr(cont, opname)(arg)
            tag = f"{opname}/{form}"
            E.check(f"{tag}/result", isinstance(new, felupe.FieldContainer) and (new is cont) == inplace and len(new.fields) == nf and all((a.values is b.values) == inplace for a, b in zip(new.fields, cont.fields)), "returns a container (the same object iff in-place)")
            for j in range(nf):
                E.forall(f"{tag}/field{j}", [("p", ns[j]), ("i", dims[j])], lambda p, i: E.eq(E.at(new.fields[j].values, p, i), _apply(E, opname, E.at(old[j], p, i), E.at(vec, E.val(off[j]) + dims[j] * p + i))))
                if not inplace:
                    E.forall(f"{tag}/frame/field{j}", [("p", ns[j]), ("i", dims[j])], lambda p, i: E.eq(E.at(cont.fields[j].values, p, i), E.at(old[j], p, i)))
                if form == "container":
                    E.forall(f"{tag}/frame/operand-field{j}", [("p", ns[j]), ("i", dims[j])], lambda p, i: E.eq(E.at(others[j].values, p, i), E.at(vec, E.val(off[j]) + dims[j] * p + i)))
            if form == "flat":
                E.forall(f"{tag}/frame/operand", [("k", tot)], lambda k: E.eq(E.at(arg, k), E.at(vec, k)))
            if opname == "__mul__" and form == "flat" and nf > 1:
                E.canary("scale-last-field-without-offset", [("p", ns[-1]), ("i", dims[-1])], lambda p, i: E.eq(E.at(new.fields[-1].values, p, i), E.at(old[-1], p, i) * E.at(vec, dims[-1] * p + i)))
            if opname == "__itruediv__" and form == "flat" and nf == 1:
                E.canary("divide-shifted", [("p", ns[0]), ("i", dims[0])], lambda p, i: E.eq(E.at(new.fields[0].values, p, i), _div(E, E.at(old[0], p, i), E.at(vec, dims[0] * p + i)) + 1))


CONT = [dict(dims=d) for d in [(3,), (1,), (2, 1), (3, 1, 1), (1, 3), (1, 2, 3)]]


@contract("C08", "container_arith", configs=CONT, engine="E3")
def container_arith(vk, cfg):
    """FieldContainer.values and * / (new and in-place): field by field in the consecutive layout, for a
    flat vector (split at the offsets), a list of per-field arrays and another container"""
    for nm in ("values", "__mul__", "__truediv__", "__imul__", "__itruediv__"):
        vk.real(getattr(felupe.FieldContainer, nm))
    for nm in ("__imul__", "__itruediv__"):
        vk.real(getattr(felupe.Field, nm))
    X.paired(vk, _container_arith, cfg)


# ------------------------------------------------------------------------------------------------
def _from_mesh_container(E, cfg):
    mdim = cfg["mdim"]
    for dim in (None, 1, 2, 3):
        for cls in (felupe.Field, felupe.FieldPlaneStrain) if dim in (None, 2) and mdim == 2 else (felupe.Field,):
            E.scope()
            vm = F.mesh(E, "v", 1, mdim=mdim)  # callee contract of as_vertex_mesh: some mesh with one point per cell
            n, nc = vm.npoints, vm.ncells
            log = []

            def as_vertex_mesh():
                log.append("as_vertex_mesh")
                return vm

            def region_vertex(mesh, *a, **k):
                log.append(("RegionVertex", mesh, a, k))
                return F.region(mesh)

            mc = SimpleNamespace(as_vertex_mesh=as_vertex_mesh)
            val = E.real("val")
            kw = {} if dim is None else {"dim": dim}
            with E.run(FB, FI, _base=dict(RegionVertex=region_vertex)):
                f = cls.from_mesh_container(mc, values=val, **kw)
            d = mdim if dim is None else dim
            tag = f"{cls.__name__}/dim={dim}"
            E.check(f"{tag}/built-on-the-vertex-region-of-the-container", type(f) is cls and log[:1] == ["as_vertex_mesh"] and len(log) == 2 and log[1][0] == "RegionVertex" and log[1][1] is vm and not log[1][2] and not log[1][3] and f.region.mesh is vm, str([x if isinstance(x, str) else x[0] for x in log]))
            E.check(f"{tag}/dim", f.dim == d and _shape_is(f.values, (n, d)), f"dim {f.dim} (default: the mesh dimension), values {f.values.shape}")
            E.forall(f"{tag}/values", [("p", n), ("i", d)], lambda p, i: E.eq(E.at(f.values, p, i), E.val(val)))
            E.forall(f"{tag}/dof", [("p", n), ("i", d)], lambda p, i: E.eq(E.at(f.indices.dof, p, i), d * p + i))
            E.forall(f"{tag}/cai", [("c", nc), ("i", d)], lambda c, i: E.eq(E.at(f.indices.cai, c, 0, i), d * E.at(vm.cells, c, 0) + i))
            if dim is None and cls is felupe.Field:
                E.canary("default-dim-is-one", [("p", n), ("i", d)], lambda p, i: E.eq(E.at(f.indices.dof, p, i), p + i))


def _real_containers():
    """concrete containers for the end-to-end stand-in (real MeshContainer.as_vertex_mesh / RegionVertex)"""
    import felupe as fem

    a = fem.Rectangle(n=3)
    b = fem.Rectangle(a=(1, 0), b=(2, 1), n=3).triangulate() if hasattr(fem.Mesh, "triangulate") else fem.Rectangle(a=(1, 0), b=(2, 1), n=3)
    c1 = fem.MeshContainer([a, b], merge=True)
    cube = fem.Cube(n=2)
    extra = fem.Mesh(np.vstack([cube.points, [[5.0, 5.0, 5.0]]]), cube.cells, cube.cell_type)  # a point without cells
    c2 = fem.MeshContainer([extra])
    return [("quad+triangle,merged", c1), ("cube+point-without-cells", c2)]


@contract("C08", "from_mesh_container", configs=[dict(mdim=2), dict(mdim=3)], engine="E3")
def from_mesh_container(vk, cfg):
    """Field.from_mesh_container: a field on RegionVertex(as_vertex_mesh()) with dim defaulting to the mesh
    dimension, unknowns numbered dof[p, i] = dim*p + i over the container's points"""
    vk.real(felupe.Field.from_mesh_container)
    vk.real(felupe.Field.__init__)
    X.paired(vk, _from_mesh_container, cfg)
    if not vk.sym or cfg["mdim"] != 2:
        return
    # bounded stand-in: the same statements end to end with the real callees on concrete containers
    n = ok = 0
    detail = []
    for label, mc in _real_containers():
        for dim in (None, 1, 3):
            for values in (0.0, 1.5, "table", "row"):
                d = mc.dim if dim is None else dim
                if values == "table":
                    v = np.arange(mc.points.shape[0] * d, dtype=float).reshape(-1, d)
                elif values == "row":
                    v = np.arange(d, dtype=float) + 1
                else:
                    v = values
                f = felupe.Field.from_mesh_container(mc, dim=dim, values=v)
                npts = mc.points.shape[0]
                want = np.broadcast_to(np.asarray(v, dtype=float).reshape(-1, d) if isinstance(v, np.ndarray) else v, (npts, d))
                used = np.unique(np.concatenate([m_.cells.ravel() for m_ in mc.meshes]))
                good = (
                    type(f.region) is felupe.RegionVertex
                    and np.array_equal(f.region.mesh.points, mc.points)
                    and f.dim == d
                    and f.values.shape == (npts, d)
                    and np.array_equal(f.values, want)
                    and np.array_equal(f.indices.dof, d * np.arange(npts)[:, None] + np.arange(d))
                    and np.array_equal(f.region.mesh.cells, used.reshape(-1, 1))
                    and np.array_equal(f.indices.cai, (d * used[:, None] + np.arange(d)).reshape(-1, 1, d))
                )
                n += 1
                ok += bool(good)
                if not good:
                    detail.append(f"{label}, dim={dim}, values={values}")
    vk.bounded_standin("from_mesh_container end to end (real as_vertex_mesh, RegionVertex): values, dof numbering over the container's points, vertex cells == points attached to a cell", "2 concrete containers x dim in (None, 1, 3) x values in (scalar, scalar, table, row)", n, ok == n, "; ".join(detail[:3]))
