"""C02 (options) -- the work-buffer and thread options of the integral forms do not change what is assembled.

`IntegralFormCartesian.assemble(out=)`, `IntegralFormAxisymmetric.assemble(out=)`, `IntegralForm.assemble(out=)`,
`IntegralForm.integrate(parallel=, out=)`: "integral forms assemble exactly the sums they denote, on every code path;
the result does not depend on the parallel flag".  The forms with the default options are under the defining-sum
contracts of contracts/c02_forms.py (`cartesian`, `field_kinds`, `mixed_blocks`); here every option is given a
non-default value and the result is required to be the one of the default call, the buffer handed over to hold the
integrated cell values afterwards (Cartesian forms: numpy's out= contract) -- for a fresh buffer and for the same
buffer used again with another integrand (stale content must not leak).
"""
import itertools

import numpy as np

import felupe as fem
from contracts.c02_forms import CELLS, NQ
from felupe.assembly import IntegralForm, IntegralFormAxisymmetric, IntegralFormCartesian
from vk import coo, oracle, ring
from vk.core import Skip, contract
from vk.opaque import OpaqueRegion
from vk.ring import LP, co

TRUSTED = [
    "C02 (options): the default calls these option calls are compared with are under the defining-sum contracts of contracts/c02_forms.py",
]

RAISING_NOTE = (
    "observation (no C02 clause names the out= buffer; lead decision: not an obligation): IntegralFormCartesian.integrate / assemble(out=buffer) RAISES for the "
    "value-value bilinear form with a matrix-valued integrand (mass-matrix form, grad_v=False, grad_u=False, fun.shape == (dv, du, q, c) with dv > 1 or du > 1): "
    "m = fem.Rectangle(n=3); r = fem.RegionQuad(m); f = fem.Field(r, dim=2); form = IntegralFormCartesian(np.random.rand(2, 2, 4, 4), f, r.dV, u=f, grad_v=False, grad_u=False); "
    "form.integrate(out=np.zeros_like(form.integrate())) -> ValueError: could not broadcast input array from shape (4,2,2,4,4) into shape (4,2,4,2,4) "
    "(the first einsum 'aqc,...qc,bqc,qc->a...bc' and the transposing einsum 'aijbc->aibjc' are both handed the same out= buffer; no buffer shape fits both). "
    "felupe itself never passes out= on this path (SolidBody._mass calls form.assemble())"
)


def _dense(vk, run):
    if vk.sym:
        with coo.bound():
            return np.asarray(coo.todense(run()))
    return np.asarray(coo.todense(run()))


def _zeros_like(vk, a):
    a = np.asarray(a)
    z = np.zeros(a.shape, dtype=object if vk.sym else float)
    if vk.sym:
        z[...] = LP()
    return z


def _garbage_like(vk, a):
    """a buffer with stale content (the value 7 everywhere)"""
    z = _zeros_like(vk, a)
    z[...] = (co(7) if vk.sym else 7.0)
    return z


def _fun_shape(kind, gv, gu, dv, du, dim):
    if kind == "linear":
        return ((dv,) if (dv > 1 or gv) else ()) + ((dim,) if gv else ())
    if not gv and not gu:
        return ()  # scalar-valued only (the matrix-valued kind raises with out=, see RAISING_NOTE)
    if gv and not gu:
        return (dv, dim, du) if du > 1 else (dv, dim)
    if not gv and gu:
        return (dv, du, dim) if dv > 1 else (du, dim)
    return (dv, dim, du, dim)


CART = [dict(kind="linear", grad_v=gv, dv=dv) for dv in (1, 2) for gv in (False, True)]
CART += [dict(kind="bilinear", grad_v=gv, grad_u=gu, dv=dv, du=du) for gv, gu in itertools.product((False, True), repeat=2) for dv, du in ((1, 1), (2, 2), (2, 1), (1, 2)) if (gv or gu or (dv, du) == (1, 1))]
CART += [dict(kind="bilinear", grad_v=True, grad_u=True, dv=2, du=2, parallel=True), dict(kind="linear", grad_v=True, dv=2, parallel=True)]


@contract("C02", "options_cartesian_out", configs=CART)
def cartesian_out(vk, cfg):
    """IntegralFormCartesian.assemble(out=buffer) / integrate(out=buffer): same matrix / vector as without the buffer,
    the buffer holds the integrated cell values, also when it held other values before (17 of the 20 kinds of forms:
    every linear form, every bilinear form with a gradient on either side, the scalar value-value form)"""
    vk.real(IntegralFormCartesian.assemble)
    vk.real(IntegralFormCartesian.integrate)
    vk.note(RAISING_NOTE)
    par = cfg.get("parallel", False)
    dim = 2
    rg = OpaqueRegion(vk, CELLS, dim, NQ, name="v")
    nc = CELLS.shape[0]
    dv, du = cfg["dv"], cfg.get("du")
    gv, gu = cfg["grad_v"], cfg.get("grad_u", False)
    v = fem.Field(rg, dim=dv)
    u = fem.Field(rg, dim=du) if cfg["kind"] == "bilinear" else None
    shape = _fun_shape(cfg["kind"], gv, gu, dv, du, dim) + (NQ, nc)
    fun, fun2 = vk.reals("f", shape), vk.reals("g", shape)
    mk = lambda f_: IntegralFormCartesian(f_, v, rg.dV, u=u, grad_v=gv, grad_u=gu) if u is not None else IntegralFormCartesian(f_, v, rg.dV, grad_v=gv)
    form, form2 = mk(fun), mk(fun2)
    vals0 = np.asarray(form.integrate(parallel=par))
    A0 = _dense(vk, lambda: form.assemble(parallel=par))
    B0 = _dense(vk, lambda: form2.assemble(parallel=par))
    snaps = [(lab, a, vk.snapshot(a)) for lab, a in (("fun", fun), ("dV", rg.dV), ("h", rg.h), ("dhdX", rg.dhdX))]
    # fresh buffer
    buf = _zeros_like(vk, vals0)
    A1 = _dense(vk, lambda: form.assemble(parallel=par, out=buf))
    vk.ensures_eq("assemble(out=fresh buffer)==assemble()", A1, A0)
    vk.ensures_eq("assemble(out=fresh buffer): the buffer holds the integrated cell values", buf, vals0)
    # the same buffer again, stale content of another integrand in it
    B1 = _dense(vk, lambda: form2.assemble(parallel=par, out=buf))
    vk.ensures_eq("assemble(out=reused buffer)==assemble() of the new integrand", B1, B0)
    vk.ensures_eq("assemble(out=reused buffer): the buffer holds the new cell values", buf, np.asarray(form2.integrate(parallel=par)))
    # integrate(out=) returns the buffer
    buf2 = _garbage_like(vk, vals0)
    ret = form.integrate(parallel=par, out=buf2)
    vk.ensures_eq("integrate(out=buffer with stale content)==integrate()", np.asarray(ret), vals0)
    vk.ensures_eq("integrate(out=buffer): the buffer holds the result", buf2, vals0)
    if vk.sym and not par:  # numpy's out= contract; the threaded einsumt fills the buffer but returns another array (noted)
        vk.ensures_true("integrate(out=buffer) returns the buffer", ret is buf2, "", backend="exec")
    vk.note("observation: with parallel=True (einsumt) integrate(out=buffer) fills the buffer but returns a different array object with the same values")
    for lab, a, s0 in snaps:
        vk.frame_unchanged(lab, a, s0)
    if vk.sym:
        vk.canary("assemble(out=)==assemble() of the OTHER integrand", A1, B0)


AXI = [dict(form=f) for f in ("linear-grad", "linear-value", "bilinear-grad-grad", "bilinear-value-grad")]


@contract("C02", "options_axisymmetric_out", configs=AXI)
def axisymmetric_out(vk, cfg):
    """IntegralFormAxisymmetric.assemble(out=buffer) and IntegralForm.assemble(out=buffer) on an axisymmetric field: the
    same matrix / vector as without the buffer (fresh buffer, stale buffer); the integrand and the tables are only read"""
    vk.real(IntegralFormAxisymmetric.assemble)
    vk.real(IntegralFormAxisymmetric.integrate)
    vk.real(IntegralForm.assemble)
    rg = OpaqueRegion(vk, CELLS, 2, NQ, name="v")
    npts = rg.mesh.npoints
    uvals = vk.reals("u", (npts, 2), near=0.0, spread=0.2)
    f = fem.FieldAxisymmetric(rg, dim=2, values=uvals)
    if vk.sym:
        for x in f.radius.ravel():
            oracle.assume(co(x), ">")
    elif np.any(f.radius <= 0.05):
        raise Skip("radius <= 0")
    fc = fem.FieldContainer([f])
    form = cfg["form"]
    linear = form.startswith("linear")
    gradv = form.endswith("grad") if linear else "grad-grad" in form
    bv = f.grad() if gradv else f.interpolate()
    fun = vk.reals("f", bv.shape if linear else bv.shape[:-2] + f.grad().shape)
    if not gradv:
        fun[2] = 0 * fun[2]  # the value space of an axisymmetric vector field has no third component
    snap = vk.snapshot(fun)
    kw = dict(grad_v=gradv) if linear else dict(u=f, grad_v=gradv, grad_u=True)
    single = IntegralFormAxisymmetric(fun, f, rg.dV, **kw)
    vals0 = np.asarray(single.integrate())
    A0 = _dense(vk, lambda: single.assemble())
    for tag, buf in (("fresh", _zeros_like(vk, vals0)), ("stale", _garbage_like(vk, vals0))):
        A1 = _dense(vk, lambda: single.assemble(out=buf))
        vk.ensures_eq(f"IntegralFormAxisymmetric.assemble(out={tag} buffer)==assemble()", A1, A0)
    vk.note("observation (no clause): IntegralFormAxisymmetric.integrate / assemble accept out= but do not use it (the buffer is left as it was; the result is a new array)")
    kwc = dict(grad_v=[gradv]) if linear else dict(u=fc, grad_v=[gradv], grad_u=[True])
    cont = IntegralForm([fun], fc, rg.dV, **kwc)
    C0 = _dense(vk, lambda: cont.assemble())
    vk.ensures_eq("IntegralForm.assemble()==IntegralFormAxisymmetric.assemble()", C0, A0)
    for tag, buf in (("fresh", _zeros_like(vk, vals0)), ("stale", _garbage_like(vk, vals0))):
        C1 = _dense(vk, lambda: cont.assemble(out=buf))
        vk.ensures_eq(f"IntegralForm.assemble(out={tag} buffer)==assemble()", C1, C0)
    vk.frame_unchanged("fun", fun, snap)
    if vk.sym:
        vk.canary("axisymmetric assemble(out=) is zero", A1, 0 * A0)


CONT = [dict(mode=m, parallel=p) for m in ("single-linear", "single-bilinear", "mixed-1", "mixed-2", "mixed-3") for p in (True,)] + [dict(mode="single-bilinear", parallel=False)]


@contract("C02", "options_container", configs=CONT)
def container(vk, cfg):
    """IntegralForm.integrate(parallel=True) == integrate() block by block (all block layouts), integrate(out=list of
    buffers) fills and returns those buffers, assemble(values=integrate(parallel=True)) == assemble(); for a single-field
    form assemble(out=buffer) == assemble() with the buffer holding the cell values (fresh and stale buffer)"""
    vk.real(IntegralForm.integrate)
    vk.real(IntegralForm.assemble)
    par = cfg["parallel"]
    rg = OpaqueRegion(vk, CELLS, 2, NQ, name="v")
    rd = OpaqueRegion(vk, np.array([[0], [1]]), 2, NQ, name="d", grad=False)
    nc = CELLS.shape[0]
    fu, fp = fem.Field(rg, dim=2), fem.Field(rd, dim=1)
    mode = cfg["mode"]
    if mode.startswith("single"):
        fc = fem.FieldContainer([fu])
        if mode == "single-linear":
            funs, kw = [vk.reals("f", (2, 2, NQ, nc))], {}
        else:
            funs, kw = [vk.reals("f", (2, 2, 2, 2, NQ, nc))], dict(u=fc)
    else:
        fc = fem.FieldContainer([fu, fp])
        fuu, fup, fpu, fpp = vk.reals("fuu", (2, 2, 2, 2, NQ, nc)), vk.reals("fup", (2, 2, NQ, nc)), vk.reals("fpu", (2, 2, NQ, nc)), vk.reals("fpp", (NQ, nc))
        if mode == "mixed-1":
            funs, kw = [vk.reals("fa", (2, 2, NQ, nc)), vk.reals("fb", (NQ, nc))], {}
        elif mode == "mixed-2":
            funs, kw = [fuu, fup, fpp], dict(u=fc)
        else:
            funs, kw = [fuu, fup, fpu, fpp], dict(u=fc)
    form = IntegralForm(funs, fc, rg.dV, **kw)
    snaps = [vk.snapshot(f_) for f_ in funs]
    vals0 = [np.asarray(v_) for v_ in form.integrate()]
    A0 = _dense(vk, lambda: form.assemble())
    vals1 = form.integrate(parallel=par)
    if vk.sym:
        vk.ensures_true("integrate(parallel=) returns one array per block", len(vals1) == len(vals0), f"{len(vals1)} vs {len(vals0)}", backend="exec")
    for k, (a, b) in enumerate(zip(vals1, vals0)):
        vk.ensures_eq(f"integrate(parallel={par})==integrate()/block {k}", np.asarray(a), b)
    A1 = _dense(vk, lambda: form.assemble(values=vals1))
    vk.ensures_eq(f"assemble(values=integrate(parallel={par}))==assemble()", A1, A0)
    A2 = _dense(vk, lambda: form.assemble(parallel=par))
    vk.ensures_eq(f"assemble(parallel={par})==assemble()", A2, A0)
    # a list of work buffers (one per block): filled and returned; stale content does not leak
    bufs = [_garbage_like(vk, b) for b in vals0]
    keep = list(bufs)
    ret = form.integrate(parallel=par, out=bufs)
    for k, (a, b) in enumerate(zip(ret, vals0)):
        vk.ensures_eq(f"integrate(parallel={par}, out=buffers)==integrate()/block {k}", np.asarray(a), b)
        vk.ensures_eq(f"integrate(out=buffers): buffer {k} holds the block", keep[k], b)
    if vk.sym and not par:
        vk.ensures_true("integrate(out=buffers) returns the buffers handed over", all(r_ is k_ for r_, k_ in zip(ret, keep)), "", backend="exec")
    if mode.startswith("single"):
        for tag, buf in (("fresh", _zeros_like(vk, vals0[0])), ("stale", _garbage_like(vk, vals0[0]))):
            A3 = _dense(vk, lambda: form.assemble(parallel=par, out=buf))
            vk.ensures_eq(f"IntegralForm.assemble(out={tag} buffer)==assemble()", A3, A0)
            vk.ensures_eq(f"IntegralForm.assemble(out={tag} buffer): the buffer holds the cell values", buf, vals0[0])
    for k, (f_, s0) in enumerate(zip(funs, snaps)):
        vk.frame_unchanged(f"fun {k}", f_, s0)
    if vk.sym:
        vk.canary("integrate(parallel=) is zero", np.asarray(vals1[0]), 0 * vals0[0])
