"""C03 (remaining anchored functions) -- 3x3 stress tensor of the plane linear-elastic laws, the
`constitutive_material` class decorator, `ConstitutiveMaterial.copy`, the plasticity class
`LinearElasticPlasticIsotropicHardening`, `LineChange.function`.

* LinearElasticPlaneStress / LinearElasticPlaneStrain `.stress(x)`: the in-plane block of the 3x3 stress tensor
  is the returned stress `gradient(x)` and the elasticity is its derivative (agreement of `.strain(x)` /
  `.stress(x)` with the 3D law under the plane constraint: C12, contracts/c12_plane_outofplane.py).
* `constitutive_material(Material)`: the derived class is a ConstitutiveMaterial AND a Material, so stress and
  elasticity of its instances are the Material's (hessian == D(gradient) carried over), named as requested.
* `copy()`: a deep copy -- changing the copy's parameters leaves the original's stress unchanged and the copy
  is the material with the changed parameters (hessian == D(gradient) for it).
* LinearElasticPlasticIsotropicHardening(E, nu, sy, K): Lame constants of (E, nu); consistent tangent of the
  stress update at fixed old state on both sides of the yield surface; elastic step keeps the plastic state.
"""
from fractions import Fraction

import numpy as np

import felupe as fem
from contracts import c01_updates as c01u
from contracts.c03_materials import C, Q, F_sym, bc, dF
from vk import oracle, ring, symnp
from vk.core import Skip, contract
from vk.ring import LP, co
from vk.stubs import StubMaterial

TRUSTED = [
    "C03: ConstitutiveMaterial.optimize (scipy.optimize.least_squares fit of material parameters to experimental curves, with its inner functions `fun` and `std`) is outside every property's scope: no property mentions parameter fitting.  Only its frame is checked (ground, native): the material it is called on is not modified, the fitted material is a distinct deep copy",
    "C03: copy.deepcopy of ring elements (vk.ring.LP) yields ring-equal elements (CPython deepcopy semantics on plain objects)",
]

# the kinematic line change is anchored in C01 and C03: same real code, same obligations
contract("C03", "linechange", configs=c01u.LINECHANGE)(c01u.linechange)


def _lame(E, nu):
    return E * nu / ((1 + nu) * (1 - 2 * nu)), E / (2 * (1 + nu))


def _F2(vk):
    near = np.broadcast_to(np.eye(2).reshape(2, 2, 1, 1), (2, 2, Q, C))
    return vk.reals("F", (2, 2, Q, C), near=near, spread=0.25)


@contract("C03", "plane_stress_tensor", configs=[dict(model="LinearElasticPlaneStress"), dict(model="LinearElasticPlaneStrain")])
def plane_stress_tensor(vk, cfg):
    """the 3x3 stress tensor `stress(x)` of the plane laws: its in-plane block is the returned stress
    `gradient(x)`, and the returned elasticity is its derivative w.r.t. the (in-plane) deformation gradient
    (the agreement of stress(x) / strain(x) with the 3D law is C12 `plane_outofplane`)"""
    cls = getattr(fem.constitution, cfg["model"])
    umat = cls(E=vk.real_scalar("E", near=2.0), nu=vk.real_scalar("nu", near=0.3, spread=0.1))
    vk.real(cls.stress)
    vk.real(cls.gradient)
    vk.real(cls.hessian)
    F = _F2(vk)
    F0 = vk.snapshot(F)
    s3 = bc(umat.stress([F, None])[0], (3, 3, Q, C))
    P = bc(umat.gradient([F, None])[0], (2, 2, Q, C))
    A = bc(umat.hessian([F, None])[0], (2, 2, 2, 2, Q, C))
    vk.ensures_eq("stress[in-plane]==gradient", s3[:2, :2], P)
    vk.ensures_eq("hessian==D(stress[in-plane],F)", A, dF(vk, s3[:2, :2], F))
    vk.frame_unchanged("x[0]", F, F0)
    if vk.sym:
        vk.canary("hessian==D(stress[in-plane])+1", A, dF(vk, s3[:2, :2], F) + 1)


# ---------------------------------------------------------------------------------------------------------
@contract("C03", "constitutive_material_decorator", configs=[dict(name=None), dict(name="Renamed")])
def constitutive_material_decorator(vk, cfg):
    """fem.constitutive_material(Material, name): derived class = ConstitutiveMaterial + Material"""
    vk.real(fem.constitutive_material)
    stub = StubMaterial(vk, hyperelastic=True)

    class UserMaterial:
        "a user class with gradient / hessian methods (not derived from ConstitutiveMaterial)"

        def __init__(self, scale):
            self.scale = scale
            self.x = [np.eye(3), np.zeros(0)]
            self.kwargs = {"scale": scale}

        def gradient(self, x):
            return [self.scale * stub.gradient(x)[0], x[-1]]

        def hessian(self, x):
            return [self.scale * stub.hessian(x)[0]]

    Derived = fem.constitutive_material(UserMaterial) if cfg["name"] is None else fem.constitutive_material(UserMaterial, name=cfg["name"])
    scale = vk.real_scalar("scale", near=1.5)
    umat = Derived(scale)
    plain = UserMaterial(scale)
    F = F_sym(vk)
    P, A = umat.gradient([F, None])[0], umat.hessian([F, None])[0]
    if vk.sym:
        vk.ensures_true("derived class is a ConstitutiveMaterial and a Material", issubclass(Derived, fem.ConstitutiveMaterial) and issubclass(Derived, UserMaterial) and isinstance(umat, fem.ConstitutiveMaterial), str(Derived.__mro__), backend="exec")
        vk.ensures_true("name", Derived.__name__ == (cfg["name"] or "UserMaterial"), Derived.__name__, backend="exec")
        vk.ensures_true("methods are the Material's", Derived.gradient is UserMaterial.gradient and Derived.hessian is UserMaterial.hessian, "method resolution", backend="exec")
        vk.ensures_true("methods of ConstitutiveMaterial available", all(hasattr(umat, m) for m in ("copy", "view", "optimize", "__and__")), "", backend="exec")
        vk.ensures_true("Material class itself is not modified", not issubclass(UserMaterial, fem.ConstitutiveMaterial), "", backend="exec")
    vk.ensures_eq("gradient==Material.gradient", P, plain.gradient([F, None])[0])
    vk.ensures_eq("hessian==D(gradient)", A, dF(vk, P, F))
    # the derived class composes like every ConstitutiveMaterial
    comp = umat & fem.NeoHooke(mu=vk.real_scalar("mu"))
    Pc, Ac = comp.gradient([F, None])[0], comp.hessian([F, None])[0]
    vk.ensures_eq("&/hessian==D(gradient)", Ac, dF(vk, Pc, F))
    if vk.sym:
        vk.canary("hessian==stub-hessian (scale lost)", A, stub.hessian([F, None])[0])


# ---------------------------------------------------------------------------------------------------------
@contract("C03", "copy", configs=[dict(model=m) for m in ("NeoHooke", "MaterialStrain", "LinearElasticOrthotropic")])
def copy_contract(vk, cfg):
    """ConstitutiveMaterial.copy(): deep copy"""
    vk.real(fem.ConstitutiveMaterial.copy)
    model = cfg["model"]
    near = np.broadcast_to(np.eye(3).reshape(3, 3, 1, 1), (3, 3, Q, C))
    if model == "NeoHooke":
        F = F_sym(vk)
        mu, bulk, mu2 = vk.real_scalar("mu"), vk.real_scalar("bulk", near=3.0), vk.real_scalar("mu2", near=2.0)
        umat = fem.NeoHooke(mu=mu, bulk=bulk)
        x = [F, None]
        change = lambda m: setattr(m, "mu", mu2)
        fresh = fem.NeoHooke(mu=mu2, bulk=bulk)
    elif model == "MaterialStrain":
        from felupe.constitution.small_strain.models._linear_elastic import linear_elastic

        F = vk.reals("F", (3, 3, Q, C), near=near, spread=0.05)
        lam, mu, mu2 = vk.real_scalar("lmbda", near=2.0), vk.real_scalar("mu", near=1.0), vk.real_scalar("mu2", near=2.0)
        umat = fem.constitution.MaterialStrain(material=linear_elastic, λ=lam, μ=mu)
        sv = vk.reals("sv", (18, Q, C), near=0.0, spread=0.01)
        x = [F, sv]
        # parameters live in the kwargs dict: a shallow copy would share it with the original
        change = lambda m: m.kwargs.__setitem__("μ", mu2)
        fresh = fem.constitution.MaterialStrain(material=linear_elastic, λ=lam, μ=mu2)
    else:
        F = vk.reals("F", (3, 3, Q, C), near=near, spread=0.05)
        E = list(vk.reals("E", (3,), near=[6.0, 7.0, 8.0]))
        nu = list(vk.reals("nu", (3,), near=[0.2, 0.25, 0.3], spread=0.05))
        G = list(vk.reals("G", (3,), near=[1.0, 2.0, 3.0]))
        G2 = vk.real_scalar("G2", near=4.0)
        umat = fem.constitution.LinearElasticOrthotropic(E=E, nu=nu, G=G)
        x = [F, None]
        # parameters are lists: in-place modification of the copy's list
        change = lambda m: m.G.__setitem__(0, G2)
        fresh = fem.constitution.LinearElasticOrthotropic(E=list(E), nu=list(nu), G=[G2] + list(G[1:]))
    get = lambda m: np.asarray(m.gradient([x[0], None if x[1] is None else x[1].copy()])[0])
    P0 = get(umat)
    P0 = np.array(P0, dtype=P0.dtype, copy=True)
    c = umat.copy()
    if vk.sym:
        vk.ensures_true("copy is a new object of the same class", c is not umat and type(c) is type(umat), type(c).__name__, backend="exec")
        vk.ensures_true("copy does not share its parameter containers", getattr(c, "kwargs", None) is None or c.kwargs is not umat.kwargs, "kwargs dict", backend="exec")
    vk.ensures_eq("copy/gradient==original/gradient", get(c), P0)
    change(c)
    Pc = get(c)
    vk.ensures_eq("after-changing-the-copy/original-gradient-unchanged", get(umat), P0)
    vk.ensures_eq("after-changing-the-copy/copy==material-with-the-new-parameters", Pc, get(fresh))
    Ac = np.asarray(c.hessian([x[0], None if x[1] is None else x[1].copy()])[0])
    vk.ensures_eq("copy/hessian==D(gradient)", bc(Ac, (3, 3, 3, 3, Q, C)), dF(vk, Pc, x[0]))
    if vk.sym:
        vk.canary("changing-the-copy-has-no-effect", Pc, P0)


@contract("C03", "optimize_frame", configs=[dict(incompressible=i, relative=r) for i in (True, False) for r in (False, True)], engine="ground")
def optimize_frame(vk, cfg):
    """optimize() is outside the properties (parameter fitting); its frame: the material it is called on is
    not modified, the returned material is a distinct deep copy"""
    if not vk.sym:
        return
    with symnp.native():
        if cfg["incompressible"]:
            lam = np.linspace(1.0, 2.0, 6)
            umat = fem.Hyperelastic(fem.neo_hooke, mu=1.0)
            P = 1.7 * (lam - 1 / lam**2)
        else:
            lam = np.linspace(1.0, 1.5, 6)
            umat = fem.Hyperelastic(fem.saint_venant_kirchhoff, mu=1.0, lmbda=2.0)
            P = fem.Hyperelastic(fem.saint_venant_kirchhoff, mu=1.7, lmbda=3.0).view(ux=lam, bx=None, ps=None).evaluate()[0][1]
        data = np.array([lam, P])
        data0 = data.copy()
        F = np.diag([1.2, 0.9, 1.05]).reshape(3, 3, 1, 1) + 0.01 * np.arange(9).reshape(3, 3, 1, 1)
        kw0 = {k: np.array(v, copy=True) for k, v in umat.kwargs.items()}
        P0 = np.array(umat.gradient([F, None])[0], copy=True)
        new, res = umat.optimize(ux=data, incompressible=cfg["incompressible"], relative=cfg["relative"])
        same_kw = set(umat.kwargs) == set(kw0) and all(np.array_equal(np.asarray(umat.kwargs[k]), kw0[k]) for k in kw0)
        same_P = np.array_equal(np.asarray(umat.gradient([F, None])[0]), P0)
        same_data = np.array_equal(data, data0)
        distinct = new is not umat and new.kwargs is not umat.kwargs
        moved = not np.array_equal(np.asarray(new.gradient([F, None])[0]), P0)
    vk.real(fem.ConstitutiveMaterial.copy)
    vk.real(fem.ConstitutiveMaterial.optimize, alias="felupe.constitution._base.ConstitutiveMaterial.optimize [frame only; fitting itself is outside every property]")
    vk.ensures_true("original parameters unchanged", bool(same_kw), str(umat.kwargs), backend="exec")
    vk.ensures_true("original stress unchanged (bitwise)", bool(same_P), "", backend="exec")
    vk.ensures_true("fitted material is a distinct object with its own parameters", bool(distinct), "", backend="exec")
    vk.ensures_true("experimental data array unchanged (bitwise)", bool(same_data), "", backend="exec")
    vk.canary_bool("fitted material == original material", bool(moved))


# ---------------------------------------------------------------------------------------------------------
@contract("C03", "plasticity_class", configs=[dict(case="elastic"), dict(case="plastic")])
def plasticity_class(vk, cfg):
    """LinearElasticPlasticIsotropicHardening(E, nu, sy, K): the MaterialStrain of the return-mapping law with
    the Lame constants of (E, nu); consistent tangent at fixed old state; elastic step keeps the plastic state"""
    from felupe.constitution.small_strain.models._linear_elastic_plastic_isotropic import LinearElasticPlasticIsotropicHardening as Cls
    from felupe.constitution.small_strain.models._linear_elastic_plastic_isotropic import linear_elastic_plastic_isotropic_hardening as plastic

    vk.real(Cls.__init__)
    vk.real(plastic)
    vk.real(fem.constitution.lame_converter)
    vk.real(fem.constitution.MaterialStrain.gradient)
    vk.real(fem.constitution.MaterialStrain.hessian)
    vk.real(fem.constitution.MaterialStrain.extract)
    E, nu = vk.real_scalar("E", near=2.6, spread=0.3), vk.real_scalar("nu", near=0.3, spread=0.05)
    sy = vk.real_scalar("sy", near=(0.001 if cfg["case"] == "plastic" else 5.0), spread=(0.0005 if cfg["case"] == "plastic" else 0.5))
    K = vk.real_scalar("K", near=0.5, spread=0.2)
    if vk.sym:
        oracle.assume(E, ">")
        oracle.assume(nu, ">")
        oracle.assume(1 - 2 * nu, ">")
        oracle.assume(sy, ">")
        oracle.assume(K, ">=")
    elif min(E, nu, 1 - 2 * nu, sy) <= 0 or K < 0:
        raise Skip("outside requires")
    umat = Cls(E=E, nu=nu, sy=sy, K=K)
    lam, mu = _lame(E, nu)
    if vk.sym:
        vk.ensures_true("is-a MaterialStrain with the return-mapping law", isinstance(umat, fem.constitution.MaterialStrain) and umat.material is plastic, "", backend="exec")
        vk.ensures_true("state layout: alpha (1), eps_p (3x3), then strain and stress", umat.dim == 3 and tuple(umat.statevars_shape) == (1, (3, 3)) and umat.x[-1].shape == (28,), str(umat.x[-1].shape), backend="exec")
    vk.ensures_eq("parameters==(lambda(E,nu), mu(E,nu), sy, K)", np.array([umat.kwargs["λ"], umat.kwargs["μ"], umat.kwargs["σy"], umat.kwargs["K"]]), np.array([lam, mu, sy, K]))
    q = c = 1
    F = vk.reals("F", (3, 3, q, c), near=np.eye(3).reshape(3, 3, 1, 1), spread=0.02)
    eps_old = vk.reals("eps_n", (3, 3), near=0.0, spread=0.01)
    eps_old = (eps_old + eps_old.T) / 2
    sig_old = vk.reals("sig_n", (3, 3), near=0.0, spread=0.01)
    sig_old = (sig_old + sig_old.T) / 2
    alpha = vk.reals("alpha_n", (1,), near=0.0, spread=0.0)
    epsp = vk.reals("epsp_n", (3, 3), near=0.0, spread=0.005)
    sv = np.concatenate([alpha.reshape(1, 1, 1), epsp.reshape(9, 1, 1), eps_old.reshape(9, 1, 1), sig_old.reshape(9, 1, 1)], axis=0)
    eye = np.eye(3)
    strain = ((F[:, :, 0, 0] - eye) + (F[:, :, 0, 0] - eye).T) / 2
    de = strain - eps_old
    sig_tr = sig_old + 2 * mu * de + lam * np.trace(de) * eye
    s = sig_tr - np.trace(sig_tr) / 3 * eye
    ss = np.sum(s * s)
    if vk.sym:
        f = ring.nthroot(co(ss), 2) - ring.nthroot(LP.const(Fraction(2, 3)), 2) * (sy + K * alpha[0])
        oracle.assume(f, ">" if cfg["case"] == "plastic" else "<")
    else:
        f = np.sqrt(ss) - float(np.sqrt(2 / 3)) * (sy + K * alpha[0])
        if (f > 0) != (cfg["case"] == "plastic") or abs(f) < 1e-6:
            raise Skip("other side of the yield surface")
    F0, sv0 = vk.snapshot(F), vk.snapshot(sv)
    sv_in = sv.copy()
    sig, sv_new = umat.gradient([F, sv_in])
    dsde = umat.hessian([F, sv.copy()])[0]
    vk.frame_unchanged("x[0]", F, F0)
    vk.frame_unchanged("statevars-input", sv_in, sv0)
    vk.ensures_eq("hessian==D(gradient)|old-state", bc(dsde, (3, 3, 3, 3, q, c)), dF(vk, sig, F))
    n = sv.shape[0]
    vk.ensures_eq("statevars_new/strain", sv_new[n - 18 : n - 9, 0, 0], strain.reshape(9))
    vk.ensures_eq("statevars_new/stress", sv_new[n - 9 :, 0, 0], np.asarray(sig)[:, :, 0, 0].reshape(9))
    if cfg["case"] == "elastic":
        vk.ensures_eq("elastic-update==trial stress with the Lame constants of (E, nu)", np.asarray(sig)[:, :, 0, 0], sig_tr)
        vk.ensures_eq("elastic-step-keeps-plastic-state", sv_new[:10, 0, 0], sv[:10, 0, 0])
    else:
        # yield condition after the update (squared form), as in C15
        c23 = ring.nthroot(LP.const(Fraction(2, 3)), 2) if vk.sym else float(np.sqrt(2 / 3))
        sn = np.asarray(sig)[:, :, 0, 0]
        sdev = sn - np.trace(sn) / 3 * eye
        r = c23 * (sy + K * sv_new[0, 0, 0])
        vk.ensures_eq("plastic-update: yield-condition-after-update (squared)", np.sum(sdev * sdev), r * r)
    if vk.sym:
        vk.canary("hessian==2*D(gradient)", bc(dsde, (3, 3, 3, 3, q, c)), 2 * dF(vk, sig, F) + 1)


# ---------------------------------------------------------------------------------------------------------
OPT_OK = [("ux",), ("ux", "bx")]
OPT_OBSERVED = [("ps",), ("bx",), ("ux", "ps"), ("ps", "bx"), ("ux", "ps", "bx")]


def _optimize_run(cases, relative):
    """native: fit exact and perturbed data of the load cases `cases`; which documented clauses hold"""
    lam = {"ux": np.linspace(1.0, 2.0, 6)[1:], "ps": np.linspace(1.0, 1.8, 5)[1:], "bx": np.linspace(1.0, 1.5, 8)[1:]}
    true = fem.Hyperelastic(fem.neo_hooke, mu=1.7)
    curve = lambda m, lc, x: getattr(m.view(incompressible=True, ux=None, ps=None, bx=None), {"ux": "uniaxial", "ps": "planar", "bx": "biaxial"}[lc])(x)[1]  # noqa: E731
    exact = {lc: np.array([lam[lc], curve(true, lc, lam[lc])]) for lc in cases}
    noisy = {lc: np.array([lam[lc], curve(true, lc, lam[lc]) * (1 + 0.05 * np.cos(3 * lam[lc] + k))]) for k, lc in enumerate(cases)}
    umat = fem.Hyperelastic(fem.neo_hooke, mu=1.0)
    out = {}
    for tag, data in (("exact", exact), ("noisy", noisy)):
        try:
            new, res = umat.optimize(incompressible=True, relative=relative, **{lc: d.copy() for lc, d in data.items()})
            spec = []
            for lc in ("ux", "ps", "bx"):
                if lc in data:
                    r = curve(new, lc, data[lc][0]) - data[lc][1]
                    spec.append(r / data[lc][1] if relative else r)
            spec = np.concatenate(spec)
            out[tag] = dict(n=len(res.fun), n_spec=len(spec), dev=(float(np.abs(np.asarray(res.fun) - spec).max()) if len(res.fun) == len(spec) else float("inf")), mu=float(new.kwargs["mu"]), cost=float(res.cost))
        except Exception as e:  # noqa: BLE001
            out[tag] = dict(error=f"{type(e).__name__}: {e}")
    ok = {
        "returns": all("error" not in o for o in out.values()),
        "every data point of every given load case enters the residual vector": all(o.get("n") == o.get("n_spec") for o in out.values()),
        "res.fun == [r_ux; r_ps; r_bx] of the fitted material (each prediction against the observation of its own load case)": all(o.get("dev", 1) < 1e-9 for o in out.values()),
        "data generated exactly by the material class are fitted exactly": "error" not in out["exact"] and abs(out["exact"]["mu"] - 1.7) < 1e-6 and out["exact"]["cost"] < 1e-16,
    }
    call = f"Hyperelastic(neo_hooke, mu=1.0).optimize({', '.join(c + '=data_' + c for c in cases)}, incompressible=True, relative={relative})"
    return out, ok, call


@contract("C03", "optimize_loadcases", configs=[dict(cases="+".join(c), relative=r) for c in OPT_OK for r in (False, True)] + [dict(cases="observed")], engine="ground")
def optimize_loadcases(vk, cfg):
    """optimize(ux=, ps=, bx=): "at least one of the arguments ux, ps or bx must not be None"; the documented vector of
    residuals is r = [r_ux; r_ps; r_bx] with r_lc(λ_i) = P_lc(λ_i) - P_lc,observed(λ_i) (divided by the observation
    if relative=True) over the load cases given.  Stated natively (scipy least squares) on the returned result:
    `res.fun` is that vector for the fitted material (every data point of every load case given enters, each
    prediction is compared with the observation of its own load case), and data generated exactly by a material of
    the same class (neo_hooke, mu=1.7; start mu=1) are fitted exactly.  Parameter fitting is outside every property
    (lead decision): obligations for the combinations the real code handles (ux alone, ux + bx); what it does with
    ps / bx alone / ux + ps / ps + bx / all three is recorded as ONE observation (vk.note), not as an obligation"""
    if not vk.sym:
        return
    vk.real(fem.ConstitutiveMaterial.optimize, alias="felupe.constitution._base.ConstitutiveMaterial.optimize [load cases ux / ps / bx]")
    if cfg["cases"] != "observed":
        with symnp.native():
            out, ok, call = _optimize_run(cfg["cases"].split("+"), cfg["relative"])
        for k, v in ok.items():
            vk.ensures_true(k, bool(v), f"{call}: {out}", backend="exec")
        vk.canary_bool("the fitted parameter is the start value", abs(out["exact"].get("mu", 1.0) - 1.0) > 1e-3)
        return
    lines = []
    with symnp.native():
        for cases in OPT_OBSERVED:
            out, ok, call = _optimize_run(list(cases), False)
            bad = [k for k, v in ok.items() if not v]
            lines.append(f"{call}: " + ("all documented clauses hold" if not bad else "VIOLATED: " + "; ".join(bad)) + f" {out}")
    vk.note("observation (parameter fitting is outside every property; NOT an obligation): optimize builds `experiments` in the order [ux, bx, ps] and zips it with view(...).evaluate(), which returns only the load cases given, in the order ux, ps, bx -- a planar / biaxial data set without uniaxial data raises, planar data next to uniaxial data are silently dropped, with all three the planar prediction is compared with the biaxial observation and vice versa.  " + " || ".join(lines))
