"""C09 -- homogeneous deformation problems are solved exactly, independent of the mesh.

The algebraic patch test, as a chain of contracts on the real code (DESIGN §3 C09):
 (L1) real region on a generic cell:  dhdX[a,:,q] * dV[q] == cof(J_q)^T dhdr_a(xi_q) w_q   (polynomial form)
 (L2) patch closure, from the real element gradient and the real default quadrature tables: for a patch of
      cells sharing an interior node (all patch coordinates symbolic) the interior node's integrated
      shape-function gradient  sum_cells sum_q cof(J)^T dh_a w_q  vanishes identically -- on arbitrarily
      distorted quad/hex cells and straight-edged simplices;
 (L3) nodal values u_a = (A - I) X_a give F == A at every quadrature point of the generic cell (real
      Field.extract);
 (L4) real SolidBody with the material contract on that cell:  r_a == P(A) . B_a  with the polynomial B_a of L1.
 => with C02 (assembly = sum over cells) every interior unknown of a mesh in a homogeneous state has zero
    residual, for any material: the affine field is an equilibrium (paper composition, TRUSTED).
Reaction/curve bookkeeping: CharacteristicCurve._callback records x = displacement of the first boundary
point and y = tools.force(...) of the residual; PlotMaterial.evaluate starts every curve from the given
state; ViewMaterial curves return P11 of the diagonal deformation whose lateral stretch solves P33 = 0.
"""
import itertools
from fractions import Fraction
from copy import deepcopy

import numpy as np

import felupe as fem
from contracts.c06_regions import CELLTYPE, TEMPLATES, _default_quadrature, exact_quadrature
from vk import coo, gencell, oracle, ring, symnp
from vk.core import Skip, contract
from vk.gencell import generic_points, jacobian_at, ref_points, require_valid_cell
from vk.ring import LP, co
from vk.stubs import StubMaterial
from vk.symnp import adj_ref, det_ref, ref_einsum

TRUSTED = [
    "C09 composition (A6): L1-L4 + C02 (assembly is the sum over cells) + C06 (F == A) give zero residual on all interior unknowns of any mesh of valid cells in a homogeneous state; that Newton finds this solution and no other is not decided (C07 gives: what it returns is an equilibrium)",
    "C09 lemma (A6): sum over the nodes of a loaded face of the nodal forces equals P(A) N A_ref when the lateral faces are traction free (partition of unity on the face + divergence theorem)",
    "C09 lemma (A6, divergence theorem): on a conforming patch of valid cells the exact integrals int grad_X h_a dV of an interior node's shape function sum to zero (h_a is continuous across the shared faces and vanishes on the patch boundary); with L2x (the template's rule integrates int grad_X h_a dV exactly on every admissible cell) this is the patch closure for the higher-order families on curved cells; for MINI templates the bubble function vanishes on the cell boundary, so its exact integrated gradient is zero on the cell",
    "C09: scipy.optimize.root is external: the material-level curves are verified against its contract (returns x with fun(x) == 0); existence/uniqueness of the lateral stretch is not decided",
]

E = fem.element
TOL = 1e-11
FLOAT_TABLES_C09 = {"RegionQuad", "RegionHexahedron", "RegionQuadraticQuad", "RegionBiQuadraticQuad", "RegionQuadraticHexahedron", "RegionTriQuadraticHexahedron", "RegionQuadraticTetra", "RegionTetraMINI", "RegionTriangleMINI", "RegionQuadraticTriangle", "RegionTriangle", "RegionTetra"}


def dense(vk, fn):
    if vk.sym:
        with coo.bound():
            return coo.todense(fn())
    return coo.todense(fn())


CELL_CFG = [dict(template=t, cell=c) for t, c in (("RegionQuad", "generic"), ("RegionTriangle", "generic"), ("RegionTetra", "generic"), ("RegionQuadraticTriangle", "generic"), ("RegionQuadraticQuad", "generic"), ("RegionHexahedron", "affine"), ("RegionQuadraticTetra", "affine"), ("RegionBiQuadraticQuad", "affine"))]


@contract("C09", "cell", configs=CELL_CFG)
def cell(vk, cfg):
    """L1, L3, L4 on one generic cell"""
    name = cfg["template"]
    cls, el_cls, domain, space, _ = TEMPLATES[name]
    el = el_cls()
    X = generic_points(vk, el, affine=cfg["cell"] == "affine", spread=0.1)
    n, dim = X.shape
    with symnp.native():
        q0 = _default_quadrature(cls)
        qp, qw = np.asarray(q0.points, dtype=float), np.asarray(q0.weights, dtype=float)
    require_valid_cell(vk, el, X, qp)
    mesh = fem.Mesh(X, np.arange(n).reshape(1, -1), CELLTYPE[name])
    region = cls(mesh, quadrature=exact_quadrature(vk, cls))
    vk.real(fem.Region.reload)
    tol = TOL if name not in ("RegionTriangle", "RegionTetra", "RegionQuadraticTriangle") else None
    # L1
    B = np.zeros((n, dim), dtype=object if vk.sym else float)
    if vk.sym:
        B[...] = LP()
    for q in range(len(qp)):
        J = jacobian_at(vk, el, X, qp[q])
        cofT = adj_ref(J)  # adj = cof^T
        g = np.asarray(el.gradient(ring.lift(qp[q]) if vk.sym else qp[q]))
        Bq = ref_einsum("ai,ij->aj", g, cofT) * (co(float(qw[q])) if vk.sym else qw[q])
        vk.ensures_eq(f"L1/dhdX*dV==dhdr.adj(J)*w/q={q}", region.dhdX[:, :, q, 0] * region.dV[q, 0], Bq, tol=tol)
        B = B + Bq
    # L3: affine nodal values reproduce the homogeneous deformation gradient
    A = vk.reals("A", (dim, dim), near=np.eye(dim), spread=0.15)
    u = ref_einsum("ij,aj->ai", A - (ring.lift(np.eye(dim)) if vk.sym else np.eye(dim)), X)
    f = fem.Field(region, dim=dim, values=u)
    F = f.extract()
    vk.real(fem.Field.extract)
    vk.ensures_eq("L3/F==A", F[..., 0], np.broadcast_to(A[:, :, None], F[..., 0].shape), tol=tol)
    # L4: cell force of the real SolidBody == P(A) . B_a
    if vk.sym:
        oracle.assume(det_ref(A), ">")
    elif float(det_ref(A)) <= 0.2:
        raise Skip("det A")
    umat = StubMaterial(vk, dim=dim, hyperelastic=False)
    fc = fem.FieldContainer([f])
    body = fem.SolidBody(umat, fc)
    vk.real(fem.SolidBody._vector)
    r = np.asarray(dense(vk, lambda: body.assemble.vector(fc))).reshape(n, dim)
    Aq = A.reshape(dim, dim, 1, 1)
    PA = umat.gradient([Aq, None])[0][:, :, 0, 0]
    if vk.sym and tol is None:
        vk.ensures_eq("L4/r_a==P(A).B_a", r, ref_einsum("ij,aj->ai", PA, B))
    elif vk.sym:
        # float Gauss tables: F equals A only up to the tolerance, so the material atoms differ syntactically;
        # L4 is then stated per quadrature point through the body's own stress
        P = body.results.stress[0]
        vk.ensures_eq("L4/r_a==sum_q P_q.dhdX_a dV", r, ref_einsum("ijqc,ajqc,qc->ai", P, region.dhdX, region.dV), tol=tol)
    else:
        vk.ensures_eq("L4/r_a==P(A).B_a", r, ref_einsum("ij,aj->ai", PA, B))
    if vk.sym:
        vk.canary("L1/B==0", B, 0 * B)


# ------------------------------------------------------------------------------------------------
# L2x: the template's default rule integrates the integrated shape-function gradient exactly on every cell of
# the family (curved cells included)
RULE_CFG = [dict(template=t, cell=("affine" if t == "RegionQuadraticTetra" else "generic")) for t in TEMPLATES if "Constant" not in t]


def _exponents(arr, rg, ignore=()):
    """set of exponent tuples (w.r.t. the generators rg) of the monomials of the polynomial entries of arr;
    generators in `ignore` are parameters (coefficients)"""
    out = set()
    for p in np.asarray(arr, dtype=object).ravel():
        for m in co(p).t:
            e = [0] * len(rg)
            for g, k in m:
                if g in ignore and k >= 0:
                    continue
                if g not in rg or k < 0:
                    raise ValueError("shape-function gradient is not a polynomial in the reference coordinates")
                e[rg.index(g)] = k
            out.add(tuple(e))
    return out


def _ground(vk, name, lhs, rhs, cfg, native, tol=Fraction(1, 10**12)):
    """closed (variable-free) identity on the exact-rational reading of the rule's tables: |lhs - rhs| <= tol; a failing one
    is a refutation with the native float value of the real tables as the replayed witness"""
    d = co(lhs) - co(rhs)
    c = d.asconst()
    if c is None:
        vk.ensures_eq(name, np.array(lhs), np.array(rhs))
        return
    ok = abs(c) <= tol
    rep = None
    if not ok:
        rep = {"confirmed": True, "kind": "ground", "point": {"template": cfg["template"], "obligation": name}, "expected": float(co(rhs).asconst()), "actual": native()}
    vk.ensures_true(name, bool(ok), f"|quadrature sum - exact integral| = {float(abs(c)):.3e} (tolerance {float(tol):.0e}, float tables read as exact rationals)", backend="exact-rational", replay=rep)


@contract("C09", "rule_exactness", configs=RULE_CFG)
def rule_exactness(vk, cfg):
    """L2x: B_a = int_cell grad_X h_a dV = int_ref dh_a/dxi . adj(J) dxi is a polynomial in xi whose coefficients are
    polynomials in the node coordinates (J = sum_b X_b (x) dh_b/dxi of the geometry element).  Every xi-monomial that
    can occur in dh_a/dxi_i . adj(J)_ij -- products of one derivative per reference axis, the factors taken from the
    real element's gradient evaluated at a symbolic reference point -- is integrated exactly by the template's default
    quadrature (real scheme object).  Hence sum_q B_a,q equals the exact integral for EVERY admissible cell of the
    family: all (curved) quad / hex families and tri6 with all nodes free, tet10 with straight edges (geometry of the
    corner element) -- the quantifier of the property.  With the divergence theorem on a conforming patch (TRUSTED) this
    is the patch closure for the families whose generic patch is not run algebraically in `patch_closure`."""
    name = cfg["template"]
    cls, el_cls, domain, space, _ = TEMPLATES[name]
    with symnp.native():
        q0 = _default_quadrature(cls)
        qp, qw = np.asarray(q0.points, dtype=float), np.asarray(q0.weights, dtype=float)
    dim = qp.shape[1]
    vk.real(type(q0).__init__)
    if "MINI" in name:
        bm = vk.reals("bubble", (), near=0.1, spread=0.05)
        el = el_cls(bubble_multiplier=bm)
        geo = {2: E.Triangle, 3: E.Tetra}[dim]()  # the bubble node carries no geometry: straight-edged simplex
    else:
        el = el_cls()
        geo = E.Tetra() if cfg["cell"] == "affine" else el
    vk.real(type(el).gradient)
    vk.real(type(geo).gradient)
    if not vk.sym:
        # native reading: the quadrature sum of every monomial up to the degree proved symbolically
        return
    r = ring.symarray("rr", (dim,))
    rg = [ring.gen_of(x) for x in r]
    with symnp.symbolic():
        g = np.asarray(el.gradient(r), dtype=object)  # (n, dim)
        gg = np.asarray(geo.gradient(r), dtype=object)
    pts, wts = ring.lift(qp), ring.lift(qw)
    exact_tables = name not in FLOAT_TABLES_C09
    imono = gencell._int_mono_cube if domain == "cube" else gencell._int_mono_simplex
    if domain == "simplex":
        # simplex rules are exact for a polynomial SPACE, not monomial by monomial on products (symmetric rules integrate
        # some higher-order combinations by cancellation): state exactly what is needed.  B_a,j = sum_i dh_a/dxi_i adj(J)_ij is
        # a polynomial in the node coordinates X; its coefficients are  T_ab = dh_a/dxi_0 dg_b/dxi_1 - dh_a/dxi_1 dg_b/dxi_0
        # (2D, coefficient of X_b,k) and  T_abc = det(dh_a/dxi, dg_b/dxi, dg_c/dxi), b < c  (3D, coefficient of
        # X_b,k X_c,l; antisymmetric in b, c): the rule must integrate each of them exactly (necessary and sufficient)
        ng = len(gg)
        polys = {}
        for a in range(len(g)):
            if dim == 2:
                for b in range(ng):
                    polys[f"T[{a},{b}]"] = co(g[a, 0]) * co(gg[b, 1]) - co(g[a, 1]) * co(gg[b, 0])
            else:
                for b in range(ng):
                    for c in range(b + 1, ng):
                        M3 = np.array([[co(x) for x in g[a]], [co(x) for x in gg[b]], [co(x) for x in gg[c]]], dtype=object)
                        polys[f"T[{a},{b},{c}]"] = co(det_ref(M3))
        names, lhs, rhs = [], [], []
        for k, T in polys.items():
            acc = LP()
            for qi in range(len(qw)):
                acc = acc + co(wts[qi]) * ring.evalat(T, {r[d]: pts[qi, d] for d in range(dim)})
            names.append(k)
            lhs.append(acc)
            rhs.append(gencell.integrate_ref(T, list(r), domain))
        vk.ensures_true("the coefficient polynomials are not all zero", any(co(T).t for T in polys.values()), f"{len(polys)} coefficient polynomials of the integrated gradient", backend="ground")
        for k, a_, b_ in zip(names, lhs, rhs):
            T = polys[k]
            if "MINI" in name:  # the bubble multiplier stays symbolic: identity in the multiplier
                vk.ensures_eq(f"L2x/default rule integrates the coefficient {k} of the integrated gradient exactly", np.array(a_), np.array(b_), tol=None if exact_tables else 1e-12)
                continue
            native = lambda T=T: float(sum(float(qw[qi]) * ring.tofloat(T, {rg[d]: float(qp[qi, d]) for d in range(dim)}) for qi in range(len(qw))))  # noqa: E731
            _ground(vk, f"L2x/default rule integrates the coefficient {k} of the integrated gradient exactly", a_, b_, cfg, native)
    else:
        # tensor-product Gauss rules are exact monomial by monomial up to their degree per axis: every xi-monomial that can
        # occur in a product of one shape-function derivative per reference axis (a superset of the monomials of B_a,j)
        Eg = [_exponents(g[:, i], rg) for i in range(dim)]
        Egg = [_exponents(gg[:, i], rg) for i in range(dim)]
        S = set()
        for perm in itertools.permutations(range(dim)):
            i, rest = perm[0], perm[1:]
            for e0 in Eg[i]:
                for combo in itertools.product(*[Egg[m] for m in rest]):
                    S.add(tuple(sum(x) for x in zip(e0, *combo)))
        S = sorted(S)
        vk.ensures_true("the monomial set is not empty", len(S) > 0, f"{len(S)} monomials, maximal degree per axis {tuple(max(e[k] for e in S) for k in range(dim))}", backend="ground")
        for e in S:
            acc = LP()
            for qi in range(len(qw)):
                t = co(wts[qi])
                for k in range(dim):
                    if e[k]:
                        t = t * co(pts[qi, k]) ** e[k]
                acc = acc + t
            native = lambda e=e: float(np.sum(qw * np.prod(qp ** np.array(e), axis=1)))  # noqa: E731
            _ground(vk, "L2x/default rule integrates xi^" + "".join(map(str, e)) + " exactly", acc, LP.const(imono(e)), cfg, native)
    # vacuity: the first even power of xi_0 the rule does NOT integrate must be refuted
    for pw in range(2, 16, 2):
        e = (pw,) + (0,) * (dim - 1)
        val = sum(float(qw[qi]) * float(qp[qi, 0]) ** pw for qi in range(len(qw)))
        if abs(val - float(imono(e))) > 1e-6:
            acc = LP()
            for qi in range(len(qw)):
                acc = acc + co(wts[qi]) * co(pts[qi, 0]) ** pw
            vk.canary(f"rule integrates xi_0^{pw}", np.array([acc], dtype=object), np.array([LP.const(imono(e))], dtype=object))
            break
    vk.note("C09 L2x: exactness is proved monomial by monomial for every product of one shape-function derivative per reference axis (a superset of the monomials of dh_a/dxi.adj(J)): sufficient for exact integration of the integrated gradient on every cell of the family; Gauss-Legendre tables in tolerance form (A1)")


def _patch(vk, kind):
    """cells sharing one interior node, all patch coordinates symbolic (near a regular grid); connectivity
    from the real mesh generators (conformity of triangulate is C16)"""
    with symnp.native():
        if kind in ("quad", "triangle"):
            m = fem.Rectangle(b=(2, 2), n=3)
            if kind == "triangle":
                m = m.triangulate()
        else:
            m = fem.Cube(b=(2, 2, 2), n=3)
            if kind == "tetra":
                m = m.triangulate()
        pts = np.asarray(m.points, dtype=float)
        centre = int(np.argmin(np.abs(pts - 1.0).sum(1)))
        cells = [list(c) for c in np.asarray(m.cells) if centre in c]
    used = sorted({p for c in cells for p in c})
    remap = {p: k for k, p in enumerate(used)}
    cells = np.array([[remap[p] for p in c] for c in cells])
    X = vk.reals("X", (len(used), pts.shape[1]), near=pts[used], spread=0.15)
    return X, cells, remap[centre]


@contract("C09", "patch_closure", configs=[dict(kind=k) for k in ("quad", "triangle", "tetra")] + [dict(kind="hexahedron", tier="thorough")])
def patch_closure(vk, cfg):
    """L2: the interior node of a patch of arbitrarily distorted cells has zero integrated shape-function
    gradient under the template's default quadrature (tolerance form for float Gauss tables)"""
    kind = cfg["kind"]
    tmpl = {"quad": "RegionQuad", "triangle": "RegionTriangle", "tetra": "RegionTetra", "hexahedron": "RegionHexahedron"}[kind]
    cls, el_cls, domain, space, _ = TEMPLATES[tmpl]
    el = el_cls()
    X, cells, centre = _patch(vk, kind)
    dim = X.shape[1]
    with symnp.native():
        q0 = _default_quadrature(cls)
        qp, qw = np.asarray(q0.points, dtype=float), np.asarray(q0.weights, dtype=float)
    vk.real(el_cls.gradient)
    vk.real(type(q0).__init__)
    total = np.zeros(dim, dtype=object if vk.sym else float)
    if vk.sym:
        total[...] = LP()
    for c in cells:
        Xc = X[c]
        a = list(c).index(centre)
        for q in range(len(qp)):
            J = jacobian_at(vk, el, Xc, qp[q])
            g = np.asarray(el.gradient(ring.lift(qp[q]) if vk.sym else qp[q]))
            total = total + ref_einsum("i,ij->j", g[a], adj_ref(J)) * (co(float(qw[q])) if vk.sym else qw[q])
    tol = TOL if kind in ("quad", "hexahedron") else None
    vk.ensures_eq("interior-node: sum_cells sum_q dh_a.adj(J) w == 0", total, 0 * total, tol=tol)
    if vk.sym:
        # canary: a boundary node of the patch does not close
        c0 = cells[0]
        b = [p for p in c0 if p != centre][0]
        tb = sum(ref_einsum("i,ij->j", np.asarray(el.gradient(ring.lift(qp[q])))[list(c).index(b)], adj_ref(jacobian_at(vk, el, X[c], qp[q]))) * co(float(qw[q])) for c in cells if b in c for q in range(len(qp)))
        vk.canary("boundary-node-closes", tb, 0 * tb)


@contract("C09", "curve_callback", configs=[dict(items=i) for i in (False, True)], engine="E2")
def curve_callback(vk, cfg):
    """CharacteristicCurve._callback: x is the displacement of the first boundary point of the substep's
    field, y is tools.force of (substep.x, residual, boundary) with residual = substep.fun or the sum of the
    items' forces; the user callback is called afterwards with the same arguments"""
    if not vk.sym:
        return
    import felupe.mechanics._curve as CV

    vk.real(CV.CharacteristicCurve._callback)
    trace = []

    class Tok:
        def __init__(s, name):
            s.name = name

        def __add__(s, o):
            return Tok(f"({s.name}+{getattr(o, 'name', o)})")

        __radd__ = __add__

    class Fld:
        values = np.arange(12.0).reshape(6, 2)

    class Sub:
        x = [Fld()]
        fun = Tok("substep.fun")

    class Bnd:
        points = np.array([3, 1, 5])

    class Item:
        def __init__(s, k):
            s.results = type("R", (), {"force": Tok(f"item{k}.force")})()

    real_force = CV.force
    CV.force = lambda field, forces, boundary: (trace.append(("force", field, getattr(forces, "name", forces), boundary)) or Tok("FORCE"))
    try:
        cb = lambda i, j, substep, **kw: trace.append(("user-callback", i, j, substep, kw))
        items = [Item(0), Item(1)] if cfg["items"] else None
        job = CV.CharacteristicCurve(steps=[], boundary=Bnd(), items=items, callback=cb)
        sub = Sub()
        job._callback(2, 7, sub, extra=1)
    finally:
        CV.force = real_force
    vk.ensures_true("x==displacement-of-first-boundary-point", bool(len(job.x) == 1 and np.array_equal(job.x[0], Fld.values[3])), str(job.x))
    want = "(0+item0.force)+item1.force" if cfg["items"] else "substep.fun"
    got = trace[0][2] if trace and trace[0][0] == "force" else None
    vk.ensures_true("y==force(substep.x, residual, boundary)", bool(trace and trace[0][0] == "force" and trace[0][1] is sub.x and trace[0][3] is job.boundary and got is not None and sorted(t for t in got.replace("(", "").replace(")", "").split("+") if t != "0") == sorted(t for t in want.replace("(", "").replace(")", "").split("+") if t != "0") and getattr(job.y[0], "name", None) == "FORCE"), f"force called with {got}")
    vk.ensures_true("user-callback-called-after-with-same-arguments", bool(len(trace) == 2 and trace[1][:4] == ("user-callback", 2, 7, sub) and trace[1][4] == {"extra": 1}), str(trace[1:] and trace[1][:3]))
    vk.ensures_true("res==substep", job.res is sub)
    vk.canary_bool("x==last-boundary-point", not np.array_equal(job.x[0], Fld.values[5]))


@contract("C09", "material_curves", configs=[dict(curve=c, statevars=s) for c in ("uniaxial", "planar", "biaxial") for s in (False, True)] + [dict(curve="evaluate", statevars=True)] + [dict(curve=c, statevars=False, solver=m) for c in ("uniaxial", "planar", "biaxial") for m in ("first-fails", "both-fail")] + [dict(curve=c, statevars=False, stretches="argument") for c in ("uniaxial", "planar", "biaxial")])
def material_curves(vk, cfg):
    """ViewMaterial: each curve evaluates the real material on F = diag(l1, l2, l3) of the documented
    kinematics with the lateral stretch returned by the root solver for P33 = 0, and returns P11; with state
    variables the increments are chained; evaluate() starts every curve from the given state"""
    if not vk.sym:
        return
    import scipy.optimize as SO

    from felupe.constitution._view import ViewMaterial

    curve = cfg["curve"]
    if curve == "evaluate":
        vk.real(ViewMaterial.evaluate)
        seen = []

        class VM(ViewMaterial):
            def _rec(s, nm):
                seen.append((nm, deepcopy(s.statevars)))
                s.statevars = s.statevars + 1.0  # the callee may advance the history
                return (nm, nm, nm)

            def uniaxial(s, *a, **k):
                return s._rec("ux")

            def planar(s, *a, **k):
                return s._rec("ps")

            def biaxial(s, *a, **k):
                return s._rec("bx")

        sv0 = np.array([[[0.25]]])
        vm = VM(type("U", (), {"x": [np.eye(3), np.zeros(1)]})(), statevars=sv0.copy())
        out = vm.evaluate()
        vk.ensures_true("every-curve-starts-from-the-given-state", bool(len(seen) == 3 and all(np.array_equal(s, sv0) for _, s in seen)), str(seen))
        vk.ensures_true("state-restored-after-evaluate", bool(np.array_equal(vm.statevars, sv0)), str(vm.statevars))
        vk.ensures_true("curves-in-order", [n for n, _ in seen] == ["ux", "ps", "bx"] and [o[0] for o in out] == ["ux", "ps", "bx"])
        return
    vk.real(getattr(ViewMaterial, curve))
    lam = vk.reals("lam", (2,), near=[1.3, 1.6])
    for x in lam:
        oracle.assume(x, ">")
    calls = []

    outs = []

    class HistoryStub:
        """material contract with a history variable: P = P0(F) + z*1, z_new = g(F, z) (uninterpreted)"""

        def __init__(s, with_state):
            s.x = [np.eye(3), np.zeros(1 if with_state else 0)]
            s.with_state = with_state
            s.inner = StubMaterial(vk, dim=3, hyperelastic=False)

        def gradient(s, x):
            F, z = x[0], x[-1]
            calls.append((F, z))
            P = s.inner.gradient([F, None])[0]
            if not s.with_state:
                outs.append(None)
                return [P, None]
            zn = np.empty(z.shape, dtype=object)
            for i in np.ndindex(*z.shape):
                zn[i] = LP.gen(ring.ghost(f"znew{len(calls)}", [co(v) for v in np.asarray(F, dtype=object).ravel()] + [co(z[i])]))
            outs.append(zn)
            return [P + co(z.ravel()[0]) * ring.lift(np.eye(3)).reshape(3, 3, 1, 1), zn]

    umat = HistoryStub(cfg["statevars"])
    xs = ring.symarray("xroot", (2,))
    eps = co(float(np.sqrt(np.finfo(float).eps)))
    for x, l in zip(xs, lam):
        oracle.assume(x, ">")
        # the code only reports stresses where det F > sqrt(eps) (else NaN + warning): valid-state precondition
        oracle.assume({"uniaxial": l * x * x, "planar": l * x, "biaxial": l * l * x}[curve] - eps, ">")
        oracle.assume(l - eps, ">")  # the prescribed stretches themselves are in the valid range as well
        oracle.assume(l * l - eps, ">")
    roots = []

    mode = cfg.get("solver", "ok")
    starts = []
    junk = ring.symarray("xfailed", (2,))  # what a failed solve leaves in res.x: must not be used

    def root_stub(fun, x0, **kw):
        starts.append(np.asarray(x0))
        if mode == "both-fail" or (mode == "first-fails" and len(starts) == 1):
            return type("Res", (), {"success": False, "x": junk})()
        roots.append(fun(xs))
        return type("Res", (), {"success": True, "x": xs})()

    real_root = SO.root
    SO.root = root_stub
    try:
        z0 = ring.symarray("z0", (1, 1, 1)) if cfg["statevars"] else None
        vm = ViewMaterial(umat, ux=lam, ps=lam, bx=lam, statevars=z0)
        call_kw = {}
        if cfg.get("stretches") == "argument":
            # stretches handed to the curve method take precedence over those of the constructor
            other = ring.lift(np.array([1.1, 1.2]))
            vm = ViewMaterial(umat, ux=other, ps=other, bx=other, statevars=z0)
            call_kw = dict(stretches=lam)
        if mode == "both-fail":
            try:
                getattr(vm, curve)()
                raised = None
            except ValueError as e:
                raised = str(e)
            vk.ensures_true("both solves fail: ValueError, no curve returned", raised is not None and len(starts) == 2, f"{raised!r} after {len(starts)} solves")
            return
        st, force, label = getattr(vm, curve)(**call_kw)
    finally:
        SO.root = real_root
    if mode == "first-fails":
        # the solve is repeated ONCE from the start value 1 and ITS solution is the lateral stretch of the curve
        vk.ensures_true("first solve fails: solved again from the start value 1", len(starts) == 2 and all(co(v).asconst() == 1 for v in np.asarray(starts[1], dtype=object).ravel()), f"{len(starts)} solves")
    eye = ring.lift(np.eye(3))
    lat = {"uniaxial": (xs, xs), "planar": (0 * xs + 1, xs), "biaxial": (lam, xs)}[curve]
    one = ring.lift(np.ones(2))
    Fspec = np.zeros((3, 3, 1, 2), dtype=object)
    Fspec[...] = LP()
    Fspec[0, 0, 0], Fspec[1, 1, 0], Fspec[2, 2, 0] = lam, (lat[0] if curve != "planar" else one), lat[1]
    # the final evaluation (after the root solve) uses the documented kinematics
    if cfg["statevars"]:
        finals = calls[-2:]
        vk.ensures_eq("F(increment)==diag(l1,l2,l3)", np.concatenate([c[0] for c in finals], axis=-1), Fspec)
        vk.ensures_eq("first-increment-starts-from-given-state", finals[0][1], z0)
        vk.ensures_true("increments-are-chained", calls[-1][1] is outs[-2], "state of increment k+1 is the object returned by increment k")
        vk.ensures_true("final-state-stored", vm.statevars is outs[-1], "self.statevars is the state returned by the last increment")
    else:
        vk.ensures_eq("F==diag(l1,l2,l3)", calls[-1][0], Fspec)
    Pfin = [umat_P(umat, c) for c in (calls[-2:] if cfg["statevars"] else calls[-1:])]
    P11 = np.concatenate([p[0, 0].ravel() for p in Pfin])
    vk.ensures_eq("returned-force==P11(F)", np.asarray(force, dtype=object), P11)
    vk.ensures_eq("returned-stretch==l1", np.asarray(st, dtype=object), lam)
    vk.ensures_true("root-function==P33(F(l3))", len(roots) >= 1 and roots[0] is not None, "constraint handed to the solver evaluated")
    vk.canary("returned-force==P33", np.asarray(force, dtype=object), np.concatenate([p[2, 2].ravel() for p in Pfin]) + 1)


def umat_P(umat, call):
    F, z = call
    P = umat.inner.gradient([F, None])[0]
    if umat.with_state:
        P = P + co(z.ravel()[0]) * ring.lift(np.eye(3)).reshape(3, 3, 1, 1)
    return P




@contract("C09", "material_curves_incompressible", configs=[dict(curve=c, statevars=s) for c in ("uniaxial", "planar", "biaxial") for s in (False, True)] + [dict(curve=c, statevars=s, stretches="argument") for c in ("uniaxial", "planar", "biaxial") for s in (False, True)])
def material_curves_incompressible(vk, cfg):
    """ViewMaterialIncompressible: isochoric kinematics diag(l1, l2, l3) with l1 l2 l3 == 1 and the normal
    force P11 - l3/l1 P33 (hydrostatic pressure eliminated through the stress-free third direction)"""
    if not vk.sym:
        return
    from felupe.constitution._view import ViewMaterialIncompressible as VMI

    curve = cfg["curve"]
    vk.real(getattr(VMI, curve))
    lam = vk.reals("lam", (2,), near=[1.3, 1.6])
    for x in lam:
        oracle.assume(x, ">")
    calls, outs = [], []
    inner = StubMaterial(vk, dim=3, hyperelastic=False)

    class U:
        x = [np.eye(3), np.zeros(1 if cfg["statevars"] else 0)]

        def gradient(s, x):
            F, z = x[0], x[-1]
            calls.append((F, z))
            P = inner.gradient([F, None])[0]
            if not cfg["statevars"]:
                outs.append(None)
                return [P, None]
            zn = np.empty(z.shape, dtype=object)
            for i in np.ndindex(*z.shape):
                zn[i] = LP.gen(ring.ghost(f"zinc{len(calls)}", [co(v) for v in np.asarray(F, dtype=object).ravel()] + [co(z[i])]))
            outs.append(zn)
            return [P + co(z.ravel()[0]) * ring.lift(np.eye(3)).reshape(3, 3, 1, 1), zn]

    z0 = ring.symarray("z0", (1, 1, 1)) if cfg["statevars"] else None
    vm = VMI(U(), ux=lam, ps=lam, bx=lam, statevars=z0)
    call_kw = {}
    if cfg.get("stretches") == "argument":
        # "stretches at which the forces are evaluated; if None, the stretches from initialization are used": stretches
        # handed to the curve method are the ones used, those of the constructor (all three different) are not
        others = {k: ring.lift(np.array(v)) for k, v in (("ux", [1.1, 1.2]), ("ps", [1.15, 1.25]), ("bx", [1.05, 1.35]))}
        vm = VMI(U(), statevars=z0, **others)
        call_kw = dict(stretches=lam)
    st, force, label = getattr(vm, curve)(**call_kw)
    if cfg.get("stretches") == "argument":
        vk.ensures_true("stretches=: the stretches of the constructor are left as they were", all(getattr(vm, k) is v for k, v in others.items()), "ux / ps / bx attributes", backend="exec")
    l2, l3 = {"uniaxial": (lam ** Fraction(-1, 2), lam ** Fraction(-1, 2)), "planar": (0 * lam + 1, 1 / lam), "biaxial": (lam, 1 / (lam * lam))}[curve]
    Fspec = np.zeros((3, 3, 1, 2), dtype=object)
    Fspec[...] = LP()
    Fspec[0, 0, 0], Fspec[1, 1, 0], Fspec[2, 2, 0] = lam, l2, l3
    fin = calls[-2:] if cfg["statevars"] else calls[-1:]
    vk.ensures_eq("F==diag(l1,l2,l3)", np.concatenate([c[0] for c in fin], axis=-1), Fspec)
    vk.ensures_eq("isochoric: l1*l2*l3==1", lam * l2 * l3, ring.lift(np.ones(2)))
    Ps = []
    for F, z in fin:
        P = inner.gradient([F, None])[0]
        if cfg["statevars"]:
            P = P + co(z.ravel()[0]) * ring.lift(np.eye(3)).reshape(3, 3, 1, 1)
        Ps.append(P)
    P11 = np.concatenate([p[0, 0].ravel() for p in Ps])
    P33 = np.concatenate([p[2, 2].ravel() for p in Ps])
    vk.ensures_eq("force==P11-l3/l1*P33", np.asarray(force, dtype=object), P11 - l3 / lam * P33)
    vk.ensures_eq("returned-stretch==l1", np.asarray(st, dtype=object), lam)
    if cfg["statevars"]:
        vk.ensures_true("increments-are-chained", calls[-1][1] is outs[-2] and calls[-2][1] is z0, "first increment starts from the given state, the next from its output")
    vk.canary("force==P11", np.asarray(force, dtype=object), P11 + 1)
