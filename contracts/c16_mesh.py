"""C16 -- mesh generators and transformations preserve geometry and orientation.

P (E1, generic cell): the real functions of felupe.mesh (_tools, _convert, _dual, _mesh, _container,
_discrete_geometry) are executed on `felupe.Mesh` objects whose `points` array holds ring variables: one or
two *generic* cells sharing a facet (every admissible shape at once; for hexahedra that must have planar
faces the generic affine image of the reference cell).  `requires`: the input cells are valid
(det dX/dxi > 0 at the reference corners -- instances of the valid-cell schema), thickness / angle
increments are positive.  The postconditions are stated from the property text with the spec functions of
vk/cells.py (signed volume, corner Jacobians, first moments):

   Inv(mesh) = every cell positively oriented  /\\  covered volume preserved  /\\  no unused points

and Inv is preserved by each operation, hence by every finite sequence (Hoare composition, TRUSTED).
Inserted mid-points are compared with the centroid of the edge / face / cell of the *reference element
they belong to* (node table of the real felupe element of the new cell type, under contract in C04), and the
geometry map of the converted cell is proved identical to the map of the original cell for all xi.

B (bounded, never counted): generators and the float rounding path of merge_duplicate_points, exhaustive
small scope, run natively.
"""
import itertools
import warnings

import numpy as np

import felupe as fem
from felupe import mesh as fm
from felupe.mesh import _tools as fm_tools
from vk import cells, oracle, ring, symnp
from vk.core import Skip, contract
from vk.ring import LP, co

cells.install_overrides()

TRUSTED = [
    "C16 lemma (A6, Hoare composition): each operation is proved to establish Inv(result) from Inv(argument) for generic cells; a finite sequence of operations therefore preserves Inv",
    "C16 lemma (A6): positively oriented simplices on the corners of a convex cell whose chain boundary equals the cell boundary tile the cell (degree argument); used for the triangulate tables on the reference cell, transported by the affine (hexahedron) / bilinear-with-straight-edges (quad) cell map",
    "C16 lemma (A6): a quadratic / Lagrange cell whose additional nodes are the images of the reference nodes under the (multi)linear corner map has the geometry map of the linear cell (proved per element where felupe has an element class; for triangle7/tetra14/tetra15/hexahedron26 only the centroid clauses are proved)",
    "C16: cos^2+sin^2=1 of the trig atoms is applied on the spec side (vk.cells.trig_reduce); math.rotation_matrix is under contract in C17",
    "C16: np.unique(axis=0) on symbolic rows is replaced by an exact reference (vk.cells.unique_rows_ref: lexicographic sort, every comparison decided by the oracle under requires; assumed numpy contract: rows sorted, distinct, result[inverse]==input); scipy.interpolate.griddata on the two abscissae (-1, 1) is replaced by exact linear interpolation (differentially tested against scipy in the same run)",
    "C16: mesh sizes: one or two cells per mesh, up to three meshes, 2..4 layers -- the point / cell / layer axes are batch axes (A2): the code applies only index-uniform numpy operations (vstack, fancy indexing, broadcasting) along them",
]

REFP = {k: np.array(v, dtype=float).reshape(len(v), -1) for k, v in cells.REF.items()}
LINEAR = ("line", "triangle", "quad", "tetra", "hexahedron")


# ================================================================================================ helpers
def two_cell_reference(ct, ncells=2):
    """reference points and connectivity of one cell, or two cells glued along a facet"""
    P = REFP[ct].copy()
    c0 = list(range(len(P)))
    if ncells == 1:
        return P, np.array([c0])
    if ct in cells.CUBE:
        shift = np.zeros(P.shape[1])
        shift[0] = 2.0
        Q = P + shift
        pts, c1 = [tuple(p) for p in P], []
        for q in Q:
            q = tuple(q)
            if q not in pts:
                pts.append(q)
            c1.append(pts.index(q))
        return np.array(pts), np.array([c0, c1])
    if ct == "triangle":
        return np.vstack([P, [[1.0, 1.0]]]), np.array([c0, [1, 3, 2]])
    if ct == "tetra":
        return np.vstack([P, [[1.0, 1.0, 1.0]]]), np.array([c0, [1, 2, 3, 4]])
    raise KeyError(ct)


def make_mesh(vk, ct, ncells=2, shape="generic", name="X", spread=0.12, valid=True, embed=0):
    """Mesh with symbolic point coordinates.  shape='generic': every coordinate is a free real;
    'affine': X = B xi + t with free B (det B > 0) and t.  embed: extra free coordinates per point"""
    ref, conn = two_cell_reference(ct, ncells)
    dim = ref.shape[1]
    if shape == "generic":
        near = ref if not embed else np.hstack([ref, np.zeros((len(ref), embed))])
        P = vk.reals(name, near.shape, near=near, spread=spread)
    else:
        B = vk.reals(name + "B", (dim, dim), near=np.eye(dim), spread=0.3)
        t = vk.reals(name + "t", (dim,), near=0.2, spread=0.3)
        lift = ring.lift(ref) if vk.sym else ref
        P = np.array([[sum(B[i, k] * lift[a, k] for k in range(dim)) + t[i] for i in range(dim)] for a in range(len(ref))], dtype=object if vk.sym else float)
        if valid:
            vk.requires(cells.det([B[:, k] for k in range(dim)]), ">")
    mesh = fem.Mesh(P, conn, ct)
    if valid and shape == "generic":
        assume_valid(vk, ct, P[:, :dim], conn)
    return mesh


def assume_valid(vk, ct, P, conn):
    for c in conn:
        for J in cells.corner_jacobians(ct, P[c]):
            vk.requires(J, ">")


def vols(mesh, ct=None, dim=None):
    ct = ct or mesh.cell_type
    d = dim or cells.DIM[cells.base_type(ct)]
    n = cells.NCORNER[cells.base_type(ct)]
    return np.array([cells.volume(ct, mesh.points[c[:n]][:, :d]) for c in mesh.cells])


def cjac(mesh, ct=None):
    ct = ct or mesh.cell_type
    n = cells.NCORNER[cells.base_type(ct)]
    return np.array([cells.corner_jacobians(ct, mesh.points[c[:n]]) for c in mesh.cells])


def tr(vk, a):
    return cells.trig_reduce_arr(np.asarray(a)) if vk.sym else np.asarray(a)


def ensures_pos(vk, clause, vals):
    """strict positivity of every entry for all inputs inside `requires`, decided by the oracle (literally
    assumed fact up to a positive factor / structural sign / z3).  Recorded as value == |value| so that a
    refutation is replayed natively with the failing input"""
    vals = np.asarray(vals, dtype=object if vk.sym else float)
    for i in np.ndindex(*vals.shape):
        nm = clause + ("/" + ",".join(map(str, i)) if i else "")
        if not vk.sym:
            vk.ensures_eq(nm, vals[i], vals[i])
            continue
        v = cells.trig_reduce(co(vals[i]))
        try:
            if oracle.decide(v, ">"):
                rhs = vals[i]
            elif ring.iszero(v):
                rhs = v + 1
            else:
                rhs = -v
        except oracle.Undecided as e:
            vk.ensures_true(nm, None, str(e)[:300], backend="oracle")
            continue
        vk.ensures_eq(nm, vals[i], rhs)


def ensures_same(vk, clause, a, b):
    """ground equality of integer arrays / strings / shapes (one obligation)"""
    a_, b_ = np.asarray(a), np.asarray(b)
    ok = a_.shape == b_.shape and bool(np.all(a_ == b_))
    vk.ensures_true(clause, ok, "" if ok else f"got {a_.tolist()!r}, expected {b_.tolist()!r}"[:400])


def no_unused(vk, clause, mesh):
    vk.ensures_eq(clause + "/no-unused-points", len(mesh.points_without_cells), 0)
    used = np.unique(mesh.cells)
    vk.ensures_eq(clause + "/every-point-index-is-used", int(len(used) == len(mesh.points) and (len(used) == 0 or used[-1] == len(mesh.points) - 1)), 1)


def frame(vk, clause, mesh, snap):
    vk.frame_unchanged(clause + "/points", mesh.points, snap[0])
    vk.frame_unchanged(clause + "/cells", mesh.cells, snap[1])


def snap(vk, mesh):
    return vk.snapshot(mesh.points), vk.snapshot(mesh.cells)


def perm_of(new_cell, old_cell):
    """pi with new_cell[k] == old_cell[pi[k]] (None if new_cell is not a permutation of old_cell)"""
    old = list(old_cell)
    if sorted(old) != sorted(list(new_cell)) or len(set(old)) != len(old):
        return None
    return [old.index(p) for p in new_cell]


def rigid_inv(vk, clause, old, new, sign=1, reduce=False):
    """Inv for operations that keep the number of cells: per cell, the new cell has the corners of the old
    one (as point ids), the Jacobian at every physical corner and the signed volume are `sign` times the
    old ones (> 0 by requires), no unused points"""
    ct = old.cell_type
    ensures_same(vk, clause + "/cell_type", new.cell_type, ct)
    ensures_same(vk, clause + "/cells-shape", new.cells.shape, old.cells.shape)
    Jo, Jn = cjac(old), cjac(new)
    Vo, Vn = vols(old), vols(new)
    exp = np.empty(Jn.shape, dtype=Jn.dtype)
    ok = True
    for c in range(len(old.cells)):
        pi = perm_of(new.cells[c], old.cells[c])
        if pi is None:
            ok = False
            pi = list(range(len(old.cells[c])))
        if ct in cells.SIMPLEX:
            exp[c] = sign * Jo[c]
        else:
            exp[c] = sign * Jo[c][pi]
    ensures_same(vk, clause + "/cells-are-corner-permutations", ok, True)
    f = (lambda a: tr(vk, a)) if reduce else (lambda a: a)
    vk.ensures_eq(clause + "/corner-jacobians", f(Jn), exp)
    vk.ensures_eq(clause + "/volume", f(Vn), sign * Vo)
    no_unused(vk, clause, new)


def angle(vk, name, near=40.0, spread=25.0):
    """symbolic angle in degree with its cos / sin (atoms in symbolic mode)"""
    a = vk.real_scalar(name, near=near, spread=spread)
    return a, *cs(vk, a)


def cs(vk, a):
    if vk.sym:
        r = co(a) * ring.PI() / 180
        return ring.fn("cos", r), ring.fn("sin", r)
    return float(np.cos(np.deg2rad(a))), float(np.sin(np.deg2rad(a)))


def rot_spec(vk, dim, axis, c, s):
    """textbook right-handed rotation about `axis` (3d) / counter-clockwise (2d)"""
    z, one = (LP(), LP.const(1)) if vk.sym else (0.0, 1.0)
    R = np.empty((dim, dim), dtype=object if vk.sym else float)
    R[...] = z
    if dim == 2:
        R[0, 0], R[0, 1], R[1, 0], R[1, 1] = c, -s, s, c
        return R
    j, k = [(1, 2), (2, 0), (0, 1)][axis]
    R[axis, axis] = one
    R[j, j], R[k, j], R[j, k], R[k, k] = c, s, -s, c
    return R


def matvec(R, P):
    """rows of P mapped by R (explicit loops, spec side)"""
    return np.array([[sum(R[i, k] * p[k] for k in range(len(p))) for i in range(R.shape[0])] for p in P], dtype=P.dtype)


def rows_equal(vk, a, b):
    if vk.sym:
        return all(ring.iszero(co(x) - co(y)) for x, y in zip(a, b))
    return bool(np.allclose(np.asarray(a, float), np.asarray(b, float), rtol=0, atol=1e-12))


def same_point_sets(vk, A, B):
    """A and B (lists of coordinate rows) are equal as sets, without repetition in A"""
    B = list(B)
    used = set()
    for a in A:
        hit = [j for j, b in enumerate(B) if j not in used and rows_equal(vk, a, b)]
        if not hit:
            return False
        used.add(hit[0])
    return len(used) == len(B)


# ================================================================================================ spec selftest
@contract("C16", "spec", configs=[dict(check="formulas")])
def spec(vk, cfg):
    """the hand-written spec formulas agree with each other and with the reference tables of the real
    elements (cross-check of the specification, not of the code)"""
    X = vk.reals("X", (8, 3), near=REFP["hexahedron"], spread=0.2)
    if vk.sym:
        vk.ensures_eq("hexahedron-volume/face-formula==exact-integral-of-detJ", cells.volume("hexahedron", X), cells.hex_volume_integral(X))
    # sub-tetrahedra on an affine cell: 6 x det(B) / 6 ... volume == 8 det B
    B = vk.reals("B", (3, 3), near=np.eye(3), spread=0.3)
    A = np.array([[sum(B[i, k] * REFP["hexahedron"][a, k] for k in range(3)) for i in range(3)] for a in range(8)])
    vk.ensures_eq("hexahedron-volume/affine==8detB", cells.volume("hexahedron", A), 8 * cells.det([B[:, k] for k in range(3)]))
    vk.ensures_eq("hexahedron-corner-jacobians/affine==detB", np.array(cells.corner_jacobians("hexahedron", A)), cells.det([B[:, k] for k in range(3)]))
    Q = vk.reals("Q", (4, 2), near=REFP["quad"], spread=0.2)
    vk.ensures_eq("quad-area==two-triangles", cells.volume("quad", Q), cells.volume("triangle", Q[[0, 1, 2]]) + cells.volume("triangle", Q[[0, 2, 3]]))
    vk.ensures_eq("quad-area==mean-corner-jacobian*4", cells.volume("quad", Q), sum(cells.corner_jacobians("quad", Q)))
    vk.ensures_eq("quad-first-moment==triangles", cells.first_moment(Q, 1), cells.first_moment(Q[[0, 1, 2]], 1) + cells.first_moment(Q[[0, 2, 3]], 1))
    T = vk.reals("T", (3, 2), near=REFP["triangle"], spread=0.2)
    vk.ensures_eq("triangle-first-moment==area*centroid", cells.first_moment(T, 0), cells.volume("triangle", T) * (T[0, 0] + T[1, 0] + T[2, 0]) / 3)
    for ct, E in (("line", fem.element.Line), ("triangle", fem.element.Triangle), ("quad", fem.element.Quad), ("tetra", fem.element.Tetra), ("hexahedron", fem.element.Hexahedron)):
        vk.ensures_eq(f"reference-corners=={E.__name__}.points", np.asarray(E().points, dtype=float), REFP[ct])
    vk.canary("quad-area==one-triangle", cells.volume("quad", Q), cells.volume("triangle", Q[[0, 1, 2]]))
