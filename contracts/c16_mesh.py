"""C16 -- mesh generators and transformations preserve geometry and orientation.

P (E1, generic cell): the real functions of felupe.mesh (_tools, _convert, _dual, _mesh, _container,
_discrete_geometry) are executed on `felupe.Mesh` objects whose `points` array holds ring variables: one or
two *generic* cells sharing a facet (every admissible shape at once; for hexahedra that must have planar
faces the generic affine image of the reference cell).  `requires`: the input cells are valid
(det dX/dxi > 0 at the reference corners -- instances of the valid-cell schema), thickness / angle
increments are positive.  The postconditions are stated from the property text with the spec functions of
vk/cells.py (signed volume, corner Jacobians, first moments):

   Inv(mesh) = every cell positively oriented  /\\  covered volume preserved  /\\  no unused points

and Inv is preserved by each operation, hence by every finite sequence (Hoare composition, TRUSTED).
Inserted mid-points are compared with the centroid of the edge / face / cell of the *reference element
they belong to* (node table of the real felupe element of the new cell type, under contract in C04), and the
geometry map of the converted cell is proved identical to the map of the original cell for all xi.

Generators Line / Rectangle / Cube / ...ArbitraryOrder... are lifted to symbolic bounds a < b at fixed small
point counts (P); a few whole sequences are run end to end as instances of the composition lemma.

B (bounded, never counted): Grid / Circle / Triangle generators, the float rounding path of
merge_duplicate_points, scalar linspace paths at concrete angles, runouts: exhaustive small scope, run
natively; a failing evaluation raises a refuted obligation with the failing call.
"""
import itertools
import warnings

import numpy as np

import felupe as fem
from felupe import mesh as fm
from felupe.mesh import _tools as fm_tools
from vk import cells, oracle, ring, symnp
from vk.core import contract
from vk.ring import LP, co

cells.install_overrides()

TRUSTED = [
    "C16 lemma (A6, Hoare composition): each operation is proved to establish Inv(result) from Inv(argument) for generic cells; a finite sequence of operations therefore preserves Inv",
    "C16 lemma (A6): positively oriented simplices on the corners of a convex cell whose chain boundary equals the cell boundary tile the cell (degree argument); checked combinatorially for the triangulate tables on the reference cell; it carries over to every physical cell with planar faces (affine images, prisms from expand, wedges from revolve, convex quads) together with the proved positive orientation and volume sum of the sub-cells on those cells; a warped trilinear hexahedron is not tiled exactly by tetrahedra (geometry, not a defect)",
    "C16 lemma (A6): a quadratic / Lagrange cell whose additional nodes are the images of the reference nodes under the (multi)linear corner map has the geometry map of the linear cell (proved per element where felupe has an element class; for triangle7/tetra14/tetra15/hexahedron26 only the centroid clauses are proved)",
    "C16: cos^2+sin^2=1 of the trig atoms is applied on the spec side (vk.cells.trig_reduce); math.rotation_matrix is under contract in C17",
    "C16: np.isscalar(ring element) is True (a ring element stands for a float scalar, A1)",
    "C16: np.unique(axis=0) on symbolic rows is replaced by an exact reference (vk.cells.unique_rows_ref: lexicographic sort, every comparison decided by the oracle under requires; assumed numpy contract: rows sorted, distinct, result[inverse]==input); scipy.interpolate.griddata on the two abscissae (-1, 1) is replaced by exact linear interpolation (differentially tested against scipy in the same run)",
    "C16: mesh sizes: one or two cells per mesh, up to three meshes, 2..4 layers -- the point / cell / layer axes are batch axes (A2): the code applies only index-uniform numpy operations (vstack, fancy indexing, broadcasting) along them",
]

REFP = {k: np.array(v, dtype=float).reshape(len(v), -1) for k, v in cells.REF.items()}
LINEAR = ("line", "triangle", "quad", "tetra", "hexahedron")


# ================================================================================================ helpers
def two_cell_reference(ct, ncells=2):
    """reference points and connectivity of one cell, or two cells glued along a facet"""
    P = REFP[ct].copy()
    c0 = list(range(len(P)))
    if ncells == 1:
        return P, np.array([c0])
    if ct in cells.CUBE:
        shift = np.zeros(P.shape[1])
        shift[0] = 2.0
        Q = P + shift
        pts, c1 = [tuple(p) for p in P], []
        for q in Q:
            q = tuple(q)
            if q not in pts:
                pts.append(q)
            c1.append(pts.index(q))
        return np.array(pts), np.array([c0, c1])
    if ct == "triangle":
        return np.vstack([P, [[1.0, 1.0]]]), np.array([c0, [1, 3, 2]])
    if ct == "tetra":
        return np.vstack([P, [[1.0, 1.0, 1.0]]]), np.array([c0, [1, 2, 3, 4]])
    raise KeyError(ct)


def make_mesh(vk, ct, ncells=2, shape="generic", name="X", spread=0.12, valid=True, embed=0, offset=0.0):
    """Mesh with symbolic point coordinates.  shape='generic': every coordinate is a free real;
    'affine': X = B xi + t with free B (det B > 0) and t.  embed: extra free coordinates per point"""
    ref, conn = two_cell_reference(ct, ncells)
    ref = ref + offset  # only the centre of the sampling box for the paired float run / replays
    dim = ref.shape[1]
    if shape == "generic":
        near = ref if not embed else np.hstack([ref, np.zeros((len(ref), embed))])
        P = vk.reals(name, near.shape, near=near, spread=spread)
    else:
        B = vk.reals(name + "B", (dim, dim), near=np.eye(dim), spread=0.3)
        t = vk.reals(name + "t", (dim,), near=0.2, spread=0.3)
        lift = ring.lift(ref) if vk.sym else ref
        P = np.array([[sum(B[i, k] * lift[a, k] for k in range(dim)) + t[i] for i in range(dim)] for a in range(len(ref))], dtype=object if vk.sym else float)
        if valid:
            vk.requires(cells.det([B[:, k] for k in range(dim)]), ">")
    mesh = fem.Mesh(P, conn, ct)
    vk.real(fem.Mesh.__init__)
    vk.real(fm._discrete_geometry.DiscreteGeometry.update)
    if valid and shape == "generic":
        assume_valid(vk, ct, P[:, :dim], conn)
    return mesh


def assume_valid(vk, ct, P, conn):
    for c in conn:
        for J in cells.corner_jacobians(ct, P[c]):
            vk.requires(J, ">")


def vols(mesh, ct=None, dim=None):
    ct = ct or mesh.cell_type
    d = dim or cells.DIM[cells.base_type(ct)]
    n = cells.NCORNER[cells.base_type(ct)]
    return np.array([cells.volume(ct, mesh.points[c[:n]][:, :d]) for c in mesh.cells])


def cjac(mesh, ct=None):
    ct = ct or mesh.cell_type
    n = cells.NCORNER[cells.base_type(ct)]
    return np.array([cells.corner_jacobians(ct, mesh.points[c[:n]]) for c in mesh.cells])


def tr(vk, a):
    return cells.trig_reduce_arr(np.asarray(a)) if vk.sym else np.asarray(a)


def _deg(p):
    return max((sum(e for _, e in m) for m in p.t), default=0)


def sign_by_certificate(v):
    """+1 / -1 if v == c * A_i * A_j (or c * A_i) with c rational and A_i, A_j literally assumed positive
    (product of positives is positive) -- a sound certificate search, no solver involved; else None"""
    v = ring.expand(co(v))
    pos = [ring.expand(q) for q, o in oracle.ASSUME if o == ">"]
    dv = _deg(v)
    for q in pos:
        r = oracle._ratio(v, q)
        if r:
            return 1 if r > 0 else -1
    degs = [_deg(q) for q in pos]
    for i in range(len(pos)):
        for j in range(i, len(pos)):
            if degs[i] + degs[j] == dv:
                r = oracle._ratio(v, pos[i] * pos[j])
                if r:
                    return 1 if r > 0 else -1
            elif len(pos) <= 12 and degs[i] + degs[j] < dv:
                for k in range(j, len(pos)):
                    if degs[i] + degs[j] + degs[k] == dv:
                        r = oracle._ratio(v, pos[i] * pos[j] * pos[k])
                        if r:
                            return 1 if r > 0 else -1
    return None


def ensures_pos(vk, clause, vals):
    """strict positivity of every entry for all inputs inside `requires`: literally assumed fact up to a
    positive factor / product certificate over the assumed facts / structural sign / z3 (oracle).
    Recorded as value == |value| so that a refutation is replayed natively with the failing input"""
    vals = np.asarray(vals, dtype=object if vk.sym else float)
    for i in np.ndindex(*vals.shape):
        nm = clause + ("/" + ",".join(map(str, i)) if i else "")
        if not vk.sym:
            vk.ensures_eq(nm, vals[i], vals[i])
            continue
        v = cells.trig_reduce(co(vals[i]))
        budget, oracle.TIMEOUT_MS = oracle.TIMEOUT_MS, 2500
        try:
            sg = None if v.asconst() is not None else sign_by_certificate(v)
            if sg is not None:
                rhs = vals[i] if sg > 0 else -v
            elif oracle.decide(v, ">"):
                rhs = vals[i]
            elif ring.iszero(v):
                rhs = v + 1
            else:
                rhs = -v
        except oracle.Undecided as e:
            vk.ensures_true(nm, None, str(e)[:300], backend="oracle")
            continue
        finally:
            oracle.TIMEOUT_MS = budget
        vk.ensures_eq(nm, vals[i], rhs)


def _same(a, b):
    if isinstance(a, np.ndarray) or isinstance(b, np.ndarray):
        a_, b_ = np.asarray(a), np.asarray(b)
        return a_.shape == b_.shape and bool(np.all(a_ == b_))
    if isinstance(a, (tuple, list)) and isinstance(b, (tuple, list)):
        return len(a) == len(b) and all(_same(x, y) for x, y in zip(a, b))
    return bool(a == b)


def ensures_same(vk, clause, a, b):
    """ground equality of integer arrays / strings / shapes / nested tuples of those (one obligation)"""
    ok = _same(a, b)
    vk.ensures_true(clause, ok, "" if ok else f"got {a!r}, expected {b!r}"[:400])


def no_unused(vk, clause, mesh):
    vk.ensures_eq(clause + "/no-unused-points", len(mesh.points_without_cells), 0)
    used = np.unique(mesh.cells)
    vk.ensures_eq(clause + "/every-point-index-is-used", int(len(used) == len(mesh.points) and (len(used) == 0 or used[-1] == len(mesh.points) - 1)), 1)


def frame(vk, clause, mesh, snap):
    vk.frame_unchanged(clause + "/points", mesh.points, snap[0])
    vk.frame_unchanged(clause + "/cells", mesh.cells, snap[1])


def snap(vk, mesh):
    return vk.snapshot(mesh.points), vk.snapshot(mesh.cells)


def perm_of(new_cell, old_cell):
    """pi with new_cell[k] == old_cell[pi[k]] (None if new_cell is not a permutation of old_cell)"""
    old = list(old_cell)
    if sorted(old) != sorted(list(new_cell)) or len(set(old)) != len(old):
        return None
    return [old.index(p) for p in new_cell]


def rigid_inv(vk, clause, old, new, sign=1, reduce=False):
    """Inv for operations that keep the number of cells: per cell, the new cell has the corners of the old
    one (as point ids), the Jacobian at every physical corner and the signed volume are `sign` times the
    old ones (> 0 by requires), no unused points"""
    ct = old.cell_type
    ensures_same(vk, clause + "/cell_type", new.cell_type, ct)
    ensures_same(vk, clause + "/cells-shape", new.cells.shape, old.cells.shape)
    Jo, Jn = cjac(old), cjac(new)
    Vo, Vn = vols(old), vols(new)
    exp = np.empty(Jn.shape, dtype=Jn.dtype)
    ok = True
    for c in range(len(old.cells)):
        pi = perm_of(new.cells[c], old.cells[c])
        if pi is None:
            ok = False
            pi = list(range(len(old.cells[c])))
        if ct in cells.SIMPLEX:
            exp[c] = sign * Jo[c]
        else:
            exp[c] = sign * Jo[c][pi]
    ensures_same(vk, clause + "/cells-are-corner-permutations", ok, True)
    f = (lambda a: tr(vk, a)) if reduce else (lambda a: a)
    vk.ensures_eq(clause + "/corner-jacobians", f(Jn), exp)
    vk.ensures_eq(clause + "/volume", f(Vn), sign * Vo)
    no_unused(vk, clause, new)


def angle(vk, name, near=40.0, spread=25.0):
    """symbolic angle in degree with its cos / sin (atoms in symbolic mode)"""
    a = vk.real_scalar(name, near=near, spread=spread)
    return a, *cs(vk, a)


def cs(vk, a):
    if vk.sym:
        r = co(a) * ring.PI() / 180
        return ring.fn("cos", r), ring.fn("sin", r)
    return float(np.cos(np.deg2rad(a))), float(np.sin(np.deg2rad(a)))


def rot_spec(vk, dim, axis, c, s):
    """textbook right-handed rotation about `axis` (3d) / counter-clockwise (2d)"""
    z, one = (LP(), LP.const(1)) if vk.sym else (0.0, 1.0)
    R = np.empty((dim, dim), dtype=object if vk.sym else float)
    R[...] = z
    if dim == 2:
        R[0, 0], R[0, 1], R[1, 0], R[1, 1] = c, -s, s, c
        return R
    j, k = [(1, 2), (2, 0), (0, 1)][axis]
    R[axis, axis] = one
    R[j, j], R[k, j], R[j, k], R[k, k] = c, s, -s, c
    return R


def matvec(R, P):
    """rows of P mapped by R (explicit loops, spec side)"""
    return np.array([[sum(R[i, k] * p[k] for k in range(len(p))) for i in range(R.shape[0])] for p in P], dtype=P.dtype)


def rows_equal(vk, a, b):
    if vk.sym:
        return all(ring.iszero(co(x) - co(y)) for x, y in zip(a, b))
    return bool(np.allclose(np.asarray(a, float), np.asarray(b, float), rtol=0, atol=1e-12))


def same_point_sets(vk, A, B):
    """A and B (lists of coordinate rows) are equal as sets, without repetition in A"""
    B = list(B)
    used = set()
    for a in A:
        hit = [j for j, b in enumerate(B) if j not in used and rows_equal(vk, a, b)]
        if not hit:
            return False
        used.add(hit[0])
    return len(used) == len(B)


# ================================================================================================ spec selftest
@contract("C16", "spec", configs=[dict(check="formulas")])
def spec(vk, cfg):
    """the hand-written spec formulas agree with each other and with the reference tables of the real
    elements (cross-check of the specification, not of the code)"""
    X = vk.reals("X", (8, 3), near=REFP["hexahedron"], spread=0.2)
    if vk.sym:
        vk.ensures_eq("hexahedron-volume/face-formula==exact-integral-of-detJ", cells.volume("hexahedron", X), cells.hex_volume_integral(X))
    # sub-tetrahedra on an affine cell: 6 x det(B) / 6 ... volume == 8 det B
    B = vk.reals("B", (3, 3), near=np.eye(3), spread=0.3)
    A = np.array([[sum(B[i, k] * REFP["hexahedron"][a, k] for k in range(3)) for i in range(3)] for a in range(8)])
    vk.ensures_eq("hexahedron-volume/affine==8detB", cells.volume("hexahedron", A), 8 * cells.det([B[:, k] for k in range(3)]))
    vk.ensures_eq("hexahedron-corner-jacobians/affine==detB", np.array(cells.corner_jacobians("hexahedron", A)), cells.det([B[:, k] for k in range(3)]))
    Q = vk.reals("Q", (4, 2), near=REFP["quad"], spread=0.2)
    vk.ensures_eq("quad-area==two-triangles", cells.volume("quad", Q), cells.volume("triangle", Q[[0, 1, 2]]) + cells.volume("triangle", Q[[0, 2, 3]]))
    vk.ensures_eq("quad-area==mean-corner-jacobian*4", cells.volume("quad", Q), sum(cells.corner_jacobians("quad", Q)))
    vk.ensures_eq("quad-first-moment==triangles", cells.first_moment(Q, 1), cells.first_moment(Q[[0, 1, 2]], 1) + cells.first_moment(Q[[0, 2, 3]], 1))
    T = vk.reals("T", (3, 2), near=REFP["triangle"], spread=0.2)
    vk.ensures_eq("triangle-first-moment==area*centroid", cells.first_moment(T, 0), cells.volume("triangle", T) * (T[0, 0] + T[1, 0] + T[2, 0]) / 3)
    for ct, E in (("line", fem.element.Line), ("triangle", fem.element.Triangle), ("quad", fem.element.Quad), ("tetra", fem.element.Tetra), ("hexahedron", fem.element.Hexahedron)):
        vk.ensures_eq(f"reference-corners=={E.__name__}.points", np.asarray(E().points, dtype=float), REFP[ct])
    vk.canary("quad-area==one-triangle", cells.volume("quad", Q), cells.volume("triangle", Q[[0, 1, 2]]))
    if vk.sym:
        # shim validation: the exact np.unique(axis=0) reference against numpy on random rows with repetitions
        rs = np.random.RandomState(1)
        ok, n = True, 0
        for k in range(20):
            A = rs.randint(0, 3, (rs.randint(1, 12), rs.randint(1, 4))).astype(float)
            with symnp.native():
                want = np.unique(A, True, True, True, axis=0)
            got = cells.unique_rows_ref(ring.lift(A), True, True, True, axis=0)
            ok = ok and np.array_equal(np.array([[float(x) for x in r] for r in got[0]]).reshape(want[0].shape), want[0]) and all(np.array_equal(np.ravel(g), np.ravel(w)) for g, w in zip(got[1:], want[1:]))
            n += 1
        vk.bounded_standin("np.unique(axis=0) reference == numpy (shim validation)", "20 random integer-valued row sets", n, ok)
        if not ok:
            raise AssertionError("unique_rows_ref disagrees with np.unique")


# ================================================================================================ rigid maps
def _dim_of(ct):
    return cells.DIM[ct]


RIGID_CFG = (
    [dict(op="translate", ct=ct) for ct in LINEAR]
    + [dict(op="rotate", ct=ct, variant=v) for ct in ("triangle", "quad", "tetra", "hexahedron") for v in ("origin", "center", "mask")]
    + [dict(op="mirror", ct=ct, variant=v) for ct in LINEAR for v in ("axis", "normal", "default")]
    + [dict(op="flip", ct=ct) for ct in LINEAR]
)
# affine hexahedra in addition to the generic ones (cheap; also the cell shape used by triangulate)
RIGID_CFG += [dict(op=op, ct="hexahedron", shape="affine", **kw) for op, kw in (("mirror", dict(variant="normal")), ("rotate", dict(variant="center")), ("flip", {}))]


@contract("C16", "rigid", configs=RIGID_CFG)
def rigid(vk, cfg):
    """translate / rotate / mirror / flip on generic cells: point map is the textbook rigid map, every cell
    keeps its corners, corner Jacobians and signed volume (flip: sign changes, double flip = identity)"""
    op, ct = cfg["op"], cfg["ct"]
    dim = _dim_of(ct)
    mesh = make_mesh(vk, ct, cfg.get("ncells", 2), shape=cfg.get("shape", "generic"))
    P0 = mesh.points
    s0 = snap(vk, mesh)
    if op == "translate":
        vk.real(fm.translate)
        vk.real(fem.Mesh.translate)
        move = vk.real_scalar("move", near=0.7, spread=0.5)
        for axis in list(range(dim)) + [-1]:
            new = mesh.translate(move, axis)
            exp = P0.copy()
            exp[:, axis] = exp[:, axis] + move
            vk.ensures_eq(f"translate/axis={axis}/points", new.points, exp)
            ensures_same(vk, f"translate/axis={axis}/cells", new.cells, mesh.cells)
            rigid_inv(vk, f"translate/axis={axis}", mesh, new)
            frame(vk, f"translate/axis={axis}", mesh, s0)
        pts, cl, ctn = fm.translate(P0, mesh.cells, ct, move=move, axis=0)  # array form of the decorator
        exp = P0.copy()
        exp[:, 0] = exp[:, 0] + move
        vk.ensures_eq("translate/array-form/points", pts, exp)
        ensures_same(vk, "translate/array-form/cells", cl, mesh.cells)
        vk.canary("translate-moves-nothing", new.points, P0)
    elif op == "rotate":
        vk.real(fm.rotate)
        vk.real(fem.Mesh.rotate)
        vk.real(fem.math.rotation_matrix)
        a, c, s = angle(vk, "alpha")
        variant = cfg["variant"]
        center = None if variant == "origin" else vk.reals("cen", (dim,), near=0.3, spread=0.5)
        cen = (0 * P0[0]) if center is None else center
        if variant == "mask":
            # two disconnected copies of the cell; only the points of the second one are selected
            P2 = vk.reals("Y", REFP[ct].shape, near=REFP[ct] + 3.0, spread=0.12)
            n = len(REFP[ct])
            both = fem.Mesh(np.vstack([P0[:n], P2]), np.array([list(range(n)), list(range(n, 2 * n))]), ct)
            assume_valid(vk, ct, P2, [list(range(n))])
            mask = np.arange(2 * n) >= n
            mesh, P0, s0 = both, both.points, snap(vk, both)
        else:
            mask = None
        for axis in ((0, 2) if dim == 2 else (0, 1, 2)):
            new = mesh.rotate(a, axis, center=center, mask=mask)
            R = rot_spec(vk, dim, axis, c, s)
            exp = matvec(R, P0 - cen) + cen
            if mask is not None:
                exp[~mask] = P0[~mask]
            nm = f"rotate/{variant}/axis={axis}"
            vk.ensures_eq(nm + "/points", new.points, exp)
            ensures_same(vk, nm + "/cells", new.cells, mesh.cells)
            rigid_inv(vk, nm, mesh, new, reduce=True)
            # rigid: distances inside the first / last cell are preserved
            cc = new.cells[-1]
            d_new = np.array([sum((new.points[p] - new.points[q]) ** 2) for p, q in itertools.combinations(cc, 2)])
            d_old = np.array([sum((P0[p] - P0[q]) ** 2) for p, q in itertools.combinations(cc, 2)])
            vk.ensures_eq(nm + "/distances", tr(vk, d_new), d_old)
            frame(vk, nm, mesh, s0)
        vk.note("observation (not an obligation: the property quantifies over GENERATED meshes, whose points are float64): mesh.rotate of a user-built mesh with INTEGER-dtype points writes the rotated coordinates into an integer copy (points.copy()) and so truncates them silently (area of the 2x2 integer quad after rotate(30): 1.0 instead of 4.0); translate raises a casting error for the same input")
        if dim == 3:
            # a negative axis counts from the end, as in the library's other axis arguments (expand(axis=-1))
            for axis in (-1, -3):
                try:
                    neg = mesh.rotate(a, axis, center=center, mask=mask)
                except Exception as e:  # noqa: BLE001
                    vk.ensures_true(f"rotate/{variant}/axis={axis}/returns", False, f"{type(e).__name__}: {str(e)[:160]}", backend="exec")
                    continue
                vk.ensures_eq(f"rotate/{variant}/axis={axis}/points==rotation about axis {axis + 3}", neg.points, mesh.rotate(a, axis + 3, center=center, mask=mask).points)
        vk.canary("rotate-is-identity", new.points, P0)
        vk.canary("rotation-doubles-volume", tr(vk, vols(new)), 2 * vols(mesh))
    elif op == "mirror":
        vk.real(fm.mirror)
        vk.real(fm.flip)
        vk.real(fem.Mesh.mirror)
        variant = cfg["variant"]
        runs = []
        if variant == "axis":
            cen = vk.reals("cen", (dim,), near=0.3, spread=0.5)
            for axis in range(dim):
                e = np.zeros(dim)
                e[axis] = 1
                runs.append((f"axis={axis}", dict(axis=axis, centerpoint=cen), ring.lift(e) if vk.sym else e, cen))
        elif variant == "normal":
            nrm = vk.reals("nrm", (dim,), near=[0.6, -0.5, 0.7][:dim], spread=0.3)
            cen = vk.reals("cen", (dim,), near=0.3, spread=0.5)
            vk.requires(sum(nrm * nrm), ">")
            runs.append(("normal", dict(normal=nrm, centerpoint=cen), nrm, cen))
        else:
            e = np.zeros(dim)
            e[0] = 1
            runs.append(("default", dict(), ring.lift(e) if vk.sym else e, 0 * P0[0]))
        for label, kw, n, cen in runs:
            new = mesh.mirror(**kw)
            nn = sum(n * n)
            exp = np.array([p - 2 * n * sum(n * (p - cen)) / nn for p in P0])
            nm = f"mirror/{label}"
            vk.ensures_eq(nm + "/points==householder-reflection", new.points, exp)
            rigid_inv(vk, nm, mesh, new)  # reflection + re-ordering: positive orientation and volume kept
            frame(vk, nm, mesh, s0)
        vk.canary("mirror-keeps-cell-order", vols(fem.Mesh(new.points, mesh.cells, ct)), vols(mesh))
    elif op == "flip":
        vk.real(fm.flip)
        vk.real(fem.Mesh.flip)
        new = mesh.flip()
        vk.ensures_eq("flip/points", new.points, P0)
        rigid_inv(vk, "flip", mesh, new, sign=-1)
        back = new.flip()
        ensures_same(vk, "flip/double-flip==identity/cells", back.cells, mesh.cells)
        rigid_inv(vk, "flip/double-flip", mesh, back)
        # masked: only the selected cell changes orientation
        for mask in ([False, True], [True, False], np.array([True, True])):
            part = mesh.flip(mask=mask)
            sel = np.asarray(mask)
            nm = f"flip/mask={[int(x) for x in sel]}"
            sgn = np.where(sel, -1, 1)
            vk.ensures_eq(nm + "/volume", vols(part), sgn * vols(mesh))
            ensures_same(vk, nm + "/unselected-cells-unchanged", part.cells[~sel], mesh.cells[~sel])
            ensures_same(vk, nm + "/cells-are-corner-permutations", all(perm_of(a, b) is not None for a, b in zip(part.cells, mesh.cells)), True)
            again = part.flip(mask=mask)
            ensures_same(vk, nm + "/double-flip==identity", again.cells, mesh.cells)
        frame(vk, "flip", mesh, s0)
        vk.canary("flip-keeps-volume", vols(new), vols(mesh))


# ================================================================================================ triangulate
TRI_CFG = [dict(ct="quad", mode=3), dict(ct="hexahedron", mode=0), dict(ct="hexahedron", mode=3), dict(ct="hexahedron", mode=1)]
# the planar-faced hexahedra produced by expand (prism over a generic quad) and revolve (wedge between two
# meridian planes): needed to compose triangulate after these operations
TRI_CFG += [dict(ct="hexahedron", mode=m, shape=sh) for m in (0, 3) for sh in ("prism", "wedge")]


def swept_mesh(vk, shape):
    """two hexahedra swept from two generic quads: prism (translated copy) or wedge (rotated copy)"""
    q = make_mesh(vk, "quad", 2, offset=2.5)
    P, n = q.points, len(q.points)
    if shape == "prism":
        z0 = vk.real_scalar("z0", near=0.1, spread=0.3)
        d = vk.real_scalar("d", near=0.9, spread=0.3)
        vk.requires(d, ">")
        lo = np.array([[p[0], p[1], z0] for p in P])
        hi = np.array([[p[0], p[1], z0 + d] for p in P])
    else:
        a, c, s = angle(vk, "phi", near=50.0, spread=30.0)
        vk.requires(s, ">")
        for p in P:
            vk.requires(p[1], ">")
        lo = np.array([[p[0], p[1], 0 * p[0]] for p in P])
        hi = np.array([[p[0], p[1] * c, p[1] * s] for p in P])
    return fem.Mesh(np.vstack([lo, hi]), np.hstack([q.cells, q.cells + n]), "hexahedron")



def parent_of(sub, parents):
    hit = [k for k, p in enumerate(parents) if set(sub) <= set(p)]
    return hit[0] if len(hit) == 1 else None


@contract("C16", "triangulate", configs=TRI_CFG)
def triangulate(vk, cfg):
    """quad -> triangles on any valid (convex) quad; hexahedron -> tetrahedra (all modes) on the generic
    affine image of the reference cell (planar faces): sub-cells positively oriented, their signed volumes
    sum to the parent's, they tile the parent (chain criterion), no point is added, moved or left unused"""
    ct, mode = cfg["ct"], cfg["mode"]
    vk.real(fm.triangulate)
    vk.real(fem.Mesh.triangulate)
    shape = cfg.get("shape", "generic" if ct == "quad" else "affine")
    mesh = swept_mesh(vk, shape) if shape in ("prism", "wedge") else make_mesh(vk, ct, 2, shape=shape)
    s0 = snap(vk, mesh)
    if mode not in (0, 3):
        try:
            mesh.triangulate(mode=mode)
            raised = False
        except NotImplementedError:
            raised = True
        ensures_same(vk, f"mode={mode}/unsupported-mode-raises", raised, True)
        return
    new = mesh.triangulate(mode=mode)
    sub_ct = {"quad": "triangle", "hexahedron": "tetra"}[ct]
    nm = f"{ct}/mode={mode}"
    ensures_same(vk, nm + "/cell_type", new.cell_type, sub_ct)
    vk.ensures_eq(nm + "/points-unchanged", new.points, mesh.points)
    parents = [parent_of(s, mesh.cells) for s in new.cells]
    ensures_same(vk, nm + "/every-sub-cell-uses-corners-of-one-parent", all(p is not None for p in parents), True)
    Vs = tr(vk, vols(new))
    ensures_pos(vk, nm + "/sub-cell-positively-oriented", Vs)
    Vp = tr(vk, vols(mesh))
    for c in range(len(mesh.cells)):
        mine = [k for k, p in enumerate(parents) if p == c]
        vk.ensures_eq(nm + f"/sum-of-sub-volumes==parent-volume/cell={c}", sum(Vs[k] for k in mine), Vp[c])
        local = [tuple(list(mesh.cells[c]).index(p) for p in new.cells[k]) for k in mine]
        ok, why = cells.subdivision_is_tiling(ct, local)
        vk.ensures_true(nm + f"/chain-boundary==cell-boundary/cell={c}", ok, why)
    no_unused(vk, nm, new)
    frame(vk, nm, mesh, s0)
    vk.canary("one-sub-cell-has-the-parent-volume", Vs[0], Vp[0])
    bad = [tuple(s) for s in new.cells[: len(new.cells) // 2]]
    bad[0] = (bad[0][1], bad[0][0]) + bad[0][2:]
    vk.canary_bool("chain-criterion-rejects-a-reversed-sub-cell", not cells.subdivision_is_tiling(ct, [tuple(list(mesh.cells[0]).index(p) for p in s) for s in bad])[0])


# ================================================================================================ expand / revolve
EXP_CFG = (
    [dict(op="expand", ct=ct, variant=v) for ct in ("vertex", "line", "quad") for v in ("zarray", "zscalar")]
    + [dict(op="expand", ct=ct, variant="embedded") for ct in ("line", "quad")]
    + [dict(op="expand", ct="quad", variant="n=1")]
    + [dict(op="revolve", ct="line", variant="open"), dict(op="revolve", ct="line", variant="closed"), dict(op="revolve", ct="vertex", variant="open")]
    + [dict(op="revolve", ct="quad", variant="open", axis=0), dict(op="revolve", ct="quad", variant="open", axis=1)]
    # axis=1: the orientation / volume clauses on the positive side are an open known finding; everything else
    # about that call, and the same clauses on the negative side of the axis, are separate configs
    + [dict(op="revolve", ct="quad", variant="open", axis=1, part="structure"), dict(op="revolve", ct="quad", variant="open", axis=1, side="negative")]
    + [dict(op="revolve", ct="quad", variant="closed", axis=0), dict(op="revolve", ct="quad", variant="phiscalar", axis=0), dict(op="revolve", ct="line", variant="phiscalar")]
    + [dict(op="fill_between", ct=ct) for ct in ("line", "quad")]
    + [dict(op="revolve-embedded", ct="line")]
)


def base_mesh(vk, ct, embed=0, offset=0.0):
    """valid base mesh for extrusion: a point, two 1d line cells, two generic quads"""
    if ct == "vertex":
        a = vk.reals("a", (1, 1), near=0.4, spread=0.3)
        return fem.Mesh(a, np.array([[0]]), "vertex")
    if ct == "line" and not embed:
        x0 = vk.real_scalar("x0", near=0.5, spread=0.2)
        h = vk.reals("h", (2,), near=1.0, spread=0.3)
        vk.requires(h[0], ">")
        vk.requires(h[1], ">")
        vk.requires(x0, ">")
        P = np.array([[x0], [x0 + h[0]], [x0 + h[0] + h[1]]])
        return fem.Mesh(P, np.array([[0, 1], [1, 2]]), "line")
    return make_mesh(vk, ct, 2, embed=embed, offset=offset)


def layer_cells_ok(vk, new, base, layers):
    """every new cell is spanned by one base cell between two consecutive layers, each (cell, layer)
    exactly once.  layers: list of point arrays (one per layer, base point order)"""
    todo = {(c, k) for c in range(len(base.cells)) for k in range(len(layers) - 1)}
    for cell in new.cells:
        A = [new.points[p] for p in cell]
        hit = None
        for c, k in sorted(todo):
            B = [layers[k][p] for p in base.cells[c]] + [layers[k + 1][p] for p in base.cells[c]]
            if same_point_sets(vk, A, B):
                hit = (c, k)
                break
        if hit is None:
            return False, f"cell {list(cell)} is not spanned by a base cell between consecutive layers"
        todo.discard(hit)
    return (not todo), f"{len(todo)} (cell, layer) pairs not covered"


@contract("C16", "extrude", configs=EXP_CFG)
def extrude(vk, cfg):
    """expand / revolve / fill_between: layer stacking.  Every new cell is spanned by a base cell between
    consecutive layers, is positively oriented (incl. the `line` slice reversal), the covered volume is
    area x thickness (expand) resp. sin(dphi) x first moment about the axis (revolve: the straight-sided
    cell between two meridian planes), no unused points"""
    op, ct, variant = cfg["op"], cfg["ct"], cfg.get("variant")
    new_ct = {"vertex": "line", "line": "quad", "quad": "hexahedron"}[ct]
    vk.note("C16 preconditions of the layer-stacking contracts (valid arguments): thickness / meridian-angle increments are positive (0 < dphi < 180 deg), the revolved section lies on the positive side of the axis of revolution, the cells spanned by fill_between are valid; with decreasing z or negative angles the real code returns negatively oriented cells (it never re-orders), which is outside these contracts")
    if op == "expand":
        vk.real(fm.expand)
        vk.real(fem.Mesh.expand)
        embed = 1 if variant == "embedded" else 0
        base = base_mesh(vk, ct, embed=embed)
        s0 = snap(vk, base)
        dimb = base.points.shape[1]
        if variant == "n=1":
            new = base.expand(n=1, z=vk.real_scalar("z", near=1.0))
            ensures_same(vk, "expand/n=1/cell_type", new.cell_type, ct)
            ensures_same(vk, "expand/n=1/cells", new.cells, base.cells)
            vk.ensures_eq("expand/n=1/points-embedded", new.points, np.hstack([base.points, 0 * base.points[:, :1]]))
            vk.ensures_eq("expand/n=1/volume", vols(new), vols(base))
            return
        if variant == "zscalar":
            z = vk.real_scalar("z", near=1.5, spread=0.5)
            vk.requires(z, ">")
            zs = [0 * z, z / 2, z]
            kw = dict(n=3, z=z)
        else:
            z0 = vk.real_scalar("z0", near=-0.2, spread=0.3)
            dz = vk.reals("dz", (2,), near=0.8, spread=0.3)
            vk.requires(dz[0], ">")
            vk.requires(dz[1], ">")
            zs = [z0, z0 + dz[0], z0 + dz[0] + dz[1]]
            kw = dict(z=np.array(zs), n=7)  # n is ignored when z is an array
        if embed:
            kw.update(expand_dim=False, axis=dimb - 1)
        new = base.expand(**kw)
        nm = f"expand/{ct}/{variant}"
        ensures_same(vk, nm + "/cell_type", new.cell_type, new_ct)
        zero = 0 * base.points[:, :1]
        if ct == "vertex":
            # a point expands to a line along the new axis (the point coordinate itself is dropped)
            layers = [np.array([[z + 0 * zero[0, 0]]]) for z in zs]
        elif embed:
            layers = [np.hstack([base.points[:, :-1], base.points[:, -1:] + z]) for z in zs]
        else:
            layers = [np.hstack([base.points, zero + z]) for z in zs]
        ok, why = layer_cells_ok(vk, new, base, layers)
        vk.ensures_true(nm + "/cells-span-consecutive-layers", ok, why)
        ensures_same(vk, nm + "/npoints", len(new.points), len(zs) * len(base.points))
        d = cells.DIM[new_ct]
        Vn = vols(new, dim=d)
        area = 1 if ct == "vertex" else sum(vols(base, dim=d - 1))
        vk.ensures_eq(nm + "/covered-volume==area*thickness", sum(Vn), area * (zs[-1] - zs[0]))
        ensures_pos(vk, nm + "/cell-volume-positive", Vn)
        if new.points.shape[1] == d:
            ensures_pos(vk, nm + "/corner-jacobians-positive", cjac(new))
        no_unused(vk, nm, new)
        frame(vk, nm, base, s0)
        vk.canary("extruded-volume==area", sum(Vn), area + 0 * zs[-1])
    elif op == "revolve":
        vk.real(fm.revolve)
        vk.real(fem.Mesh.revolve)
        vk.real(fem.math.rotation_matrix)
        axis = cfg.get("axis", 0)
        negative = cfg.get("side") == "negative"
        part = cfg.get("part", "all" if not (ct == "quad" and axis == 1 and variant == "open" and not negative) else "measure")
        off = 2.5 if not negative else np.array([-4.5 if i == 1 - axis else 2.5 for i in range(2)])
        base = base_mesh(vk, ct, offset=off)
        s0 = snap(vk, base)
        closed = variant == "closed"
        # meridian angles 0 < phi1 < phi2 (< 360 closing): increments in (0, 180) <=> sin(increment) > 0
        a1, c1, s1 = angle(vk, "phi1", near=50.0, spread=25.0)
        scalar = variant == "phiscalar"
        if closed:
            a2, c2, s2 = angle(vk, "phi2", near=200.0, spread=15.0)
            phis = [0 * a1, a1, a2, 360 + 0 * a1]
            C, S = [1 + 0 * c1, c1, c2, 1 + 0 * c1], [0 * s1, s1, s2, 0 * s1]
        elif scalar:  # phi scalar: n equidistant meridian planes 0, phi/2, phi  (np.linspace path)
            a2 = 2 * a1
            c2, s2 = cs(vk, a2)
            phis = [0 * a1, a1, a2]
            C, S = [1 + 0 * c1, c1, c2], [0 * s1, s1, s2]
        else:
            a2, c2, s2 = angle(vk, "phi2", near=120.0, spread=25.0)
            phis = [0 * a1, a1, a2]
            C, S = [1 + 0 * c1, c1, c2], [0 * s1, s1, s2]
        dsin = [S[k + 1] * C[k] - C[k + 1] * S[k] for k in range(len(phis) - 1)]
        for x in dsin:
            vk.requires(cells.trig_reduce(x) if vk.sym else x, ">")
        nm = f"revolve/{ct}/{variant}/axis={axis}"
        P = base.points
        dimb = P.shape[1]
        # the section lies on the positive side of the axis of revolution
        arm = 0 if dimb == 1 else (1 - axis)
        sgn = -1 if negative else 1
        if ct == "quad":
            for p in P:
                vk.requires(sgn * p[arm], ">")
        new = base.revolve(phi=phis[-1], axis=axis, n=3) if scalar else base.revolve(phi=np.array(phis), axis=axis, n=9)
        if part in ("all", "structure"):
            ensures_same(vk, nm + "/cell_type", new.cell_type, new_ct)
            pad = np.hstack([P, 0 * P[:, :1]])
            layers = [matvec(rot_spec(vk, dimb + 1, axis if dimb == 2 else 0, C[k], S[k]), pad) for k in range(len(phis))]
            if closed:
                layers[-1] = layers[0]
            ok, why = layer_cells_ok(vk, new, base, layers)
            vk.ensures_true(nm + "/cells-span-consecutive-meridian-planes", ok, why)
            ensures_same(vk, nm + "/npoints", len(new.points), (len(phis) - (1 if closed else 0)) * len(P))
            no_unused(vk, nm, new)
            frame(vk, nm, base, s0)
        if part == "structure":
            vk.canary("revolve-keeps-the-section-in-its-plane", new.points[len(P) :, 2], 0 * new.points[len(P) :, 2])
            return
        if ct == "vertex":
            return  # a curve in the plane: no signed measure
        Vn = tr(vk, vols(new))
        if ct == "line":
            M = [(P[c[1], 0] ** 2 - P[c[0], 0] ** 2) / 2 for c in base.cells]
        else:
            M = [cells.first_moment(P[c], arm) for c in base.cells]
        # cells are ordered layer by layer (checked above up to order): compare as totals per layer pair
        tot = sum(Vn)
        vk.ensures_eq(nm + "/covered-volume==sum sin(dphi)*first-moment", tot, tr(vk, sgn * sum(dsin) * sum(M)))
        ensures_pos(vk, nm + "/cell-volume-positive", Vn)
        if ct == "line":
            ensures_pos(vk, nm + "/corner-jacobians-positive", tr(vk, cjac(new)))
        vk.canary("revolved-volume==pappus-with-angle-in-degree", tot, sum(M) * phis[-1])
    elif op == "revolve-embedded":
        # expand_dim=False: a line mesh embedded in the plane is rotated in its plane about the origin
        vk.real(fm.revolve)
        base = make_mesh(vk, "line", 2, embed=1, offset=2.5, valid=False)
        P = base.points
        s0 = snap(vk, base)
        a1, c1, s1 = angle(vk, "phi1", near=50.0, spread=25.0)
        vk.requires(s1, ">")
        r2 = [sum(p * p) for p in P]
        for c in base.cells:
            vk.requires(r2[c[1]] - r2[c[0]], ">")  # the section runs outwards: radius increases along each cell
        new = base.revolve(phi=np.array([0 * a1, a1]), expand_dim=False)
        nm = "revolve/line/expand_dim=False"
        ensures_same(vk, nm + "/cell_type", new.cell_type, "quad")
        layers = [P, matvec(rot_spec(vk, 2, 0, c1, s1), P)]
        ok, why = layer_cells_ok(vk, new, base, layers)
        vk.ensures_true(nm + "/cells-span-consecutive-layers", ok, why)
        Vn = tr(vk, vols(new))
        vk.ensures_eq(nm + "/area==sin(phi)*(r1^2-r0^2)/2", Vn, np.array([s1 * (r2[c[1]] - r2[c[0]]) / 2 for c in base.cells]))
        ensures_pos(vk, nm + "/cell-area-positive", Vn)
        no_unused(vk, nm, new)
        frame(vk, nm, base, s0)
        vk.canary("embedded-revolve-area==phi", sum(Vn), a1 + 0 * s1)
    else:
        fill_between(vk, cfg)


def _griddata_ref(points, values, xi, **kw):
    """exact linear interpolation on the abscissae (-1, 1) (contract of scipy.interpolate.griddata, 1d)"""
    assert list(points) == [-1, 1]
    v = np.asarray(values)
    return np.array([[(v[0, j] * (1 - t) + v[1, j] * (1 + t)) / 2 for j in range(v.shape[1])] for t in xi], dtype=v.dtype)


def fill_between(vk, cfg):
    ct = cfg["ct"]
    vk.real(fm.fill_between)
    vk.real(fm.expand)
    vk.real(fem.Mesh.fill_between)
    new_ct = {"line": "quad", "quad": "hexahedron"}[ct]
    d = cells.DIM[new_ct]
    ref, conn = two_cell_reference(ct, 2)
    lo = np.hstack([ref, -np.ones((len(ref), 1))])
    hi = np.hstack([ref, np.ones((len(ref), 1))])
    bot = fem.Mesh(vk.reals("bot", lo.shape, near=lo, spread=0.12), conn, ct)
    top = fem.Mesh(vk.reals("top", hi.shape, near=hi, spread=0.12), conn, ct)
    t = vk.real_scalar("tau", near=0.1, spread=0.4)
    vk.requires(1 - t, ">")
    vk.requires(1 + t, ">")
    span = [np.vstack([bot.points[c], top.points[c][:: (-1 if ct == "line" else 1)]]) for c in conn]
    grids = {"n=3": (3, [-1, 0, 1]), "n=array": (np.array([-1 + 0 * t, t, 1 + 0 * t]), [-1, t, 1])}
    # valid argument: the cells spanned between the two meshes are valid -- det J > 0 on the closed
    # reference cell, instantiated at the corners of every layer
    for X in span:
        for eta in (-1, 0, 1, t):
            for xi in itertools.product((-1, 1), repeat=d - 1):
                vk.requires(cells.jac_at(new_ct, X, list(xi) + [eta]), ">")
    if vk.sym:
        from scipy.interpolate import griddata as real_griddata

        rs = np.random.RandomState(0)
        vals, xis = rs.rand(2, 3), np.array([-1.0, -0.3, 0.2, 1.0])
        with symnp.native():
            ok = np.allclose(real_griddata(points=[-1, 1], values=vals, xi=xis), _griddata_ref([-1, 1], vals, xis), atol=1e-14)
        vk.bounded_standin("griddata reference == scipy.interpolate.griddata (shim validation)", "one random sample", 1, ok)
        if not ok:
            raise AssertionError("griddata reference disagrees with scipy")
    s0, s1 = snap(vk, bot), snap(vk, top)
    old = fm_tools.griddata
    try:
        if vk.sym:
            fm_tools.griddata = _griddata_ref
        for label, (n, etas) in grids.items():
            new = bot.fill_between(top, n=n)
            nm = f"fill_between/{ct}/{label}"
            ensures_same(vk, nm + "/cell_type", new.cell_type, new_ct)
            layers = [((1 - e) * bot.points + (1 + e) * top.points) / 2 for e in etas]
            ok, why = layer_cells_ok(vk, new, bot, layers)
            vk.ensures_true(nm + "/cells-span-consecutive-layers", ok, why)
            ensures_same(vk, nm + "/npoints", len(new.points), 3 * len(bot.points))
            Vn = vols(new)
            vk.ensures_eq(nm + "/covered-volume==volume-between-the-meshes", sum(Vn), sum(cells.volume(new_ct, X) for X in span))
            ensures_pos(vk, nm + "/corner-jacobians-positive", cjac(new))
            no_unused(vk, nm, new)
            frame(vk, nm + "/bottom", bot, s0)
            frame(vk, nm + "/top", top, s1)
        vk.canary("filled-volume==half", sum(Vn), sum(cells.volume(new_ct, X) for X in span) / 2)
    finally:
        fm_tools.griddata = old


# ================================================================================================ order conversion
ELEMENT_OF = {}
for _n in dir(fem.element):
    _E = getattr(fem.element, _n)
    if isinstance(_E, type) and _n not in ("Element", "ArbitraryOrderLagrange"):
        try:
            _e = _E()
            if getattr(_e, "cell_type", None):
                ELEMENT_OF.setdefault(_e.cell_type, _E)
        except Exception:
            pass

MID_CFG = (
    [dict(ct=ct, stage=st) for ct in ("triangle", "quad", "tetra", "hexahedron") for st in ("edges", "faces", "edges+faces")]
    + [dict(ct=ct, stage=st) for ct in ("tetra", "hexahedron") for st in ("volumes", "edges+volumes", "edges+faces+volumes")]
    + [dict(ct=ct, stage="convert") for ct in ("triangle", "quad", "tetra", "hexahedron")]
    # the input carries points without cells behind the used ones (a mesh taken out of a MeshContainer, or after
    # add_points): the inserted points are stacked behind ALL points and the unused ones stay what they were
    + [dict(ct=ct, stage=st, unused="trailing") for ct in ("quad", "tetra") for st in ("edges", "edges+faces", "convert")]
    # the name of the new cell type handed in by the caller (function: cell_type_new=, Mesh method: cell_type=):
    # "custom" = a name of the caller's own at every stage, "vtk" = the VTK name spelled out (same as the automatic one)
    + [dict(ct=ct, stage="edges", via=via, name="custom") for ct in ("quad", "tetra") for via in ("function", "method")]
    + [dict(ct=ct, stage="edges+faces", via=via, name=nm) for ct in ("triangle", "quad") for via in ("function", "method") for nm in ("custom", "vtk")]
    + [dict(ct=ct, stage="edges+faces+volumes", via=via, name=nm) for ct in ("tetra", "hexahedron") for via in ("function", "method") for nm in ("custom", "vtk")]
)


def sub_entities(ct):
    """corner index sets of the edges, faces and the volume of a linear reference cell (from REF)"""
    ref = cells.REF[ct]
    n, dim = len(ref), cells.DIM[ct]
    if ct in cells.SIMPLEX:
        edges = [frozenset(p) for p in itertools.combinations(range(n), 2)]
        faces = [frozenset(p) for p in itertools.combinations(range(n), 3)] if dim == 3 else [frozenset(range(n))]
    else:
        edges = [frozenset((a, b)) for a, b in itertools.combinations(range(n), 2) if sum(x != y for x, y in zip(ref[a], ref[b])) == 1]
        if dim == 3:
            faces = [frozenset(a for a in range(n) if ref[a][k] == s) for k in range(3) for s in (-1, 1)]
        else:
            faces = [frozenset(range(n))]
    return {"edges": edges, "faces": faces, "volumes": [frozenset(range(n))]}


def carrier(ct, xi):
    """corners of the smallest sub-entity of the reference cell that contains the reference point xi"""
    ref = cells.REF[ct]
    if ct in cells.SIMPLEX:
        lam = [1 - sum(xi)] + list(xi)
        return frozenset(a for a in range(len(ref)) if abs(lam[a]) > 1e-12)
    return frozenset(a for a in range(len(ref)) if all(abs(abs(x) - 1) > 1e-12 or abs(x - r) < 1e-12 for x, r in zip(xi, ref[a])))


def centroid(P, ids):
    ids = sorted(ids)
    return sum(P[i] for i in ids) / len(ids)


@contract("C16", "midpoints", configs=MID_CFG)
def midpoints(vk, cfg):
    """add_midpoints_edges / faces / volumes and convert on two generic cells sharing a facet: the corner
    geometry is untouched; every inserted point is the centroid (mean of the corners) of a distinct edge /
    face / the volume of its cell, all of them are covered, shared entities get one shared point; where
    felupe has an element for the new cell type: node j sits at the centroid of the reference entity
    that carries element.points[j], and the geometry map of the new cell equals the (multi)linear map of the
    original cell for all xi"""
    ct, stage = cfg["ct"], cfg["stage"]
    for f in (fm.add_midpoints_edges, fm.add_midpoints_faces, fm.add_midpoints_volumes, fm.collect_edges, fm.collect_faces, fm.collect_volumes, fm.convert):
        vk.real(f)
    mesh = make_mesh(vk, ct, 2)
    if cfg.get("unused"):
        extra = vk.reals("Xunused", (2, mesh.points.shape[1]), near=3.0, spread=0.5)
        mesh = fem.Mesh(np.vstack([mesh.points, extra]), mesh.cells, ct)
    P0, C0 = mesh.points, mesh.cells
    s0 = snap(vk, mesh)
    if stage == "convert":
        for kw in (dict(order=2), dict(order=2, calc_midfaces=True), dict(order=2, calc_midfaces=True, calc_midvolumes=True)):
            if kw.get("calc_midvolumes") and ct in ("triangle", "quad"):
                continue  # no volume points on 2d cells (the function raises for them)
            label = "convert/" + ",".join(f"{k}={v}" for k, v in kw.items())
            new = mesh.convert(**kw)
            kinds = ["edges"] + (["faces"] if kw.get("calc_midfaces") else []) + (["volumes"] if kw.get("calc_midvolumes") else [])
            check_inserted(vk, cfg, label, mesh, new, kinds)
        z = mesh.convert(order=0, calc_points=True)
        vk.ensures_eq("convert/order=0/point==cell-centroid", z.points, np.array([centroid(P0, c) for c in C0]))
        ensures_same(vk, "convert/order=0/cells", z.cells, np.arange(len(C0)).reshape(-1, 1))
        z0 = mesh.convert(order=0)
        vk.ensures_eq("convert/order=0/calc_points=False/zeros", z0.points, 0 * z.points)
        try:
            mesh.convert(order=1)
            raised = False
        except NotImplementedError:
            raised = True
        ensures_same(vk, "convert/order=1/raises", raised, True)
        frame(vk, "convert", mesh, s0)
        return
    kinds = stage.split("+")
    new = mesh
    if cfg.get("name"):
        # cell_type_new= / cell_type=: "a string that specifies the new cell type": the returned mesh carries exactly that
        # name, the inserted points and the connectivity are those of the automatic choice (same obligations below)
        for i, k in enumerate(kinds):
            # a name of the caller's own at the LAST stage only (the next stage must know the cell type it starts from)
            given = EXPECTED_NAME[ct, tuple(kinds[: i + 1])] if cfg["name"] == "vtk" or i + 1 < len(kinds) else f"user-{ct}+{'+'.join(kinds)}"
            before = new
            sb = snap(vk, before)
            if cfg["via"] == "method":
                vk.real(getattr(fem.Mesh, "add_midpoints_" + k))
                new = getattr(before, "add_midpoints_" + k)(cell_type=given)
            else:
                new = {"edges": fm.add_midpoints_edges, "faces": fm.add_midpoints_faces, "volumes": fm.add_midpoints_volumes}[k](before, cell_type_new=given)
            ensures_same(vk, f"{stage}/after-{k}/cell_type==the name handed in", new.cell_type, given)
            ensures_same(vk, f"{stage}/after-{k}/a new Mesh is returned", isinstance(new, fem.Mesh) and new is not before, True)
            frame(vk, f"{stage}/after-{k}/input mesh", before, sb)
        check_inserted(vk, cfg, stage, mesh, new, kinds)
        frame(vk, stage, mesh, s0)
        return
    for i, k in enumerate(kinds):
        fun = {"edges": fm.add_midpoints_edges, "faces": fm.add_midpoints_faces, "volumes": fm.add_midpoints_volumes}[k]
        if (ct, tuple(kinds[: i + 1])) in EXPECTED_NAME:
            new = fun(new)  # the function chooses the VTK name of the new cell type
        else:
            new = fun(new, cell_type_new=new.cell_type + "+" + k)  # node set without a VTK name
    check_inserted(vk, cfg, stage, mesh, new, kinds)
    frame(vk, stage, mesh, s0)


EXPECTED_NAME = {
    ("triangle", ("edges",)): "triangle6",
    ("triangle", ("edges", "faces")): "triangle7",
    ("quad", ("edges",)): "quad8",
    ("quad", ("edges", "faces")): "quad9",
    ("tetra", ("edges",)): "tetra10",
    ("tetra", ("edges", "faces")): "tetra14",
    ("tetra", ("edges", "faces", "volumes")): "tetra15",
    ("hexahedron", ("edges",)): "hexahedron20",
    ("hexahedron", ("edges", "faces")): "hexahedron26",
    ("hexahedron", ("edges", "faces", "volumes")): "hexahedron27",
}


def check_inserted(vk, cfg, label, mesh, new, kinds):
    ct = mesh.cell_type
    P0, C0 = mesh.points, mesh.cells
    n0 = cells.NCORNER[ct]
    ent = sub_entities(ct)
    name = EXPECTED_NAME.get((ct, tuple(kinds)))
    if name is not None and cfg.get("name") != "custom":
        ensures_same(vk, label + "/cell_type", new.cell_type, name)
    # corner geometry untouched
    vk.ensures_eq(label + "/old-points-unchanged", new.points[: len(P0)], P0)
    ensures_same(vk, label + "/corner-columns-unchanged", new.cells[:, :n0], C0)
    ncols = n0 + sum(len(ent[k]) for k in kinds)
    ensures_same(vk, label + "/points-per-cell", new.cells.shape[1], ncols)
    # inserted points: centroid of a distinct entity of the cell, every entity covered
    col = n0
    for k in kinds:
        width = len(ent[k])
        for c, cell in enumerate(C0):
            want = [centroid(P0, [cell[a] for a in e]) for e in ent[k]]
            got = [new.points[p] for p in new.cells[c, col : col + width]]
            nm = label + f"/{k}/cell={c}/inserted-points-are-the-centroids-of-all-{k}"
            # one-to-one matching of the inserted points with the entities; stated entity by entity (if no
            # matching exists: in the reference order of the entities -> refuted with a replayable residual)
            order, free = [], list(range(width))
            for w in want:
                hit = [j for j in free if rows_equal(vk, got[j], w)]
                if not hit:
                    order = list(range(width))
                    break
                order.append(hit[0])
                free.remove(hit[0])
            vk.ensures_eq(nm, np.array([got[j] for j in order]), np.array(want))
        col += width
    # shared entities get one point: number of new points == number of distinct entities in the mesh
    distinct = sum(len({frozenset(cell[a] for a in e) for cell in C0 for e in ent[k]}) for k in kinds)
    ensures_same(vk, label + "/no-duplicate-inserted-points", len(new.points) - len(P0), distinct)
    if cfg.get("unused"):
        ensures_same(vk, label + "/points-without-cells-are-those-of-the-input", sorted(int(x) for x in new.points_without_cells), sorted(int(x) for x in mesh.points_without_cells))
    else:
        no_unused(vk, label, new)
    vk.ensures_eq(label + "/volume", vols(new, ct=ct), vols(mesh))
    # ordering inside the cell and geometry map, against the real element of the new cell type
    E = ELEMENT_OF.get(new.cell_type)
    if E is None:
        vk.note(f"C16: no felupe element for cell type {new.cell_type}: node order inside the cell is not checked, only that the inserted points are the centroids of all edges/faces/volume")
        return
    vk.real(E.function)
    el = E()
    xi_nodes = np.asarray(el.points, dtype=float)
    ensures_same(vk, label + f"/{E.__name__}/node-count", len(xi_nodes), new.cells.shape[1])
    want = np.array([[centroid(P0, [cell[a] for a in carrier(ct, xi_nodes[j])]) for j in range(len(xi_nodes))] for cell in C0])
    vk.ensures_eq(label + f"/{E.__name__}/node==centroid-of-its-reference-entity", new.points[new.cells], want)
    dim = cells.DIM[ct]
    xi = vk.reals("xi", (dim,), near=0.0 if ct in cells.CUBE else 0.25, spread=0.2)
    h = np.asarray(el.function(xi))
    N = cells.shape_linear(ct, list(xi))
    tol = 1e-10 if "Lagrange" in "".join(b.__name__ for b in E.__mro__) or hasattr(el, "_lagrange") else None
    for c, cell in enumerate(C0):
        hi = sum(h[j] * new.points[new.cells[c, j]] for j in range(len(h)))
        lo = sum(N[a] * P0[cell[a]] for a in range(n0))
        vk.ensures_eq(label + f"/{E.__name__}/geometry-map==linear-map/cell={c}", hi, lo, tol=tol)
    vk.canary("quadratic-map==twice-linear-map", hi, 2 * lo + 1)


# ================================================================================================ structure
STRUCT_CFG = (
    [dict(op="concatenate", ct=ct) for ct in ("quad", "tetra", "hexahedron")]
    + [dict(op="stack", ct=ct) for ct in ("quad", "tetra")]
    + [dict(op="container", ct="quad"), dict(op="container", ct="tetra")]
    + [dict(op="disconnect", ct=ct) for ct in ("triangle", "quad", "tetra", "hexahedron")]
    + [dict(op="dual", ct=ct, variant=v) for ct in ("quad", "tetra") for v in ("plain", "connected-offset", "npoints")]
    + [dict(op="merge", ct="quad", order=o) for o in ("A", "B")]
    + [dict(op="merge", ct="triangle", order="A"), dict(op="merge", ct="container", order="A"), dict(op="merge", ct="tetra", order="A"), dict(op="merge", ct="tetra", order="B")]
    + [dict(op="merge", ct="hexahedron", order=o) for o in ("A", "B")]
)


def cell_coords(mesh, n=None):
    return mesh.points[mesh.cells if n is None else mesh.cells[:, :n]]


@contract("C16", "structure", configs=STRUCT_CFG)
def structure(vk, cfg):
    """concatenate / stack / MeshContainer / disconnect / dual / merge_duplicate_points: index offsets are
    such that every cell keeps the coordinates of all its corners (geometry, orientation and volume
    unchanged), cell blocks keep their order, unused points are carried along but never created, merged
    meshes have no coincident points"""
    op, ct = cfg["op"], cfg["ct"]
    if op == "concatenate":
        vk.real(fm.concatenate)
        # three meshes; the first and the last one carry unused points (offsets must count points, not
        # referenced points)
        m1 = make_mesh(vk, ct, 2, name="A")
        m2 = make_mesh(vk, ct, 1, name="B")
        m3 = make_mesh(vk, ct, 2, name="C")
        extra = vk.reals("U", (2, m1.dim), near=5.0)
        m1u = fem.Mesh(np.vstack([m1.points, extra[:1]]), m1.cells, ct)
        m3u = fem.Mesh(np.vstack([extra[1:], m3.points]), m3.cells + 1, ct)
        for label, ms in (("unused-points", [m1u, m2, m3u]), ("no-unused-points", [m1, m2, m3]), ("single", [m2])):
            snaps = [snap(vk, m) for m in ms]
            new = fm.concatenate(ms)
            nm = f"concatenate/{label}"
            vk.ensures_eq(nm + "/points==stacked-points", new.points, np.vstack([m.points for m in ms]))
            vk.ensures_eq(nm + "/cell-corner-coordinates-unchanged", cell_coords(new), np.vstack([cell_coords(m) for m in ms]))
            ensures_same(vk, nm + "/cell_type", new.cell_type, ct)
            off = np.cumsum([0] + [len(m.points) for m in ms])[:-1]
            ensures_same(vk, nm + "/unused-points-are-the-inputs-unused-points", new.points_without_cells, np.concatenate([o + m.points_without_cells for o, m in zip(off, ms)]).astype(int))
            vk.ensures_eq(nm + "/volume", vols(new), np.concatenate([vols(m) for m in ms]))
            for k, (m, s) in enumerate(zip(ms, snaps)):
                frame(vk, nm + f"/mesh{k}", m, s)
            if label != "unused-points":
                no_unused(vk, nm, new)
        vk.canary("concatenate-without-offsets", cell_coords(new), np.vstack([ms[0].points[m.cells] for m in ms]) if len(ms) > 1 else cell_coords(new) + 1)
    elif op == "stack":
        vk.real(fm.stack)
        mesh = make_mesh(vk, ct, 2)
        a, b = mesh.copy(), mesh.copy()
        a.update(cells=mesh.cells[:1])
        b.update(cells=mesh.cells[1:])
        for label, ms in (("two", [a, b]), ("reversed", [b, a]), ("three", [a, b, a])):
            new = fm.stack(ms)
            nm = f"stack/{label}"
            vk.ensures_eq(nm + "/points==points-of-first", new.points, ms[0].points)
            ensures_same(vk, nm + "/cells", new.cells, np.vstack([m.cells for m in ms]))
            vk.ensures_eq(nm + "/cell-corner-coordinates-unchanged", cell_coords(new), np.vstack([cell_coords(m) for m in ms]))
            ensures_same(vk, nm + "/cell_type", new.cell_type, ct)
            if label != "three":
                no_unused(vk, nm, new)
        vk.canary("stack-drops-a-block", vols(new)[:2], vols(mesh)[::-1] + vols(mesh))
    elif op == "container":
        vk.real(fem.MeshContainer.__init__)
        vk.real(fem.MeshContainer.append)
        vk.real(fem.MeshContainer.stack)
        vk.real(fem.MeshContainer.as_vertex_mesh)
        other = {"quad": "triangle", "tetra": "hexahedron"}[ct]
        m1 = make_mesh(vk, ct, 2, name="A")
        m2 = make_mesh(vk, other, 2, name="B")
        m3 = make_mesh(vk, ct, 1, name="C")
        ms = [m1, m2, m3]
        snaps = [snap(vk, m) for m in ms]
        cont = fem.MeshContainer([m1, m2])
        cont += m3
        allp = np.vstack([m.points for m in ms])
        vk.ensures_eq("container/points==stacked-points", cont.points, allp)
        for k, m in enumerate(ms):
            mk = cont.meshes[k]
            vk.ensures_eq(f"container/mesh{k}/shares-the-points-array", mk.points, allp)
            vk.ensures_eq(f"container/mesh{k}/cell-corner-coordinates-unchanged", cell_coords(mk), cell_coords(m))
            ensures_same(vk, f"container/mesh{k}/cell_type", mk.cell_type, m.cell_type)
            frame(vk, f"container/mesh{k}", m, snaps[k])
        ensures_same(vk, "container/cells()", [c for c, _ in cont.cells()], [m.cell_type for m in ms])
        st = cont.stack([0, 2])
        vk.ensures_eq("container/stack/cell-corner-coordinates-unchanged", cell_coords(st), np.vstack([cell_coords(m1), cell_coords(m3)]))
        vk.ensures_eq("container/stack/volume", vols(st), np.concatenate([vols(m1), vols(m3)]))
        try:
            cont.stack()
            raised = False
        except TypeError:
            raised = True
        ensures_same(vk, "container/stack/mixed-cell-types-raise", raised, True)
        vm = cont.as_vertex_mesh()
        ensures_same(vk, "container/as_vertex_mesh/every-point-once", vm.cells.ravel(), np.arange(len(allp)))
        popped = cont.pop(1)
        ensures_same(vk, "container/pop", (popped.cell_type, len(cont.meshes)), (other, 2))
        vk.canary("container-without-offsets", cell_coords(cont.meshes[1]), m1.points[m3.cells])
    elif op == "disconnect":
        vk.real(fem.Mesh.disconnect)
        vk.real(fm.dual)
        mesh = make_mesh(vk, ct, 2)
        s0 = snap(vk, mesh)
        new = mesh.disconnect()
        n = mesh.cells.shape[1]
        vk.ensures_eq("disconnect/cell-corner-coordinates-unchanged", cell_coords(new), cell_coords(mesh))
        ensures_same(vk, "disconnect/each-cell-has-its-own-points", sorted(new.cells.ravel().tolist()), list(range(2 * n)))
        ensures_same(vk, "disconnect/npoints", len(new.points), 2 * n)
        ensures_same(vk, "disconnect/cell_type", new.cell_type, ct)
        vk.ensures_eq("disconnect/volume", vols(new), vols(mesh))
        vk.ensures_eq("disconnect/corner-jacobians", cjac(new), cjac(mesh))
        no_unused(vk, "disconnect", new)
        k = cells.NCORNER[ct] - 1
        part = mesh.disconnect(points_per_cell=k)
        vk.ensures_eq("disconnect/points_per_cell/corner-coordinates-unchanged", cell_coords(part), cell_coords(mesh, k))
        no_unused(vk, "disconnect/points_per_cell", part)
        nop = mesh.disconnect(calc_points=False)
        ensures_same(vk, "disconnect/calc_points=False/cells", nop.cells, new.cells)
        frame(vk, "disconnect", mesh, s0)
        vk.canary("disconnect-keeps-sharing", new.cells[1], mesh.cells[1])
    elif op == "dual":
        vk.real(fm.dual)
        vk.real(fem.Mesh.dual)
        mesh = make_mesh(vk, ct, 2)
        n = mesh.cells.shape[1]
        variants = {
            "plain": (dict(), dict(points_per_cell=n - 1), dict(disconnect=False), dict(disconnect=False, points_per_cell=n - 1), dict(offset=3), dict(npoints=2 * n), dict(npoints=2)),
            "connected-offset": (dict(disconnect=False, offset=2),),
            "npoints": (dict(npoints=2 * n + 3), dict(offset=2, npoints=2 * n + 5), dict(disconnect=False, npoints=len(mesh.points) + 2)),
        }
        for kw in variants[cfg["variant"]]:
            arg = fem.Mesh(mesh.points.copy(), mesh.cells.copy(), ct)
            sa = snap(vk, arg)
            new = arg.dual(calc_points=True, **kw)
            nm = ("dual/npoints-given/" if "npoints" in kw else "dual/") + ",".join(f"{k}={v}" for k, v in kw.items())
            k = kw.get("points_per_cell", n)
            frame(vk, nm, arg, sa)
            vk.ensures_eq(nm + "/cell-corner-coordinates-unchanged", cell_coords(new), cell_coords(mesh, k))
            if "npoints" in kw:
                ensures_same(vk, nm + "/npoints", len(new.points), max(kw["npoints"], len(new.points)))
        vk.canary("dual-shifts-cells", cell_coords(mesh.dual(calc_points=True, offset=1)), cell_coords(mesh) + 1)
    elif op == "merge":
        merge(vk, cfg)


def merge(vk, cfg):
    """merge_duplicate_points(decimals=None) / Mesh.sweep / MeshContainer(merge=True) on two generic cells
    given with separate copies of the points of their common facet.  np.unique is the assumed numpy
    contract (exact reference; the order of the rows is decided from `requires`: the first coordinates
    of the distinct points are strictly ordered -- one config per order)"""
    ct, order = cfg["ct"], cfg["order"]
    vk.real(fm.merge_duplicate_points)
    vk.real(fem.Mesh.merge_duplicate_points)
    base_ct = "quad" if ct == "container" else ct
    ref, conn = two_cell_reference(base_ct, 2)
    shear = {"A": 0.3, "B": -0.3}[order]
    near = ref.copy()
    near[:, 0] = near[:, 0] + shear * near[:, 1] + (0.17 * near[:, 2] if near.shape[1] == 3 else 0.0)
    P = vk.reals("X", near.shape, near=near, spread=0.1 if near.shape[1] == 2 else 0.05)
    assume_valid(vk, base_ct, P, conn)
    chain = list(np.argsort(near[:, 0]))
    for i in range(len(chain)):
        for j in range(i + 1, len(chain)):
            vk.requires(P[chain[j], 0] - P[chain[i], 0], ">")
    n = conn.shape[1]
    dis = fem.Mesh(np.vstack([P[conn[0]], P[conn[1]]]), np.arange(2 * n).reshape(2, n), base_ct)
    s0 = snap(vk, dis)

    def check(nm, new_points, blocks, ref_blocks):
        ensures_same(vk, nm + "/npoints==number-of-distinct-points", len(new_points), len(P))
        distinct = all(not rows_equal(vk, new_points[i], new_points[j]) for i in range(len(new_points)) for j in range(i + 1, len(new_points)))
        ensures_same(vk, nm + "/no-two-points-coincide", distinct, True)
        for k, (b, r) in enumerate(zip(blocks, ref_blocks)):
            vk.ensures_eq(nm + f"/block{k}/no-cell-corner-moved", new_points[b], r)
        used = np.unique(np.concatenate([b.ravel() for b in blocks]))
        ensures_same(vk, nm + "/no-unused-points", used, np.arange(len(new_points)))

    if ct != "container":
        for label, call in (("function", lambda: fm.merge_duplicate_points(dis)), ("sweep", lambda: dis.sweep()), ("array-form", lambda: fem.Mesh(*fm.merge_duplicate_points(dis.points, dis.cells, base_ct, decimals=None)))):
            new = call()
            nm = f"merge/{label}"
            check(nm, new.points, [new.cells], [cell_coords(dis)])
            vk.ensures_eq(nm + "/volume", vols(new), vols(dis))
            vk.ensures_eq(nm + "/corner-jacobians", cjac(new), cjac(dis))
            ensures_same(vk, nm + "/cell_type", new.cell_type, base_ct)
        frame(vk, "merge", dis, s0)
        vk.canary("merge-keeps-all-points", len(new.points), len(dis.points))
    else:
        vk.real(fem.MeshContainer.merge_duplicate_points)
        a = fem.Mesh(P[conn[0]], np.arange(n).reshape(1, n), base_ct)
        b = fem.Mesh(P[conn[1]], np.arange(n).reshape(1, n), base_ct)
        cont = fem.MeshContainer([a, b], merge=True)
        check("container/merge=True", cont.points, [m.cells for m in cont.meshes], [cell_coords(a), cell_coords(b)])
        for k, m in enumerate(cont.meshes):
            vk.ensures_eq(f"container/merge=True/mesh{k}/shares-the-points-array", m.points, cont.points)
        vk.canary("container-merge-keeps-all-points", len(cont.points), 2 * n)


# ================================================================================================ B: bounded
def _native_inv(mesh, ct=None, tol=1e-12):
    """native Inv check of a float mesh: (all corner Jacobians > 0, no unused points, list of volumes)"""
    ct = ct or mesh.cell_type
    n = cells.NCORNER[cells.base_type(ct)]
    J = np.array([cells.corner_jacobians(ct, mesh.points[c[:n]]) for c in mesh.cells], dtype=float)
    V = np.array([cells.volume(ct, mesh.points[c[:n]]) for c in mesh.cells], dtype=float)
    used = np.unique(mesh.cells)
    unused = len(used) != len(mesh.points) or len(mesh.points_without_cells) > 0
    return bool(np.all(J > tol) and np.all(V > tol)), (not unused), V


def _min_point_distance(P):
    P = np.asarray(P, dtype=float)
    if len(P) < 2:
        return np.inf
    d = np.abs(P[:, None, :] - P[None, :, :]).max(axis=2)
    d[np.arange(len(P)), np.arange(len(P))] = np.inf
    return d.min()


class Bounded:
    """collects the evaluations of one bounded stand-in; a failing evaluation additionally raises a refuted
    obligation with the failing input (so that it is reported), a passing one is never counted"""

    def __init__(s, vk, what, bound):
        s.vk, s.what, s.bound, s.n, s.bad = vk, what, bound, 0, []

    def check(s, ok, inp, detail=""):
        s.n += 1
        if not ok:
            s.bad.append((inp, detail))

    def close(s):
        s.vk.bounded_standin(s.what, s.bound, s.n, not s.bad, detail="; ".join(f"{i}: {d}" for i, d in s.bad[:3]))
        if s.bad:
            inp, detail = s.bad[0]
            s.vk.ensures_true("bounded/" + s.what, False, f"{len(s.bad)} of {s.n} evaluations fail; first: {inp}: {detail}", backend="bounded", replay={"kind": "ground", "bounded": True, "point": str(inp), "expected": "clause holds", "actual": detail, "confirmed": True})


GEN_CFG = [dict(family=f) for f in ("line-rectangle-cube", "grid", "circle", "triangle", "lagrange", "merge-rounding", "revolve-expand-scalar", "runouts-fill")]


@contract("C16", "generators", configs=GEN_CFG, engine="ground")
def generators(vk, cfg):
    """B (bounded, never counted): generators and the float paths that cannot be executed symbolically
    (np.unique on rounded floats, scalar linspace paths, runouts), exhaustive small scope, run natively:
    positively oriented cells, sum of volumes == analytic measure of the intended domain, no unused and no
    coincident points"""
    if not vk.sym:
        return
    fam = cfg["family"]
    vk.note("C16 bounded stand-ins (never counted): Grid, Circle, Triangle (needs counter-clockwise a, b, c), Lagrange generators, merge_duplicate_points(decimals) rounding path, scalar-argument linspace paths at concrete angles, runouts; a failing evaluation raises a refuted obligation `.../bounded/...` with the failing call")
    with symnp.native(), warnings.catch_warnings():
        warnings.simplefilter("ignore")
        _generators(vk, fam)


def _generators(vk, fam):
    N = (2, 3, 4)
    if fam == "line-rectangle-cube":
        for f in (fem.mesh.Line, fem.Rectangle, fem.Cube, fem.Point, fm._line_rectangle_cube.line_line, fm._line_rectangle_cube.rectangle_quad, fm._line_rectangle_cube.cube_hexa):
            vk.real(f)
        B = Bounded(vk, "Line/Rectangle/Cube: oriented cells tile the box, no unused/coincident points", "n <= 4 per axis (all combinations), 2 boxes per dimension, scalar and tuple n")
        boxes = {1: [((0.0,), (1.0,)), ((-2.1,), (3.5,))], 2: [((0.0, 0.0), (1.0, 1.0)), ((-1.2, 0.5), (4.5, 7.3))], 3: [((0.0, 0.0, 0.0), (1.0, 1.0, 1.0)), ((-1.2, 0.5, 6.2), (4.5, 7.3, 9.3))]}
        for dim, G in ((1, fem.mesh.Line), (2, fem.Rectangle), (3, fem.Cube)):
            for a, b in boxes[dim]:
                for n in list(itertools.product(N, repeat=dim)) + ([(k,) for k in N] if dim > 1 else []):
                    if dim == 1:
                        m = G(a=a[0], b=b[0], n=n[0])
                    else:
                        m = G(a=a, b=b, n=n[0] if len(n) == 1 and dim > 1 else n)
                    nn = n if len(n) == dim else n * dim
                    ori, used, V = _native_inv(m)
                    meas = np.prod(np.array(b) - np.array(a))
                    inp = f"{G.__name__}(a={a}, b={b}, n={n})"
                    B.check(ori, inp, "cell not positively oriented")
                    B.check(used, inp, "unused points")
                    B.check(abs(V.sum() - meas) < 1e-12 * max(1, meas), inp, f"sum of volumes {V.sum()} != {meas}")
                    B.check(len(m.points) == np.prod(nn) and len(m.cells) == np.prod(np.array(nn) - 1), inp, "point / cell count")
                    B.check(_min_point_distance(m.points) > 1e-9, inp, "coincident points")
                    B.check(bool(np.all(m.points >= np.array(a) - 1e-12) and np.all(m.points <= np.array(b) + 1e-12)), inp, "point outside the box")
                    B.check(np.allclose(m.points.min(axis=0), a) and np.allclose(m.points.max(axis=0), b), inp, "box corners not hit")
        p = fem.Point(a=-2.1)
        B.check(p.points.tolist() == [[-2.1]] and p.cells.tolist() == [[0]] and p.cell_type == "vertex", "Point(a=-2.1)", "vertex mesh")
        B.close()
    elif fam == "grid":
        vk.real(fem.Grid)
        B = Bounded(vk, "Grid: oriented cells tile the box of the coordinate vectors", "<= 4 non-uniform increasing coordinates per axis, dims 1..3, indexing 'ij' and 'xy'")
        coords = {2: np.array([-1.0, 0.5]), 3: np.array([0.0, 1.0, 4.0]), 4: np.array([0.3, 0.7, 2.0, 2.25])}
        for dim, n, indexing in ((d, n, ix) for d in (1, 2, 3) for n in itertools.product(N, repeat=d) for ix in ("ij", "xy")):
            if True:
                xi = [coords[k] + 0.1 * i for i, k in enumerate(n)]
                m = fem.Grid(*xi, indexing=indexing)
                ori, used, V = _native_inv(m)
                meas = np.prod([x[-1] - x[0] for x in xi])
                inp = f"Grid(lengths={n}, indexing={indexing!r})"
                B.check(ori and used, inp, "orientation / unused points")
                B.check(abs(V.sum() - meas) < 1e-12 * max(1, meas), inp, f"sum of volumes {V.sum()} != {meas}")
                pts = {tuple(p) for p in np.round(m.points, 12)}
                B.check(pts == {tuple(np.round(p, 12)) for p in itertools.product(*xi)}, inp, "points are not the tensor grid")
        B.close()
    elif fam == "circle":
        vk.real(fem.Circle)
        B = Bounded(vk, "Circle: oriented quads tile the polygon inscribed in the sections, no coincident points", "n <= 4, 7 section sets, 2 radii/centres")
        for n in N:
            for sections in ([0, 90, 180, 270], [0], [0, 90], [90, 270], [0, 180, 270], [45, 135, 225, 315], [30]):
                for radius, cen in ((1.0, [0.0, 0.0]), (2.5, [1.0, -2.0])):
                    m = fem.Circle(radius=radius, centerpoint=cen, n=n, sections=sections)
                    ori, used, V = _native_inv(m)
                    seg = 2 * (n - 1)
                    meas = len(sections) * seg * 0.5 * radius**2 * np.sin(np.pi / 2 / seg)
                    inp = f"Circle(radius={radius}, centerpoint={cen}, n={n}, sections={sections})"
                    B.check(ori, inp, "cell not positively oriented")
                    B.check(used, inp, "unused points")
                    B.check(abs(V.sum() - meas) < 1e-8 * meas, inp, f"sum of areas {V.sum()} != inscribed polygon {meas}")
                    B.check(_min_point_distance(m.points) > 1e-9, inp, "coincident points")
                    rad = np.linalg.norm(m.points - np.array(cen), axis=1)
                    B.check(bool(np.all(rad <= radius * (1 + 1e-9))), inp, "point outside the circle")
        B.close()
        # value / exponent ("shape parameters of the embedded rectangle") and decimals ("rounding point coordinates to
        # avoid non-connected sections"): whatever the shape of the embedded rectangle, the mesh is still an oriented tiling
        # of the inscribed polygon with connected sections (as many points and cells as with the default options, no
        # coincident points); a point moves by at most half a rounding unit (times the radius) against the default rounding
        B = Bounded(vk, "Circle(value=, exponent=, decimals=): oriented quads tile the polygon inscribed in the sections, sections connected, no coincident points", "n <= 4, sections full / half / single, (value, exponent) in {0, 0.05, 0.2, -0.1} x {1, 2, 3} and (0.3, 1), decimals in {4, 8, 13}")
        for n in N:
            for sections in ([0, 90, 180, 270], [0, 90], [30]):
                ref = fem.Circle(radius=2.5, centerpoint=[1.0, -2.0], n=n, sections=sections)
                opts = [dict(value=v, exponent=e) for v in (0.0, 0.05, 0.2, -0.1) for e in (1, 2, 3)] + [dict(value=0.3, exponent=1)] + [dict(decimals=d) for d in (4, 8, 13)] + [dict(value=0.2, exponent=3, decimals=6)]
                for kw in opts:
                    m = fem.Circle(radius=2.5, centerpoint=[1.0, -2.0], n=n, sections=sections, **kw)
                    ori, used, V = _native_inv(m)
                    seg = 2 * (n - 1)
                    meas = len(sections) * seg * 0.5 * 2.5**2 * np.sin(np.pi / 2 / seg)
                    inp = f"Circle(radius=2.5, centerpoint=[1.0, -2.0], n={n}, sections={sections}, {kw})"
                    unit = 2.5 * 10.0 ** (-kw.get("decimals", 10))
                    B.check(ori, inp, "cell not positively oriented")
                    B.check(used, inp, "unused points")
                    B.check(abs(V.sum() - meas) < max(1e-8, 8 * len(m.cells) * unit) * meas, inp, f"sum of areas {V.sum()} != inscribed polygon {meas}")
                    B.check(_min_point_distance(m.points) > 1e-9, inp, "coincident points")
                    B.check(len(m.points) == len(ref.points) and len(m.cells) == len(ref.cells), inp, f"{len(m.points)} points / {len(m.cells)} cells, default options give {len(ref.points)} / {len(ref.cells)} (sections not connected?)")
                    rad = np.linalg.norm(m.points - np.array([1.0, -2.0]), axis=1)
                    B.check(bool(np.all(rad <= 2.5 * (1 + 1e-9) + unit)), inp, "point outside the circle")
                    if set(kw) == {"decimals"}:
                        d = np.abs(m.points[:, None, :] - ref.points[None, :, :]).max(axis=2).min(axis=1).max()
                        B.check(d <= 0.5 * unit * (1 + 1e-6) + 1e-9, inp, f"a point moved by {d} against the default rounding (> half a rounding unit)")
        B.close()
        m = fem.Circle(n=4, value=0.3, exponent=5)
        if not _native_inv(m)[0]:
            vk.note("C16 observation (not an obligation: the shape parameters of the embedded rectangle have no documented range and the property's quantifier names bounds, point counts and section angles only): a large `value` with a steep `exponent` on a fine grid folds the cells at the corner of the embedded rectangle, e.g. Circle(n=4, value=0.3, exponent=5), Circle(n=6, value=0.2, exponent=8), Circle(n=3, value=0.4, exponent=2) contain cells that are not positively oriented; the stand-in covers (value, exponent) in {0, 0.05, 0.2, -0.1} x {1, 2, 3} and (0.3, 1)")
    elif fam == "triangle":
        vk.real(fem.mesh.Triangle)
        B = Bounded(vk, "Triangle: oriented quads tile the (counter-clockwise) triangle, no coincident points", "n <= 4, 3 triangles")
        for n in N:
            for a, b, c in (((0.0, 0.0), (1.0, 0.0), (0.0, 1.0)), ((0.3, 0.2), (1.2, 0.1), (0.1, 0.9)), ((-1.0, -1.0), (3.0, 0.5), (0.0, 2.0))):
                m = fem.mesh.Triangle(a=a, b=b, c=c, n=n)
                ori, used, V = _native_inv(m)
                meas = cells.volume("triangle", np.array([a, b, c]))
                inp = f"Triangle(a={a}, b={b}, c={c}, n={n})"
                B.check(ori and used, inp, "orientation / unused points")
                B.check(abs(V.sum() - meas) < 1e-9 * meas, inp, f"sum of areas {V.sum()} != {meas}")
                B.check(_min_point_distance(m.points) > 1e-9, inp, "coincident points")
                B.check(len(m.cells) == 3 * (n - 1) ** 2 and len(m.points) == 3 * (n - 1) ** 2 + 3 * (n - 1) + 1, inp, "point / cell count")
                # decimals= ("rounding point coordinates to avoid non-connected sections"): the three sections stay connected
                # (same counts), the triangle is still tiled, a point moves by at most half a rounding unit
                for dec in (3, 6, 14):
                    md = fem.mesh.Triangle(a=a, b=b, c=c, n=n, decimals=dec)
                    ori, used, V = _native_inv(md)
                    inp = f"Triangle(a={a}, b={b}, c={c}, n={n}, decimals={dec})"
                    unit = 10.0 ** (-dec)
                    B.check(ori and used, inp, "orientation / unused points")
                    B.check(abs(V.sum() - meas) < max(1e-9, 40 * unit) * meas, inp, f"sum of areas {V.sum()} != {meas}")
                    B.check(_min_point_distance(md.points) > 1e-9, inp, "coincident points")
                    B.check(len(md.cells) == len(m.cells) and len(md.points) == len(m.points), inp, f"point / cell count {len(md.points)} / {len(md.cells)} (sections not connected?)")
                    d = np.abs(md.points[:, None, :] - m.points[None, :, :]).max(axis=2).min(axis=1).max()
                    B.check(d <= 0.5 * unit * (1 + 1e-6) + 1e-9, inp, f"a point moved by {d} against the default rounding (> half a rounding unit)")
        B.close()
    elif fam == "lagrange":
        vk.real(fem.mesh.RectangleArbitraryOrderQuad)
        vk.real(fem.mesh.CubeArbitraryOrderHexahedron)
        B = Bounded(vk, "ArbitraryOrder Lagrange cells: node j sits at the image of the element's reference node j, dV > 0, sum dV == box", "order <= 4 (quad), <= 3 (hexahedron), 2 boxes")
        for dim, G, orders in ((2, fem.mesh.RectangleArbitraryOrderQuad, (1, 2, 3, 4)), (3, fem.mesh.CubeArbitraryOrderHexahedron, (1, 2, 3))):
            for a, b in (((0.0,) * dim, (1.0,) * dim), ((-1.2, 0.5, 6.2)[:dim], (4.5, 7.3, 9.3)[:dim])):
                for order in orders:
                    m = G(a=a, b=b, order=order)
                    el = fem.element.ArbitraryOrderLagrange(order=order, dim=dim)
                    inp = f"{G.__name__}(a={a}, b={b}, order={order})"
                    want = np.array(a) + (el.points + 1) / 2 * (np.array(b) - np.array(a))
                    B.check(m.cells.shape == (1, (order + 1) ** dim) and sorted(m.cells[0].tolist()) == list(range(len(m.points))), inp, "cell is not a permutation of all points")
                    B.check(np.allclose(m.points[m.cells[0]], want, atol=1e-12), inp, "node order differs from the Lagrange element")
                    reg = fem.Region(m, el, fem.GaussLegendre(order=order, dim=dim))
                    meas = np.prod(np.array(b) - np.array(a))
                    B.check(bool(np.all(reg.dV > 0)) and abs(reg.dV.sum() - meas) < 1e-9 * meas, inp, f"dV: min {reg.dV.min()}, sum {reg.dV.sum()} != {meas}")
        B.close()
    elif fam == "merge-rounding":
        vk.real(fm.merge_duplicate_points)
        vk.real(fem.MeshContainer.merge_duplicate_points)
        B = Bounded(vk, "merge_duplicate_points(decimals): corners move <= half a rounding unit (not at all for None), merged points are a rounding unit apart, coincident points are merged, no unused points", "two adjacent rectangles, n <= 4 per axis, decimals in {None, 3, 8} (unit geometry, perturbation in {0, 1e-10, 2e-5}) and {0, 1} (geometry x10, perturbation in {0, 1e-3})")
        # (scale of the geometry, admissible decimals at that scale, perturbations); decimals = 0 / 1 round to
        # integers / tenths, exercised on a geometry ten times larger so that only near-duplicates collapse
        combos = [(sc, dec, delta, n1, n2x) for sc, decs, deltas in ((1.0, (None, 3, 8), (0.0, 1e-10, 2e-5)), (10.0, (0, 1), (0.0, 1e-3))) for n1 in itertools.product(N, repeat=2) for n2x in N for dec in decs for delta in deltas]
        for sc, dec, delta, n1, n2x in combos:
            for _once in (0,):
                for _once2 in (0,):
                    for _once3 in (0,):
                        r1 = fem.Rectangle(a=(0, 0), b=(sc, sc), n=n1)
                        r2 = fem.Rectangle(a=(sc, 0), b=(2.5 * sc, sc), n=(n2x, n1[1]))
                        r2.points[:] = r2.points + delta
                        both = fm.concatenate([r1, r2])
                        for label, merged in (("function", fm.merge_duplicate_points(both, decimals=dec)), ("container", fem.MeshContainer([r1, r2], merge=True, decimals=dec))):
                            inp = f"{label}: n1={n1}, n2=({n2x},{n1[1]}), decimals={dec}, delta={delta}"
                            if label == "container":
                                P = merged.points
                                blocks = [(m.cells, r) for m, r in zip(merged.meshes, (r1, r2))]
                            else:
                                P = merged.points
                                blocks = [(merged.cells[: len(r1.cells)], r1), (merged.cells[len(r1.cells) :], r2)]
                            unit = 0.0 if dec is None else 10.0 ** (-dec)
                            move = max(np.abs(P[c] - r.points[r.cells]).max() for c, r in blocks)
                            B.check(move <= 0.5 * unit * (1 + 1e-9), inp, f"a cell corner moved by {move}")
                            B.check(_min_point_distance(P) >= (unit * (1 - 1e-6) if dec is not None else 1e-300), inp, f"two points closer than the rounding unit: {_min_point_distance(P)}")
                            used = np.unique(np.concatenate([c.ravel() for c, _ in blocks]))
                            B.check(len(used) == len(P), inp, "unused points after merging")
                            should_merge = delta == 0.0 or (dec is not None and delta < 0.05 * unit)
                            if should_merge or (dec is None) or delta > 5 * unit:
                                expect = len(r1.points) + len(r2.points) - (n1[1] if should_merge else 0)
                                B.check(len(P) == expect, inp, f"{len(P)} points, expected {expect}")
        B.close()
    elif fam == "revolve-expand-scalar":
        vk.real(fm.revolve)
        vk.real(fm.expand)
        B = Bounded(vk, "revolve / expand with scalar phi / z (linspace paths, phi == 360 closing): oriented cells, volume == sum sin(dphi) * first moment resp. area * z, no unused points", "n <= 5 layers, phi in {45, 90, 180, 360}, z in {0.5, 2}")
        rect = fem.Rectangle(a=(0.5, 1.0), b=(2.0, 3.0), n=(3, 2))
        M = sum(cells.first_moment(rect.points[c], 1) for c in rect.cells)
        line = fem.mesh.Line(a=0.5, b=2.0, n=3)
        for n in (2, 3, 4, 5):
            for phi in (45, 90, 180, 360):
                if phi / (n - 1) >= 180:
                    continue
                dphi = np.deg2rad(phi / (n - 1))
                h = rect.revolve(n=n, phi=phi, axis=0)
                ori, used, V = _native_inv(h)
                inp = f"Rectangle.revolve(n={n}, phi={phi}, axis=0)"
                B.check(ori and used, inp, "orientation / unused points")
                B.check(abs(V.sum() - (n - 1) * np.sin(dphi) * M) < 1e-10, inp, f"volume {V.sum()}")
                B.check(len(h.points) == (n - (phi == 360)) * len(rect.points), inp, "point count (closing at 360)")
                q = line.revolve(n=n, phi=phi)
                ori, used, V = _native_inv(q)
                B.check(ori and used and abs(V.sum() - (n - 1) * np.sin(dphi) * (2.0**2 - 0.5**2) / 2) < 1e-10, f"Line.revolve(n={n}, phi={phi})", f"orientation / area {V.sum()}")
            for z in (0.5, 2):
                for base, meas in ((rect, 1.5 * 2.0), (line, 1.5)):
                    e = base.expand(n=n, z=z)
                    ori, used, V = _native_inv(e)
                    B.check(ori and used and abs(V.sum() - meas * z) < 1e-12, f"{base.cell_type}.expand(n={n}, z={z})", f"orientation / volume {V.sum()}")
        B.close()
    elif fam == "runouts-fill":
        vk.real(fm.runouts)
        vk.real(fm.fill_between)
        B = Bounded(vk, "runouts keep positive orientation and the extent along the axis (values=0: identity); fill_between tiles the region between two lines with oriented quads", "grids n <= 4, axes 0..2, normalize in {False, True}; n <= 4 layers")
        for n in N:
            for mesh in (fem.Rectangle(a=(-3, -1), b=(3, 1), n=(n, n)), fem.Cube(a=(-3, -2, -1), b=(3, 2, 1), n=(n, n, 2))):
                for axis in range(mesh.dim):
                    for normalize in (False, True):
                        for extra in ({}, dict(exponent=2), dict(exponent=8, values=[0.2, 0.05])):
                            r = mesh.add_runouts(axis=axis, normalize=normalize, **extra)
                            ori, used, V = _native_inv(r)
                            inp = f"{mesh.cell_type} n={n} add_runouts(axis={axis}, normalize={normalize}, {extra})"
                            B.check(ori and used, inp, "orientation / unused points")
                            B.check(np.allclose(r.points[:, axis], mesh.points[:, axis]), inp, "coordinate along the axis changed")
                    same = mesh.add_runouts(values=[0.0, 0.0], axis=axis)
                    B.check(np.allclose(same.points, mesh.points), f"{mesh.cell_type} n={n} add_runouts(values=0)", "not the identity")
                    # centerpoint= ("center-point coordinates") and mask= ("points to be considered"): points outside the mask
                    # do not move at all; a point of the mask keeps its coordinate along the axis and its offset from the
                    # centerpoint perpendicular to the axis is scaled by 1 + values[i] * (|distance along the axis| / H)**exponent
                    # (H: distance of the farthest end from the centerpoint plane: centre plane -> 1, ends -> 1 + values[i])
                    lo, hi = mesh.points[:, axis].min(), mesh.points[:, axis].max()
                    perp = [k for k in range(mesh.dim) if k != axis]
                    for cen_axis in ((lo + hi) / 2, lo, hi):
                        cen = np.array([0.4, -0.3, 0.2])
                        cen[axis] = cen_axis
                        for cen_arg in (list(cen[: mesh.dim]), list(cen)):
                            masks = {"default": None, "bool": mesh.points[:, perp[0]] > 0.0, "ids": np.arange(mesh.npoints)[::2], "empty": np.zeros(mesh.npoints, dtype=bool), "all-ids": np.arange(mesh.npoints)}
                            for mname, msk in masks.items():
                                vals, ex = [0.2, 0.05], 3
                                kw = dict(values=vals, centerpoint=cen_arg, axis=axis, exponent=ex, **({} if msk is None else {"mask": msk}))
                                P0 = mesh.points.copy()
                                r = mesh.add_runouts(**kw)
                                inp = f"{mesh.cell_type} n={n} add_runouts(values={vals}, centerpoint={cen_arg}, axis={axis}, exponent={ex}, mask={mname})"
                                sel = np.ones(mesh.npoints, dtype=bool) if msk is None else (msk if msk.dtype == bool else np.isin(np.arange(mesh.npoints), msk))
                                H = np.abs(P0[:, axis] - cen[axis]).max()
                                spec = P0.copy()
                                for i, k in enumerate(perp):
                                    spec[sel, k] = cen[k] + (P0[sel, k] - cen[k]) * (1 + vals[i] * (np.abs(P0[sel, axis] - cen[axis]) / H) ** ex)
                                # (the code shifts by the centerpoint and back: (p - c) + c, one rounding error at most)
                                B.check(np.allclose(r.points[~sel], P0[~sel], rtol=0, atol=4e-16 * (1 + np.abs(P0).max() + np.abs(cen).max())), inp, f"a point outside the mask moved by {np.abs(r.points[~sel] - P0[~sel]).max() if (~sel).any() else 0}")
                                B.check(np.allclose(r.points, spec, rtol=1e-12, atol=1e-12), inp, f"points differ from the documented runout by {np.abs(r.points - spec).max()}")
                                B.check(np.array_equal(mesh.points, P0) and r is not mesh, inp, "input mesh modified")
                                if mname in ("default", "all-ids", "empty"):
                                    ori, used, V = _native_inv(r)
                                    B.check(ori and used, inp, "orientation / unused points")
            bot = fem.mesh.Line(a=0.0, b=2.0, n=3)
            bot = fem.Mesh(np.hstack([bot.points, 0.1 * bot.points**2]), bot.cells, "line")
            top = fem.Mesh(bot.points * np.array([1.0, -1.0]) + np.array([0.3, 1.5]), bot.cells, "line")
            f = bot.fill_between(top, n=n)
            ori, used, V = _native_inv(f)
            span = sum(cells.volume("quad", np.vstack([bot.points[c], top.points[c][::-1]])) for c in bot.cells)
            B.check(ori and used and abs(V.sum() - span) < 1e-12, f"fill_between(n={n})", f"orientation / area {V.sum()} != {span}")
        B.close()


# ================================================================================================ generators with symbolic bounds
def _ns(dim, top):
    return [n for n in itertools.product(range(2, top + 1), repeat=dim)]


GENP_CFG = (
    [dict(gen="Line", n=(k,)) for k in (2, 3, 4)]
    + [dict(gen="Rectangle", n=n) for n in _ns(2, 4)]
    + [dict(gen="Cube", n=n, **({} if max(n) < 4 or n == (4, 4, 4) else {"tier": "thorough"})) for n in _ns(3, 4)]
    + [dict(gen="Rectangle", n=(3,)), dict(gen="Cube", n=(2,))]
    + [dict(gen="RectangleArbitraryOrderQuad", n=(o,)) for o in (1, 2, 3)]
    + [dict(gen="CubeArbitraryOrderHexahedron", n=(o,)) for o in (1, 2, 3)]
    + [dict(gen="RectangleArbitraryOrderQuad", n=(o,), tier="thorough") for o in (4, 5)]
    + [dict(gen="CubeArbitraryOrderHexahedron", n=(4,), tier="thorough")]
    + [dict(gen="Point", n=(1,))]
)


@contract("C16", "generate", configs=GENP_CFG)
def generate(vk, cfg):
    """Line / Rectangle / Cube / ...ArbitraryOrder... with symbolic bounds a < b (per axis) at fixed small
    point counts: the points are exactly the tensor grid a + (b-a) k/(n-1), every cell is one grid box with
    positive orientation, every box is covered once, the volumes sum to prod(b-a), no unused points"""
    gen, n = cfg["gen"], tuple(cfg["n"])
    dim = {"Line": 1, "Rectangle": 2, "Cube": 3, "RectangleArbitraryOrderQuad": 2, "CubeArbitraryOrderHexahedron": 3, "Point": 1}[gen]
    a = vk.reals("a", (dim,), near=[-1.2, 0.5, 6.2][:dim], spread=0.5)
    w = vk.reals("w", (dim,), near=[5.7, 6.8, 3.1][:dim], spread=2.0)  # b = a + w, w > 0
    for x in w:
        vk.requires(x, ">")
    b = a + w
    G = {"Line": fem.mesh.Line, "Rectangle": fem.Rectangle, "Cube": fem.Cube, "RectangleArbitraryOrderQuad": fem.mesh.RectangleArbitraryOrderQuad, "CubeArbitraryOrderHexahedron": fem.mesh.CubeArbitraryOrderHexahedron, "Point": fem.Point}[gen]
    vk.real(G)
    vk.real(fm.expand)
    if gen == "Point":
        m = fem.Point(a=a[0])
        vk.ensures_eq("Point/points", m.points, np.array([[a[0]]]))
        ensures_same(vk, "Point/cells", (m.cells.tolist(), m.cell_type), ([[0]], "vertex"))
        vk.canary("point-at-zero", m.points, 0 * m.points)
        return
    if "ArbitraryOrder" in gen:
        order = n[0]
        m = G(a=tuple(a), b=tuple(b), order=order)
        el = fem.element.ArbitraryOrderLagrange(order=order, dim=dim)
        vk.real(fem.element.lagrange_quad if dim == 2 else fem.element.lagrange_hexahedron)
        xi = np.asarray(el.points, dtype=float)
        t = ring.lift((xi + 1) / 2) if vk.sym else (xi + 1) / 2
        want = np.array([[a[i] + w[i] * t[j, i] for i in range(dim)] for j in range(len(xi))])
        ensures_same(vk, f"{gen}/one-cell-with-all-points", (m.cells.shape, sorted(m.cells[0].tolist())), ((1, (order + 1) ** dim), list(range(len(m.points)))))
        # the element's reference points are a float table (np.linspace): tolerance form, |a|, |w| <= 1 scale
        vk.ensures_eq(f"{gen}/node-j==image-of-reference-node-j-of-the-Lagrange-element", m.points[m.cells[0]], want, tol=1e-12)
        ct = "quad" if dim == 2 else "hexahedron"
        nc = cells.NCORNER[ct]
        ensures_pos(vk, f"{gen}/corner-jacobians-positive", np.array(cells.corner_jacobians(ct, m.points[m.cells[0, :nc]])))
        vk.ensures_eq(f"{gen}/volume==prod(b-a)", cells.volume(ct, m.points[m.cells[0, :nc]]), np.prod(w))
        no_unused(vk, gen, m)
        vk.canary("lagrange-nodes-in-grid-order", m.points[m.cells[0]], m.points)
        return
    if gen == "Line":
        m = G(a=a[0], b=b[0], n=n[0])
    else:
        m = G(a=tuple(a), b=tuple(b), n=n[0] if len(n) == 1 else n)
    nn = n if len(n) == dim else n * dim
    ct = m.cell_type
    ensures_same(vk, f"{gen}/cell_type", ct, {1: "line", 2: "quad", 3: "hexahedron"}[dim])
    ensures_same(vk, f"{gen}/npoints,ncells", (len(m.points), len(m.cells)), (int(np.prod(nn)), int(np.prod(np.array(nn) - 1))))
    axes = [[a[i] + w[i] * ring.fr(k / (nn[i] - 1)) if vk.sym else a[i] + w[i] * k / (nn[i] - 1) for k in range(nn[i])] for i in range(dim)]
    grid = [list(p) for p in itertools.product(*axes)]
    vk.ensures_true(f"{gen}/points==tensor-grid", same_point_sets(vk, list(m.points), grid), "as sets, without repetition")
    boxes = {}
    for idx in itertools.product(*[range(k - 1) for k in nn]):
        boxes[idx] = [[axes[i][idx[i] + d[i]] for i in range(dim)] for d in itertools.product((0, 1), repeat=dim)]
    todo = set(boxes)
    ok = True
    for c in m.cells:
        hit = [idx for idx in sorted(todo) if same_point_sets(vk, list(m.points[c]), boxes[idx])]
        if not hit:
            ok = False
            break
        todo.discard(hit[0])
    vk.ensures_true(f"{gen}/every-cell-is-one-grid-box,every-box-once", ok and not todo, f"{len(todo)} boxes not covered")
    ensures_pos(vk, f"{gen}/corner-jacobians-positive", cjac(m))
    vk.ensures_eq(f"{gen}/sum-of-volumes==prod(b-a)", sum(vols(m)), np.prod(w))
    no_unused(vk, gen, m)
    vk.canary("volume==1", sum(vols(m)), 1 + 0 * w[0])


# ================================================================================================ sequences
@contract("C16", "sequence", configs=[dict(seq="quad-rigid-expand-triangulate"), dict(seq="tetra-rigid-convert-disconnect"), dict(seq="line-expand-revolve"), dict(seq="concatenate-mirror-merge")])
def sequence(vk, cfg):
    """end-to-end instances of the composition lemma: Inv is checked after a whole sequence of operations
    (the per-operation contracts above carry the general claim; these runs exercise the real call chain)"""
    seq = cfg["seq"]
    if seq == "quad-rigid-expand-triangulate":
        m0 = make_mesh(vk, "quad", 2)
        a, c, s = angle(vk, "alpha")
        move = vk.real_scalar("move", near=0.4)
        d = vk.real_scalar("d", near=0.8, spread=0.3)
        vk.requires(d, ">")
        m = m0.translate(move, 0).rotate(a, 2).mirror(axis=1).flip().flip()
        vk.ensures_eq("rigid-part/volume", tr(vk, vols(m)), vols(m0))
        vk.ensures_eq("rigid-part/corner-jacobians-as-multiset-sum", tr(vk, cjac(m).sum(axis=1)), cjac(m0).sum(axis=1))
        h = m.expand(z=np.array([0 * d, d]))
        t = h.triangulate(mode=3)
        Vt = tr(vk, vols(t))
        vk.ensures_eq("tetrahedra/total-volume==area*thickness", sum(Vt), sum(vols(m0)) * d)
        ensures_pos(vk, "tetrahedra/positively-oriented", Vt)
        t0 = h.triangulate(mode=0)
        V0 = tr(vk, vols(t0))
        vk.ensures_eq("tetrahedra-mode0/total-volume==area*thickness", sum(V0), sum(vols(m0)) * d)
        ensures_pos(vk, "tetrahedra-mode0/positively-oriented", V0)
        no_unused(vk, "tetrahedra", t)
        vk.canary("sequence-loses-volume", sum(Vt), sum(vols(m0)))
    elif seq == "tetra-rigid-convert-disconnect":
        m0 = make_mesh(vk, "tetra", 2)
        a, c, s = angle(vk, "alpha")
        cen = vk.reals("cen", (3,), near=0.2)
        nrm = vk.reals("nrm", (3,), near=[0.5, 0.6, -0.4], spread=0.2)
        vk.requires(sum(nrm * nrm), ">")
        m = m0.mirror(normal=nrm).rotate(a, 1, center=cen).add_midpoints_edges().disconnect()
        ensures_same(vk, "cell_type", m.cell_type, "tetra10")
        vk.ensures_eq("volume", tr(vk, vols(m, ct="tetra")), vols(m0))
        ensures_pos(vk, "positively-oriented", tr(vk, vols(m, ct="tetra")))
        mid = np.array([[(m.points[c[i]] + m.points[c[j]]) / 2 for i, j in ((0, 1), (1, 2), (2, 0), (0, 3), (1, 3), (2, 3))] for c in m.cells])
        vk.ensures_eq("mid-points-are-edge-centroids-after-the-sequence", m.points[m.cells[:, 4:]], mid)
        no_unused(vk, "result", m)
        vk.canary("sequence-flips", tr(vk, vols(m, ct="tetra")), -vols(m0))
    elif seq == "line-expand-revolve":
        base = base_mesh(vk, "line")
        z0 = vk.real_scalar("z0", near=0.5, spread=0.2)
        dz = vk.real_scalar("dz", near=0.8, spread=0.3)
        vk.requires(z0, ">")
        vk.requires(dz, ">")
        a1, c1, s1 = angle(vk, "phi", near=60.0, spread=30.0)
        vk.requires(s1, ">")
        q = base.expand(z=np.array([z0, z0 + dz]))
        h = q.revolve(phi=np.array([0 * a1, a1]), axis=0)
        V = tr(vk, vols(h))
        M = sum(cells.first_moment(q.points[c], 1) for c in q.cells)
        vk.ensures_eq("volume==sin(phi)*first-moment-of-the-section", sum(V), s1 * M)
        ensures_pos(vk, "positively-oriented", V)
        no_unused(vk, "result", h)
        vk.canary("revolve-loses-volume", sum(V), M)
    else:
        # two copies of a cell pair, the second mirrored onto the first's neighbour: concatenate + merge
        ref, conn = two_cell_reference("quad", 1)
        near = ref.copy()
        near[:, 0] = near[:, 0] + 0.3 * near[:, 1]
        P = vk.reals("X", near.shape, near=near, spread=0.08)
        assume_valid(vk, "quad", P, conn)
        xm = vk.real_scalar("xm", near=2.0, spread=0.1)
        a = fem.Mesh(P, conn, "quad")
        b = a.mirror(axis=0, centerpoint=[xm, 0 * xm])
        both = fm.concatenate([a, b])
        vk.ensures_eq("concatenate-mirror/volume", vols(both), np.concatenate([vols(a), vols(a)]))
        ensures_pos(vk, "concatenate-mirror/corner-jacobians-positive", cjac(both))
        # distinct first coordinates in a known order: x of a < xm < x of b reversed
        order = list(np.argsort(near[:, 0]))
        xs = [P[i, 0] for i in order] + [2 * xm - P[i, 0] for i in order[::-1]]
        for i in range(len(xs)):
            for j in range(i + 1, len(xs)):
                vk.requires(xs[j] - xs[i], ">")
        merged = both.sweep()
        ensures_same(vk, "sweep/npoints", len(merged.points), 8)
        vk.ensures_eq("sweep/no-cell-corner-moved", cell_coords(merged), cell_coords(both))
        vk.ensures_eq("sweep/volume", vols(merged), vols(both))
        no_unused(vk, "sweep", merged)
        vk.canary("sweep-merges-distinct-points", len(merged.points), 6)
