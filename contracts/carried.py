"""callee contracts carried by the check of a dependent property.

Verification is modular: the contracts of C01 / C10 / C14 / C09 run the calling code against *callee contracts*
(vk/stubs.py: StubMixedMaterial, StubAreaChange; the load-history driver of the characteristic-curve job) instead of
the callee bodies.  A change inside such a callee is noticed only where the callee's own contract is discharged --
in the contract files of another property (C03, C15).  So that the check of the dependent property reports it as
well, that check also discharges the callee contracts listed here (same contract functions, same obligations, run
against the same tree; obligation names keep their home prefix, e.g. `C03/mixed[...]/...`, the VIOLATION line carries
the checking property, the replay file names both).  Nothing is assumed twice: the evidence of the dependent property
lists these contracts as `carried`, their functions under `functions_under_contract`.

entry: property -> [(home property, contract name, config filter or None)]
"""

def _stateful(cfg):
    return bool(cfg.get("state"))


def _alexander(cfg):
    return cfg.get("model") == "alexander"


def _ogden_roxburgh_pair(cfg):
    return str(cfg.get("pair", "")).startswith("OgdenRoxburgh")


CARRIED = {
    # AD-backed models: stress and elasticity are derivatives of the model function BY the AD contract -- provided the
    # model function is a differentiable expression of its argument.  Two model functions step outside that premise:
    # `alexander` (hand-built dual number: its parts must be the variations of one function, C11 `model_other`) and the
    # tensortrax `ogden_roxburgh` (history maximum; stop-gradient constructs like Tensor.x would detach the tangent from
    # the stress: compared entry by entry with the hand-coded class in C12 `handcoded`)
    "C03": [("C11", "model_other", _alexander), ("C12", "handcoded", _ogden_roxburgh_pair)],
    # the Newton driver is verified (E2 loop cut) against items whose assemble.vector / assemble.matrix only compute a
    # TENTATIVE new state and commit nothing (commit happens in update_statevars on success only): that is the C01
    # contract of the real SolidBody around a material with stored state variables
    # ... external-load items ramped through update() (PointLoad) are the C14 `loads` contract
    # ... "a linear problem converges with the first update" needs matrix == d vector / d unknowns of EVERY item, also the penalty
    # items (MPC with its centre among the points, contact): C01 `constraints_and_loads`; continuation from the previous
    # converged state across substeps is the x0 hand-over of Job.evaluate (C15)
    # ... and the vector of current values that partition() reads (u0 = values[dof0]) is the C08 `container` contract
    "C07": [("C01", "solidbody", _stateful), ("C14", "loads", lambda cfg: cfg.get("item") == "pointload"), ("C08", "container", None), ("C01", "constraints_and_loads", None), ("C15", "Job.evaluate", None)],
    # C15 also: the state vector a user material's history reaches the solid body through is MaterialStrain's (C03
    # framework contract around any user material); the step / substep counters a user callback of a
    # CharacteristicCurve receives are the C09 `curve_callback` contract; the ramp tables themselves are built with math.linsteps
    # (anchor file math/_math.py; C17 `tensor[group=linsteps]`); "for elastic materials the final state is
    # independent of how the load path is subdivided" needs the built-in incremental laws to add exactly the stress of the
    # strain INCREMENT to the stored stress (C03 `small_strain`: elastic update, elastic step keeps the plastic state)
    "C15": [("C01", "solidbody", _stateful), ("C03", "small_strain_user", None), ("C03", "small_strain", None), ("C03", "composite", None), ("C09", "curve_callback", None), ("C14", "loads", lambda cfg: cfg.get("item") == "pointload"), ("C12", "handcoded", _ogden_roxburgh_pair), ("C07", "fun_items_jac_items", None), ("C01", "formitem_update", None), ("C17", "tensor", lambda cfg: cfg.get("group") == "linsteps")],
    # solid bodies on mixed u/p/J fields are verified against StubMixedMaterial (blocks == mixed derivatives of the
    # three-field functional), follower loads against StubAreaChange (cofactor and its derivative)
    # ... and the block placement of mixed-field matrices (upper-triangle storage / full block lists) is C02 `mixed_blocks`
    # ... the sum over items with their multipliers (fun_items / jac_items, in the anchor file tools/_newton.py) is C07; the
    # update() of external-load items (PointLoad, SolidBodyForce / Gravity: constant vectors, zero matrices) is C14 `loads`
    # ... the uniform-grid fast path of the assembly (cell-constant integrands broadcast to all cells) is C10 `uniform_region`
    "C01": [("C03", "mixed", None), ("C03", "kinematics", None), ("C02", "mixed_blocks", None), ("C10", "uniform_region", None), ("C07", "fun_items_jac_items", None), ("C14", "loads", None)],
    # weak forms written with the Form expression API are composed of the math helpers (dot / ddot / dya ... with their modes): C17 `tensor`
    "C02": [("C17", "tensor", None)],
    # regions evaluate the element tables at the points of their default rules: the element identities are C04, the rules
    # (incl. that inv() leaves the shared default scheme alone) C05; the padded plane-strain hessian is C10 `planestrain_hess`
    # ... "differential volumes ... equal across element families on the same geometry": the higher-order meshes the
    # families are compared on come from the library's own mid-point insertion (C16 `midpoints`: centroids of edges / faces / cells)
    "C06": [("C05", "scheme", lambda cfg: cfg.get("tier") != "thorough"), ("C10", "planestrain_hess", None), ("C04", "element", lambda cfg: cfg.get("tier") != "thorough"), ("C16", "midpoints", lambda cfg: cfg.get("tier") != "thorough")],
    # condensed vs explicit three-field: the explicit side is the real NearlyIncompressible / ThreeFieldVariation law
    # whose blocks are the C03 `mixed` contract
    # ... a plane-strain body equals the unit-thickness slab only if both default rules integrate their stiffness integrands exactly
    # (C09 `rule_exactness`); axisymmetric forms interpolate the radius with the element's shape FUNCTIONS (C04 `element`)
    # ... the condensed body's matrix (anchor file _solidbody_incompressible.py) is C01 `nearly_incompressible`; the commit of
    # its (p, J) state on convergence is Results.update_statevars (C07)
    # ... the padded value / gradient of the plane-strain and axisymmetric field classes themselves (anchor files) are C06 `field_kinds`
    "C10": [("C03", "mixed", None), ("C01", "nearly_incompressible", None), ("C07", "update_statevars", None), ("C09", "rule_exactness", None), ("C04", "element", lambda cfg: cfg.get("tier") != "thorough"), ("C06", "field_kinds", None)],
    # pressure resultants are stated against StubAreaChange
    # ... and the zero total moment of the internal forces is the proved first-moment identity plus Kirchhoff symmetry
    # P F^T = F P^T of the constitutive law: the C11 contracts of the Lagrange wrappers / AD wrappers
    # ... "all selections of loaded faces": the faces a point mask selects are the C13 `mask` contract; body-force sum and
    # total mass are exact only if the rule in use is (all rules a region may be given: C05 `scheme`, 3 s)
    "C14": [("C03", "kinematics", None), ("C11", "lagrange", None), ("C11", "wrapper", None), ("C11", "handcoded", lambda cfg: cfg.get("part") == "balance"), ("C04", "element", lambda cfg: cfg.get("tier") != "thorough"), ("C13", "cell", lambda cfg: cfg.get("clause") in ("closure", "faces")), ("C13", "mask", None), ("C05", "scheme", lambda cfg: cfg.get("tier") != "thorough"), ("C03", "handcoded", None)],
    # hand-coded vs differentiated versions are compared on the plain call; the hand-coded models' out= buffer variants
    # (what a solid body actually calls) are the C03 `handcoded` contract
    # ... micro-sphere models of both back ends integrate over the Bazant-Oh sphere rule (C05 `scheme`: isotropy of the tangent at
    # F = I needs the exact second / fourth moments); the small-strain framework's linear-elastic law agrees with LinearElastic only
    # if the framework stores the TOTAL strain (C03 `small_strain`)
    "C12": [("C03", "handcoded", None), ("C05", "scheme", lambda cfg: cfg.get("scheme") == "BazantOh"), ("C03", "small_strain", None)],
    # the reaction-force curve of a homogeneous problem is recorded by CharacteristicCurve through Job.evaluate /
    # Step.generate (ramp subdivision, x0 hand-over): their E2 contracts live in C15
    # ... and the boundary conditions of the uniaxial / biaxial / shear load cases (dof.symmetry and friends) are the
    # C08 `loadcase` contract (grid stand-in excluded: bounded)
    # the numbering of cell-less points (get_dof0) and of multi-body dual fields (FieldDual / FieldsMixed: mesh.dual with
    # offset / npoints) comes from the mesh bookkeeping, under contract in C16
    # ... and the (row field, column field) placement of a full list of blocks is C02 `mixed_blocks`, the (point, component) row /
    # column of a single-field form C02 `cartesian`; a load on field n lands at offsets[n] + dim_n p + i also after update(): C14 `loads`
    "C08": [("C16", "update_bookkeeping", None), ("C16", "structure", lambda cfg: cfg.get("op") == "dual"), ("C02", "mixed_blocks", None), ("C02", "cartesian", None), ("C14", "loads", lambda cfg: cfg.get("item") == "pointload")],
    # duplicate-point merging of the meshes of a container (one shared merged points array, cells renumbered consistently)
    # is stated with the container's file round trip in C20
    "C16": [("C20", "MeshContainer", None)],
    # area vectors, normals and dA are evaluated at the points of a boundary rule -- a (dim-1)-rule placed on the face
    # r_last = -1 of the rotated cell: the C05 `scheme` contracts of the two boundary rules
    "C13": [("C05", "scheme", lambda cfg: "Boundary" in str(cfg.get("scheme"))), ("C04", "element", lambda cfg: cfg.get("tier") != "thorough")],
    # averaging at the points divides by mesh.cells_per_point (C16 bookkeeping)
    # ... projection / extrapolation reproduce fields of the element's polynomial space: the element identities (C04, 3 s)
    # ... extrapolation to the points pairs quadrature point q with cell point q: the default rule of RegionLagrange follows `permute` (C06)
    "C19": [("C16", "update_bookkeeping", None), ("C04", "element", lambda cfg: cfg.get("tier") != "thorough"), ("C06", "lagrange", lambda cfg: cfg.get("permute") is False and cfg.get("tier") != "thorough")],
    # the free unknowns of a modal analysis are those of dof.partition over the job's boundaries: the selection a Boundary
    # makes (all fx / fy / fz / mode / skip / mask options) is the C08 `boundary` contract
    # ... and a tangent with both minor symmetries (no response to a rigid rotation): for strain-based materials that is the
    # symmetrisation in MaterialStrain.hessian (C03 `small_strain`)
    # ... "exactly six zero-frequency modes" needs a stiffness without spurious zero-energy modes: the default rule of every region
    # template integrates the stiffness integrand of its element exactly (C09 `rule_exactness`, 3 s)
    # ... the prescribed unknowns of cell-less points are C08 `dof0-dof1`; rigid modes carry no strain because the shape
    # function gradients sum to zero (C04 element identities)
    "C18": [("C08", "boundary", None), ("C08", "dof0-dof1", None), ("C08", "apply", None), ("C04", "element", lambda cfg: cfg.get("tier") != "thorough"), ("C09", "rule_exactness", None), ("C03", "small_strain", None)],
    # ... and "all hyperelastic materials": the analytic stress a curve is compared with is the model's documented one --
    # the model functions of the two AD back ends agree (C12 `backends`) and have the documented initial moduli (`moduli`)
    # ... the reaction force of the curve is tools.force over the moved boundary, the curve data tools.curve (C19); the
    # convergence test and the Newton driver the job runs (anchor file tools/_newton.py) are C07 `check` / `newtonrhapson`
    # ... and on the rule: exactness of every rule a region may be given, and inv() (used by extrapolate) leaving the shared
    # default instance of a template alone (C05 `scheme`)
    # ... patch tests on "any" cell of a family rest on gradient == D(function) and the partition of unity of the element (C04)
    "C09": [("C15", "Job.evaluate", None), ("C15", "Step.generate", None), ("C08", "loadcase", None), ("C08", "apply", None), ("C12", "backends", lambda cfg: cfg.get("tier") != "thorough" and cfg.get("model") != "native-lagrange"), ("C12", "moduli", lambda cfg: cfg.get("tier") != "thorough"), ("C19", "force_moment", None), ("C19", "curve", None), ("C07", "check", None), ("C07", "newtonrhapson", None), ("C04", "element", lambda cfg: cfg.get("tier") != "thorough"), ("C05", "scheme", lambda cfg: cfg.get("tier") != "thorough")],
}
