"""C08 -- one global numbering of unknowns; boundary conditions partition it exactly.

Engine E3 (vk/idxmap.py).  The real felupe functions are executed on index-map arrays: `npoints`, `ncells`
of every field, the number of points without cells and the number of selected boundary dofs are symbolic,
connectivities / coordinates / field values / user masks are uninterpreted functions; points per cell,
dims and the number of fields are enumerated.  Obligations are forall-statements decided by z3.
Every contract is paired with native runs of the same real code (real numpy, small random instances, all
quantified indices enumerated): differential validation of the index-map model and native failing inputs.

Global numbering (stated from the property): unknown (field j, point p, component i) has the global index
G(j,p,i) = OFF_j + dim_j*p + i with OFF_j = sum_{j'<j} npoints_j'*dim_j' (fields laid out consecutively).

contracts
  indices      Field._indices_per_cell, Indices (cai, ai, dof, shape), Field.__getitem__
  container    FieldContainer.__init__ (fieldsizes, offsets), math.values, __add__/__sub__/__iadd__/__isub__
               (flat vector split at the offsets, list-of-arrays form), link
  boundary     Boundary.__init__/apply_mask on an opaque mesh with symbolic coordinates: fx/fy/fz values,
               callables, and/or, skip, point masks, dof masks; structure of .dof/.points
  dof0 / dof1  get_dof0, get_dof1 against the Boundary contract (stub boundaries = arbitrary sorted sets)
  partition    partition: 1..3 fields of different sizes, fields without boundaries
  apply        apply: scalar / array / broadcast values, overlapping boundaries (last one wins), dof0=None
  loadcase     symmetry, uniaxial, biaxial, shear: documented planes and components, symbolic positions
"""
import itertools
from types import SimpleNamespace

import numpy as np

import felupe
import felupe.dof._boundary as DB
import felupe.dof._loadcase as DL
import felupe.dof._tools as DT
import felupe.field._base as FB
import felupe.field._container as FC
import felupe.math._field as MF
from vk import e3fix as F
from vk import idxmap as X
from vk.core import contract

TRUSTED = list(X.TRUSTED) + [
    "C08: FieldContainer arithmetic with a flat vector whose length equals the number of fields is by design read as a list of per-field arrays (API ambiguity); the flat-vector contracts require total size != number of fields",
    "C08 lemma (composition): get_dof0/get_dof1/partition/apply are verified against the Boundary contract (b.dof strictly increasing subset of [0, npoints*dim), b.points the points with a selected component; for point-mask boundaries b.dof[j*m+l] = dim*b.points[j] + kept[l]); the real Boundary is verified to satisfy that contract",
]

NA = (1, 3, 4, 8)


def _shape_is(a, shape):
    return len(a.shape) == len(shape) and all(X.same_size(p, q) for p, q in zip(a.shape, shape))


# ------------------------------------------------------------------------------------------------
def _indices(E, cfg):
    na = cfg["na"]
    for dim in (1, 2, 3):
        E.scope()
        tag = f"dim={dim}"
        m = F.mesh(E, "m", na)
        f = F.field(E, m, dim, values="sym")
        nc, n = m.ncells, m.npoints
        cai, ai, dof = f.indices.cai, f.indices.ai, f.indices.dof
        E.check(f"{tag}/shapes", _shape_is(cai, (nc, na, dim)) and _shape_is(ai[0], (nc * na * dim,)) and _shape_is(ai[1], (nc * na * dim,)) and _shape_is(dof, (n, dim)) and X.same_size(f.indices.shape[0], n * dim) and f.indices.shape[1] == 1, "cai (ncells, na, dim), ai 2 x (ncells*na*dim,), dof (npoints, dim), shape (npoints*dim, 1)")
        rng = [("c", nc), ("a", na), ("i", dim)]
        E.forall(f"{tag}/cai", rng, lambda c, a, i: E.eq(E.at(cai, c, a, i), dim * E.at(m.cells, c, a) + i))
        E.forall(f"{tag}/ai-rows", rng, lambda c, a, i: E.eq(E.at(ai[0], (c * na + a) * dim + i), dim * E.at(m.cells, c, a) + i))
        E.forall(f"{tag}/ai-cols", rng, lambda c, a, i: E.eq(E.at(ai[1], (c * na + a) * dim + i), 0))
        E.forall(f"{tag}/dof", [("p", n), ("i", dim)], lambda p, i: E.eq(E.at(dof, p, i), dim * p + i))
        E.forall(f"{tag}/cai-is-dof-of-the-cell-point", rng, lambda c, a, i: E.eq(E.at(cai, c, a, i), E.at(dof, E.at(m.cells, c, a), i)))
        with E.run(FB):
            got = f[dof]
        E.check(f"{tag}/getitem-shape", _shape_is(got, (n, dim)), "field[dof] has the shape of dof")
        E.forall(f"{tag}/getitem", [("p", n), ("i", dim)], lambda p, i: E.eq(E.at(got, p, i), E.at(f.values, p, i)))
        if dim == 2:
            E.canary("cai-off-by-one", rng, lambda c, a, i: E.eq(E.at(cai, c, a, i), dim * E.at(m.cells, c, a) + i + 1))
            E.canary("cai-point-major", rng, lambda c, a, i: E.eq(E.at(cai, c, a, i), E.at(m.cells, c, a) + i * E.val(n)))
            E.canary("dof-transposed", [("p", n), ("i", dim)], lambda p, i: E.eq(E.at(dof, p, i), p + i * E.val(n)))


@contract("C08", "indices", configs=[dict(na=a) for a in NA], engine="E3")
def indices(vk, cfg):
    """Field._indices_per_cell / Indices: cai[c,a,i] = dim*cells[c,a]+i = dof[cells[c,a], i]"""
    vk.real(felupe.Field._indices_per_cell)
    vk.real(felupe.field._indices.Indices.__init__)
    vk.real(felupe.Field.__getitem__)
    X.paired(vk, _indices, cfg)


# ------------------------------------------------------------------------------------------------
def _fields(E, dims, nas=None, points=False, pwc=False, mdims=None, values="sym"):
    """fields of a mixed container: every field on its own opaque mesh (own npoints, own cells)"""
    nas = nas or [4] + [1] * (len(dims) - 1)
    nc = E.size("ncells", 1)
    meshes = [F.mesh(E, f"f{j}", na, ncells=nc, mdim=(mdims[j] if mdims else None), points=points, pwc=pwc) for j, na in enumerate(nas)]
    fs = [F.field(E, m, d, values=values, name=f"f{j}") for j, (m, d) in enumerate(zip(meshes, dims))]
    return meshes, fs


def _container(E, cfg):
    dims = cfg["dims"]
    nf = len(dims)
    E.scope()
    meshes, fs = _fields(E, dims)
    cont = F.container(E, fs)
    off, tot = F.spec_offsets(fs)
    ns = [m.npoints for m in meshes]
    E.check("fieldsizes", len(cont.fieldsizes) == nf and all(X.same_size(a, n * d) for a, n, d in zip(cont.fieldsizes, ns, dims)), f"{cont.fieldsizes}")
    E.check("offsets", len(cont.offsets) == nf - 1 and all(X.same_size(a, b) for a, b in zip(list(cont.offsets), off[1:])), f"{list(cont.offsets)} == cumulative field sizes {off[1:]}")
    # math.values: the flat vector lists field j, point p, component i at G(j,p,i)
    with E.run(MF):
        vec = felupe.math.values(cont)
    E.check("values/length", _shape_is(vec, (tot,)), f"{vec.shape} == ({tot},)")
    for j in range(nf):
        E.forall(f"values/field{j}", [("p", ns[j]), ("i", dims[j])], lambda p, i: E.eq(E.at(vec, E.val(off[j]) + dims[j] * p + i), E.at(fs[j].values, p, i)))
    E.canary("values-shifted", [("p", ns[-1]), ("i", dims[-1])], lambda p, i: E.eq(E.at(vec, E.val(off[-1]) + dims[-1] * p + i + 1), E.at(fs[-1].values, p, i)))
    # field update with a flat vector: split at the offsets
    E.assume(E.Not(E.eq(E.val(tot), nf)))
    old = [E.reals(f"old{j}", (ns[j], dims[j])) for j in range(nf)]
    dx = E.reals("dx", (tot,))
    ops = {"__add__": (lambda a, b: a + b, False), "__sub__": (lambda a, b: a - b, False), "__iadd__": (lambda a, b: a + b, True), "__isub__": (lambda a, b: a - b, True)}
    for opname, (op, inplace) in ops.items():
        for form in ("flat", "list"):
            for j in range(nf):
                fs[j].values = old[j].copy()
            arg = dx if form == "flat" else [dx[(off[j]) : (off[j] + ns[j] * dims[j])] for j in range(nf)]
            with E.run(FC, FB, _container=dict(len=E.len)):
                new = getattr(cont, opname)(arg)
            tag = f"{opname}/{form}"
            E.check(f"{tag}/result", isinstance(new, felupe.FieldContainer) and (new is cont) == inplace and len(new.fields) == nf, "returns a container (the same object iff in-place)")
            for j in range(nf):
                E.forall(f"{tag}/field{j}", [("p", ns[j]), ("i", dims[j])], lambda p, i: E.eq(E.at(new.fields[j].values, p, i), op(E.at(old[j], p, i), E.at(dx, E.val(off[j]) + dims[j] * p + i))))
                if not inplace:  # frame: the operand container keeps its values
                    E.forall(f"{tag}/frame/field{j}", [("p", ns[j]), ("i", dims[j])], lambda p, i: E.eq(E.at(cont.fields[j].values, p, i), E.at(old[j], p, i)))
            if opname == "__add__" and form == "flat" and nf > 1:
                E.canary("update-last-field-without-offset", [("p", ns[-1]), ("i", dims[-1])], lambda p, i: E.eq(E.at(new.fields[-1].values, p, i), E.at(old[-1], p, i) + E.at(dx, dims[-1] * p + i)))
            if opname == "__add__" and form == "flat" and nf == 1:
                E.canary("update-shifted", [("p", ns[0]), ("i", dims[0])], lambda p, i: E.eq(E.at(new.fields[0].values, p, i), E.at(old[0], p, i) + E.at(dx, dims[0] * p + i) + 1))
    # link
    for j in range(nf):
        fs[j].values = old[j].copy()
    cont.link()
    E.check("link/all-to-first", all(f.values is fs[0].values for f in fs), "link() makes every field share the value array of the first field")
    other = F.container(E, [F.field(E, m, d, values="sym", name=f"o{j}") for j, (m, d) in enumerate(zip(meshes, dims))])
    cont.link(other)
    E.check("link/one-to-one", all(a.values is b.values for a, b in zip(cont.fields, other.fields)), "link(other) shares the value arrays field by field")


CONT = [dict(dims=d) for d in [(3,), (1,), (2, 1), (3, 1, 1), (2, 1, 1), (1, 3), (1, 2, 3)]]


@contract("C08", "container", configs=CONT, engine="E3")
def container(vk, cfg):
    """FieldContainer: offsets, math.values, field update by a flat vector (split at the offsets)"""
    vk.real(felupe.FieldContainer.__init__)
    vk.real(felupe.math.values)
    for n in ("__add__", "__sub__", "__iadd__", "__isub__", "link"):
        vk.real(getattr(felupe.FieldContainer, n))
    vk.real(felupe.Field.__iadd__)
    vk.real(felupe.Field.__isub__)
    X.paired(vk, _container, cfg)


@contract("C08", "standin-selftest", engine="ground")
def standin_selftest(vk, cfg):
    """differential test of the E3 numpy stand-ins against real numpy (model validation, not counted)"""
    if not vk.sym:
        return
    n, bad = X.selftest(seed=0)
    vk.note(f"E3 stand-in differential test against real numpy: {n} cases, {len(bad)} mismatches")
    if bad:
        vk._record(f"{vk.prefix}/standin==numpy", "error", "differential", 0, "; ".join(bad[:5]))


# ------------------------------------------------------------------------------------------------
# Boundary on an opaque mesh: npoints symbolic, coordinates X(p, axis) uninterpreted reals
KINDS = ("default", "value", "callable")


def _boundary_case(E, tag, mdim, fdim, kinds, mode, skip, canary=False):
    E.scope()
    m = F.mesh(E, "m", 4, mdim=mdim, points=True)
    f = F.field(E, m, fdim)
    n = m.npoints
    kw, preds = {}, []
    for a, kind in enumerate(kinds):
        key = "fxyz"[0] + "xyz"[a]
        if kind == "value":
            c = E.real(f"c{a}")
            kw[key] = c
            if a < mdim:
                preds.append((lambda a, c: lambda p: E.eq(E.at(m.points, p, a), E.val(c)))(a, c))
        elif kind == "callable":
            arr = E.bools(f"PF{a}", (n,))
            kw[key] = (lambda arr: lambda x: arr)(arr)
            if a < mdim:
                preds.append((lambda arr: lambda p: E.at(arr, p))(arr))
    if skip is not None:
        kw["skip"] = skip
    with E.run(DB):
        b = felupe.Boundary(f, mode=mode, value=1.5, **kw)
    comb = E.Or if mode == "or" else E.And
    sel = lambda p: comb(*[q(p) for q in preds])  # noqa: E731  (empty or = False, empty and = True)
    skipped = [bool(skip[i]) if skip is not None else False for i in range(fdim)]
    _boundary_obligations(E, tag, b, f, n, fdim, lambda p, i: E.And(sel(p), E.Not(E.pick(skipped, i))), [i for i in range(fdim) if not skipped[i]], canary)
    E.check(f"{tag}/attributes", b.field is f and b.dim == fdim and b.value == 1.5 and b.mode == mode, "field, dim, value, mode stored")


def _boundary_obligations(E, tag, b, f, n, fdim, mask2d, kept, canary=False, uniform=True):
    """postcondition of Boundary (the contract the dof tools are verified against)"""
    dof, pts = b.dof, b.points
    E.check(f"{tag}/1d", len(dof.shape) == 1 and len(pts.shape) == 1, "dof and points are 1d")
    E.forall(f"{tag}/dof-selected-iff", [("p", n), ("i", fdim)], lambda p, i: E.Iff(E.occurs(dof, fdim * p + i), mask2d(p, i)))
    E.forall(f"{tag}/dof-in-range", [("x", None)], lambda x: E.Implies(E.occurs(dof, x), E.And(x >= 0, x < E.val(n * fdim))))
    E.forall(f"{tag}/dof-increasing", [("j", (1, E.length(dof)))], lambda j: E.at(dof, j - 1) < E.at(dof, j))
    anyc = lambda p: E.Or(*[mask2d(p, i) for i in range(fdim)])  # noqa: E731
    E.forall(f"{tag}/points-selected-iff", [("p", n)], lambda p: E.Iff(E.occurs(pts, p), anyc(p)))
    E.forall(f"{tag}/points-in-range", [("x", None)], lambda x: E.Implies(E.occurs(pts, x), E.And(x >= 0, x < E.val(n))))
    E.forall(f"{tag}/points-increasing", [("j", (1, E.length(pts)))], lambda j: E.at(pts, j - 1) < E.at(pts, j))
    if canary:
        E.canary(f"{tag}-selects-complement", [("p", n), ("i", fdim)], lambda p, i: E.Iff(E.occurs(dof, fdim * p + i), E.Not(mask2d(p, i))))
        E.canary(f"{tag}-points-complement", [("p", n)], lambda p: E.Iff(E.occurs(pts, p), E.Not(anyc(p))))
    if not uniform:
        return
    # row-uniform masks (point selection x kept components): dof[j*m + l] = dim*points[j] + kept[l].
    # Proved as: g(r) := dim*points[r div m] + kept[r mod m] is strictly increasing on [0, P*m) and has the
    # same image as dof  (=> dof == g and len(dof) == P*m by uniqueness of the increasing enumeration)
    mk = len(kept)
    P = E.length(pts)
    if mk == 0:
        E.check(f"{tag}/enumeration/empty", True, "all components skipped")
        E.forall(f"{tag}/enumeration/no-dof", [("x", None)], lambda x: E.Not(E.occurs(dof, x)))
        return
    g = lambda r: fdim * E.at(pts, E.div(r, mk)) + E.pick(kept, E.mod(r, mk))  # noqa: E731
    ci = lambda i: E.pick([kept.index(i) if i in kept else 0 for i in range(fdim)], i)  # noqa: E731
    E.forall(f"{tag}/enumeration/increasing", [("r", (1, P * mk))], lambda r: g(r - 1) < g(r))
    E.forall(f"{tag}/enumeration/into", [("r", P * mk)], lambda r: E.occurs(dof, g(r)))
    E.forall(f"{tag}/enumeration/onto", [("x", None)], lambda x: (lambda r: E.And(r >= 0, r < E.val(P * mk), E.eq(g(r), x)))(E.rank(pts, E.div(x, fdim)) * mk + ci(E.mod(x, fdim))), given=lambda x: E.occurs(dof, x))
    if not E.sym:
        d = np.asarray(dof)
        E.check(f"native:{tag}/enumeration", len(d) == P * mk and all(d[r] == g(r) for r in range(P * mk)), "dof[j*m+l] == dim*points[j] + kept[l] (conclusion of the enumeration lemma, native)")


def _boundary(E, cfg):
    mdim, fdim = cfg["mdim"], cfg["fdim"]
    part = cfg["part"]
    mid = (False, True, False)
    if part.startswith("predicates"):
        for kinds in itertools.product(KINDS, repeat=3):
            if mdim < 3 and kinds[2] == "callable":
                continue  # fz is ignored on a 2d mesh: default and value are enough to show it
            if mdim < 2 and kinds[1] == "callable":
                continue
            for mode in (part.split("-")[1],):
                for skip in (None, mid):
                    tag = f"fx={kinds[0]},fy={kinds[1]},fz={kinds[2]},{mode},skip={'none' if skip is None else ''.join(str(int(x)) for x in skip)}"
                    _boundary_case(E, tag, mdim, fdim, kinds, mode, skip, canary=(kinds == ("value", "callable", "default") and skip is None))
    elif part == "skip":
        for kinds, mode in ((("value", "default", "default"), "or"), (("callable", "value", "value"), "and")):
            for skip in itertools.product((False, True), repeat=3):
                for asint in (False, True):
                    sk = tuple(int(x) for x in skip) if asint else skip
                    tag = f"fx={kinds[0]},fy={kinds[1]},fz={kinds[2]},{mode},skip={''.join(str(int(x)) for x in skip)}{'i' if asint else ''}"
                    _boundary_case(E, tag, mdim, fdim, kinds, mode, sk)
    else:  # user masks
        for shape_kind in ("points", "points-column", "dofs", "dofs-flat"):
            for skip in [None] + [s for s in itertools.product((False, True), repeat=fdim)]:
                E.scope()
                tag = f"mask={shape_kind},skip={'none' if skip is None else ''.join(str(int(x)) for x in skip)}"
                m = F.mesh(E, "m", 4, mdim=mdim, points=True)
                f = F.field(E, m, fdim)
                n = m.npoints
                if shape_kind.startswith("points"):
                    msk = E.bools("MASK", (n,) if shape_kind == "points" else (n, 1))
                    pm = (lambda p: E.at(msk, p)) if shape_kind == "points" else (lambda p: E.at(msk, p, 0))
                    skipped = [bool(skip[i]) if skip is not None else False for i in range(fdim)]
                    mask2d = lambda p, i: E.And(pm(p), E.Not(E.pick(skipped, i)))  # noqa: E731
                    kept, uniform = [i for i in range(fdim) if not skipped[i]], True
                else:
                    msk = E.bools("MASK", (n, fdim) if shape_kind == "dofs" else (n * fdim,))
                    mask2d = (lambda p, i: E.at(msk, p, i)) if shape_kind == "dofs" else (lambda p, i: E.at(msk, fdim * p + i))
                    kept, uniform = list(range(fdim)), False
                    if fdim == 1:
                        # a (npoints, 1) mask of a scalar field is a point mask: skip applies
                        skipped = [bool(skip[0]) if skip is not None else False]
                        mask2d = (lambda mm: lambda p, i: E.And(mm(p, i), not skipped[0]))(mask2d)
                        kept, uniform = [i for i in range(fdim) if not skipped[i]], True
                kw = {} if skip is None else {"skip": skip}
                with E.run(DB):
                    b = felupe.Boundary(f, fx=0.0, fy=lambda y: None, mask=msk, **kw)  # fx / fy are ignored if a mask is given
                    b.update(2.5)
                _boundary_obligations(E, tag, b, f, n, fdim, mask2d, kept, uniform=uniform, canary=(skip is None and shape_kind == "dofs" and fdim > 1))
                E.check(f"{tag}/update", b.value == 2.5, "update() replaces the value")
                if not uniform:
                    E.check(f"{tag}/skip-cleared", b.skip is None, "dof-based masks carry no skip")
                # apply_mask on an existing boundary replaces the selection
                msk2 = E.bools("MASK2", (n,))
                if uniform and skip is None:
                    with E.run(DB):
                        b.apply_mask(msk2)
                    _boundary_obligations(E, tag + "/re-apply", b, f, n, fdim, lambda p, i: E.at(msk2, p), list(range(fdim)))


BND = []
for mdim, fdim in [(3, 3), (2, 2), (3, 1), (2, 3), (1, 1), (1, 2)]:
    light = (mdim, fdim) in ((3, 3), (2, 2), (3, 1))
    for part in ("predicates-or", "predicates-and", "skip", "masks"):
        BND.append(dict(mdim=mdim, fdim=fdim, part=part, **({} if light else {"tier": "thorough"})))


@contract("C08", "boundary", configs=BND, engine="E3")
def boundary(vk, cfg):
    """Boundary.__init__ / apply_mask / update: selected dofs == (combined coordinate predicates) x (components
    not skipped), for an arbitrary number of points with arbitrary real coordinates"""
    vk.real(felupe.Boundary.__init__)
    vk.real(felupe.Boundary.apply_mask)
    vk.real(felupe.Boundary.update)
    X.paired(vk, _boundary, cfg)


# ------------------------------------------------------------------------------------------------
# dof tools against the Boundary contract: boundaries are stubs honouring the postcondition proved above
def _stub_boundary(E, name, f, kind="dofs", kept=None):
    """kind 'dofs': arbitrary strictly increasing dof set (dof-based mask); 'rows': arbitrary point set x
    kept components with dof[j*m+l] = dim*points[j] + kept[l] (point-based mask with skip)"""
    n, d = f.region.mesh.npoints, f.dim
    b = SimpleNamespace(field=f, dim=d, name=name, value=0.0, kind=kind)
    if kind == "dofs":
        b.dof = E.sortedset("dof_" + name, n * d)
        b.points = E.derived_set("pts_" + name, lambda p: E.Or(*[E.occurs(b.dof, d * p + i) for i in range(d)]), n)
        b.kept = list(range(d))
    else:
        b.kept = list(range(d)) if kept is None else list(kept)
        mk = len(b.kept)
        b.points = E.sortedset("pts_" + name, n)
        P = E.length(b.points)
        b.dof = E.derived_set("dof_" + name, lambda x: E.And(E.occurs(b.points, E.div(x, d)), E.Or(*[E.eq(E.mod(x, d), i) for i in b.kept])), n * d, length=P * mk)
        if mk:
            E.assume_forall([("r", P * mk)], lambda r: E.eq(E.at(b.dof, r), d * E.at(b.points, E.div(r, mk)) + E.pick(b.kept, E.mod(r, mk))))
    return b


def _increasing(E, tag, a):
    E.forall(tag, [("j", (1, E.length(a)))], lambda j: E.at(a, j - 1) < E.at(a, j))


def _dof01(E, cfg):
    fdim, mdim, nb, pwc = cfg["fdim"], cfg["mdim"], cfg["nb"], cfg["pwc"]
    E.scope()
    m = F.mesh(E, "m", 4, mdim=mdim, pwc=pwc)
    f = F.field(E, m, fdim)
    n = m.npoints
    bounds = {f"b{k}": _stub_boundary(E, f"b{k}", f, "rows" if k == 1 else "dofs", kept=[0] if k == 1 else None) for k in range(nb)}
    with E.run(DT):
        dof0 = DT.get_dof0(f, bounds)
    inb = lambda v: E.Or(*[E.occurs(b.dof, v) for b in bounds.values()])  # noqa: E731
    missing = lambda v: E.And(v >= 0, v < E.val(n * fdim), E.occurs(m.points_without_cells, E.div(v, fdim)))  # noqa: E731
    E.check("dof0/1d", len(dof0.shape) == 1, "")
    E.forall("dof0/member-iff", [("v", None)], lambda v: E.Iff(E.occurs(dof0, v), E.Or(inb(v), missing(v))))
    _increasing(E, "dof0/increasing", dof0)
    E.canary("dof0-misses-points-without-cells" if pwc else "dof0-complement", [("v", None)], lambda v: E.Iff(E.occurs(dof0, v), inb(v) if pwc else E.Not(inb(v))))
    if pwc:  # the unknowns of a point without cells are dim*p + i with the *field* dimension
        E.forall("dof0/points-without-cells", [("j", E.length(m.points_without_cells)), ("i", fdim)], lambda j, i: E.occurs(dof0, fdim * E.at(m.points_without_cells, j) + i))
    # get_dof1 for an arbitrary prescribed set (any result of get_dof0)
    d0 = E.sortedset("d0", n * fdim)
    with E.run(DT):
        dof1 = DT.get_dof1(f, bounds, dof0=d0)
    E.forall("dof1/member-iff", [("v", None)], lambda v: E.Iff(E.occurs(dof1, v), E.And(v >= 0, v < E.val(n * fdim), E.Not(E.occurs(d0, v)))))
    _increasing(E, "dof1/increasing", dof1)
    E.canary("dof1-is-dof0", [("v", None)], lambda v: E.Iff(E.occurs(dof1, v), E.occurs(d0, v)))
    if not E.sym:
        E.check("native:dof1/count", len(dof1) + len(d0) == n * fdim, "len(dof0) + len(dof1) == number of unknowns")


D01 = [dict(fdim=fd, mdim=md, nb=nb, pwc=pw) for (fd, md) in [(3, 3), (1, 3), (2, 2), (3, 2), (2, 3), (1, 1)] for nb in (1, 2, 3) for pw in (False, True)]
for c in D01:
    if c["nb"] == 2 and (c["fdim"], c["mdim"]) not in ((1, 3), (3, 2)):
        c["tier"] = "thorough"


@contract("C08", "dof0-dof1", configs=D01, engine="E3")
def dof01(vk, cfg):
    """get_dof0 = sorted(boundary dofs U dim*p+i of points without cells), get_dof1 = complement"""
    vk.real(DT.get_dof0)
    vk.real(DT.get_dof1)
    X.paired(vk, _dof01, cfg)


# ------------------------------------------------------------------------------------------------
def _locate(E, off, tot, v, per_field):
    """spec helper: per_field(j, local index) of the field whose index range contains v"""
    nf = len(off)
    ends = off[1:] + [tot]
    return E.Or(*[E.And(v >= E.val(off[j]), v < E.val(ends[j]), per_field(j, v - E.val(off[j]))) for j in range(nf)])


def _partition(E, cfg):
    dims, on = cfg["dims"], cfg["on"]  # on: field index of every boundary
    nf = len(dims)
    E.scope()
    meshes, fs = _fields(E, dims, points=True, pwc=cfg.get("pwc", True), mdims=cfg.get("mdims", [3] * nf), values=None)
    cont = F.container(E, fs)
    off, tot = F.spec_offsets(fs)
    bounds = {f"b{k}": _stub_boundary(E, f"b{k}", fs[j], "rows" if k % 2 else "dofs", kept=[dims[j] - 1] if k % 2 else None) for k, j in enumerate(on)}
    with E.run(DT, DB):
        dof0, dof1 = DT.partition(cont, bounds)
    def prescribed(j, x):
        m = meshes[j]
        return E.Or(*[E.occurs(b.dof, x) for b in bounds.values() if b.field is fs[j]], E.occurs(m.points_without_cells, E.div(x, dims[j])))

    in0 = lambda v: _locate(E, off, tot, v, prescribed)  # noqa: E731
    inrange = lambda v: E.And(v >= 0, v < E.val(tot))  # noqa: E731
    E.forall("dof0/member-iff", [("v", None)], lambda v: E.Iff(E.occurs(dof0, v), E.And(inrange(v), in0(v))))
    E.forall("dof1/member-iff", [("v", None)], lambda v: E.Iff(E.occurs(dof1, v), E.And(inrange(v), E.Not(in0(v)))))
    E.forall("disjoint", [("v", None)], lambda v: E.Not(E.And(E.occurs(dof0, v), E.occurs(dof1, v))))
    E.forall("covering", [("v", tot)], lambda v: E.Or(E.occurs(dof0, v), E.occurs(dof1, v)))
    _increasing(E, "dof0/increasing", dof0)
    _increasing(E, "dof1/increasing", dof1)
    if nf > 1:
        j = nf - 1
        E.canary("last-field-without-offset", [("v", None)], lambda v: E.Iff(E.occurs(dof0, v), E.And(v >= 0, v < E.val(meshes[j].npoints * dims[j]), prescribed(j, v))), given=lambda v: v >= E.val(off[j]))
    E.canary("dof0-is-dof1", [("v", tot)], lambda v: E.Iff(E.occurs(dof0, v), E.occurs(dof1, v)))
    if not E.sym:
        E.check("native:count", len(dof0) + len(dof1) == tot, "len(dof0) + len(dof1) == number of unknowns")


PART = [
    dict(dims=(3,), on=(0,)),
    dict(dims=(3,), on=(0, 0, 0)),
    dict(dims=(2,), on=(0, 0), mdims=[2], pwc=False),
    dict(dims=(2, 1), on=(0, 1), mdims=[2, 2]),
    dict(dims=(3, 1), on=(0, 0)),  # second field without boundary: partition adds an empty Boundary
    dict(dims=(3, 1, 1), on=(0, 2, 0)),  # second field without boundary, third with
    dict(dims=(3, 1, 1), on=(2, 1, 0, 2), tier="thorough"),
    dict(dims=(1, 2, 3), on=(1, 2), mdims=[3, 3, 3]),
    dict(dims=(2, 1, 1), on=(0, 1, 2), mdims=[2, 2, 2], tier="thorough"),
]


@contract("C08", "partition", configs=PART, engine="E3")
def partition(vk, cfg):
    """partition: per-field prescribed sets shifted by the field offsets; dof0 / dof1 disjoint and covering"""
    vk.real(DT.partition)
    vk.real(DT.get_dof0)
    vk.real(DT.get_dof1)
    vk.real(felupe.Boundary.__init__)
    X.paired(vk, _partition, cfg)


# ------------------------------------------------------------------------------------------------
def _apply(E, cfg):
    dims, spec_b = cfg["dims"], cfg["bounds"]  # bounds: (field index, value kind)
    nf = len(dims)
    E.scope()
    meshes, fs = _fields(E, dims, values="sym")
    cont = F.container(E, fs)
    off, tot = F.spec_offsets(fs)
    old = [f.values for f in fs]
    bounds, valfun = {}, {}
    for k, (j, vk_) in enumerate(spec_b):
        name = f"b{k}"
        d = dims[j]
        if vk_ in ("float", "scalar"):
            b = _stub_boundary(E, name, fs[j], "dofs")
            b.value = 0.25 * (k + 1) if vk_ == "float" else E.real("val_" + name)
            valfun[name] = (lambda b: lambda x: E.val(b.value))(b)
        elif vk_ in ("array", "array2d"):
            # one value per prescribed dof, listed in the order of b.dof
            kept = list(range(d)) if vk_ == "array2d" else None
            b = _stub_boundary(E, name, fs[j], "rows" if vk_ == "array2d" else "dofs", kept=kept)
            L = E.length(b.dof)
            V = E.reals("V_" + name, (L,))
            b.value = V if vk_ == "array" else V.reshape(E.length(b.points), d)
            valfun[name] = (lambda b, V: lambda x: E.at(V, E.rank(b.dof, x)))(b, V)
        else:  # broadcast: one value per kept component, the same for every selected point
            kept = {"bcast": list(range(d)), "bcast-skip": [i for i in range(d) if i != 1] if d > 1 else [0], "bcast-row": list(range(d))}[vk_]
            b = _stub_boundary(E, name, fs[j], "rows", kept=kept)
            V = E.reals("V_" + name, (len(kept),))
            b.value = V.reshape(1, -1) if vk_ == "bcast-row" else V
            E.assume(E.Not(E.eq(E.val(E.length(b.dof)), len(kept))))  # else the array is taken as "one value per dof" (same result)
            ci = [kept.index(i) if i in kept else 0 for i in range(d)]
            valfun[name] = (lambda V, ci, d: lambda x: E.at(V, E.pick(ci, E.mod(x, d))))(V, ci, d)
        bounds[name] = b

    def u0(j, x):
        return E.at(old[j], E.div(x, dims[j]), E.mod(x, dims[j]))

    def expected(v):
        """value of the last boundary containing v, else the current field value"""
        ends = off[1:] + [tot]
        r = None
        for j in range(nf):
            loc = v - E.val(off[j])
            rj = u0(j, loc)
            for name, b in bounds.items():
                if b.field is fs[j]:
                    rj = E.If(E.occurs(b.dof, loc), valfun[name](loc), rj)
            r = rj if r is None else E.If(v >= E.val(off[j]), rj, r)
        return r

    with E.run(DT):
        full = DT.apply(cont, bounds)
    E.check("all/length", _shape_is(full, (tot,)), f"{full.shape}")
    E.forall("all/value", [("v", tot)], lambda v: E.eq(E.at(full, v), expected(v)))
    d0 = E.sortedset("dof0", tot)
    with E.run(DT):
        ext0 = DT.apply(cont, bounds, dof0=d0)
    E.check("ext0/length", _shape_is(ext0, (E.length(d0),)), f"{ext0.shape}")
    E.forall("ext0/value-at-the-position-of-its-unknown", [("k", E.length(d0))], lambda k: E.eq(E.at(ext0, k), expected(E.at(d0, k))))
    for j in range(nf):  # frame: the field values are not modified
        E.check(f"frame/field{j}-same-array", fs[j].values is old[j], "apply does not rebind field values")
    name_last = list(bounds)[-1]
    bl = bounds[name_last]
    jl = fs.index(bl.field)
    E.canary("last-boundary-ignored", [("x", E.length(bl.dof))], lambda x: E.eq(E.at(full, E.val(off[jl]) + E.at(bl.dof, x)), u0(jl, E.at(bl.dof, x))))
    if jl > 0:
        E.canary("boundary-applied-without-offset", [("x", E.length(bl.dof))], lambda x: E.eq(E.at(full, E.at(bl.dof, x)), valfun[name_last](E.at(bl.dof, x))))


APPLY = [
    dict(dims=(3,), bounds=((0, "float"),)),
    dict(dims=(3,), bounds=((0, "scalar"), (0, "scalar"), (0, "float"))),  # overlapping: the last one wins
    dict(dims=(3,), bounds=((0, "array"), (0, "scalar"))),
    dict(dims=(3,), bounds=((0, "scalar"), (0, "array2d"))),
    dict(dims=(3,), bounds=((0, "bcast"), (0, "bcast-skip"))),
    dict(dims=(2,), bounds=((0, "bcast-row"), (0, "array"))),
    dict(dims=(2, 1), bounds=((0, "scalar"), (1, "scalar"))),
    dict(dims=(2, 1), bounds=((1, "array"), (0, "bcast"), (1, "float"))),
    dict(dims=(3, 1, 1), bounds=((0, "scalar"), (2, "scalar"))),  # third field: cumulative offset
    dict(dims=(3, 1, 1), bounds=((2, "array"), (1, "scalar"), (0, "bcast-skip"), (2, "scalar")), tier="thorough"),
    dict(dims=(1, 2, 3), bounds=((2, "bcast-skip"), (1, "bcast-row"), (0, "array"))),
    dict(dims=(1, 3), bounds=((1, "array2d"), (0, "float")), tier="thorough"),
]


@contract("C08", "apply", configs=APPLY, engine="E3")
def apply(vk, cfg):
    """apply: ext0[k] = value of the last boundary containing dof0[k] (at the position of its unknown),
    else the current field value; scalar, per-dof array and broadcast values; mixed containers"""
    vk.real(DT.apply)
    X.paired(vk, _apply, cfg)
