"""C08 -- one global numbering of unknowns; boundary conditions partition it exactly.

Engine E3 (vk/idxmap.py).  The real felupe functions are executed on index-map arrays: `npoints`, `ncells`
of every field, the number of points without cells and the number of selected boundary dofs are symbolic,
connectivities / coordinates / field values / user masks are uninterpreted functions; points per cell,
dims and the number of fields are enumerated.  Obligations are forall-statements decided by z3.
Every contract is paired with native runs of the same real code (real numpy, small random instances, all
quantified indices enumerated): differential validation of the index-map model and native failing inputs.

Global numbering (stated from the property): unknown (field j, point p, component i) has the global index
G(j,p,i) = OFF_j + dim_j*p + i with OFF_j = sum_{j'<j} npoints_j'*dim_j' (fields laid out consecutively).

contracts
  indices      Field._indices_per_cell, Indices (cai, ai, dof, shape), Field.__getitem__
  container    FieldContainer.__init__ (fieldsizes, offsets), math.values, __add__/__sub__/__iadd__/__isub__
               (flat vector split at the offsets, list-of-arrays form), link
  boundary     Boundary.__init__/apply_mask on an opaque mesh with symbolic coordinates: fx/fy/fz values,
               callables, and/or, skip, point masks, dof masks; structure of .dof/.points
  dof0 / dof1  get_dof0, get_dof1 against the Boundary contract (stub boundaries = arbitrary sorted sets)
  partition    partition: 1..3 fields of different sizes, fields without boundaries
  apply        apply: scalar / array / broadcast values, overlapping boundaries (last one wins), dof0=None
  loadcase     symmetry, uniaxial, biaxial, shear: documented planes and components, symbolic positions
"""
import itertools
from types import SimpleNamespace

import numpy as np

import felupe
import felupe.dof._boundary as DB
import felupe.dof._loadcase as DL
import felupe.dof._tools as DT
import felupe.field._base as FB
import felupe.field._container as FC
import felupe.math._field as MF
from vk import e3fix as F
from vk import idxmap as X
from vk.core import contract

TRUSTED = list(X.TRUSTED) + [
    "C08: FieldContainer arithmetic with a flat vector whose length equals the number of fields is by design read as a list of per-field arrays (API ambiguity); the flat-vector contracts require total size != number of fields",
    "C08 lemma (composition): get_dof0/get_dof1/partition/apply are verified against the Boundary contract (b.dof strictly increasing subset of [0, npoints*dim), b.points the points with a selected component; for point-mask boundaries b.dof[j*m+l] = dim*b.points[j] + kept[l]); the real Boundary is verified to satisfy that contract",
]

NA = (1, 3, 4, 8)


def _shape_is(a, shape):
    return len(a.shape) == len(shape) and all(X.same_size(p, q) for p, q in zip(a.shape, shape))


# ------------------------------------------------------------------------------------------------
def _indices(E, cfg):
    na = cfg["na"]
    for dim in (1, 2, 3):
        E.scope()
        tag = f"dim={dim}"
        m = F.mesh(E, "m", na)
        f = F.field(E, m, dim, values="sym")
        nc, n = m.ncells, m.npoints
        cai, ai, dof = f.indices.cai, f.indices.ai, f.indices.dof
        E.check(f"{tag}/shapes", _shape_is(cai, (nc, na, dim)) and _shape_is(ai[0], (nc * na * dim,)) and _shape_is(ai[1], (nc * na * dim,)) and _shape_is(dof, (n, dim)) and X.same_size(f.indices.shape[0], n * dim) and f.indices.shape[1] == 1, "cai (ncells, na, dim), ai 2 x (ncells*na*dim,), dof (npoints, dim), shape (npoints*dim, 1)")
        rng = [("c", nc), ("a", na), ("i", dim)]
        E.forall(f"{tag}/cai", rng, lambda c, a, i: E.eq(E.at(cai, c, a, i), dim * E.at(m.cells, c, a) + i))
        E.forall(f"{tag}/ai-rows", rng, lambda c, a, i: E.eq(E.at(ai[0], (c * na + a) * dim + i), dim * E.at(m.cells, c, a) + i))
        E.forall(f"{tag}/ai-cols", rng, lambda c, a, i: E.eq(E.at(ai[1], (c * na + a) * dim + i), 0))
        E.forall(f"{tag}/dof", [("p", n), ("i", dim)], lambda p, i: E.eq(E.at(dof, p, i), dim * p + i))
        E.forall(f"{tag}/cai-is-dof-of-the-cell-point", rng, lambda c, a, i: E.eq(E.at(cai, c, a, i), E.at(dof, E.at(m.cells, c, a), i)))
        with E.run(FB):
            got = f[dof]
        E.check(f"{tag}/getitem-shape", _shape_is(got, (n, dim)), "field[dof] has the shape of dof")
        E.forall(f"{tag}/getitem", [("p", n), ("i", dim)], lambda p, i: E.eq(E.at(got, p, i), E.at(f.values, p, i)))
        if dim == 2:
            E.canary("cai-off-by-one", rng, lambda c, a, i: E.eq(E.at(cai, c, a, i), dim * E.at(m.cells, c, a) + i + 1))
            E.canary("cai-point-major", rng, lambda c, a, i: E.eq(E.at(cai, c, a, i), E.at(m.cells, c, a) + i * E.val(n)))
            E.canary("dof-transposed", [("p", n), ("i", dim)], lambda p, i: E.eq(E.at(dof, p, i), p + i * E.val(n)))


@contract("C08", "indices", configs=[dict(na=a) for a in NA], engine="E3")
def indices(vk, cfg):
    """Field._indices_per_cell / Indices: cai[c,a,i] = dim*cells[c,a]+i = dof[cells[c,a], i]"""
    vk.real(felupe.Field._indices_per_cell)
    vk.real(felupe.field._indices.Indices.__init__)
    vk.real(felupe.Field.__getitem__)
    X.paired(vk, _indices, cfg)


# ------------------------------------------------------------------------------------------------
def _fields(E, dims, nas=None, points=False, pwc=False, mdims=None, values="sym"):
    """fields of a mixed container: every field on its own opaque mesh (own npoints, own cells)"""
    nas = nas or [4] + [1] * (len(dims) - 1)
    nc = E.size("ncells", 1)
    meshes = [F.mesh(E, f"f{j}", na, ncells=nc, mdim=(mdims[j] if mdims else None), points=points, pwc=pwc) for j, na in enumerate(nas)]
    fs = [F.field(E, m, d, values=values, name=f"f{j}") for j, (m, d) in enumerate(zip(meshes, dims))]
    return meshes, fs


def _container(E, cfg):
    dims = cfg["dims"]
    nf = len(dims)
    E.scope()
    meshes, fs = _fields(E, dims)
    if cfg.get("layout") == "F":
        # value tables handed in by the user keep their memory order (Field.__init__ stores the array as it is):
        # column-major tables (np.asfortranarray, np.vstack([ux, uy]).T) denote the same (point, component) entries
        for f_ in fs:
            f_.values = E.fortran(f_.values)
    cont = F.container(E, fs)
    off, tot = F.spec_offsets(fs)
    ns = [m.npoints for m in meshes]
    E.check("fieldsizes", len(cont.fieldsizes) == nf and all(X.same_size(a, n * d) for a, n, d in zip(cont.fieldsizes, ns, dims)), f"{cont.fieldsizes}")
    E.check("offsets", len(cont.offsets) == nf - 1 and all(X.same_size(a, b) for a, b in zip(list(cont.offsets), off[1:])), f"{list(cont.offsets)} == cumulative field sizes {off[1:]}")
    # math.values: the flat vector lists field j, point p, component i at G(j,p,i)
    with E.run(MF):
        vec = felupe.math.values(cont)
    E.check("values/length", _shape_is(vec, (tot,)), f"{vec.shape} == ({tot},)")
    for j in range(nf):
        E.forall(f"values/field{j}", [("p", ns[j]), ("i", dims[j])], lambda p, i: E.eq(E.at(vec, E.val(off[j]) + dims[j] * p + i), E.at(fs[j].values, p, i)))
    E.canary("values-shifted", [("p", ns[-1]), ("i", dims[-1])], lambda p, i: E.eq(E.at(vec, E.val(off[-1]) + dims[-1] * p + i + 1), E.at(fs[-1].values, p, i)))
    # field update with a flat vector: split at the offsets
    E.assume(E.Not(E.eq(E.val(tot), nf)))
    old = [E.reals(f"old{j}", (ns[j], dims[j])) for j in range(nf)]
    dx = E.reals("dx", (tot,))
    ops = {"__add__": (lambda a, b: a + b, False), "__sub__": (lambda a, b: a - b, False), "__iadd__": (lambda a, b: a + b, True), "__isub__": (lambda a, b: a - b, True)}
    for opname, (op, inplace) in ops.items():
        for form in ("flat", "list"):
            for j in range(nf):
                fs[j].values = old[j].copy()
            arg = dx if form == "flat" else [dx[(off[j]) : (off[j] + ns[j] * dims[j])] for j in range(nf)]
            with E.run(FC, FB, _container=dict(len=E.len)):
                new = getattr(cont, opname)(arg)
            tag = f"{opname}/{form}"
            E.check(f"{tag}/result", isinstance(new, felupe.FieldContainer) and (new is cont) == inplace and len(new.fields) == nf, "returns a container (the same object iff in-place)")
            for j in range(nf):
                E.forall(f"{tag}/field{j}", [("p", ns[j]), ("i", dims[j])], lambda p, i: E.eq(E.at(new.fields[j].values, p, i), op(E.at(old[j], p, i), E.at(dx, E.val(off[j]) + dims[j] * p + i))))
                if not inplace:  # frame: the operand container keeps its values
                    E.forall(f"{tag}/frame/field{j}", [("p", ns[j]), ("i", dims[j])], lambda p, i: E.eq(E.at(cont.fields[j].values, p, i), E.at(old[j], p, i)))
            if opname == "__add__" and form == "flat" and nf > 1:
                E.canary("update-last-field-without-offset", [("p", ns[-1]), ("i", dims[-1])], lambda p, i: E.eq(E.at(new.fields[-1].values, p, i), E.at(old[-1], p, i) + E.at(dx, dims[-1] * p + i)))
            if opname == "__add__" and form == "flat" and nf == 1:
                E.canary("update-shifted", [("p", ns[0]), ("i", dims[0])], lambda p, i: E.eq(E.at(new.fields[0].values, p, i), E.at(old[0], p, i) + E.at(dx, dims[0] * p + i) + 1))
    # container creation by `&`: fields keep their order (consecutive layout)
    if nf > 1:
        with E.run(FC, FB):
            c2 = fs[0] & fs[1]
            c3 = c2 & (fs[2] if nf > 2 else None)
        E.check("and/order", c2.fields == [fs[0], fs[1]] and c3.fields == list(fs[:3]) and all(X.same_size(a, b) for a, b in zip(list(c3.offsets), off[1:])), "field & field & ... lists the fields in order")
    # link
    for j in range(nf):
        fs[j].values = old[j].copy()
    cont.link()
    E.check("link/all-to-first", all(f.values is fs[0].values for f in fs), "link() makes every field share the value array of the first field")
    other = F.container(E, [F.field(E, m, d, values="sym", name=f"o{j}") for j, (m, d) in enumerate(zip(meshes, dims))])
    cont.link(other)
    E.check("link/one-to-one", all(a.values is b.values for a, b in zip(cont.fields, other.fields)), "link(other) shares the value arrays field by field")


CONT = [dict(dims=d) for d in [(3,), (1,), (2, 1), (3, 1, 1), (2, 1, 1), (1, 3), (1, 2, 3)]] + [dict(dims=d, layout="F") for d in [(3,), (2, 1)]]


@contract("C08", "container", configs=CONT, engine="E3")
def container(vk, cfg):
    """FieldContainer: offsets, math.values, field update by a flat vector (split at the offsets)"""
    vk.real(felupe.FieldContainer.__init__)
    vk.real(felupe.math.values)
    for n in ("__add__", "__sub__", "__iadd__", "__isub__", "link"):
        vk.real(getattr(felupe.FieldContainer, n))
    vk.real(felupe.Field.__iadd__)
    vk.real(felupe.Field.__isub__)
    vk.real(felupe.Field.__and__)
    vk.real(felupe.FieldContainer.__and__)
    X.paired(vk, _container, cfg)


@contract("C08", "standin-selftest", engine="ground")
def standin_selftest(vk, cfg):
    """differential test of the E3 numpy stand-ins against real numpy (model validation, not counted)"""
    if not vk.sym:
        return
    n, bad = X.selftest(seed=0)
    vk.note(f"E3 stand-in differential test against real numpy: {n} cases, {len(bad)} mismatches")
    if bad:
        vk._record(f"{vk.prefix}/standin==numpy", "error", "differential", 0, "; ".join(bad[:5]))


# ------------------------------------------------------------------------------------------------
# Boundary on an opaque mesh: npoints symbolic, coordinates X(p, axis) uninterpreted reals
KINDS = ("default", "value", "callable")


def _boundary_case(E, tag, mdim, fdim, kinds, mode, skip, canary=False):
    E.scope()
    m = F.mesh(E, "m", 4, mdim=mdim, points=True)
    f = F.field(E, m, fdim)
    n = m.npoints
    kw, preds = {}, []
    for a, kind in enumerate(kinds):
        key = "fxyz"[0] + "xyz"[a]
        if kind == "value":
            c = E.real(f"c{a}")
            kw[key] = c
            if a < mdim:
                preds.append((lambda a, c: lambda p: E.eq(E.at(m.points, p, a), E.val(c)))(a, c))
        elif kind == "callable":
            arr = E.bools(f"PF{a}", (n,))
            kw[key] = (lambda arr: lambda x: arr)(arr)
            if a < mdim:
                preds.append((lambda arr: lambda p: E.at(arr, p))(arr))
    if skip is not None:
        kw["skip"] = skip
    # name=: "Name of the boundary" -- a label only: stored, and without influence on the selection (the obligations
    # below are the same with and without it); the default name is kept where none is given
    bname = "left edge / u_x" if mode == "and" or skip is not None else None
    if bname is not None:
        kw["name"] = bname
    with E.run(DB):
        b = felupe.Boundary(f, mode=mode, value=1.5, **kw)
    comb = E.Or if mode == "or" else E.And
    sel = lambda p: comb(*[q(p) for q in preds])  # noqa: E731  (empty or = False, empty and = True)
    skipped = [bool(skip[i]) if skip is not None else False for i in range(fdim)]
    _boundary_obligations(E, tag, b, f, n, fdim, lambda p, i: E.And(sel(p), E.Not(E.pick(skipped, i))), [i for i in range(fdim) if not skipped[i]], canary)
    E.check(f"{tag}/attributes", b.field is f and b.dim == fdim and b.value == 1.5 and b.mode == mode and b.name == (bname or "default"), "field, dim, name, value, mode stored")


def _boundary_obligations(E, tag, b, f, n, fdim, mask2d, kept, canary=False, uniform=True):
    """postcondition of Boundary (the contract the dof tools are verified against)"""
    dof, pts = b.dof, b.points
    E.check(f"{tag}/1d", len(dof.shape) == 1 and len(pts.shape) == 1, "dof and points are 1d")
    E.forall(f"{tag}/dof-selected-iff", [("p", n), ("i", fdim)], lambda p, i: E.Iff(E.occurs(dof, fdim * p + i), mask2d(p, i)))
    E.forall(f"{tag}/dof-in-range", [("x", None)], lambda x: E.Implies(E.occurs(dof, x), E.And(x >= 0, x < E.val(n * fdim))))
    E.forall(f"{tag}/dof-increasing", [("j", (1, E.length(dof)))], lambda j: E.at(dof, j - 1) < E.at(dof, j))
    anyc = lambda p: E.Or(*[mask2d(p, i) for i in range(fdim)])  # noqa: E731
    E.forall(f"{tag}/points-selected-iff", [("p", n)], lambda p: E.Iff(E.occurs(pts, p), anyc(p)))
    E.forall(f"{tag}/points-in-range", [("x", None)], lambda x: E.Implies(E.occurs(pts, x), E.And(x >= 0, x < E.val(n))))
    E.forall(f"{tag}/points-increasing", [("j", (1, E.length(pts)))], lambda j: E.at(pts, j - 1) < E.at(pts, j))
    if canary:
        E.canary(f"{tag}-selects-complement", [("p", n), ("i", fdim)], lambda p, i: E.Iff(E.occurs(dof, fdim * p + i), E.Not(mask2d(p, i))))
        E.canary(f"{tag}-points-complement", [("p", n)], lambda p: E.Iff(E.occurs(pts, p), E.Not(anyc(p))))
    if not uniform:
        return
    # row-uniform masks (point selection x kept components): dof[j*m + l] = dim*points[j] + kept[l].
    # Proved as: g(r) := dim*points[r div m] + kept[r mod m] is strictly increasing on [0, P*m) and has the
    # same image as dof  (=> dof == g and len(dof) == P*m by uniqueness of the increasing enumeration)
    mk = len(kept)
    P = E.length(pts)
    if mk == 0:
        E.check(f"{tag}/enumeration/empty", True, "all components skipped")
        E.forall(f"{tag}/enumeration/no-dof", [("x", None)], lambda x: E.Not(E.occurs(dof, x)))
        return
    g = lambda r: fdim * E.at(pts, E.div(r, mk)) + E.pick(kept, E.mod(r, mk))  # noqa: E731
    ci = lambda i: E.pick([kept.index(i) if i in kept else 0 for i in range(fdim)], i)  # noqa: E731
    E.forall(f"{tag}/enumeration/increasing", [("r", (1, P * mk))], lambda r: g(r - 1) < g(r))
    E.forall(f"{tag}/enumeration/into", [("r", P * mk)], lambda r: E.occurs(dof, g(r)))
    E.forall(f"{tag}/enumeration/onto", [("x", None)], lambda x: (lambda r: E.And(r >= 0, r < E.val(P * mk), E.eq(g(r), x)))(E.rank(pts, E.div(x, fdim)) * mk + ci(E.mod(x, fdim))), given=lambda x: E.occurs(dof, x))
    if not E.sym:
        d = np.asarray(dof)
        E.check(f"native:{tag}/enumeration", len(d) == P * mk and all(d[r] == g(r) for r in range(P * mk)), "dof[j*m+l] == dim*points[j] + kept[l] (conclusion of the enumeration lemma, native)")


def _boundary(E, cfg):
    mdim, fdim = cfg["mdim"], cfg["fdim"]
    part = cfg["part"]
    mid = (False, True, False)
    if part.startswith("predicates"):
        for kinds in itertools.product(KINDS, repeat=3):
            if mdim < 3 and kinds[2] == "callable":
                continue  # fz is ignored on a 2d mesh: default and value are enough to show it
            if mdim < 2 and kinds[1] == "callable":
                continue
            for mode in (part.split("-")[1],):
                for skip in (None, mid):
                    tag = f"fx={kinds[0]},fy={kinds[1]},fz={kinds[2]},{mode},skip={'none' if skip is None else ''.join(str(int(x)) for x in skip)}"
                    _boundary_case(E, tag, mdim, fdim, kinds, mode, skip, canary=(kinds == ("value", "callable", "default") and skip is None))
    elif part == "skip":
        for kinds, mode in ((("value", "default", "default"), "or"), (("callable", "value", "value"), "and")):
            for skip in itertools.product((False, True), repeat=3):
                for asint in (False, True):
                    sk = tuple(int(x) for x in skip) if asint else skip
                    tag = f"fx={kinds[0]},fy={kinds[1]},fz={kinds[2]},{mode},skip={''.join(str(int(x)) for x in skip)}{'i' if asint else ''}"
                    _boundary_case(E, tag, mdim, fdim, kinds, mode, sk)
    else:  # user masks
        for shape_kind in ("points", "points-column", "dofs", "dofs-flat"):
            for skip in [None] + [s for s in itertools.product((False, True), repeat=fdim)]:
                E.scope()
                tag = f"mask={shape_kind},skip={'none' if skip is None else ''.join(str(int(x)) for x in skip)}"
                m = F.mesh(E, "m", 4, mdim=mdim, points=True)
                f = F.field(E, m, fdim)
                n = m.npoints
                if shape_kind.startswith("points"):
                    msk = E.bools("MASK", (n,) if shape_kind == "points" else (n, 1))
                    pm = (lambda p: E.at(msk, p)) if shape_kind == "points" else (lambda p: E.at(msk, p, 0))
                    skipped = [bool(skip[i]) if skip is not None else False for i in range(fdim)]
                    mask2d = lambda p, i: E.And(pm(p), E.Not(E.pick(skipped, i)))  # noqa: E731
                    kept, uniform = [i for i in range(fdim) if not skipped[i]], True
                else:
                    msk = E.bools("MASK", (n, fdim) if shape_kind == "dofs" else (n * fdim,))
                    mask2d = (lambda p, i: E.at(msk, p, i)) if shape_kind == "dofs" else (lambda p, i: E.at(msk, fdim * p + i))
                    kept, uniform = list(range(fdim)), False
                    if fdim == 1:
                        # a (npoints, 1) mask of a scalar field is a point mask: skip applies
                        skipped = [bool(skip[0]) if skip is not None else False]
                        mask2d = (lambda mm: lambda p, i: E.And(mm(p, i), not skipped[0]))(mask2d)
                        kept, uniform = [i for i in range(fdim) if not skipped[i]], True
                kw = {} if skip is None else {"skip": skip}
                with E.run(DB):
                    b = felupe.Boundary(f, fx=0.0, fy=lambda y: None, mask=msk, **kw)  # fx / fy are ignored if a mask is given
                    b.update(2.5)
                _boundary_obligations(E, tag, b, f, n, fdim, mask2d, kept, uniform=uniform, canary=(skip is None and shape_kind == "dofs" and fdim > 1))
                E.check(f"{tag}/update", b.value == 2.5, "update() replaces the value")
                if not uniform:
                    E.check(f"{tag}/skip-cleared", b.skip is None, "dof-based masks carry no skip")
                # apply_mask on an existing boundary replaces the selection
                msk2 = E.bools("MASK2", (n,))
                if uniform and skip is None:
                    with E.run(DB):
                        b.apply_mask(msk2)
                    _boundary_obligations(E, tag + "/re-apply", b, f, n, fdim, lambda p, i: E.at(msk2, p), list(range(fdim)))


BND = []
for mdim, fdim in [(3, 3), (2, 2), (3, 1), (2, 3), (1, 1), (1, 2)]:
    light = (mdim, fdim) in ((3, 3), (2, 2), (3, 1))
    for part in ("predicates-or", "predicates-and", "skip", "masks"):
        BND.append(dict(mdim=mdim, fdim=fdim, part=part, **({} if light else {"tier": "thorough"})))


@contract("C08", "boundary", configs=BND, engine="E3")
def boundary(vk, cfg):
    """Boundary.__init__ / apply_mask / update: selected dofs == (combined coordinate predicates) x (components
    not skipped), for an arbitrary number of points with arbitrary real coordinates"""
    vk.real(felupe.Boundary.__init__)
    vk.real(felupe.Boundary.apply_mask)
    vk.real(felupe.Boundary.update)
    X.paired(vk, _boundary, cfg)


# ------------------------------------------------------------------------------------------------
# dof tools against the Boundary contract: boundaries are stubs honouring the postcondition proved above
def _stub_boundary(E, name, f, kind="dofs", kept=None):
    """kind 'dofs': arbitrary strictly increasing dof set (dof-based mask); 'rows': arbitrary point set x
    kept components with dof[j*m+l] = dim*points[j] + kept[l] (point-based mask with skip)"""
    n, d = f.region.mesh.npoints, f.dim
    b = SimpleNamespace(field=f, dim=d, name=name, value=0.0, kind=kind)
    if kind == "dofs":
        b.dof = E.sortedset("dof_" + name, n * d)
        b.points = E.derived_set("pts_" + name, lambda p: E.Or(*[E.occurs(b.dof, d * p + i) for i in range(d)]), n)
        b.kept = list(range(d))
    else:
        b.kept = list(range(d)) if kept is None else list(kept)
        mk = len(b.kept)
        b.points = E.sortedset("pts_" + name, n)
        P = E.length(b.points)
        b.dof = E.derived_set("dof_" + name, lambda x: E.And(E.occurs(b.points, E.div(x, d)), E.Or(*[E.eq(E.mod(x, d), i) for i in b.kept])), n * d, length=P * mk)
        if mk:
            E.assume_forall([("r", P * mk)], lambda r: E.eq(E.at(b.dof, r), d * E.at(b.points, E.div(r, mk)) + E.pick(b.kept, E.mod(r, mk))))
    return b


def _increasing(E, tag, a):
    E.forall(tag, [("j", (1, E.length(a)))], lambda j: E.at(a, j - 1) < E.at(a, j))


def _dof01(E, cfg):
    fdim, mdim, nb, pwc = cfg["fdim"], cfg["mdim"], cfg["nb"], cfg["pwc"]
    E.scope()
    m = F.mesh(E, "m", 4, mdim=mdim, pwc=pwc)
    f = F.field(E, m, fdim)
    n = m.npoints
    bounds = {f"b{k}": _stub_boundary(E, f"b{k}", f, "rows" if k == 1 else "dofs", kept=[0] if k == 1 else None) for k in range(nb)}
    with E.run(DT):
        dof0 = DT.get_dof0(f, bounds)
    inb = lambda v: E.Or(*[E.occurs(b.dof, v) for b in bounds.values()])  # noqa: E731
    missing = lambda v: E.And(v >= 0, v < E.val(n * fdim), E.occurs(m.points_without_cells, E.div(v, fdim)))  # noqa: E731
    E.check("dof0/1d", len(dof0.shape) == 1, "")
    E.forall("dof0/member-iff", [("v", None)], lambda v: E.Iff(E.occurs(dof0, v), E.Or(inb(v), missing(v))))
    _increasing(E, "dof0/increasing", dof0)
    E.canary("dof0-misses-points-without-cells" if pwc else "dof0-complement", [("v", None)], lambda v: E.Iff(E.occurs(dof0, v), inb(v) if pwc else E.Not(inb(v))))
    if pwc:  # the unknowns of a point without cells are dim*p + i with the *field* dimension
        E.forall("dof0/points-without-cells", [("j", E.length(m.points_without_cells)), ("i", fdim)], lambda j, i: E.occurs(dof0, fdim * E.at(m.points_without_cells, j) + i))
    # get_dof1 for an arbitrary prescribed set (any result of get_dof0)
    d0 = E.sortedset("d0", n * fdim)
    with E.run(DT):
        dof1 = DT.get_dof1(f, bounds, dof0=d0)
    E.forall("dof1/member-iff", [("v", None)], lambda v: E.Iff(E.occurs(dof1, v), E.And(v >= 0, v < E.val(n * fdim), E.Not(E.occurs(d0, v)))))
    _increasing(E, "dof1/increasing", dof1)
    E.canary("dof1-is-dof0", [("v", None)], lambda v: E.Iff(E.occurs(dof1, v), E.occurs(d0, v)))
    if not E.sym:
        E.check("native:dof1/count", len(dof1) + len(d0) == n * fdim, "len(dof0) + len(dof1) == number of unknowns")


D01 = [dict(fdim=fd, mdim=md, nb=nb, pwc=pw) for (fd, md) in [(3, 3), (1, 3), (2, 2), (3, 2), (2, 3), (1, 1)] for nb in (1, 2, 3) for pw in (False, True)]
for c in D01:
    if c["nb"] == 2 and (c["fdim"], c["mdim"]) not in ((1, 3), (3, 2)):
        c["tier"] = "thorough"


@contract("C08", "dof0-dof1", configs=D01, engine="E3")
def dof01(vk, cfg):
    """get_dof0 = sorted(boundary dofs U dim*p+i of points without cells), get_dof1 = complement"""
    vk.real(DT.get_dof0)
    vk.real(DT.get_dof1)
    X.paired(vk, _dof01, cfg)


# ------------------------------------------------------------------------------------------------
def _locate(E, off, tot, v, per_field):
    """spec helper: per_field(j, local index) of the field whose index range contains v (0 <= v < tot)"""

    def chain(j):
        if j == 0:
            return per_field(0, v)
        return E.If(v >= E.val(off[j]), lambda: per_field(j, v - E.val(off[j])), lambda: chain(j - 1))

    return chain(len(off) - 1)


def _partition(E, cfg):
    dims, on = cfg["dims"], cfg["on"]  # on: field index of every boundary
    nf = len(dims)
    E.scope()
    meshes, fs = _fields(E, dims, points=True, pwc=cfg.get("pwc", True), mdims=cfg.get("mdims", [3] * nf), values=None)
    cont = F.container(E, fs)
    off, tot = F.spec_offsets(fs)
    bounds = {f"b{k}": _stub_boundary(E, f"b{k}", fs[j], "rows" if k % 2 else "dofs", kept=[dims[j] - 1] if k % 2 else None) for k, j in enumerate(on)}
    with E.run(DT, DB):
        dof0, dof1 = DT.partition(cont, bounds)
    def prescribed(j, x):
        m = meshes[j]
        return E.Or(*[E.occurs(b.dof, x) for b in bounds.values() if b.field is fs[j]], E.occurs(m.points_without_cells, E.div(x, dims[j])))

    in0 = lambda v: _locate(E, off, tot, v, prescribed)  # noqa: E731
    inrange = lambda v: E.And(v >= 0, v < E.val(tot))  # noqa: E731
    E.forall("dof0/member-iff", [("v", tot)], lambda v: E.Iff(E.occurs(dof0, v), in0(v)))
    E.forall("dof1/member-iff", [("v", tot)], lambda v: E.Iff(E.occurs(dof1, v), E.Not(in0(v))))
    E.forall("in-range", [("v", None)], lambda v: E.Implies(E.Or(E.occurs(dof0, v), E.occurs(dof1, v)), inrange(v)))
    E.forall("disjoint", [("v", None)], lambda v: E.Not(E.And(E.occurs(dof0, v), E.occurs(dof1, v))))
    E.forall("covering", [("v", tot)], lambda v: E.Or(E.occurs(dof0, v), E.occurs(dof1, v)))
    _increasing(E, "dof0/increasing", dof0)
    _increasing(E, "dof1/increasing", dof1)
    if nf > 1:
        j = nf - 1
        E.canary("last-field-without-offset", [("v", None)], lambda v: E.Iff(E.occurs(dof0, v), E.And(v >= 0, v < E.val(meshes[j].npoints * dims[j]), prescribed(j, v))), given=lambda v: v >= E.val(off[j]))
    E.canary("dof0-is-dof1", [("v", tot)], lambda v: E.Iff(E.occurs(dof0, v), E.occurs(dof1, v)))
    if not E.sym:
        E.check("native:count", len(dof0) + len(dof1) == tot, "len(dof0) + len(dof1) == number of unknowns")


PART = [
    dict(dims=(3,), on=(0,)),
    dict(dims=(3,), on=(0, 0, 0)),
    dict(dims=(2,), on=(0, 0), mdims=[2], pwc=False),
    dict(dims=(2, 1), on=(0, 1), mdims=[2, 2]),
    dict(dims=(3, 1), on=(0, 0)),  # second field without boundary: partition adds an empty Boundary
    dict(dims=(3, 1, 1), on=(0, 2, 0)),  # second field without boundary, third with
    dict(dims=(3, 1, 1), on=(2, 1, 0, 2), tier="thorough"),
    dict(dims=(1, 2, 3), on=(1, 2), mdims=[3, 3, 3]),
    dict(dims=(2, 1, 1), on=(0, 1, 2), mdims=[2, 2, 2], tier="thorough"),
]


@contract("C08", "partition", configs=PART, engine="E3")
def partition(vk, cfg):
    """partition: per-field prescribed sets shifted by the field offsets; dof0 / dof1 disjoint and covering"""
    vk.real(DT.partition)
    vk.real(DT.get_dof0)
    vk.real(DT.get_dof1)
    vk.real(felupe.Boundary.__init__)
    X.paired(vk, _partition, cfg)


# ------------------------------------------------------------------------------------------------
def _apply(E, cfg):
    dims, spec_b = cfg["dims"], cfg["bounds"]  # bounds: (field index, value kind)
    nf = len(dims)
    E.scope()
    meshes, fs = _fields(E, dims, values="sym")
    cont = F.container(E, fs)
    off, tot = F.spec_offsets(fs)
    old = [f.values for f in fs]
    bounds, valfun = {}, {}
    for k, (j, vk_) in enumerate(spec_b):
        name = f"b{k}"
        d = dims[j]
        if vk_ in ("float", "scalar"):
            b = _stub_boundary(E, name, fs[j], "dofs")
            b.value = 0.25 * (k + 1) if vk_ == "float" else E.real("val_" + name)
            valfun[name] = (lambda b: lambda x: E.val(b.value))(b)
        elif vk_ in ("array", "array2d", "array2dF"):
            # one value per prescribed dof, listed in the order of b.dof (array2dF: the (points, components) table is
            # stored column-major, e.g. (H @ X.T).T -- the same values per (point, component))
            kept = list(range(d)) if vk_ != "array" else None
            b = _stub_boundary(E, name, fs[j], "rows" if vk_ != "array" else "dofs", kept=kept)
            L = E.length(b.dof)
            V = E.reals("V_" + name, (L,))
            b.value = V if vk_ == "array" else V.reshape(E.length(b.points), d)
            if vk_ == "array2dF":
                b.value = E.fortran(b.value)
            valfun[name] = (lambda b, V: lambda x: E.at(V, E.rank(b.dof, x)))(b, V)
        else:  # broadcast: one value per kept component, the same for every selected point
            kept = {"bcast": list(range(d)), "bcast-skip": [i for i in range(d) if i != 1] if d > 1 else [0], "bcast-row": list(range(d))}[vk_]
            b = _stub_boundary(E, name, fs[j], "rows", kept=kept)
            V = E.reals("V_" + name, (len(kept),))
            b.value = V.reshape(1, -1) if vk_ == "bcast-row" else V
            E.assume(E.Not(E.eq(E.val(E.length(b.dof)), len(kept))))  # else the array is taken as "one value per dof" (same result)
            ci = [kept.index(i) if i in kept else 0 for i in range(d)]
            valfun[name] = (lambda V, ci, d: lambda x: E.at(V, E.pick(ci, E.mod(x, d))))(V, ci, d)
        bounds[name] = b

    def u0(j, x):
        return E.at(old[j], E.div(x, dims[j]), E.mod(x, dims[j]))

    def expected(v):
        """value of the last boundary containing v, else the current field value"""

        def in_field(j):
            loc = v - E.val(off[j])
            r = lambda: u0(j, loc)  # noqa: E731
            for name, b in bounds.items():
                if b.field is fs[j]:
                    r = (lambda b, name, prev: lambda: E.If(E.occurs(b.dof, loc), lambda: valfun[name](loc), prev))(b, name, r)
            return r()

        def chain(j):
            if j == 0:
                return in_field(0)
            return E.If(v >= E.val(off[j]), lambda: in_field(j), lambda: chain(j - 1))

        return chain(nf - 1)

    with E.run(DT):
        full = DT.apply(cont, bounds)
    E.check("all/length", _shape_is(full, (tot,)), f"{full.shape}")
    E.forall("all/value", [("v", tot)], lambda v: E.eq(E.at(full, v), expected(v)))
    d0 = E.sortedset("dof0", tot)
    with E.run(DT):
        ext0 = DT.apply(cont, bounds, dof0=d0)
    E.check("ext0/length", _shape_is(ext0, (E.length(d0),)), f"{ext0.shape}")
    E.forall("ext0/value-at-the-position-of-its-unknown", [("k", E.length(d0))], lambda k: E.eq(E.at(ext0, k), expected(E.at(d0, k))))
    for j in range(nf):  # frame: the field values are not modified
        E.check(f"frame/field{j}-same-array", fs[j].values is old[j], "apply does not rebind field values")
    name_last = list(bounds)[-1]
    bl = bounds[name_last]
    jl = fs.index(bl.field)
    E.canary("last-boundary-ignored", [("x", E.length(bl.dof))], lambda x: E.eq(E.at(full, E.val(off[jl]) + E.at(bl.dof, x)), u0(jl, E.at(bl.dof, x))))
    if jl > 0:
        E.canary("boundary-applied-without-offset", [("x", E.length(bl.dof))], lambda x: E.eq(E.at(full, E.at(bl.dof, x)), valfun[name_last](E.at(bl.dof, x))))


APPLY = [
    dict(dims=(3,), bounds=((0, "float"),)),
    dict(dims=(3,), bounds=((0, "scalar"), (0, "scalar"), (0, "float"))),  # overlapping: the last one wins
    dict(dims=(3,), bounds=((0, "array"), (0, "scalar"))),
    dict(dims=(3,), bounds=((0, "scalar"), (0, "array2d"))),
    dict(dims=(3,), bounds=((0, "array2dF"),)),
    dict(dims=(2, 1), bounds=((0, "array2dF"), (1, "float"))),
    dict(dims=(3,), bounds=((0, "bcast"), (0, "bcast-skip"))),
    dict(dims=(2,), bounds=((0, "bcast-row"), (0, "array"))),
    dict(dims=(2, 1), bounds=((0, "scalar"), (1, "scalar"))),
    dict(dims=(2, 1), bounds=((1, "array"), (0, "bcast"), (1, "float"))),
    dict(dims=(3, 1, 1), bounds=((0, "scalar"), (2, "scalar"))),  # third field: cumulative offset
    dict(dims=(3, 1, 1), bounds=((2, "array"), (1, "scalar"), (0, "bcast-skip"), (2, "scalar")), tier="thorough"),
    dict(dims=(1, 2, 3), bounds=((2, "bcast-skip"), (1, "bcast-row"), (0, "array"))),
    dict(dims=(1, 3), bounds=((1, "array2d"), (0, "float")), tier="thorough"),
]


@contract("C08", "apply", configs=APPLY, engine="E3")
def apply(vk, cfg):
    """apply: ext0[k] = value of the last boundary containing dof0[k] (at the position of its unknown),
    else the current field value; scalar, per-dof array and broadcast values; mixed containers"""
    vk.real(DT.apply)
    X.paired(vk, _apply, cfg)


# ------------------------------------------------------------------------------------------------
# load cases: documented planes and components, for arbitrary meshes and symbolic face positions / moves
def _lc_setup(E, mdim, extra=()):
    dims = (mdim,) + tuple(extra)
    nf = len(dims)
    meshes, fs = _fields(E, dims, points=True, pwc=True, mdims=[mdim] * nf, values="sym")
    cont = F.container(E, fs)
    return meshes, fs, cont


def _lc_check(E, tag, res, expected, meshes, fs, cont):
    """expected: ordered list of (label, plane predicate p -> bool, set of components, value)"""
    bounds, loadcase = res
    m, f = meshes[0], fs[0]
    n, d = m.npoints, f.dim
    labels = [e[0] for e in expected]
    E.check(f"{tag}/labels", list(bounds.keys()) == labels, f"boundaries {list(bounds.keys())} == documented {labels}")
    if list(bounds.keys()) != labels:
        return
    for label, plane, comps, value in expected:
        b = bounds[label]
        E.forall(f"{tag}/{label}/dofs", [("p", n), ("i", d)], (lambda b, plane, comps: lambda p, i: E.Iff(E.occurs(b.dof, d * p + i), E.And(plane(p), E.Or(*[E.eq(i, c) for c in comps]))))(b, plane, comps))
        E.forall(f"{tag}/{label}/value", [], (lambda b, value: lambda: E.eq(E.val(b.value), E.val(value)))(b, value))
        E.check(f"{tag}/{label}/field", b.field is f, "boundary on the first field")
    off, tot = F.spec_offsets(fs)
    dof0, dof1, ext0 = loadcase["dof0"], loadcase["dof1"], loadcase["ext0"]

    def constrained(x):  # local dof of the first field
        p, i = E.div(x, d), E.mod(x, d)
        return E.Or(*[E.And(plane(p), E.Or(*[E.eq(i, c) for c in comps])) for _, plane, comps, _ in expected])

    def in0(j, x):
        free = E.occurs(meshes[j].points_without_cells, E.div(x, fs[j].dim))
        return E.Or(constrained(x), free) if j == 0 else free

    E.forall(f"{tag}/dof0", [("v", tot)], lambda v: E.Iff(E.occurs(dof0, v), _locate(E, off, tot, v, in0)))
    E.forall(f"{tag}/dof1", [("v", tot)], lambda v: E.Iff(E.occurs(dof1, v), E.Not(_locate(E, off, tot, v, in0))))
    E.forall(f"{tag}/dof-in-range", [("v", None)], lambda v: E.Implies(E.Or(E.occurs(dof0, v), E.occurs(dof1, v)), E.And(v >= 0, v < E.val(tot))))

    def ext(v):
        def first(x):
            p, i = E.div(x, d), E.mod(x, d)
            r = lambda: E.at(f.values, p, i)  # noqa: E731
            for _, plane, comps, value in expected:
                r = (lambda plane, comps, value, prev: lambda: E.If(E.And(plane(p), E.Or(*[E.eq(i, c) for c in comps])), lambda: E.val(value), prev))(plane, comps, value, r)
            return r()

        def chain(j):
            if j == 0:
                return first(v)
            loc = v - E.val(off[j])
            return E.If(v >= E.val(off[j]), lambda: E.at(fs[j].values, E.div(loc, fs[j].dim), E.mod(loc, fs[j].dim)), lambda: chain(j - 1))

        return chain(len(fs) - 1)

    E.check(f"{tag}/ext0-length", _shape_is(ext0, (E.length(dof0),)), "one prescribed value per prescribed dof")
    E.forall(f"{tag}/ext0", [("k", E.length(dof0))], lambda k: E.eq(E.at(ext0, k), ext(E.at(dof0, k))))


def _planes(E, m):
    X_ = m.points
    n = m.npoints
    at = lambda a, c: (lambda p: E.eq(E.at(X_, p, a), E.val(c)))  # noqa: E731
    hi = lambda a: (lambda p: E.all_in(n, lambda q: E.at(X_, q, a) <= E.at(X_, p, a)))  # noqa: E731  outermost right position
    lo = lambda a: (lambda p: E.all_in(n, lambda q: E.at(X_, q, a) >= E.at(X_, p, a)))  # noqa: E731  outermost left position
    return at, hi, lo


def _sym3(sym):
    return tuple(sym) if hasattr(sym, "__len__") else (sym, sym, sym)


def _symmetry_expected(E, m, d, axes, centers):
    at, _, _ = _planes(E, m)
    return [("sym" + "xyz"[a], at(a, centers[a]), {a}, 0.0) for a in range(d) if axes[a]]


def _loadcase(E, cfg):
    mdim, case, extra = cfg["mdim"], cfg["case"], cfg.get("extra", ())
    d = mdim
    mods = (DL, DT, DB)
    others = lambda a: {i for i in range(d) if i != a}  # noqa: E731
    SYMS = [True, False, (True, False, True), (False, True, False)] if not cfg.get("light") else [True, False, (False, True, True)]
    if case == "symmetry":
        for axes in itertools.product((False, True), repeat=3):
            for given in (False, True):
                E.scope()
                meshes, fs, cont = _lc_setup(E, mdim, extra)
                cs = [E.real(f"center{a}") for a in range(3)] if given else [0.0, 0.0, 0.0]
                kw = dict(x=cs[0], y=cs[1], z=cs[2]) if given else {}
                with E.run(*mods):
                    bounds = DL.symmetry(fs[0], axes=axes, **kw)
                tag = f"symmetry[axes={''.join(str(int(a)) for a in axes)},{'given' if given else 'default'}-centers]"
                exp = _symmetry_expected(E, meshes[0], d, axes, cs)
                n = meshes[0].npoints
                E.check(f"{tag}/labels", list(bounds.keys()) == [e[0] for e in exp], f"{list(bounds.keys())}")
                for label, plane, comps, value in exp:
                    b = bounds[label]
                    E.forall(f"{tag}/{label}/dofs", [("p", n), ("i", d)], (lambda b, plane, comps: lambda p, i: E.Iff(E.occurs(b.dof, d * p + i), E.And(plane(p), E.Or(*[E.eq(i, c) for c in comps]))))(b, plane, comps))
                    E.forall(f"{tag}/{label}/value", [], (lambda b: lambda: E.eq(E.val(b.value), 0.0))(b))
                if axes == (True, True, True) and not given:
                    b = bounds["symx"]
                    E.canary("symmetry-fixes-the-in-plane-components", [("p", n), ("i", d)], lambda p, i: E.Iff(E.occurs(b.dof, d * p + i), E.And(E.eq(E.at(meshes[0].points, p, 0), 0.0), E.Not(E.eq(i, 0)))))
                # extension of a given dict
                pre = felupe.dof.BoundaryDict() if hasattr(felupe.dof, "BoundaryDict") else {}
                pre["user"] = _stub_boundary(E, "user", fs[0])
                with E.run(*mods):
                    out = DL.symmetry(fs[0], axes=axes, bounds=pre, **kw)
                E.check(f"{tag}/extends-given-dict", out is pre and list(out.keys()) == ["user"] + [e[0] for e in exp], f"{list(out.keys())}")
        return
    if case == "uniaxial":
        for axis, clamped, sym, lr in itertools.product(range(mdim), (False, True), SYMS, ("default", "given")):
            E.scope()
            meshes, fs, cont = _lc_setup(E, mdim, extra)
            m = meshes[0]
            at, hi, lo = _planes(E, m)
            move = E.real("move")
            kw = {}
            if lr == "given":
                kw = dict(left=E.real("left"), right=E.real("right"))
            with E.run(*mods):
                res = DL.uniaxial(cont, move=move, axis=axis, clamped=clamped, sym=sym, **kw)
            s3 = _sym3(sym)
            left = at(axis, kw["left"]) if kw else lo(axis)
            right = at(axis, kw["right"]) if kw else hi(axis)
            exp = _symmetry_expected(E, m, d, s3, [0.0] * 3)
            if not s3[axis]:
                exp.append(("left-x", left, {axis}, 0.0))
            if clamped:
                exp.append(("right", right, others(axis), 0.0))
                if not s3[axis]:
                    exp.append(("left-yz", left, others(axis), 0.0))
            exp.append(("move", right, {axis}, move))
            tag = f"uniaxial[axis={axis},clamped={int(clamped)},sym={sym},faces={lr}]".replace(" ", "")
            _lc_check(E, tag, res, exp, meshes, fs, cont)
            if axis == mdim - 1 and clamped and sym is False and lr == "default":
                bm = res[0]["move"]
                E.canary("uniaxial-move-on-left-face", [("p", m.npoints), ("i", d)], lambda p, i: E.Iff(E.occurs(bm.dof, d * p + i), E.And(left(p), E.eq(i, axis))))
        return
    if case == "biaxial":
        pairs = [tuple(cfg["axes"])]
        for axes, clampes, sym, lr in itertools.product(pairs, [(False, False), (True, False), (False, True)] + ([(True, True)] if not cfg.get("light") else []), SYMS, ("default", "given", "mixed")):
            E.scope()
            meshes, fs, cont = _lc_setup(E, mdim, extra)
            m = meshes[0]
            at, hi, lo = _planes(E, m)
            moves = (E.real("move0"), E.real("move1"))
            lefts = [None, None] if lr == "default" else [E.real("left0"), None if lr == "mixed" else E.real("left1")]
            rights = [None, None] if lr == "default" else [None if lr == "mixed" else E.real("right0"), E.real("right1")]
            with E.run(*mods):
                res = DL.biaxial(cont, lefts=tuple(lefts), rights=tuple(rights), moves=moves, axes=axes, clampes=clampes, sym=sym)
            s3 = _sym3(sym)
            L = [at(ax, lefts[k]) if lefts[k] is not None else lo(ax) for k, ax in enumerate(axes)]
            R = [at(ax, rights[k]) if rights[k] is not None else hi(ax) for k, ax in enumerate(axes)]
            exp = _symmetry_expected(E, m, d, s3, [0.0] * 3)
            for k, ax in enumerate(axes):
                if not s3[ax]:
                    exp.append((f"move-left-{ax}", L[k], {ax}, -moves[k] if E.sym else -moves[k]))
            for k, ax in enumerate(axes):
                if clampes[k]:
                    exp.append((f"right-{ax}", R[k], others(ax), 0.0))
                    if not s3[ax]:
                        exp.append((f"left-{ax}", L[k], others(ax), 0.0))
                exp.append((f"move-right-{ax}", R[k], {ax}, moves[k]))
            tag = f"biaxial[axes={axes},clampes={tuple(int(c) for c in clampes)},sym={sym},faces={lr}]".replace(" ", "")
            _lc_check(E, tag, res, exp, meshes, fs, cont)
            if axes == (1, 0) and sym is False and lr == "default" and clampes == (False, False):
                bm = res[0]["move-left-1"]
                E.canary("biaxial-default-left-face-from-the-other-column", [("p", m.npoints), ("i", d)], lambda p, i: E.Iff(E.occurs(bm.dof, d * p + i), E.And(E.all_in(m.npoints, lambda q: E.at(m.points, q, 0) >= E.at(m.points, p, 1)), E.all_in(m.npoints, lambda q: E.Not(E.eq(E.at(m.points, q, 0), E.at(m.points, p, 1))) if False else True), E.eq(i, 1))))
        return
    # shear
    pairs = [(a, b) for a in range(mdim) for b in range(mdim) if a != b]
    for axes, sym, bt in itertools.product(pairs, (True, False), ("default", "given")):
        E.scope()
        meshes, fs, cont = _lc_setup(E, mdim, extra)
        m = meshes[0]
        at, hi, lo = _planes(E, m)
        moves = (E.real("shear"), E.real("compression_bottom"), E.real("compression_top"))
        kw = dict(bottom=E.real("bottom"), top=E.real("top")) if bt == "given" else {}
        with E.run(*mods):
            res = DL.shear(cont, moves=moves, axes=axes, sym=sym, **kw)
        a0, a1 = axes
        bottom = at(a1, kw["bottom"]) if kw else lo(a1)
        top = at(a1, kw["top"]) if kw else hi(a1)
        thick = [t for t in range(d) if t not in axes]
        exp = _symmetry_expected(E, m, d, [t in thick for t in range(3)], [0.0] * 3) if sym else []
        exp += [
            ("bottom", bottom, others(a1), 0.0),
            ("top", top, set(thick), 0.0),
            ("compression_bottom", bottom, {a1}, moves[1]),
            ("compression_top", top, {a1}, moves[2]),
            ("move", top, {a0}, moves[0]),
        ]
        tag = f"shear[axes={axes},sym={int(sym)},faces={bt}]".replace(" ", "")
        _lc_check(E, tag, res, exp, meshes, fs, cont)
        if axes == (0, 1) and sym and bt == "default":
            bm = res[0]["move"]
            E.canary("shear-applied-on-the-bottom-face", [("p", m.npoints), ("i", d)], lambda p, i: E.Iff(E.occurs(bm.dof, d * p + i), E.And(bottom(p), E.eq(i, a0))))


LC = []
for case in ("symmetry", "uniaxial", "biaxial", "shear"):
    for mdim in (3, 2):
        variants = [{}]
        if case == "biaxial":  # one configuration per pair of loading axes
            variants = [dict(axes=(a, b)) for a in range(mdim) for b in range(mdim) if a != b]
        for v in variants:
            quick = case != "biaxial" or v["axes"] in ((0, 1), (1, 0), (1, 2), (2, 0))
            if quick:
                LC.append(dict(case=case, mdim=mdim, light=True, **v))
            LC.append(dict(case=case, mdim=mdim, tier="thorough", **v))
    if case != "symmetry":
        v = dict(axes=(1, 0)) if case == "biaxial" else {}
        LC.append(dict(case=case, mdim=3, extra=(1, 1), light=True, tier="thorough", **v))
        LC.append(dict(case=case, mdim=2, extra=(1,), light=True, **v))


@contract("C08", "loadcase", configs=LC, engine="E3")
def loadcase(vk, cfg):
    """symmetry / uniaxial / biaxial / shear: the returned boundaries select exactly the documented planes
    (given positions or the outermost mesh coordinates) and components, with the documented values; the
    returned dof0 / dof1 / ext0 are the partition and prescribed values of exactly these constraints"""
    for fn in (DL.symmetry, DL.uniaxial, DL.biaxial, DL.shear):
        vk.real(fn)
    vk.real(felupe.Boundary.__init__)
    vk.real(DT.partition)
    vk.real(DT.apply)
    X.paired(vk, _loadcase, cfg)


# ------------------------------------------------------------------------------------------------
# bounded stand-in (labelled, never counted): the same clauses end to end on real felupe meshes / regions /
# fields in float arithmetic (np.isclose with its real tolerance, real Mesh.points_without_cells)
def _grid_meshes():
    out = []
    a3, b3 = (0.0, -1.0, 0.5), (2.0, 1.5, 3.5)  # non-uniform, axis-distinct bounds
    for n in itertools.product((2, 3), repeat=3):
        out.append(("cube" + "x".join(map(str, n)), felupe.Cube(a=a3, b=b3, n=n), felupe.RegionHexahedron, 3))
    for n in itertools.product((2, 3), repeat=2):
        out.append(("rect" + "x".join(map(str, n)), felupe.Rectangle(a=a3[:2], b=b3[:2], n=n), felupe.RegionQuad, 2))
    # a mesh with a point that belongs to no cell
    m = felupe.Cube(a=a3, b=b3, n=(2, 3, 2))
    m2 = felupe.Mesh(np.vstack([m.points, [[2.0, 0.25, 0.5]]]), m.cells, m.cell_type)
    out.append(("cube2x3x2+free-point", m2, felupe.RegionHexahedron, 3))
    return out


def _doc_sets(mesh, d, entries, free):
    """dof set / value map of an ordered list of (plane mask over points, components, value)"""
    val = {}
    for mask, comps, value in entries:
        for p in np.nonzero(mask)[0]:
            for i in comps:
                val[d * p + i] = value
    for p in free:
        for i in range(d):
            val.setdefault(d * p + i, None)
    return val


@contract("C08", "grid-standin", configs=[dict(part=p) for p in ("boundary", "loadcase")], engine="ground")
def grid_standin(vk, cfg):
    """BOUNDED: all argument combinations of Boundary / the load cases on all grids up to 3x3x3 points"""
    if not vk.sym:
        return
    X._real_numpy_everywhere()
    evals, bad = 0, []
    for name, mesh, Region, d in _grid_meshes():
        region = Region(mesh)
        f = felupe.Field(region, dim=d, values=0.0)
        cont = felupe.FieldContainer([f])
        Xp = mesh.points
        n = mesh.npoints
        lo, hi = Xp.min(axis=0), Xp.max(axis=0)
        free = list(mesh.points_without_cells)
        if cfg["part"] == "boundary":
            opts = []
            for a in range(3):
                o = [("default", None)]
                if a < d:
                    o += [("value", hi[a]), ("callable", (lambda a: lambda x: x < 0.5 * (lo[a] + hi[a]))(a))]
                else:
                    o += [("value", 0.0)]
                opts.append(o)
            for (kx, fx), (ky, fy), (kz, fz) in itertools.product(*opts):
                for mode in ("or", "and"):
                    for skip in [None] + list(itertools.product((False, True), repeat=3)):
                        kw = {k: v for k, v in (("fx", fx), ("fy", fy), ("fz", fz)) if v is not None}
                        if skip is not None:
                            kw["skip"] = skip
                        b = felupe.Boundary(f, mode=mode, **kw)
                        masks = []
                        for a, (kind, v) in enumerate(((kx, fx), (ky, fy), (kz, fz))[:d]):
                            if kind == "value":
                                masks.append(np.isclose(Xp[:, a], v))
                            elif kind == "callable":
                                masks.append(v(Xp[:, a]))
                        sel = (np.logical_or if mode == "or" else np.logical_and).reduce(masks) if masks else np.full(n, mode == "and")
                        keep = [i for i in range(d) if skip is None or not skip[i]]
                        want = sorted(d * p + i for p in np.nonzero(sel)[0] for i in keep)
                        evals += 1
                        if list(b.dof) != want or list(b.points) != (sorted(np.nonzero(sel)[0]) if keep else []):
                            bad.append(f"{name} Boundary({kx},{ky},{kz},{mode},skip={skip})")
            continue
        # load cases
        def check(label, res, entries):
            nonlocal evals
            bounds, lc = res
            val = _doc_sets(mesh, d, entries, free)
            want0 = sorted(val)
            want1 = [k for k in range(n * d) if k not in val]
            ext = [0.0 if val[k] is None else val[k] for k in want0]
            evals += 1
            if list(lc["dof0"]) != want0 or list(lc["dof1"]) != want1 or not np.allclose(lc["ext0"], ext):
                bad.append(f"{name} {label}")

        P = lambda a, v: np.isclose(Xp[:, a], v)  # noqa: E731
        oth = lambda a: [i for i in range(d) if i != a]  # noqa: E731
        syms = [True, False] + [s for s in itertools.product((False, True), repeat=3)]
        symE = lambda s3: [(P(a, 0.0), [a], 0.0) for a in range(d) if s3[a]]  # noqa: E731
        for axis, clamped, sym, given in itertools.product(range(d), (False, True), syms, (False, True)):
            kw = dict(left=lo[axis] + 0.0, right=hi[axis] + 0.0) if given else {}
            res = felupe.dof.uniaxial(cont, move=0.3, axis=axis, clamped=clamped, sym=sym, **kw)
            s3 = _sym3(sym)
            e = symE(s3)
            if not s3[axis]:
                e.append((P(axis, lo[axis]), [axis], 0.0))
            if clamped:
                e.append((P(axis, hi[axis]), oth(axis), 0.0))
                if not s3[axis]:
                    e.append((P(axis, lo[axis]), oth(axis), 0.0))
            e.append((P(axis, hi[axis]), [axis], 0.3))
            check(f"uniaxial(axis={axis},clamped={clamped},sym={sym},given={given})", res, e)
        for axes, clampes, sym in itertools.product([(a, b) for a in range(d) for b in range(d) if a != b], itertools.product((False, True), repeat=2), syms):
            res = felupe.dof.biaxial(cont, moves=(0.3, -0.2), axes=axes, clampes=clampes, sym=sym)
            s3 = _sym3(sym)
            e = symE(s3)
            mv = (0.3, -0.2)
            for k, ax in enumerate(axes):
                if not s3[ax]:
                    e.append((P(ax, lo[ax]), [ax], -mv[k]))
            for k, ax in enumerate(axes):
                if clampes[k]:
                    e.append((P(ax, hi[ax]), oth(ax), 0.0))
                    if not s3[ax]:
                        e.append((P(ax, lo[ax]), oth(ax), 0.0))
                e.append((P(ax, hi[ax]), [ax], mv[k]))
            check(f"biaxial(axes={axes},clampes={clampes},sym={sym})", res, e)
        for axes, sym in itertools.product([(a, b) for a in range(d) for b in range(d) if a != b], (True, False)):
            res = felupe.dof.shear(cont, moves=(0.3, -0.1, 0.2), axes=axes, sym=sym)
            a0, a1 = axes
            thick = [t for t in range(d) if t not in axes]
            e = [(P(t, 0.0), [t], 0.0) for t in thick] if sym else []
            e += [(P(a1, lo[a1]), oth(a1), 0.0), (P(a1, hi[a1]), thick, 0.0), (P(a1, lo[a1]), [a1], -0.1), (P(a1, hi[a1]), [a1], 0.2), (P(a1, hi[a1]), [a0], 0.3)]
            check(f"shear(axes={axes},sym={sym})", res, e)
    vk.bounded_standin(f"{cfg['part']} on real grids", "all grids with 2..3 points per axis in 2d and 3d (non-uniform, axis-distinct bounds) + one mesh with a point without cells; all fx/fy/fz kinds x and/or x skip tuples, all load-case flag combinations", evals, not bad, "; ".join(bad[:6]))
    vk.note("grid-standin is a bounded stand-in (exhaustive small scope, float arithmetic): reported separately, not counted")
    if bad:  # a concrete counterexample is a refutation (only then an obligation is recorded)
        vk.ensures_true("counterexample-on-a-real-grid", False, "; ".join(bad[:6]), backend="bounded", replay={"confirmed": True, "kind": "ground", "point": {"cases": bad[:6]}, "expected": "documented planes / components", "actual": "real code differs (native float)"})
