"""C08 -- one global numbering of unknowns; boundary conditions partition it exactly.

Engine E3 (vk/idxmap.py).  The real felupe functions are executed on index-map arrays: `npoints`, `ncells`
of every field, the number of points without cells and the number of selected boundary dofs are symbolic,
connectivities / coordinates / field values / user masks are uninterpreted functions; points per cell,
dims and the number of fields are enumerated.  Obligations are forall-statements decided by z3.
Every contract is paired with native runs of the same real code (real numpy, small random instances, all
quantified indices enumerated): differential validation of the index-map model and native failing inputs.

Global numbering (stated from the property): unknown (field j, point p, component i) has the global index
G(j,p,i) = OFF_j + dim_j*p + i with OFF_j = sum_{j'<j} npoints_j'*dim_j' (fields laid out consecutively).

contracts
  indices      Field._indices_per_cell, Indices (cai, ai, dof, shape), Field.__getitem__
  container    FieldContainer.__init__ (fieldsizes, offsets), math.values, __add__/__sub__/__iadd__/__isub__
               (flat vector split at the offsets, list-of-arrays form), link
  boundary     Boundary.__init__/apply_mask on an opaque mesh with symbolic coordinates: fx/fy/fz values,
               callables, and/or, skip, point masks, dof masks; structure of .dof/.points
  dof0 / dof1  get_dof0, get_dof1 against the Boundary contract (stub boundaries = arbitrary sorted sets)
  partition    partition: 1..3 fields of different sizes, fields without boundaries
  apply        apply: scalar / array / broadcast values, overlapping boundaries (last one wins), dof0=None
  loadcase     symmetry, uniaxial, biaxial, shear: documented planes and components, symbolic positions
"""
import itertools
from types import SimpleNamespace

import numpy as np

import felupe
import felupe.dof._boundary as DB
import felupe.dof._loadcase as DL
import felupe.dof._tools as DT
import felupe.field._base as FB
import felupe.field._container as FC
import felupe.math._field as MF
from vk import e3fix as F
from vk import idxmap as X
from vk.core import contract

TRUSTED = list(X.TRUSTED) + [
    "C08: FieldContainer arithmetic with a flat vector whose length equals the number of fields is by design read as a list of per-field arrays (API ambiguity); the flat-vector contracts require total size != number of fields",
    "C08 lemma (composition): get_dof0/get_dof1/partition/apply are verified against the Boundary contract (b.dof strictly increasing subset of [0, npoints*dim), b.points the points with a selected component; for point-mask boundaries b.dof[j*m+l] = dim*b.points[j] + kept[l]); the real Boundary is verified to satisfy that contract",
]

NA = (1, 3, 4, 8)


def _shape_is(a, shape):
    return len(a.shape) == len(shape) and all(X.same_size(p, q) for p, q in zip(a.shape, shape))


# ------------------------------------------------------------------------------------------------
def _indices(E, cfg):
    na = cfg["na"]
    for dim in (1, 2, 3):
        E.scope()
        tag = f"dim={dim}"
        m = F.mesh(E, "m", na)
        f = F.field(E, m, dim, values="sym")
        nc, n = m.ncells, m.npoints
        cai, ai, dof = f.indices.cai, f.indices.ai, f.indices.dof
        E.check(f"{tag}/shapes", _shape_is(cai, (nc, na, dim)) and _shape_is(ai[0], (nc * na * dim,)) and _shape_is(ai[1], (nc * na * dim,)) and _shape_is(dof, (n, dim)) and X.same_size(f.indices.shape[0], n * dim) and f.indices.shape[1] == 1, "cai (ncells, na, dim), ai 2 x (ncells*na*dim,), dof (npoints, dim), shape (npoints*dim, 1)")
        rng = [("c", nc), ("a", na), ("i", dim)]
        E.forall(f"{tag}/cai", rng, lambda c, a, i: E.eq(E.at(cai, c, a, i), dim * E.at(m.cells, c, a) + i))
        E.forall(f"{tag}/ai-rows", rng, lambda c, a, i: E.eq(E.at(ai[0], (c * na + a) * dim + i), dim * E.at(m.cells, c, a) + i))
        E.forall(f"{tag}/ai-cols", rng, lambda c, a, i: E.eq(E.at(ai[1], (c * na + a) * dim + i), 0))
        E.forall(f"{tag}/dof", [("p", n), ("i", dim)], lambda p, i: E.eq(E.at(dof, p, i), dim * p + i))
        E.forall(f"{tag}/cai-is-dof-of-the-cell-point", rng, lambda c, a, i: E.eq(E.at(cai, c, a, i), E.at(dof, E.at(m.cells, c, a), i)))
        with E.run(FB):
            got = f[dof]
        E.check(f"{tag}/getitem-shape", _shape_is(got, (n, dim)), "field[dof] has the shape of dof")
        E.forall(f"{tag}/getitem", [("p", n), ("i", dim)], lambda p, i: E.eq(E.at(got, p, i), E.at(f.values, p, i)))
        if dim == 2:
            E.canary("cai-off-by-one", rng, lambda c, a, i: E.eq(E.at(cai, c, a, i), dim * E.at(m.cells, c, a) + i + 1))
            E.canary("cai-point-major", rng, lambda c, a, i: E.eq(E.at(cai, c, a, i), E.at(m.cells, c, a) + i * E.val(n)))
            E.canary("dof-transposed", [("p", n), ("i", dim)], lambda p, i: E.eq(E.at(dof, p, i), p + i * E.val(n)))


@contract("C08", "indices", configs=[dict(na=a) for a in NA], engine="E3")
def indices(vk, cfg):
    """Field._indices_per_cell / Indices: cai[c,a,i] = dim*cells[c,a]+i = dof[cells[c,a], i]"""
    vk.real(felupe.Field._indices_per_cell)
    vk.real(felupe.field._indices.Indices.__init__)
    vk.real(felupe.Field.__getitem__)
    X.paired(vk, _indices, cfg)


# ------------------------------------------------------------------------------------------------
def _fields(E, dims, nas=None, points=False, pwc=False, mdims=None, values="sym"):
    """fields of a mixed container: every field on its own opaque mesh (own npoints, own cells)"""
    nas = nas or [4] + [1] * (len(dims) - 1)
    nc = E.size("ncells", 1)
    meshes = [F.mesh(E, f"f{j}", na, ncells=nc, mdim=(mdims[j] if mdims else None), points=points, pwc=pwc) for j, na in enumerate(nas)]
    fs = [F.field(E, m, d, values=values, name=f"f{j}") for j, (m, d) in enumerate(zip(meshes, dims))]
    return meshes, fs


def _container(E, cfg):
    dims = cfg["dims"]
    nf = len(dims)
    E.scope()
    meshes, fs = _fields(E, dims)
    cont = F.container(E, fs)
    off, tot = F.spec_offsets(fs)
    ns = [m.npoints for m in meshes]
    E.check("fieldsizes", len(cont.fieldsizes) == nf and all(X.same_size(a, n * d) for a, n, d in zip(cont.fieldsizes, ns, dims)), f"{cont.fieldsizes}")
    E.check("offsets", len(cont.offsets) == nf - 1 and all(X.same_size(a, b) for a, b in zip(list(cont.offsets), off[1:])), f"{list(cont.offsets)} == cumulative field sizes {off[1:]}")
    # math.values: the flat vector lists field j, point p, component i at G(j,p,i)
    with E.run(MF):
        vec = felupe.math.values(cont)
    E.check("values/length", _shape_is(vec, (tot,)), f"{vec.shape} == ({tot},)")
    for j in range(nf):
        E.forall(f"values/field{j}", [("p", ns[j]), ("i", dims[j])], lambda p, i: E.eq(E.at(vec, E.val(off[j]) + dims[j] * p + i), E.at(fs[j].values, p, i)))
    E.canary("values-shifted", [("p", ns[-1]), ("i", dims[-1])], lambda p, i: E.eq(E.at(vec, E.val(off[-1]) + dims[-1] * p + i + 1), E.at(fs[-1].values, p, i)))
    # field update with a flat vector: split at the offsets
    E.assume(E.Not(E.eq(E.val(tot), nf)))
    old = [E.reals(f"old{j}", (ns[j], dims[j])) for j in range(nf)]
    dx = E.reals("dx", (tot,))
    ops = {"__add__": (lambda a, b: a + b, False), "__sub__": (lambda a, b: a - b, False), "__iadd__": (lambda a, b: a + b, True), "__isub__": (lambda a, b: a - b, True)}
    for opname, (op, inplace) in ops.items():
        for form in ("flat", "list"):
            for j in range(nf):
                fs[j].values = old[j].copy()
            arg = dx if form == "flat" else [dx[(off[j]) : (off[j] + ns[j] * dims[j])] for j in range(nf)]
            with E.run(FC, FB, _container=dict(len=E.len)):
                new = getattr(cont, opname)(arg)
            tag = f"{opname}/{form}"
            E.check(f"{tag}/result", isinstance(new, felupe.FieldContainer) and (new is cont) == inplace and len(new.fields) == nf, "returns a container (the same object iff in-place)")
            for j in range(nf):
                E.forall(f"{tag}/field{j}", [("p", ns[j]), ("i", dims[j])], lambda p, i: E.eq(E.at(new.fields[j].values, p, i), op(E.at(old[j], p, i), E.at(dx, E.val(off[j]) + dims[j] * p + i))))
                if not inplace:  # frame: the operand container keeps its values
                    E.forall(f"{tag}/frame/field{j}", [("p", ns[j]), ("i", dims[j])], lambda p, i: E.eq(E.at(cont.fields[j].values, p, i), E.at(old[j], p, i)))
            if opname == "__add__" and form == "flat" and nf > 1:
                E.canary("update-last-field-without-offset", [("p", ns[-1]), ("i", dims[-1])], lambda p, i: E.eq(E.at(new.fields[-1].values, p, i), E.at(old[-1], p, i) + E.at(dx, dims[-1] * p + i)))
            if opname == "__add__" and form == "flat" and nf == 1:
                E.canary("update-shifted", [("p", ns[0]), ("i", dims[0])], lambda p, i: E.eq(E.at(new.fields[0].values, p, i), E.at(old[0], p, i) + E.at(dx, dims[0] * p + i) + 1))
    # link
    for j in range(nf):
        fs[j].values = old[j].copy()
    cont.link()
    E.check("link/all-to-first", all(f.values is fs[0].values for f in fs), "link() makes every field share the value array of the first field")
    other = F.container(E, [F.field(E, m, d, values="sym", name=f"o{j}") for j, (m, d) in enumerate(zip(meshes, dims))])
    cont.link(other)
    E.check("link/one-to-one", all(a.values is b.values for a, b in zip(cont.fields, other.fields)), "link(other) shares the value arrays field by field")


CONT = [dict(dims=d) for d in [(3,), (1,), (2, 1), (3, 1, 1), (2, 1, 1), (1, 3), (1, 2, 3)]]


@contract("C08", "container", configs=CONT, engine="E3")
def container(vk, cfg):
    """FieldContainer: offsets, math.values, field update by a flat vector (split at the offsets)"""
    vk.real(felupe.FieldContainer.__init__)
    vk.real(felupe.math.values)
    for n in ("__add__", "__sub__", "__iadd__", "__isub__", "link"):
        vk.real(getattr(felupe.FieldContainer, n))
    vk.real(felupe.Field.__iadd__)
    vk.real(felupe.Field.__isub__)
    X.paired(vk, _container, cfg)


@contract("C08", "standin-selftest", engine="ground")
def standin_selftest(vk, cfg):
    """differential test of the E3 numpy stand-ins against real numpy (model validation, not counted)"""
    if not vk.sym:
        return
    n, bad = X.selftest(seed=0)
    vk.note(f"E3 stand-in differential test against real numpy: {n} cases, {len(bad)} mismatches")
    if bad:
        vk._record(f"{vk.prefix}/standin==numpy", "error", "differential", 0, "; ".join(bad[:5]))


# ------------------------------------------------------------------------------------------------
# Boundary on an opaque mesh: npoints symbolic, coordinates X(p, axis) uninterpreted reals
KINDS = ("default", "value", "callable")


def _boundary_case(E, tag, mdim, fdim, kinds, mode, skip, canary=False):
    E.scope()
    m = F.mesh(E, "m", 4, mdim=mdim, points=True)
    f = F.field(E, m, fdim)
    n = m.npoints
    kw, preds = {}, []
    for a, kind in enumerate(kinds):
        key = "fxyz"[0] + "xyz"[a]
        if kind == "value":
            c = E.real(f"c{a}")
            kw[key] = c
            if a < mdim:
                preds.append((lambda a, c: lambda p: E.eq(E.at(m.points, p, a), E.val(c)))(a, c))
        elif kind == "callable":
            arr = E.bools(f"PF{a}", (n,))
            kw[key] = (lambda arr: lambda x: arr)(arr)
            if a < mdim:
                preds.append((lambda arr: lambda p: E.at(arr, p))(arr))
    if skip is not None:
        kw["skip"] = skip
    with E.run(DB):
        b = felupe.Boundary(f, mode=mode, value=1.5, **kw)
    comb = E.Or if mode == "or" else E.And
    sel = lambda p: comb(*[q(p) for q in preds])  # noqa: E731  (empty or = False, empty and = True)
    skipped = [bool(skip[i]) if skip is not None else False for i in range(fdim)]
    _boundary_obligations(E, tag, b, f, n, fdim, lambda p, i: E.And(sel(p), E.Not(E.pick(skipped, i))), [i for i in range(fdim) if not skipped[i]], canary)
    E.check(f"{tag}/attributes", b.field is f and b.dim == fdim and b.value == 1.5 and b.mode == mode, "field, dim, value, mode stored")


def _boundary_obligations(E, tag, b, f, n, fdim, mask2d, kept, canary=False, uniform=True):
    """postcondition of Boundary (the contract the dof tools are verified against)"""
    dof, pts = b.dof, b.points
    E.check(f"{tag}/1d", len(dof.shape) == 1 and len(pts.shape) == 1, "dof and points are 1d")
    E.forall(f"{tag}/dof-selected-iff", [("p", n), ("i", fdim)], lambda p, i: E.Iff(E.occurs(dof, fdim * p + i), mask2d(p, i)))
    E.forall(f"{tag}/dof-in-range", [("x", None)], lambda x: E.Implies(E.occurs(dof, x), E.And(x >= 0, x < E.val(n * fdim))))
    E.forall(f"{tag}/dof-increasing", [("j", (1, E.length(dof)))], lambda j: E.at(dof, j - 1) < E.at(dof, j))
    anyc = lambda p: E.Or(*[mask2d(p, i) for i in range(fdim)])  # noqa: E731
    E.forall(f"{tag}/points-selected-iff", [("p", n)], lambda p: E.Iff(E.occurs(pts, p), anyc(p)))
    E.forall(f"{tag}/points-in-range", [("x", None)], lambda x: E.Implies(E.occurs(pts, x), E.And(x >= 0, x < E.val(n))))
    E.forall(f"{tag}/points-increasing", [("j", (1, E.length(pts)))], lambda j: E.at(pts, j - 1) < E.at(pts, j))
    if canary:
        E.canary(f"{tag}-selects-complement", [("p", n), ("i", fdim)], lambda p, i: E.Iff(E.occurs(dof, fdim * p + i), E.Not(mask2d(p, i))))
        E.canary(f"{tag}-points-complement", [("p", n)], lambda p: E.Iff(E.occurs(pts, p), E.Not(anyc(p))))
    if not uniform:
        return
    # row-uniform masks (point selection x kept components): dof[j*m + l] = dim*points[j] + kept[l].
    # Proved as: g(r) := dim*points[r div m] + kept[r mod m] is strictly increasing on [0, P*m) and has the
    # same image as dof  (=> dof == g and len(dof) == P*m by uniqueness of the increasing enumeration)
    mk = len(kept)
    P = E.length(pts)
    if mk == 0:
        E.check(f"{tag}/enumeration/empty", True, "all components skipped")
        E.forall(f"{tag}/enumeration/no-dof", [("x", None)], lambda x: E.Not(E.occurs(dof, x)))
        return
    g = lambda r: fdim * E.at(pts, E.div(r, mk)) + E.pick(kept, E.mod(r, mk))  # noqa: E731
    ci = lambda i: E.pick([kept.index(i) if i in kept else 0 for i in range(fdim)], i)  # noqa: E731
    E.forall(f"{tag}/enumeration/increasing", [("r", (1, P * mk))], lambda r: g(r - 1) < g(r))
    E.forall(f"{tag}/enumeration/into", [("r", P * mk)], lambda r: E.occurs(dof, g(r)))
    E.forall(f"{tag}/enumeration/onto", [("x", None)], lambda x: (lambda r: E.And(r >= 0, r < E.val(P * mk), E.eq(g(r), x)))(E.rank(pts, E.div(x, fdim)) * mk + ci(E.mod(x, fdim))), given=lambda x: E.occurs(dof, x))
    if not E.sym:
        d = np.asarray(dof)
        E.check(f"native:{tag}/enumeration", len(d) == P * mk and all(d[r] == g(r) for r in range(P * mk)), "dof[j*m+l] == dim*points[j] + kept[l] (conclusion of the enumeration lemma, native)")


def _boundary(E, cfg):
    mdim, fdim = cfg["mdim"], cfg["fdim"]
    part = cfg["part"]
    mid = (False, True, False)
    if part.startswith("predicates"):
        for kinds in itertools.product(KINDS, repeat=3):
            if mdim < 3 and kinds[2] == "callable":
                continue  # fz is ignored on a 2d mesh: default and value are enough to show it
            if mdim < 2 and kinds[1] == "callable":
                continue
            for mode in (part.split("-")[1],):
                for skip in (None, mid):
                    tag = f"fx={kinds[0]},fy={kinds[1]},fz={kinds[2]},{mode},skip={'none' if skip is None else ''.join(str(int(x)) for x in skip)}"
                    _boundary_case(E, tag, mdim, fdim, kinds, mode, skip, canary=(kinds == ("value", "callable", "default") and skip is None))
    elif part == "skip":
        for kinds, mode in ((("value", "default", "default"), "or"), (("callable", "value", "value"), "and")):
            for skip in itertools.product((False, True), repeat=3):
                for asint in (False, True):
                    sk = tuple(int(x) for x in skip) if asint else skip
                    tag = f"fx={kinds[0]},fy={kinds[1]},fz={kinds[2]},{mode},skip={''.join(str(int(x)) for x in skip)}{'i' if asint else ''}"
                    _boundary_case(E, tag, mdim, fdim, kinds, mode, sk)
    else:  # user masks
        for shape_kind in ("points", "points-column", "dofs", "dofs-flat"):
            for skip in [None] + [s for s in itertools.product((False, True), repeat=fdim)]:
                E.scope()
                tag = f"mask={shape_kind},skip={'none' if skip is None else ''.join(str(int(x)) for x in skip)}"
                m = F.mesh(E, "m", 4, mdim=mdim, points=True)
                f = F.field(E, m, fdim)
                n = m.npoints
                if shape_kind.startswith("points"):
                    msk = E.bools("MASK", (n,) if shape_kind == "points" else (n, 1))
                    pm = (lambda p: E.at(msk, p)) if shape_kind == "points" else (lambda p: E.at(msk, p, 0))
                    skipped = [bool(skip[i]) if skip is not None else False for i in range(fdim)]
                    mask2d = lambda p, i: E.And(pm(p), E.Not(E.pick(skipped, i)))  # noqa: E731
                    kept, uniform = [i for i in range(fdim) if not skipped[i]], True
                else:
                    msk = E.bools("MASK", (n, fdim) if shape_kind == "dofs" else (n * fdim,))
                    mask2d = (lambda p, i: E.at(msk, p, i)) if shape_kind == "dofs" else (lambda p, i: E.at(msk, fdim * p + i))
                    kept, uniform = list(range(fdim)), False
                    if fdim == 1:
                        # a (npoints, 1) mask of a scalar field is a point mask: skip applies
                        skipped = [bool(skip[0]) if skip is not None else False]
                        mask2d = (lambda mm: lambda p, i: E.And(mm(p, i), not skipped[0]))(mask2d)
                        kept, uniform = [i for i in range(fdim) if not skipped[i]], True
                kw = {} if skip is None else {"skip": skip}
                with E.run(DB):
                    b = felupe.Boundary(f, fx=0.0, fy=lambda y: None, mask=msk, **kw)  # fx / fy are ignored if a mask is given
                    b.update(2.5)
                _boundary_obligations(E, tag, b, f, n, fdim, mask2d, kept, uniform=uniform, canary=(skip is None and shape_kind == "dofs" and fdim > 1))
                E.check(f"{tag}/update", b.value == 2.5, "update() replaces the value")
                if not uniform:
                    E.check(f"{tag}/skip-cleared", b.skip is None, "dof-based masks carry no skip")
                # apply_mask on an existing boundary replaces the selection
                msk2 = E.bools("MASK2", (n,))
                if uniform and skip is None:
                    with E.run(DB):
                        b.apply_mask(msk2)
                    _boundary_obligations(E, tag + "/re-apply", b, f, n, fdim, lambda p, i: E.at(msk2, p), list(range(fdim)))


BND = []
for mdim, fdim in [(3, 3), (2, 2), (3, 1), (2, 3), (1, 1), (1, 2)]:
    light = (mdim, fdim) in ((3, 3), (2, 2), (3, 1))
    for part in ("predicates-or", "predicates-and", "skip", "masks"):
        BND.append(dict(mdim=mdim, fdim=fdim, part=part, **({} if light else {"tier": "thorough"})))


@contract("C08", "boundary", configs=BND, engine="E3")
def boundary(vk, cfg):
    """Boundary.__init__ / apply_mask / update: selected dofs == (combined coordinate predicates) x (components
    not skipped), for an arbitrary number of points with arbitrary real coordinates"""
    vk.real(felupe.Boundary.__init__)
    vk.real(felupe.Boundary.apply_mask)
    vk.real(felupe.Boundary.update)
    X.paired(vk, _boundary, cfg)
