"""C02 (placement part) -- every integrated value is placed at the global row / column of its point and
component, for an arbitrary number of cells and arbitrary connectivities.

Engine E3 (vk/idxmap.py): the real `IntegralFormCartesian.__init__/assemble` and
`IntegralForm.__init__/assemble` are executed on index-map arrays -- `ncells`, `npoints` of every field
are symbolic, `cells_f(c, a)` are uninterpreted functions, the integrated values are uninterpreted reals
V(a,i,b,k,c) -- built on the real `Field` / `FieldContainer` (real `_indices_per_cell`, `Indices`).
The triplets handed to scipy (`csr_matrix((data, (rows, cols)), shape)`, `bmat`, `vstack`: recorded by
stand-ins) are compared with the specification written from the property:

  flat position p = (((c*na_v + a)*dim_v + i)*na_u + b)*dim_u + k   carries   V[a,i,b,k,c],
  row = OFF_v[field] + dim_v*cells_v(c,a) + i,   column = OFF_u[field] + dim_u*cells_u(c,b) + k,

with OFF[j] = sum of npoints*dim of the fields before j (the global numbering of C08).  With the assumed
scipy COO contract (duplicates are summed) this is "the assembled matrix is the sum over cells, points
and components of the integrated values at the global row / column of the point and component".
Points per cell and dims are enumerated concretely, sizes are symbolic; obligations are decided by z3.
Every contract is paired with native runs of the same real code on small random meshes (real numpy, real
scipy; all indices enumerated) which also check the dense scipy matrix against the defining sum.
(The value part of C02 -- `integrate` -- lives in contracts/c02_forms.py.)
"""
import itertools

import numpy as np

import felupe
import felupe.assembly._cartesian as AC
import felupe.assembly._integral as AI
from vk import e3fix as F
from vk import idxmap as X
from vk.core import contract

TRUSTED = list(X.TRUSTED) + [
    "C02 placement: scipy.sparse contract (assumed): csr_matrix((data, (rows, cols)), shape) is the matrix sum_p data[p] e_rows[p] e_cols[p]^T (duplicates are summed), csr_matrix(shape) is the zero matrix, A.T swaps rows and columns, bmat / vstack place block (i, j) at the cumulative row / column sizes of the blocks before it (None = zero block); checked against real scipy on small instances by the paired native runs",
    "C02 placement: mixed-radix lemma -- p = (((c*na+a)*dv+i)*nb+b)*du+k is a bijection between the index box and [0, ncells*na*dv*nb*du)",
]

NA = (1, 3, 4, 8)
FLAGS = [(False, False), (True, False), (False, True), (True, True)]


def _coo_checks(E, tag, M, n_expected, shape_expected):
    ok = (not M.empty) and all(x.ndim == 1 and X.same_size(x.size, n_expected) for x in (M.data, M.rows, M.cols))
    E.check(f"{tag}/triplet-lengths", ok, f"data/rows/cols have the length ncells*na*dim(*nb*dim) = {n_expected}")
    E.check(f"{tag}/shape", len(M.shape) == 2 and X.same_size(M.shape[0], shape_expected[0]) and X.same_size(M.shape[1], shape_expected[1]), f"matrix shape {M.shape} == {shape_expected}")
    return ok


def _native_dense_bilinear(E, tag, M, V, mv, mu, dv, du, broadcast=False):
    """native run only: the real scipy matrix equals the defining sum (checks the assumed COO contract)"""
    if E.sym:
        return
    D = M.dense()
    R = np.zeros_like(D)
    nc, nav = mv.cells.shape
    nau = mu.cells.shape[1]
    for c, a, i, b, k in itertools.product(range(nc), range(nav), range(dv), range(nau), range(du)):
        R[dv * mv.cells[c, a] + i, du * mu.cells[c, b] + k] += V[a, i, b, k, 0 if broadcast else c]
    E.check(f"native:{tag}/dense", bool(np.allclose(D, R)), "dense scipy matrix == defining sum (native)")


# ------------------------------------------------------------------------------------------------
def _bilinear(E, cfg):
    nav, nau = cfg["nav"], cfg["nau"]
    for dv, du, (gv, gu) in itertools.product((1, 2, 3), (1, 2, 3), FLAGS):
        if cfg.get("light") and (gv, gu) not in ((True, True), (False, True)):
            continue
        E.scope()
        tag = f"bilinear[dv={dv},du={du},grad_v={int(gv)},grad_u={int(gu)}]"
        nc = E.size("ncells", 1)
        mv, mu = F.mesh(E, "v", nav, ncells=nc), F.mesh(E, "u", nau, ncells=nc)
        v, u = F.field(E, mv, dv), F.field(E, mu, du)
        V = E.reals("V", (nav, dv, nau, du, nc))
        with E.run(AC, _cartesian=dict(sparsematrix=E.coo)):
            form = AC.IntegralFormCartesian(None, v, None, u=u, grad_v=gv, grad_u=gu)
            M = form.assemble(values=V)
        if not _coo_checks(E, tag, M, nc * nav * dv * nau * du, (mv.npoints * dv, mu.npoints * du)):
            continue
        pos = lambda c, a, i, b, k: (((c * nav + a) * dv + i) * nau + b) * du + k  # noqa: E731
        rng = [("c", nc), ("a", nav), ("i", dv), ("b", nau), ("k", du)]
        E.forall(f"{tag}/data", rng, lambda c, a, i, b, k: E.eq(E.at(M.data, pos(c, a, i, b, k)), E.at(V, a, i, b, k, c)))
        E.forall(f"{tag}/rows", rng, lambda c, a, i, b, k: E.eq(E.at(M.rows, pos(c, a, i, b, k)), dv * E.at(mv.cells, c, a) + i))
        E.forall(f"{tag}/cols", rng, lambda c, a, i, b, k: E.eq(E.at(M.cols, pos(c, a, i, b, k)), du * E.at(mu.cells, c, b) + k))
        _native_dense_bilinear(E, tag, M, V, mv, mu, dv, du)
        if (dv, du, gv, gu) == (2, 2, True, True) or (dv, du, gv, gu) == (1, 1, True, True) and cfg.get("light"):
            E.canary("rows-off-by-one", rng, lambda c, a, i, b, k: E.eq(E.at(M.rows, pos(c, a, i, b, k)), dv * E.at(mv.cells, c, a) + i + 1))
            E.canary("rows-are-cols", rng, lambda c, a, i, b, k: E.eq(E.at(M.rows, pos(c, a, i, b, k)), du * E.at(mu.cells, c, b) + k))
            E.canary("position-shifted", rng, lambda c, a, i, b, k: E.eq(E.at(M.data, pos(c, a, i, b, k) + 1), E.at(V, a, i, b, k, c)))


@contract("C02", "placement-bilinear", configs=[dict(nav=a, nau=b, **({} if (a, b) in ((4, 4), (3, 1), (8, 1), (1, 3)) else {"tier": "thorough"})) for a in NA for b in NA], engine="E3")
def placement_bilinear(vk, cfg):
    """IntegralFormCartesian.__init__ (repeat / tile index construction) and assemble for bilinear forms"""
    vk.real(AC.IntegralFormCartesian.__init__)
    vk.real(AC.IntegralFormCartesian.assemble)
    vk.real(felupe.Field._indices_per_cell)
    X.paired(vk, _bilinear, cfg)


# ------------------------------------------------------------------------------------------------
def _linear(E, cfg):
    nav = cfg["nav"]
    for dv, gv in itertools.product((1, 2, 3), (False, True)):
        E.scope()
        tag = f"linear[dv={dv},grad_v={int(gv)}]"
        nc = E.size("ncells", 1)
        mv = F.mesh(E, "v", nav, ncells=nc)
        v = F.field(E, mv, dv)
        V = E.reals("V", (nav, dv, nc))
        with E.run(AC, _cartesian=dict(sparsematrix=E.coo)):
            form = AC.IntegralFormCartesian(None, v, None, grad_v=gv)
            M = form.assemble(values=V)
        if not _coo_checks(E, tag, M, nc * nav * dv, (mv.npoints * dv, 1)):
            continue
        pos = lambda c, a, i: (c * nav + a) * dv + i  # noqa: E731
        rng = [("c", nc), ("a", nav), ("i", dv)]
        E.forall(f"{tag}/data", rng, lambda c, a, i: E.eq(E.at(M.data, pos(c, a, i)), E.at(V, a, i, c)))
        E.forall(f"{tag}/rows", rng, lambda c, a, i: E.eq(E.at(M.rows, pos(c, a, i)), dv * E.at(mv.cells, c, a) + i))
        E.forall(f"{tag}/cols", rng, lambda c, a, i: E.eq(E.at(M.cols, pos(c, a, i)), 0))
        if not E.sym:
            R = np.zeros((mv.npoints * dv, 1))
            for c, a, i in itertools.product(range(nc), range(nav), range(dv)):
                R[dv * mv.cells[c, a] + i, 0] += V[a, i, c]
            E.check(f"native:{tag}/dense", bool(np.allclose(M.dense(), R)), "dense scipy vector == defining sum (native)")
        if dv == 2 and gv:
            E.canary("rows-off-by-one", rng, lambda c, a, i: E.eq(E.at(M.rows, pos(c, a, i)), dv * E.at(mv.cells, c, a) + i + 1))
            E.canary("cols-nonzero", rng, lambda c, a, i: E.eq(E.at(M.cols, pos(c, a, i)), 1))


@contract("C02", "placement-linear", configs=[dict(nav=a) for a in NA], engine="E3")
def placement_linear(vk, cfg):
    """IntegralFormCartesian for linear forms: indices = Field.indices.ai"""
    vk.real(AC.IntegralFormCartesian.__init__)
    vk.real(AC.IntegralFormCartesian.assemble)
    vk.real(felupe.Field._indices_per_cell)
    X.paired(vk, _linear, cfg)


# ------------------------------------------------------------------------------------------------
def _uniform(E, cfg):
    """uniform-grid regions: values carry one cell (last axis 1) and are broadcast over all cells"""
    nav, nau = cfg["nav"], cfg["nau"]
    for dv, du, one in itertools.product((1, 2, 3), (1, 3), (False, True)):
        E.scope()
        tag = f"uniform[dv={dv},du={du},ncells{'==1' if one else '>=2'}]"
        nc = E.size("ncells", 1, 1) if one else E.size("ncells", 2)
        mv, mu = F.mesh(E, "v", nav, ncells=nc), F.mesh(E, "u", nau, ncells=nc)
        v, u = F.field(E, mv, dv), F.field(E, mu, du)
        V = E.reals("V", (nav, dv, nau, du, 1))
        with E.run(AC, _cartesian=dict(sparsematrix=E.coo)):
            form = AC.IntegralFormCartesian(None, v, None, u=u, grad_v=True, grad_u=True)
            M = form.assemble(values=V)
        if not _coo_checks(E, tag, M, nc * nav * dv * nau * du, (mv.npoints * dv, mu.npoints * du)):
            continue
        pos = lambda c, a, i, b, k: (((c * nav + a) * dv + i) * nau + b) * du + k  # noqa: E731
        rng = [("c", nc), ("a", nav), ("i", dv), ("b", nau), ("k", du)]
        E.forall(f"{tag}/data", rng, lambda c, a, i, b, k: E.eq(E.at(M.data, pos(c, a, i, b, k)), E.at(V, a, i, b, k, 0)))
        E.forall(f"{tag}/rows", rng, lambda c, a, i, b, k: E.eq(E.at(M.rows, pos(c, a, i, b, k)), dv * E.at(mv.cells, c, a) + i))
        E.forall(f"{tag}/cols", rng, lambda c, a, i, b, k: E.eq(E.at(M.cols, pos(c, a, i, b, k)), du * E.at(mu.cells, c, b) + k))
        _native_dense_bilinear(E, tag, M, V, mv, mu, dv, du, broadcast=True)
        # linear form on a uniform grid
        E.scope()
        tag = f"uniform-linear[dv={dv},ncells{'==1' if one else '>=2'}]"
        if du != 1:
            continue
        nc = E.size("ncells", 1, 1) if one else E.size("ncells", 2)
        mv = F.mesh(E, "v", nav, ncells=nc)
        v = F.field(E, mv, dv)
        V = E.reals("V", (nav, dv, 1))
        with E.run(AC, _cartesian=dict(sparsematrix=E.coo)):
            M = AC.IntegralFormCartesian(None, v, None, grad_v=False).assemble(values=V)
        if not _coo_checks(E, tag, M, nc * nav * dv, (mv.npoints * dv, 1)):
            continue
        rng3 = [("c", nc), ("a", nav), ("i", dv)]
        E.forall(f"{tag}/data", rng3, lambda c, a, i: E.eq(E.at(M.data, (c * nav + a) * dv + i), E.at(V, a, i, 0)))
        E.forall(f"{tag}/rows", rng3, lambda c, a, i: E.eq(E.at(M.rows, (c * nav + a) * dv + i), dv * E.at(mv.cells, c, a) + i))
        if dv == 2 and not one:
            E.canary("uniform-values-of-cell-1", rng3, lambda c, a, i: E.eq(E.at(M.data, (c * nav + a) * dv + i), E.at(V, a, i, 0) + 1))


@contract("C02", "placement-uniform-grid", configs=[dict(nav=4, nau=4), dict(nav=8, nau=1), dict(nav=3, nau=3, tier="thorough")], engine="E3")
def placement_uniform(vk, cfg):
    """the broadcast path of IntegralFormCartesian.assemble (values.size < indices.size)"""
    vk.real(AC.IntegralFormCartesian.assemble)
    X.paired(vk, _uniform, cfg)


# ------------------------------------------------------------------------------------------------
def _mixed(E, cfg):
    dims, nas, mode = cfg["dims"], cfg["nas"], cfg["mode"]
    udims, unas = cfg.get("udims", dims), cfg.get("unas", nas)
    nv, nu = len(dims), len(udims)
    E.scope()
    nc = E.size("ncells", 1)
    meshes_v = [F.mesh(E, f"v{j}", na, ncells=nc) for j, na in enumerate(nas)]
    fv = [F.field(E, m, d) for m, d in zip(meshes_v, dims)]
    cv = F.container(E, fv)
    if "udims" in cfg:
        meshes_u = [F.mesh(E, f"u{j}", na, ncells=nc) for j, na in enumerate(unas)]
        fu = [F.field(E, m, d) for m, d in zip(meshes_u, udims)]
        cu = F.container(E, fu)
    else:
        meshes_u, fu, cu = meshes_v, fv, cv
    offv, totv = F.spec_offsets(fv)
    offu, totu = F.spec_offsets(fu)
    if mode == 1:
        blocks = [(i, 0) for i in range(nv)]
    elif mode == 2:
        blocks = [(i, j) for i in range(nv) for j in range(i, nv)]
    else:
        blocks = [(i, j) for i in range(nv) for j in range(nu)]
    absent = set(cfg.get("none", ()))
    fun = [None if a in absent else np.zeros((1, 1)) for a in range(len(blocks))]
    vals = []
    for a, (i, j) in enumerate(blocks):
        if a in absent:
            vals.append(None)
        elif mode == 1:
            vals.append(E.reals(f"V{a}", (nas[i], dims[i], nc)))
        else:
            vals.append(E.reals(f"V{a}", (nas[i], dims[i], unas[j], udims[j], nc)))
    with E.run(AI, AC, _cartesian=dict(sparsematrix=E.coo), _integral=dict(bmat=E.bmat, vstack=E.vstack)):
        form = AI.IntegralForm(fun, cv, None, u=None if mode == 1 else cu)
        E.check("mode", form.mode == mode, f"detected block mode {form.mode}, given a list of {len(fun)} integrands for {nv}x{nu if mode > 1 else 1} fields")
        B = form.assemble(values=vals)
    E.check("global-shape", X.same_size(B.shape[0], totv) and X.same_size(B.shape[1], 1 if mode == 1 else totu), f"{B.shape}")
    got = {(bi, bj): (ro, co, M) for bi, bj, ro, co, M in B.entries}
    # which integrand has to appear in which block, transposed or not (from the property text)
    expected = {}
    for a, (i, j) in enumerate(blocks):
        expected[(i, j)] = (a, False)
        if mode == 2 and i != j:
            expected[(j, i)] = (a, True)
    E.check("no-unexpected-blocks", set(got) <= set(expected) and len(B.entries) == len(got), f"blocks {sorted(got)} expected {sorted(expected)}")
    for (bi, bj), (a, transposed) in sorted(expected.items()):
        i, j = blocks[a]
        tag = f"block[{bi},{bj}]"
        if (bi, bj) not in got:
            E.check(f"{tag}/present-or-zero", a in absent, "an integrand is given for this block but the block is missing")
            continue
        ro, co, M = got[(bi, bj)]
        E.check(f"{tag}/row-offset", X.same_size(ro, offv[bi]), f"row offset {ro} == sum of field sizes before field {bi} = {offv[bi]}")
        E.check(f"{tag}/col-offset", X.same_size(co, 0 if mode == 1 else offu[bj]), f"column offset {co}")
        if a in absent:
            E.check(f"{tag}/absent-is-zero", M.empty, "absent (None) integrand gives a zero block")
            continue
        mv, dv, nav = meshes_v[i], dims[i], nas[i]
        if mode == 1:
            if not _coo_checks(E, tag, M, nc * nav * dv, (mv.npoints * dv, 1)):
                continue
            rng = [("c", nc), ("a", nav), ("i", dv)]
            V = vals[a]
            E.forall(f"{tag}/data", rng, lambda c, a_, i_: E.eq(E.at(M.data, (c * nav + a_) * dv + i_), E.at(V, a_, i_, c)))
            E.forall(f"{tag}/global-row", rng, lambda c, a_, i_: E.eq(E.at(M.rows, (c * nav + a_) * dv + i_) + E.val(ro), E.val(offv[i]) + dv * E.at(mv.cells, c, a_) + i_))
            E.forall(f"{tag}/global-col", rng, lambda c, a_, i_: E.eq(E.at(M.cols, (c * nav + a_) * dv + i_), 0))
            continue
        mu, du, nau = meshes_u[j], udims[j], unas[j]
        shape = (mu.npoints * du, mv.npoints * dv) if transposed else (mv.npoints * dv, mu.npoints * du)
        if not _coo_checks(E, tag, M, nc * nav * dv * nau * du, shape):
            continue
        pos = lambda c, a_, i_, b, k: (((c * nav + a_) * dv + i_) * nau + b) * du + k  # noqa: E731
        rng = [("c", nc), ("a", nav), ("i", dv), ("b", nau), ("k", du)]
        V = vals[a]
        grow = lambda c, a_, i_, b, k: E.val(offv[i]) + dv * E.at(mv.cells, c, a_) + i_  # noqa: E731
        gcol = lambda c, a_, i_, b, k: E.val(offu[j]) + du * E.at(mu.cells, c, b) + k  # noqa: E731
        if transposed:  # block (j, i) of a symmetric layout is the transpose of block (i, j)
            grow, gcol = (lambda c, a_, i_, b, k: E.val(offv[j]) + du * E.at(mu.cells, c, b) + k), (lambda c, a_, i_, b, k: E.val(offu[i]) + dv * E.at(mv.cells, c, a_) + i_)
        E.forall(f"{tag}/data", rng, lambda c, a_, i_, b, k: E.eq(E.at(M.data, pos(c, a_, i_, b, k)), E.at(V, a_, i_, b, k, c)))
        E.forall(f"{tag}/global-row", rng, lambda c, a_, i_, b, k: E.eq(E.at(M.rows, pos(c, a_, i_, b, k)) + E.val(ro), grow(c, a_, i_, b, k)))
        E.forall(f"{tag}/global-col", rng, lambda c, a_, i_, b, k: E.eq(E.at(M.cols, pos(c, a_, i_, b, k)) + E.val(co), gcol(c, a_, i_, b, k)))
        if (bi, bj) == (0, min(1, nu - 1)):
            E.canary(f"{tag}-row-without-offset-or-shifted", rng, lambda c, a_, i_, b, k: E.eq(E.at(M.rows, pos(c, a_, i_, b, k)) + E.val(ro), grow(c, a_, i_, b, k) + 1))
            E.canary(f"{tag}-col-of-wrong-field", rng, lambda c, a_, i_, b, k: E.eq(E.at(M.cols, pos(c, a_, i_, b, k)) + E.val(co), gcol(c, a_, i_, b, k) + E.val(totu)))
    if not E.sym:
        # native: real scipy bmat / vstack of the real blocks equals the block-wise defining sum
        import scipy.sparse as sp

        R = np.zeros((totv, 1 if mode == 1 else totu))
        for (bi, bj), (a, transposed) in expected.items():
            if a in absent:
                continue
            i, j = blocks[a]
            V, mv = vals[a], meshes_v[i]
            if mode == 1:
                for c, a_, i_ in itertools.product(range(nc), range(nas[i]), range(dims[i])):
                    R[offv[i] + dims[i] * mv.cells[c, a_] + i_, 0] += V[a_, i_, c]
                continue
            mu = meshes_u[j]
            for c, a_, i_, b, k in itertools.product(range(nc), range(nas[i]), range(dims[i]), range(unas[j]), range(udims[j])):
                r, s_ = offv[i] + dims[i] * mv.cells[c, a_] + i_, offu[j] + udims[j] * mu.cells[c, b] + k
                if transposed:
                    R[offv[j] + udims[j] * mu.cells[c, b] + k, offu[i] + dims[i] * mv.cells[c, a_] + i_] += V[a_, i_, b, k, c]
                else:
                    R[r, s_] += V[a_, i_, b, k, c]
        K = np.empty((nv, 1 if mode == 1 else nu), dtype=object)
        for bi, bj, ro, co, M in B.entries:
            K[bi, bj] = sp.csr_matrix(M.dense())
        E.check("native:dense", bool(np.allclose(sp.bmat(K).toarray(), R)), "real scipy bmat of the real blocks == defining block sum (native)")


MIXED = []
for mode in (1, 2, 3):
    MIXED += [
        dict(mode=mode, dims=(3,), nas=(4,), tier="thorough"),
        dict(mode=mode, dims=(2, 1), nas=(4, 1)),
        dict(mode=mode, dims=(3, 1, 1), nas=(8, 1, 1), **({"tier": "thorough"} if mode == 3 else {})),
        dict(mode=mode, dims=(2, 1, 1), nas=(3, 3, 1)),
    ]
MIXED += [
    dict(mode=2, dims=(3, 1, 1), nas=(4, 1, 1), none=(1, 2)),  # ThreeFieldVariation-like: absent up / uJ blocks
    dict(mode=2, dims=(2, 1), nas=(3, 1), none=(2,)),
    dict(mode=3, dims=(2, 1), nas=(4, 1), none=(1,)),
    dict(mode=1, dims=(2, 1, 1), nas=(4, 1, 1), none=(2,)),
    dict(mode=3, dims=(2, 1), nas=(4, 1), udims=(1,), unas=(3,)),  # rectangular: 2 test fields x 1 trial field
    dict(mode=3, dims=(1,), nas=(3,), udims=(2, 1, 3), unas=(4, 1, 2), tier="thorough"),
]
MIXED = [m for m in MIXED if not (m["mode"] == 3 and len(m["dims"]) == 1 and "udims" not in m)]  # 1x1 list is mode 2 by definition


@contract("C02", "placement-mixed-blocks", configs=MIXED, engine="E3")
def placement_mixed(vk, cfg):
    """IntegralForm.__init__/assemble: block modes 1 (vector), 2 (upper-triangle list, transposed lower
    blocks) and 3 (full list); absent blocks; block offsets = the field offsets of the global numbering"""
    vk.real(AI.IntegralForm.__init__)
    vk.real(AI.IntegralForm.assemble)
    vk.real(AC.IntegralFormCartesian.__init__)
    vk.real(AC.IntegralFormCartesian.assemble)
    vk.real(felupe.FieldContainer.__init__)
    X.paired(vk, _mixed, cfg)


@contract("C02", "placement-standin-selftest", engine="ground")
def standin_selftest(vk, cfg):
    """differential test of the E3 numpy stand-ins against real numpy (model validation, not counted)"""
    if not vk.sym:
        return
    n, bad = X.selftest(seed=0)
    vk.note(f"E3 stand-in differential test against real numpy: {n} cases, {len(bad)} mismatches")
    if bad:
        vk._record(f"{vk.prefix}/standin==numpy", "error", "differential", 0, "; ".join(bad[:5]))
