"""C03 / C15 (AD wrappers with state variables, nstatevars > 0) -- the second code path of tensortrax / jax
`Hyperelastic`, `Material`, `total_lagrange`, `updated_lagrange`:

    tensortrax:  self.fun = tr.take(fun, 0), self.fun_statevars = tr.take(fun, 1);
                 tr.gradient / tr.hessian(self.fun)(C, statevars), tr.function(self.fun_statevars)(C, statevars)
    jax:         jax.grad(.., has_aux=True), jax.jacfwd(jax.grad(.., has_aux=True), has_aux=True),
                 jacobian(fun, has_aux=True), vmap2 with in_axes = out_axes_grad = [(2, 1), (3, 2)],
                 out_axes_hess = [(4, 1), (5, 2)]
    lagrange:    the (stress, statevars_new) tuple is passed through

The real wrapper code is executed with an *abstract* model with state: a ghost energy psi(C, z) with declared
partials (w.r.t. C, and -- uninterpreted -- w.r.t. z), an abstract, uninterpreted state update z_new = g(C, z),
resp. an abstract tensor function T(F, z) for `Material` / the lagrange decorators; AD by contract (vk/models.py
stubs).  Batch (q, c) = (2, 1) (also (2, 2), and (1, 2) for the pmap variants) with distinct symbols per batch
point and nz = 3 state variables (state axis first, then q, c), so that an axis mix-up is a visible refutation.
A call of the real code that raises under the preconditions is itself a refuted obligation ("returns") with a
float reading, so that the native replay exhibits the exception.

Obligations (for EVERY model function with state passed in):
  * stress == F . 2 dpsi/dC (C = F^T F) at the given z: the state enters as a constant;
  * statevars_new == g(C, z) at the same (C, z) of the same batch point, not differentiated, shape (nz, q, c);
  * elasticity == D(stress, F) at fixed z (algorithmically consistent tangent of the stress update) and the
    closed form 4 F F : d2psi/dCdC + 1 (x) 2 dpsi/dC;
  * frames: neither F nor the input state array is mutated (the committed state only changes through
    Results.update_statevars, C07 / C15);
  * `Material`: stress == T(F, z), `total_lagrange`: F . T, `updated_lagrange`: det(F) T F^-T, each with the
    state update passed through and A == D(P, F) at fixed z.
Paired native run: the real AD libraries on a concrete model with state (jax in x64).

model_viscoelastic: the real tensortrax model function `finite_strain_viscoelastic` executed symbolically: the
returned state is the documented update  C_i = unimodular part of (C_i,n + dt mu/eta C^),  C^ = det(C)^(-1/3) C,
and the returned energy is  mu/2 (tr(C^ C_i^-1) - 3)  evaluated with the *updated* C_i.
The composition Hyperelastic(finite_strain_viscoelastic, nstatevars=6) on a fully symbolic F is NOT executed
(nested cube roots of det(F^T F) and of det(C_i,n + dt mu/eta C^) in 9 + 6 symbols: no result in 20 min); it is
the instance of the wrapper contract (every model with state) at this model function, under the AD contracts.
"""
import contextlib
from fractions import Fraction as Fr

import numpy as np

import felupe.constitution.jax as mj
import felupe.constitution.jax._helpers as JHELP
import felupe.constitution.jax._hyperelastic as JHYP
import felupe.constitution.jax._material as JMAT
import felupe.constitution.jax._total_lagrange as JTL
import felupe.constitution.jax._updated_lagrange as JUL
import felupe.constitution.tensortrax as mt
import felupe.constitution.tensortrax._hyperelastic as THYP
import felupe.constitution.tensortrax._material as TMAT
import felupe.constitution.tensortrax._total_lagrange as TTL
import felupe.constitution.tensortrax._updated_lagrange as TUL
import felupe.constitution.tensortrax.models.hyperelastic as TT
from contracts import c11_objectivity as c11
from vk import models as M
from vk import oracle, ring, symnp
from vk.core import contract
from vk.ring import LP, co
from vk.symnp import det_ref, inv_ref

TRUSTED = list(c11.TRUSTED) + [
    "C03 state wrappers: AD contracts with auxiliary output: jax.grad / jacfwd / jacobian(fun, has_aux=True) return (D of the first output with respect to the differentiated argument only -- every other argument, in particular the state, is a constant --, the second output evaluated at the same arguments, not differentiated); tr.gradient / hessian / jacobian / function(fun, wrt=0, ntrax=2)(x, statevars) evaluate fun per trailing-axes batch point on (x[..., q, c], statevars[..., q, c]) and differentiate with respect to x only; tr.take(fun, item) is the item-th output (its real source is three lines and is marked under contract)",
    "C03 state wrappers: jax.vmap / pmap with tuple in_axes / out_axes = reference loop: argument k is sliced along in_axes[k], output k is stacked along out_axes[k] (an out axis beyond the rank of the output raises, as in jax)",
    "C03 state wrappers: the abstract model is psi(C, z) (uninterpreted, declared symmetric partials S = dpsi/dC, H = dS/dC, uninterpreted dpsi/dz, dS/dz), z_new = g(C, z) (uninterpreted, with uninterpreted first partials so that a differentiated state update is a visible term), T(F, z) (uninterpreted with uninterpreted first partials); a scalar keyword parameter kappa multiplies the energy / stress (static-argument path of the wrappers)",
]

NZ = 3


def inputs(vk, cfg):
    q, c = cfg.get("batch", (2, 1))
    eye = np.broadcast_to(np.eye(3).reshape(3, 3, 1, 1), (3, 3, q, c))
    F = vk.reals("F", (3, 3, q, c), near=eye, spread=0.25)
    z = vk.reals("z", (NZ, q, c), near=0.2, spread=0.3)
    kappa = vk.reals("kappa", (), near=1.3, spread=0.3)
    c11.require_det(vk, F)
    return F, z, kappa, [(a, b) for a in range(q) for b in range(c)]


def jax64():
    import jax

    jax.config.update("jax_enable_x64", True)  # paired run in float64 (felupe's default is float32)


def point_D(vk, P, F, pts):
    """D(P, F) per batch point, in the layout of the wrappers: (3, 3, 3, 3, q, c)"""
    out = np.empty((3, 3, 3, 3) + F.shape[2:], dtype=object)
    for a, b in pts:
        out[..., a, b] = vk.D(P[:, :, a, b], F[:, :, a, b])
    return out


def guarded(vk, what, f):
    """a call of the real code under the contract's preconditions must return: an exception is a violation,
    stated with a float reading (number of exceptions raised == 0) so that the native replay exhibits it"""
    try:
        r, raised, msg = f(), 0, ""
    except oracle.Undecided:
        raise
    except Exception as e:  # noqa: BLE001
        r, raised, msg = None, 1, f"{type(e).__name__}: {str(e)[:300]}"
    vk.ensures_eq(f"{what} returns (exceptions raised == 0)", np.array(LP.const(raised) if vk.sym else float(raised)), np.array(LP.const(0)))
    if raised:
        vk.ensures_true(f"{what} returns", False, "the real code raised " + msg, backend="exec")
    return r


def check_wrapper(vk, um, F, z, pts, part, spec, closed_form=None, tag="P"):
    """the obligations shared by all wrappers; spec(a, b) -> (stress (3,3), new state (NZ,)) at batch point (a, b)"""
    F0, z0 = vk.snapshot(F), vk.snapshot(z)
    res = guarded(vk, "gradient([F, statevars])", lambda: um.gradient([F, z]))
    if res is None:
        return
    vk.ensures_true("gradient returns [stress, statevars_new]", len(res) == 2, f"{len(res)} items", backend="exec")
    P, zn = res
    P, zn = np.asarray(P), np.asarray(zn)
    if vk.sym:
        Ps, zs = np.empty(F.shape, dtype=object), np.empty(z.shape, dtype=object)
        for a, b in pts:
            Ps[:, :, a, b], zs[:, a, b] = spec(a, b)
    else:
        Ps = zs = None
    vk.ensures_eq(f"stress=={tag}|z", P, Ps)
    vk.ensures_eq("statevars_new==g(.,z)/same-batch-point/not-differentiated", zn, zs)
    vk.frame_unchanged("F(gradient)", F, F0)
    vk.frame_unchanged("statevars-not-mutated(gradient)", z, z0)
    vk.ensures_true("statevars_new is a new array (does not alias the input state)", not np.shares_memory(zn, z), "", backend="exec")
    if P.shape != F.shape or zn.shape != z.shape:
        return  # refuted above (shape); nothing further can be stated
    if vk.sym:
        if len(pts) > 1:
            (a, b), (a2, b2) = pts[0], pts[1]
            vk.canary("statevars_new[batch 0]==g(., z[batch 1])", zn[:, a, b], zs[:, a2, b2])
            vk.canary("stress[batch 0]==spec[batch 1]", P[:, :, a, b], Ps[:, :, a2, b2])
        vk.canary("statevars_new==statevars (state not updated)", zn, z)
    if part == "stress":
        return
    res = guarded(vk, "hessian([F, statevars])", lambda: um.hessian([F, z]))
    if res is None:
        return
    vk.ensures_true("hessian returns [elasticity]", len(res) == 1, f"{len(res)} items", backend="exec")
    A = np.asarray(res[0])
    vk.frame_unchanged("F(hessian)", F, F0)
    vk.frame_unchanged("statevars-not-mutated(hessian)", z, z0)
    if vk.sym:
        DP = point_D(vk, P, F, pts)
        vk.ensures_eq("elasticity==D(stress,F)|z (consistent tangent of the stress update)", A, DP)
        if closed_form is not None:
            Ac = np.empty(A.shape, dtype=object)
            for a, b in pts:
                Ac[..., a, b] = closed_form(a, b)
            vk.ensures_eq("elasticity==4.F.F:d2psi/dCdC+1(x)2.dpsi/dC|z", A, Ac)
        vk.canary("elasticity==0", A, ring.lift(np.zeros(A.shape)))
    else:
        vk.ensures_eq("elasticity==D(stress,F)|z (consistent tangent of the stress update)", A, None)
        if closed_form is not None:
            vk.ensures_eq("elasticity==4.F.F:d2psi/dCdC+1(x)2.dpsi/dC|z", A, None)


# ================================================================================================
# Hyperelastic(fun, nstatevars=NZ)
HYPER_CONFIGS = (
    [dict(backend=b, part=p) for b in ("tensortrax", "jax") for p in ("stress", "elasticity")]
    + [dict(backend="jax", part="elasticity", jit=False), dict(backend="jax", part="elasticity", parallel=True, batch=(1, 2)), dict(backend="tensortrax", part="elasticity", parallel=True)]
    + [dict(backend=b, part="elasticity", batch=(2, 2)) for b in ("tensortrax", "jax")]
)


def hyper_model(vk, backend, gm, gu, log):
    if vk.sym:

        def fun(C, z, kappa):
            log.append((np.asarray(C), np.asarray(z)))
            return kappa * gm.value(C, z), gu(C, z)

        return fun
    psi_c, g_c = gm.concrete(backend), M.concrete_state_update(backend, NZ)
    if backend == "tensortrax":
        import tensortrax.math as tm

        def fun(C, z, kappa):
            zt = tm.array(z, like=C[0, 0], shape=(NZ,))  # the state arrives as a plain array with trailing axes
            return kappa * psi_c(C, zt), g_c(C, zt)

        return fun

    def fun(C, z, kappa):
        return kappa * psi_c(C, z), g_c(C, z)

    return fun


def hyper_state(vk, cfg):
    """tensortrax / jax Hyperelastic(fun, nstatevars=3) with an abstract psi(C, z), z_new = g(C, z)"""
    backend, part = cfg["backend"], cfg["part"]
    gm, gu = M.GhostStateEnergy("psi", NZ), M.ghost_state_update("g", NZ)
    log = []
    fun = hyper_model(vk, backend, gm, gu, log)
    if backend == "tensortrax":
        import tensortrax as tr

        stub = M.TensortraxStub()
        ctxs = [lambda: M.module_globals(THYP, tr=stub)]
        kw = dict(parallel=cfg.get("parallel", False))
        cls = mt.Hyperelastic
        vk.real(tr.take, alias="tensortrax.take")
    else:
        stub = M.JaxStub()
        ctxs = [lambda: M.module_globals(JHYP, jax=stub), lambda: M.rebound(JHELP.as_total_lagrange, JHELP.vmap)]
        kw = dict(parallel=cfg.get("parallel", False), jit=cfg.get("jit", True))
        cls = mj.Hyperelastic
        if not vk.sym:
            jax64()
        M.mark_real(vk, JHELP.as_total_lagrange)
        M.mark_real(vk, JHELP.vmap)
        M.mark_real(vk, JHELP.vmap2)
    for m in ("_stress", "_elasticity", "__init__"):
        vk.real(getattr(cls, m), alias=f"felupe.constitution.{backend}._hyperelastic.Hyperelastic.{m}")
    F, z, kappa, pts = inputs(vk, cfg)

    def C_(a, b):
        Fp = F[:, :, a, b]
        return Fp.T @ Fp

    def spec(a, b):
        return F[:, :, a, b] @ (2 * kappa * gm.S(C_(a, b), z[:, a, b])), gu(C_(a, b), z[:, a, b])

    def closed(a, b):
        Fp, C = F[:, :, a, b], C_(a, b)
        return 4 * kappa * symnp.ref_einsum("iI,kK,IJKL->iJkL", Fp, Fp, gm.H(C, z[:, a, b])) + 2 * kappa * symnp.ref_einsum("ik,JL->iJkL", ring.lift(np.eye(3)), gm.S(C, z[:, a, b]))

    with c11.sym_ctx(vk, *ctxs):
        um = guarded(vk, "Hyperelastic(fun, nstatevars=3, **kwargs)", lambda: cls(fun, nstatevars=NZ, kappa=kappa, **kw))
        if um is None:
            return
        vk.ensures_true("nstatevars is stored", um.nstatevars == NZ, "", backend="exec")
        check_wrapper(vk, um, F, z, pts, part, spec, closed, tag="F.2.dpsi/dC")
        if vk.sym:
            # every evaluation of the model saw (F^T F, z) of one and the same batch point.  The jax stubs execute
            # the model at the point itself; the tensortrax stub executes it on fresh variables and substitutes,
            # so there the argument of the AD entry points (stub.args) is compared and the state of each call
            same = lambda x, y: all(ring.iszero(co(u) - co(v)) for u, v in zip(np.asarray(x).ravel(), np.asarray(y).ravel()))  # noqa: E731
            ok = len(log) > 0
            if backend == "tensortrax":
                Cb = np.empty(F.shape, dtype=object)
                for a, b in pts:
                    Cb[:, :, a, b] = C_(a, b)
                ok = ok and len(stub.args) > 0 and all(np.shape(x) == Cb.shape and same(x, Cb) for x in stub.args)
                ok = ok and all(any(same(zl, z[:, a, b]) for a, b in pts) for _, zl in log)
            else:
                ok = ok and all(any(same(Cl, C_(a, b)) and same(zl, z[:, a, b]) for a, b in pts) for Cl, zl in log)
            vk.ensures_true("model-is-fed-with (F^T.F, z) of one batch point in every call", bool(ok), f"{len(log)} calls", backend="ring")

contract("C03", "ad_wrapper_state", configs=HYPER_CONFIGS)(hyper_state)


# ================================================================================================
# Material(fun, nstatevars=NZ) directly and through total_lagrange / updated_lagrange
MAT_CONFIGS = [dict(backend=b, wrap=w) for b in ("tensortrax", "jax") for w in ("none", "total_lagrange", "updated_lagrange")] + [dict(backend="jax", wrap="none", jit=False), dict(backend="jax", wrap="total_lagrange", parallel=True, batch=(1, 2))] + [dict(backend=b, wrap="updated_lagrange", batch=(2, 2)) for b in ("tensortrax", "jax")]


def material_state(vk, cfg):
    """tensortrax / jax Material(fun, nstatevars=3), fun = T | total_lagrange(T) | updated_lagrange(T) with an
    abstract tensor function T(F, z) and state update g(F, z)"""
    backend, wrap = cfg["backend"], cfg["wrap"]
    gt, gu = M.ghost_state_tensor("T", NZ), M.ghost_state_update("g", NZ)
    TLm, ULm, MATm = (TTL, TUL, TMAT) if backend == "tensortrax" else (JTL, JUL, JMAT)
    Mat = mt.Material if backend == "tensortrax" else mj.Material
    for m in ("_stress", "_elasticity", "__init__"):
        vk.real(getattr(Mat, m), alias=f"felupe.constitution.{backend}._material.Material.{m}")
    if vk.sym:

        def material(F, z, kappa):
            return kappa * gt(F, z).reshape(3, 3), gu(F, z)

    else:
        T_c, g_c = M.concrete_state_tensor(), M.concrete_state_update(backend, NZ)
        if backend == "tensortrax":
            import tensortrax.math as tm

            def material(F, z, kappa):
                zt = tm.array(z, like=F[0, 0], shape=(NZ,))
                return kappa * T_c(F, zt), g_c(F, zt)

        else:
            jax64()

            def material(F, z, kappa):
                return kappa * T_c(F, z), g_c(F, z)

    if wrap == "none":
        fun = material
    else:
        deco = getattr(TLm if wrap == "total_lagrange" else ULm, wrap)
        M.mark_real(vk, deco, alias=f"{deco.__module__}.{wrap}")
        fun = deco(material)
    if backend == "tensortrax":
        import tensortrax as tr

        vk.real(tr.take, alias="tensortrax.take")
        stub = M.TensortraxStub()
        ctxs = [lambda: M.module_globals(MATm, tr=stub), lambda: M.rebound(fun)]
        kw = dict(parallel=cfg.get("parallel", False))
    else:
        stub = M.JaxStub()
        ctxs = [lambda: M.module_globals(MATm, jax=stub), lambda: M.rebound(fun, JHELP.vmap)]
        kw = dict(parallel=cfg.get("parallel", False), jit=cfg.get("jit", True))
        M.mark_real(vk, JHELP.vmap)
        M.mark_real(vk, JHELP.vmap2)
    F, z, kappa, pts = inputs(vk, cfg)

    def spec(a, b):
        Fp, zp = F[:, :, a, b], z[:, a, b]
        T = kappa * gt(Fp, zp).reshape(3, 3)
        if wrap == "total_lagrange":
            P = Fp @ T
        elif wrap == "updated_lagrange":
            P = det_ref(Fp) * (T @ inv_ref(Fp).T)
        else:
            P = T
        return P, gu(Fp, zp)

    with c11.sym_ctx(vk, *ctxs):
        um = guarded(vk, "Material(fun, nstatevars=3, **kwargs)", lambda: Mat(fun, nstatevars=NZ, kappa=kappa, **kw))
        if um is None:
            return
        check_wrapper(vk, um, F, z, pts, "elasticity", spec, None, tag={"none": "T(F,z)", "total_lagrange": "F.T(F,z)", "updated_lagrange": "det(F).T(F,z).F^-T"}[wrap])


contract("C03", "ad_material_state", configs=MAT_CONFIGS)(material_state)


# ================================================================================================
# the real model function finite_strain_viscoelastic (tensortrax): documented update, energy at the updated state
@contract("C03", "model_viscoelastic", configs=[dict(state="general"), dict(state="virgin")])
def model_viscoelastic(vk, cfg):
    """finite_strain_viscoelastic(C, Cin, mu, eta, dtime) -> (psi, state): as documented (Eq. `evolution`, `nh-w`)
        C^ = det(C)^(-1/3) C,   C_i = unimodular part of (C_i,n + dt mu/eta C^),   state = triu_1d(C_i),
        psi = mu/2 (tr(C^ C_i^-1) - 3)  with the UPDATED C_i"""
    f = TT.finite_strain_viscoelastic
    M.mark_real(vk, f, alias="felupe.constitution.tensortrax.models.hyperelastic.finite_strain_viscoelastic")
    C = M.sym_matrix(vk, "C", spread=0.15)
    if cfg["state"] == "general":
        near = [[1.1, 0.05, 0.0], [0.05, 0.9, 0.1], [0.0, 0.1, 1.05]]
        Cn = M.sym_matrix(vk, "Cin", near=near, spread=0.05)
    else:
        Cn = ring.lift(np.eye(3)) if vk.sym else np.eye(3)
    mu, eta, dt = (vk.reals(n, (), near=v, spread=0.2) for n, v in (("mu", 1.0), ("eta", 2.0), ("dtime", 0.5)))
    for p in (mu, eta, dt):
        vk.requires(p, ">")
    vk.requires(det_ref(C), ">")
    tri = [(0, 0), (0, 1), (0, 2), (1, 1), (1, 2), (2, 2)]
    # the state vector may be longer than 6 (the model reads Cin[:6]): one trailing junk entry
    junk = vk.reals("junk", (), near=0.3)
    if vk.sym:
        Cin = np.array([Cn[i, j] for i, j in tri] + [junk], dtype=object)
        Cin0 = vk.snapshot(Cin)
        with M.rebound(f):
            psi, st = f(C, Cin, mu, eta, dt)
        psi, st = co(psi), np.asarray(st, dtype=object)
        vk.frame_unchanged("Cin-not-mutated", Cin, Cin0)
        # specification (docstring), with exact cube roots
        Chat = ring.nthroot(det_ref(C), 3) ** -1 * C
        X = Cn + (dt * mu / eta) * Chat
        M.require_domain(vk)  # det(C_i,n + dt mu/eta C^) > 0: the domain of the model's own cube root
        Ci = ring.nthroot(det_ref(X), 3) ** -1 * X
        vk.ensures_true("state has the 6 upper-triangle components", st.shape == (6,), f"shape {st.shape}", backend="exec")
        vk.ensures_eq("state==triu(unimodular(C_i,n+dt.mu/eta.C^))", st, np.array([Ci[i, j] for i, j in tri], dtype=object))
        Cnew = M.r_from_triu_1d(st)
        vk.ensures_eq("det(C_i,new)==1 (documented constraint)", det_ref(Cnew), LP.const(1))
        # proportional to the documented trial value (independent of how the cube root is written)
        vk.ensures_eq("C_i,new is proportional to C_i,n+dt.mu/eta.C^", np.array([Cnew[i, j] * X[0, 0] - Cnew[0, 0] * X[i, j] for i, j in tri], dtype=object), ring.lift(np.zeros(6)))
        I1 = sum((Chat @ inv_ref(Cnew))[i, i] for i in range(3))
        vk.ensures_eq("psi==mu/2.(tr(C^.C_i,new^-1)-3) (energy at the UPDATED internal variable)", psi, mu / 2 * (I1 - 3))
        I1old = sum((Chat @ inv_ref(Cn))[i, i] for i in range(3))
        vk.canary("psi==mu/2.(tr(C^.C_i,n^-1)-3) (energy at the OLD internal variable)", psi, mu / 2 * (I1old - 3))
        vk.canary("state==old state", st, Cin[:6])
    else:
        import tensortrax as tr

        Cin = np.array([Cn[i, j] for i, j in tri] + [junk])
        Cin0 = Cin.copy()
        psi = tr.function(tr.take(f, 0))(C, Cin, mu, eta, dt)
        st = tr.function(tr.take(f, 1))(C, Cin, mu, eta, dt)
        vk.frame_unchanged("Cin-not-mutated", Cin, Cin0)
        vk.ensures_eq("state==triu(unimodular(C_i,n+dt.mu/eta.C^))", st, None)
        Cnew = np.array([[st[tri.index((min(i, j), max(i, j)))] for j in range(3)] for i in range(3)])
        vk.ensures_eq("det(C_i,new)==1 (documented constraint)", np.linalg.det(Cnew), None)
        vk.ensures_eq("psi==mu/2.(tr(C^.C_i,new^-1)-3) (energy at the UPDATED internal variable)", psi, None)


