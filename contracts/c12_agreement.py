"""C12 -- independent implementations of the same constitutive model agree; documented initial moduli.

backends    every jax model function vs its tensortrax namesake: both real functions executed on the same
            symbolic C, psi_jax == psi_tt (equal energies => equal stress and elasticity under the AD
            contracts).  Invariant-based models on a full symmetric C; principal-stretch models (storakers,
            extended_tube) on the diagonal restriction C = diag(a,b,c), a,b,c > 0 (both are proved isotropic
            in C11), with jax' literal eigenvalue perturbation diag(0,+-1e-4) replaced by 0.  Real exponents
            (storakers alpha / beta, extended_tube beta, micro-sphere p / q) are universally quantified symbols
            in the `*=real` configurations; the micro-sphere model (not exactly isotropic) is then compared on
            the full symmetric C as well.
handcoded   NeoHooke(mu) vs neo_hooke (both back ends): energy, stress and elasticity on symbolic F;
            OgdenRoxburgh(NeoHooke(mu)) vs tensortrax ogden_roxburgh(neo_hooke): stress and history.
linear      LinearElastic == LinearElasticTensorNotation == MaterialStrain(linear_elastic) via lame_converter;
            plane stress / plane strain vs the 3D law under sigma_33 = 0 / eps_33 = 0; LinearElasticOrthotropic
            vs the engineering compliance and vs the orthotropic SVK tangent via lame_converter_orthotropic.
moduli      initial tangent at F = I == isotropic linear-elastic tangent with the moduli the *docstring* states
            (table DOC below, transcribed from the docstrings -- not from the code); closed forms in the
            symbolic parameters *and exponents* (`*=real` configurations: ogden, lopez_pamies, storakers,
            extended_tube, saint_venant_kirchhoff k).  tensortrax `alexander` (hand-built dual number, energy value
            not evaluated) under the AD contract of vk/handdual.py: mu0 = 2 (C1 + C2/gamma + C3) for all C1, C2, C3,
            gamma > 0, k.
"""
import itertools
from fractions import Fraction as Fr

import numpy as np

import felupe as fem
import felupe.constitution.jax as mj
import felupe.constitution.jax.models.hyperelastic as JX
import felupe.constitution.linear_elasticity._lame_converter as LAME
import felupe.constitution.tensortrax as mt
import felupe.constitution.tensortrax.models.hyperelastic as TT
from vk import handdual as HD
from vk import models as M
from vk import oracle, ring, symnp
from vk.core import Skip, contract
from vk.ring import LP, co
from vk.symnp import det_ref, inv_ref, ref_einsum

from .c11_objectivity import EYE, JAX_PERTURBED, _par, dual_consistent, get_model, major_T, model_ctx, native_kw, require_det, sym_F

TRUSTED = M.TRUSTED + HD.TRUSTED + [
    "C12: numpy.linalg.inv imported by _lame_converter.py is rebound to the exact adjugate/determinant inverse (assumed dependency contract)",
    "C12: jax principal-stretch models (storakers, extended_tube) are compared with their tensortrax namesakes with jax' literal eigenvalue perturbation diag(0, +-1e-4) replaced by 0 (identity at perturbation 0; the deviation with the literal is of the documented size 1e-4); van_der_waals' literal regularisation Im += 1e-4 is kept (identical in both back ends) and replaced by a symbol eps for the documented modulus (closed form in eps, equal to the documented mu at eps = 0)",
    "C12 lemma (A6): two isotropic energies agree iff their restrictions to C = diag(a,b,c), a,b,c>0 agree; an isotropic fourth-order tensor with minor and major symmetry is fixed by (lambda, mu), so the initial tangent of an isotropic model is the linear-elastic tangent with mu0 = 2(psi_aa - psi_ab) + psi_a, K0 = 4 psi_ab + 2/3 mu0 at a=b=c=1",
    "C12: fractional powers of monomials in positive quantities are canonicalised ((x^2)^(3/4) = (x^(1/2))^3 = x^(3/2); roots of one base unified to the common root) -- sound rewriting under the recorded positivity facts (vk/models.py nthroot_canonical, unify_roots)",
    "C12: powers with a symbolic real exponent are canonicalised by identities of positive reals: pw(c prod g_i^e_i, x) = pw(c, x) prod pw(g_i, e_i x) for positive factors, pw(root(p, n), x) = pw(p, x/n), pw(p, -x) = 1/pw(p, x), pw(p, x + c) = pw(p, x) p^c, and atoms pw(p, s_i x) of one base are unified to the common scale gcd(s_i) (vk/ring.py powatom, vk/models.py powatom_canonical, unify_pows; each rule is cross-checked against sympy by the kernel self-test)",
    "C12: real exponents: in the `*=real` configurations the exponents are universally quantified reals (no assumption on them except the denominators the executed code divides by, listed as side conditions): backends -- storakers alpha_i / beta_i, extended_tube beta, miehe_goektepe_lulei p / q (psi_jax == psi_tensortrax for all exponent values); moduli -- ogden alpha_i, lopez_pamies alpha_r, storakers alpha_i / beta_i, extended_tube beta, saint_venant_kirchhoff k (k != 2, k != 0: the code branches on these two values, which are separate configurations).  The rational instantiations are kept as additional configurations (root-atom path).  Still instantiated / not reached: the MORPH Lagrange models (bounded native stand-ins), saint_venant_kirchhoff_orthotropic k != 2 (eigh eigenvectors)",
    "C12: alexander (tensortrax; energy value not evaluated, hand-built dual number): executed symbolically under the AD contract of vk/handdual.py (psi = C1.W(I1) + ... with the contract atom W, dW/dI1 = exp(k (I1-3)^2)); the documented initial shear modulus is decided from the first and second derivatives through the declared partial (D of the atom is A dI1, D again differentiates A); that the dual parts as built are the variations of W(I1) is discharged in C11/model_other[model=alexander,part=dual] and re-checked (formal check) in the moduli configuration",
]

TRI = [(i, j) for i in range(3) for j in range(i, 3)]


def zero_eq(vk, clause, lhs, rhs):
    """obligation lhs == rhs decided on the unified-root / unified-power form of the difference"""
    if vk.sym:
        d = np.asarray(np.asarray(lhs, dtype=object) - np.asarray(rhs, dtype=object), dtype=object)
        out = np.empty(d.shape, dtype=object)
        for i in np.ndindex(*d.shape):
            out[i] = M.unify(d[i])
        vk.ensures_zero(clause, out if out.ndim else out[()])
    else:
        vk.ensures_zero(clause, np.asarray(lhs, dtype=float) - np.asarray(rhs, dtype=float))


# ================================================================================================
# jax vs tensortrax
SHARED = {
    "neo_hooke": ([""], []),
    "mooney_rivlin": ([""], []),
    "yeoh": ([""], []),
    "third_order_deformation": ([""], []),
    "blatz_ko": ([""], []),
    "van_der_waals": ([""], []),
    "storakers": (["a=real(2),b=real(2)", "a=real(3),b=real(3)", "a=(3/2,-2),b=(1/2,1/3)"], ["a=(2),b=(1)", "a=(9/2,-9/2),b=(92/100,92/100)", "a=(1,4,-1/2),b=(1/3,2,1)"]),
    "extended_tube": (["b=real", "b=1/2"], ["b=1", "b=1/5", "b=2", "b=3/4"]),
    "miehe_goektepe_lulei": (["p=real,q=real", "p=2,q=2"], ["p=4,q=1", "p=3/2,q=1/2"]),
}
BACKEND_CONFIGS = []
for _n, (_q, _t) in SHARED.items():
    BACKEND_CONFIGS += [dict(model=_n, variant=v) for v in _q] + [dict(model=_n, variant=v, tier="thorough") for v in _t]


BACKEND_CONFIGS.append(dict(model="native-lagrange", variant=""))


def _fr_list(vk, txt):
    return [_ex(vk, x) for x in txt.strip("()").split(",")]


def _ex(vk, x):
    """exponent: exact ring constant symbolically (A1), float natively"""
    return LP.const(Fr(x)) if vk.sym else float(Fr(x))


def shared_params(vk, name, variant):
    p = lambda n, near=1.0: _par(vk, n, near)  # noqa: E731
    if "real" in variant:
        from .c11_objectivity import real_exponent_params

        return real_exponent_params(vk, name, variant)
    if name == "storakers":
        a_, b_ = variant.split("),b=(")
        al, be = _fr_list(vk, a_[2:] + ")"), _fr_list(vk, "(" + b_)
        return dict(mu=[p(f"mu{i}") for i in range(len(al))], alpha=al, beta=be)
    if name == "extended_tube":
        return dict(Gc=p("Gc"), delta=vk.reals("delta", (), near=0.1, spread=0.05), Ge=p("Ge", 0.5), beta=_ex(vk, variant[2:]))
    if name == "miehe_goektepe_lulei":
        pq = dict(x.split("=") for x in variant.split(","))
        return dict(mu=p("mu"), N=p("N", 20.0), U=p("U", 5.0), p=_ex(vk, pq["p"]), q=_ex(vk, pq["q"]))
    from .c11_objectivity import model_params

    return model_params(vk, name, variant)


def run_both(vk, name, C, kw):
    """(psi_jax, psi_tt) of the two real functions on the same argument"""
    fj, ft = getattr(JX, name), getattr(TT, name)
    if name in JAX_PERTURBED:
        fj, n = M.with_literal(fj, JAX_PERTURBED[name], LP() if vk.sym else 0.0)
        if vk.sym:
            vk.ensures_true("eigenvalue-perturbation-literal-found", n == 2 and abs(JAX_PERTURBED[name]) <= 1e-4, f"{n} occurrences of +-{JAX_PERTURBED[name]} replaced by 0")
    if not vk.sym:
        import jax
        import tensortrax as tr

        jax.config.update("jax_enable_x64", True)
        try:
            Cf = np.asarray(C, dtype=float)
            return float(fj(jax.numpy.asarray(Cf), **native_kw(kw))), float(tr.function(ft, wrt=0, ntrax=0)(Cf, **native_kw(kw)))
        except Exception as e:
            raise Skip(f"native evaluation failed: {type(e).__name__}: {str(e)[:100]}")
    with M.rebound(fj, ft):
        return co(fj(C, **kw)), co(ft(C, **kw))


@contract("C12", "backends", configs=BACKEND_CONFIGS)
def backends(vk, cfg):
    """psi_jax(C) == psi_tensortrax(C) for all C in the domain, all parameters"""
    name, variant = cfg["model"], cfg["variant"]
    oracle.TIMEOUT_MS = 1500
    if name == "native-lagrange":
        if vk.sym:
            _native_lagrange(vk)
        return
    M.mark_real(vk, getattr(JX, name), alias=f"felupe.constitution.jax.models.hyperelastic.{name}")
    M.mark_real(vk, getattr(TT, name), alias=f"felupe.constitution.tensortrax.models.hyperelastic.{name}")
    kw = shared_params(vk, name, variant)
    eig = name in ("storakers", "extended_tube")
    with M.canonical_roots() if vk.sym else _null():
        if not eig and (name != "miehe_goektepe_lulei" or cfg.get("full", "real" in variant)):
            s0 = 1.25 if name == "van_der_waals" else 1.0
            C = M.sym_matrix(vk, "C", near=[[s0 if i == j else 0.0 for j in range(3)] for i in range(3)], spread=0.12)
            vk.requires(det_ref(C), ">")  # C = F^T F with det F > 0
            pj, pt = run_both(vk, name, C, kw)
            zero_eq(vk, "psi_jax(C)==psi_tensortrax(C)/symmetric-C", pj, pt)
            if vk.sym:
                vk.canary("psi_jax(C)==2.psi_tensortrax(C)", pj, 2 * pt + 1)
        Cd, (a, b, c) = M.diag_matrix(vk, spread=0.25)
        for x in (a, b, c):
            vk.requires(x, ">")
        pj, pt = run_both(vk, name, Cd, kw)
        zero_eq(vk, "psi_jax(C)==psi_tensortrax(C)/C=diag(a,b,c)", pj, pt)
        if vk.sym:
            vk.canary("diag/psi_jax==2.psi_tensortrax", pj, 2 * pt + 1)
    vk.note("model contracts are stated on the domain of the executed model code (bases of roots / arguments of log positive, denominators non-zero: listed as assumed side conditions)")


def _native_lagrange(vk):
    """jax vs tensortrax MORPH Lagrange models (expm, eigvalsh of general arguments, jax eigenvalue perturbation
    1e-4): bounded native comparison, labelled, not counted"""
    import jax

    import felupe.constitution.jax.models.lagrange as JL
    import felupe.constitution.tensortrax.models.lagrange as TL

    jax.config.update("jax_enable_x64", True)
    pm = [0.039, 0.371, 0.174, 2.41, 0.0094, 6.84, 5.65, 0.244]
    rng = np.random.RandomState(11)
    with symnp.native():
        for nm, ns, sv in (("morph", 13, None), ("morph_representative_directions", 84, np.zeros((84, 1, 1)))):
            try:
                if sv is None:
                    sv = np.zeros((13, 1, 1))
                    sv[[1, 4, 6]] = 1.0
                ut = mt.Material(getattr(TL, nm), nstatevars=ns, p=pm)
                uj = mj.Material(getattr(JL, nm), nstatevars=ns, p=pm)
                worst = 0.0
                for _ in range(4):
                    F = (np.eye(3) + rng.rand(3, 3) / 5).reshape(3, 3, 1, 1)
                    Pt, st = ut.gradient([F, sv])
                    Pj, sj = uj.gradient([F, sv])
                    worst = max(worst, float(np.abs(np.asarray(Pj) - Pt).max() / np.abs(Pt).max()), float(np.abs(np.asarray(sj) - st).max() / max(1.0, np.abs(st).max())))
                vk.bounded_standin(f"lagrange.{nm}: jax stress and state update == tensortrax (native float, relative)", "4 random F at the virgin state, tolerance 1e-4 (jax eigenvalue perturbation 1e-4)", 4, worst < 1e-4, f"max relative deviation {worst:.2e}")
            except Exception as e:  # pragma: no cover
                vk.bounded_standin(f"lagrange.{nm}: native comparison failed", "-", 0, False, f"{type(e).__name__}: {str(e)[:120]}")
        # histories (state variables carried from step to step): coaxial load - unload - reload (Mullins history
        # variable, additional stresses), and a non-coaxial step (uniaxial stretch followed by simple shear)
        try:
            sv0 = np.zeros((13, 1, 1))
            sv0[[1, 4, 6]] = 1.0
            ut = mt.Material(TL.morph, nstatevars=13, p=pm)
            uj = mj.Material(JL.morph, nstatevars=13, p=pm)
            uni = lambda lam: np.diag([lam, lam**-0.5, lam**-0.5]).reshape(3, 3, 1, 1)
            worst, st, sj = 0.0, sv0, sv0
            path = (1.3, 1.8, 1.5, 1.2, 1.4, 2.0, 1.1)
            for lam in path:
                Pt, st = ut.gradient([uni(lam), st])
                Pj, sj = uj.gradient([uni(lam), np.asarray(sj)])
                worst = max(worst, float(np.abs(np.asarray(Pj) - Pt).max() / np.abs(Pt).max()), float(np.abs(np.asarray(sj) - st).max() / max(1.0, np.abs(st).max())))
            vk.bounded_standin("lagrange.morph: jax == tensortrax along a coaxial load-unload-reload history, each backend carrying its own state (stress and state, native float, relative)", f"uniaxial stretches {path}, tolerance 2e-2 (jax eigenvalue perturbation 1e-4 enters the rate term)", len(path), worst < 2e-2, f"max relative deviation {worst:.2e}")
            worst = 0.0
            for lam, gam in ((1.5, 0.4), (1.2, -0.3)):
                F1 = uni(lam)
                s1 = ut.gradient([F1, sv0])[1]
                F2 = (np.array([[1.0, gam, 0.0], [0.0, 1.0, 0.0], [0.0, 0.0, 1.0]]) @ F1[..., 0, 0]).reshape(3, 3, 1, 1)
                Pt, Pj = ut.gradient([F2, s1])[0], np.asarray(uj.gradient([F2, s1])[0])
                worst = max(worst, float(np.abs(Pj - Pt).max() / np.abs(Pt).max()))
            vk.bounded_standin("lagrange.morph: jax == tensortrax after a non-coaxial two-step history (stress, native float, relative)", "2 histories: uniaxial stretch then simple shear, same stored state handed to both, tolerance 2e-2", 2, worst < 2e-2, f"max relative deviation {worst:.2e}")
        except Exception as e:  # pragma: no cover
            vk.bounded_standin("lagrange.morph: native history comparison failed", "-", 0, False, f"{type(e).__name__}: {str(e)[:120]}")
    vk.note("not decided: agreement of the jax and tensortrax MORPH Lagrange models (bounded native stand-in only)")


class _null:
    def __enter__(s):
        return s

    def __exit__(s, *a):
        return False


# ================================================================================================
# hand-coded vs AD model functions
HAND_CONFIGS = [dict(pair="NeoHooke~neo_hooke", backend="tensortrax"), dict(pair="NeoHooke~neo_hooke", backend="jax"), dict(pair="OgdenRoxburgh~ogden_roxburgh", path="primary"), dict(pair="OgdenRoxburgh~ogden_roxburgh", path="unloading")]


@contract("C12", "handcoded", configs=HAND_CONFIGS)
def handcoded(vk, cfg):
    """hand-coded NeoHooke / OgdenRoxburgh vs the AD model functions: energy, stress (and elasticity) agree on
    symbolic F, under the AD contract (stress = D(energy), P = F 2 dpsi/dC)"""
    if not vk.sym:
        return _handcoded_native(vk, cfg)
    with M.canonical_roots():
        _handcoded_sym(vk, cfg)


def _handcoded_sym(vk, cfg):
    F = sym_F(vk)
    require_det(vk, F)
    mu = _par(vk, "mu")
    Fq = F[:, :, 0, 0]
    C = Fq.T @ Fq
    J = det_ref(Fq)
    M.hint_power(det_ref(C), J, 2)  # det(F^T F) == det(F)^2, det F > 0: fractional powers of both are the same term
    hand = vk.real(fem.NeoHooke)(mu=mu)
    vk.real(fem.NeoHooke.function)
    vk.real(fem.NeoHooke.gradient)
    vk.real(fem.NeoHooke.hessian)
    if cfg["pair"] == "NeoHooke~neo_hooke":
        f = get_model(cfg["backend"], "neo_hooke")
        M.mark_real(vk, f, alias=f"felupe.constitution.{cfg['backend']}.models.hyperelastic.neo_hooke")
        with M.rebound(f):
            psi = co(f(C, mu=mu))
        W = hand.function([F.copy(), None])[0]
        vk.ensures_eq("energy/W_hand(F)==psi(F^T.F)", W[0, 0], psi)
        P = hand.gradient([F.copy(), None])[0]
        Pad = vk.D(psi, Fq)
        vk.ensures_eq("stress/P_hand(F)==D(psi(F^T.F),F)", P[:, :, 0, 0], Pad)
        A = hand.hessian([F.copy(), None])[0]
        vk.ensures_eq("elasticity/A_hand(F)==D(D(psi(F^T.F),F),F)", A[..., 0, 0], vk.D(Pad, Fq))
        vk.canary("P_hand==2.P_ad", P[:, :, 0, 0], 2 * Pad)
    else:
        path = cfg["path"]
        vk.real(fem.OgdenRoxburgh.gradient)
        M.mark_real(vk, TT.ogden_roxburgh, alias="felupe.constitution.tensortrax.models.hyperelastic.ogden_roxburgh")
        M.mark_real(vk, TT.neo_hooke, alias="felupe.constitution.tensortrax.models.hyperelastic.neo_hooke")
        r, m, beta = _par(vk, "r", 3.0), _par(vk, "m"), vk.reals("beta", (), near=0.3, spread=0.2)
        for x, op in ((r, ">"), (m, ">"), (beta, ">=")):
            vk.requires(x, op)
        sv = vk.reals("Wmax_n", (1, 1, 1), near=-1.0 if path == "primary" else 6.0, spread=0.5)
        um = vk.real(fem.OgdenRoxburgh)(hand, r=r, m=m, beta=beta)
        W = hand.function([F, None])[0]
        vk.requires((W - sv[0])[0, 0], ">" if path == "primary" else "<")
        vk.requires((m + beta * (W if path == "primary" else sv[0]))[0, 0], ">")
        with M.np_overrides(maximum=M.np_maximum):
            P, svn = um.gradient([F.copy(), sv.copy()])
        with M.rebound(TT.ogden_roxburgh, TT.neo_hooke):
            Wad = co(TT.neo_hooke(C, mu=mu))
            eta, hist = TT.ogden_roxburgh(C, sv[:, 0, 0], material=TT.neo_hooke, r=r, m=m, beta=beta, mu=mu)
        eta = np.asarray(eta).ravel()[0]
        # AD contract of real_to_dual(eta, W): dpsi = eta dW  =>  P = F . 2 eta dW/dC = eta D(W(F^T F), F)
        vk.ensures_eq("stress/P_hand(F)==eta_ad.D(W_ad(F^T.F),F)", P[:, :, 0, 0], eta * vk.D(Wad, Fq))
        vk.ensures_eq("history/Wmax_hand==Wmax_ad", np.asarray(svn)[:, 0, 0], np.asarray(hist).ravel())
        # elasticity of the AD version = D of its stress at fixed stored state (AD contract): the hand-coded
        # tangent must agree with it
        vk.real(fem.OgdenRoxburgh.hessian)
        with M.np_overrides(maximum=M.np_maximum):
            A = um.hessian([F.copy(), sv.copy()])[0]
        vk.ensures_eq("elasticity/A_hand(F)==D(eta_ad.D(W_ad(F^T.F),F),F)", A[..., 0, 0], vk.D(eta * vk.D(Wad, Fq), Fq))
        vk.canary("P_hand==D(W_ad)-without-softening" if path == "unloading" else "P_hand==0", P[:, :, 0, 0], vk.D(Wad, Fq) if path == "unloading" else 0 * P[:, :, 0, 0])


def _handcoded_native(vk, cfg):
    """paired native run: the real classes with the real AD back ends"""
    F = sym_F(vk)
    require_det(vk, F)
    mu = _par(vk, "mu")
    hand = fem.NeoHooke(mu=mu)
    if cfg["pair"] == "NeoHooke~neo_hooke":
        if cfg["backend"] == "jax":
            import jax

            jax.config.update("jax_enable_x64", True)
            ad = mj.Hyperelastic(JX.neo_hooke, mu=mu)
        else:
            ad = mt.Hyperelastic(TT.neo_hooke, mu=mu)
        vk.ensures_eq("stress/P_hand(F)==D(psi(F^T.F),F)", hand.gradient([F, None])[0][:, :, 0, 0], 0)
        vk.ensures_eq("elasticity/A_hand(F)==D(D(psi(F^T.F),F),F)", hand.hessian([F, None])[0][..., 0, 0], 0)
        # the AD classes must give the same numbers (cross-check of the AD contract itself)
        dP = np.abs(np.asarray(ad.gradient([F, None])[0]) - hand.gradient([F, None])[0]).max()
        dA = np.abs(np.asarray(ad.hessian([F, None])[0]) - hand.hessian([F, None])[0]).max()
        if max(dP, dA) > 1e-9:
            raise AssertionError(f"native AD class deviates from the hand-coded model: dP={dP:.2e} dA={dA:.2e}")
    else:
        path = cfg["path"]
        r, m, beta = _par(vk, "r", 3.0), _par(vk, "m"), vk.reals("beta", (), near=0.3, spread=0.2)
        sv = vk.reals("Wmax_n", (1, 1, 1), near=-1.0 if path == "primary" else 6.0, spread=0.5)
        um = fem.OgdenRoxburgh(hand, r=r, m=m, beta=beta)
        W = hand.function([F, None])[0]
        vk.requires((W - sv[0])[0, 0], ">" if path == "primary" else "<")
        P, svn = um.gradient([F.copy(), sv.copy()])
        vk.ensures_eq("stress/P_hand(F)==eta_ad.D(W_ad(F^T.F),F)", P[:, :, 0, 0], 0)
        vk.ensures_eq("history/Wmax_hand==Wmax_ad", np.asarray(svn)[:, 0, 0], 0)
        vk.ensures_eq("elasticity/A_hand(F)==D(eta_ad.D(W_ad(F^T.F),F),F)", um.hessian([F.copy(), sv.copy()])[0][..., 0, 0], 0)
        ad = mt.Hyperelastic(TT.ogden_roxburgh, nstatevars=1, material=TT.neo_hooke, r=r, m=m, beta=beta, mu=mu)
        Pad, svad = ad.gradient([F.copy(), sv.copy()])
        if np.abs(np.asarray(Pad) - P).max() > 1e-9 or np.abs(np.asarray(svad) - svn).max() > 1e-9:
            raise AssertionError("native tensortrax ogden_roxburgh deviates from the hand-coded OgdenRoxburgh")


# ================================================================================================
# linear elasticity
LIN_CONFIGS = [dict(case=c) for c in ("3d-variants", "plane-stress", "plane-strain", "orthotropic-compliance", "orthotropic-svk", "orthotropic-svk-rotated", "lame")]


def _voigt(A):
    idx = [(0, 0), (1, 1), (2, 2), (0, 1), (1, 2), (0, 2)]
    out = np.empty((6, 6), dtype=A.dtype)
    for a, (i, j) in enumerate(idx):
        for b, (k, l) in enumerate(idx):
            out[a, b] = A[i, j, k, l]
    return out


@contract("C12", "linear", configs=LIN_CONFIGS)
def linear(vk, cfg):
    """the linear-elastic laws agree with each other for all E, nu (G), all displacement gradients"""
    case = cfg["case"]
    E = vk.reals("E", (), near=2.0, spread=0.5)
    nu = vk.reals("nu", (), near=0.3, spread=0.1)
    if case == "lame":
        vk.real(fem.constitution.lame_converter)
        lm, mu = fem.constitution.lame_converter(E, nu)
        # defining relations of the Lame parameters: E = mu(3 lm + 2 mu)/(lm + mu), nu = lm / (2 (lm + mu))
        vk.ensures_eq("E==mu(3.lmbda+2.mu)/(lmbda+mu)", mu * (3 * lm + 2 * mu), E * (lm + mu))
        vk.ensures_eq("nu==lmbda/(2(lmbda+mu))", lm, nu * 2 * (lm + mu))
        vk.ensures_eq("mu==E/(2(1+nu))", mu * 2 * (1 + nu), E)
        vk.canary("lmbda==mu", lm, mu)
        return
    if case == "3d-variants":
        F = sym_F(vk)
        a, b = vk.real(fem.LinearElastic)(E, nu), vk.real(fem.constitution.LinearElasticTensorNotation)(E, nu)
        for cls in (fem.LinearElastic, fem.constitution.LinearElasticTensorNotation):
            vk.real(cls.gradient)
            vk.real(cls.hessian)
        vk.real(fem.MaterialStrain.gradient)
        vk.real(fem.MaterialStrain.hessian)
        vk.real(fem.MaterialStrain.extract)
        vk.real(fem.linear_elastic)
        vk.real(fem.constitution.lame_converter)
        lm, mu = fem.constitution.lame_converter(E, nu)
        c = fem.MaterialStrain(material=fem.linear_elastic, λ=lm, μ=mu)
        z = ring.lift(np.zeros((18, 1, 1))) if vk.sym else np.zeros((18, 1, 1))
        Pa, Pb, Pc = a.gradient([F, None])[0], b.gradient([F, None])[0], c.gradient([F, z])[0]
        vk.ensures_eq("stress/LinearElastic==TensorNotation", Pa, Pb)
        vk.ensures_eq("stress/LinearElastic==MaterialStrain(linear_elastic)", Pa, Pc)
        Aa, Ab, Ac = a.hessian([F, None])[0], b.hessian([F, None])[0], c.hessian([F, z])[0]
        vk.ensures_eq("elasticity/LinearElastic==TensorNotation", Aa, Ab)
        vk.ensures_eq("elasticity/LinearElastic==MaterialStrain(linear_elastic)", Aa, Ac)
        # evaluated again with the same stored-state array (as every further Newton iteration of an increment does)
        vk.ensures_eq("stress/LinearElastic==MaterialStrain(linear_elastic)/evaluated again with the same stored state", Pa, c.gradient([F, z])[0])
        vk.frame_unchanged("MaterialStrain stored state", z, np.zeros((18, 1, 1)) if not vk.sym else ring.lift(np.zeros((18, 1, 1))))
        if vk.sym:
            vk.ensures_eq("elasticity==D(stress)", Aa, vk.D(Pa, F).reshape(Aa.shape))
            # Hooke's law in Lame form (the documented law): sigma = 2 mu eps + lmbda tr(eps) 1
            H = F - ring.lift(EYE)
            eps = (H + M.tr_(H)) / 2
            vk.ensures_eq("stress==2.mu.eps+lmbda.tr(eps).1", Pa, 2 * mu * eps + lm * (eps[0, 0] + eps[1, 1] + eps[2, 2]) * ring.lift(EYE))
            vk.canary("stress==strain", Pa, eps)
        return
    if case in ("plane-stress", "plane-strain"):
        F2 = vk.reals("F", (2, 2, 1, 1), near=np.eye(2).reshape(2, 2, 1, 1), spread=0.2)
        law3 = vk.real(fem.LinearElastic)(E, nu)
        vk.real(fem.LinearElastic.gradient)
        vk.real(fem.LinearElastic.hessian)
        cls = fem.LinearElasticPlaneStress if case == "plane-stress" else fem.constitution.LinearElasticPlaneStrain
        um = vk.real(cls)(E, nu)
        vk.real(cls.gradient)
        vk.real(cls.hessian)
        F3 = np.empty((3, 3, 1, 1), dtype=object if vk.sym else float)
        F3[...] = LP() if vk.sym else 0.0
        F3[:2, :2] = F2
        if case == "plane-stress":
            # out-of-plane strain that makes sigma_33 of the 3D law vanish
            e33 = -nu / (1 - nu) * (F2[0, 0] - 1 + F2[1, 1] - 1)
        else:
            e33 = 0 * F2[0, 0]
        F3[2, 2] = 1 + e33
        s3 = law3.gradient([F3, None])[0]
        s2 = um.gradient([F2, None])[0]
        if case == "plane-stress":
            vk.ensures_zero("constraint/sigma_33(3D-law)==0", s3[2, 2])
        vk.ensures_zero("constraint/out-of-plane-shear==0", np.array([s3[0, 2], s3[1, 2], s3[2, 0], s3[2, 1]]))
        vk.ensures_eq("stress/in-plane==3D-law", s2, s3[:2, :2])
        A3 = law3.hessian([F3, None])[0]
        A2 = um.hessian([F2, None])[0]
        if case == "plane-stress":
            # static condensation of sigma_33 = 0
            spec = A3[:2, :2, :2, :2] - ref_einsum("abyz,cdyz->abcdyz", A3[:2, :2, 2, 2], A3[2, 2, :2, :2]) / A3[2, 2, 2, 2]
        else:
            spec = A3[:2, :2, :2, :2]
        vk.ensures_eq("elasticity/in-plane==3D-law-under-constraint", A2, spec)
        if vk.sym:
            vk.ensures_eq("elasticity==D(stress)", A2, vk.D(s2, F2).reshape(A2.shape))
            vk.canary("plane-law==unconstrained-3D-law", A2, A3[:2, :2, :2, :2] + (0 if case == "plane-stress" else 1))
        return
    # orthotropic
    Es = [vk.reals(f"E{i+1}", (), near=2.0 + i, spread=0.3) for i in range(3)]
    nus = [vk.reals(n, (), near=0.2 + 0.05 * i, spread=0.05) for i, n in enumerate(("nu12", "nu23", "nu31"))]
    Gs = [vk.reals(n, (), near=1.0 + 0.2 * i, spread=0.2) for i, n in enumerate(("G12", "G23", "G31"))]
    for x in Es + Gs:
        vk.requires(x, ">")  # admissible engineering constants
    um = vk.real(fem.LinearElasticOrthotropic)(E=Es, nu=nus, G=Gs)
    vk.real(fem.LinearElasticOrthotropic.hessian)
    vk.real(fem.LinearElasticOrthotropic.gradient)
    A = um.hessian(shape=(1, 1), dtype=object if vk.sym else float)[0][..., 0, 0]
    E1, E2, E3 = Es
    n12, n23, n31 = nus
    G12, G23, G31 = Gs
    n21, n32, n13 = n12 * E2 / E1, n23 * E3 / E2, n31 * E1 / E3
    z = 0 * E1
    # engineering compliance (Voigt order 11,22,33,12,23,13; engineering shear strains)
    S = np.array([[1 / E1, -n21 / E2, -n31 / E3, z, z, z], [-n12 / E1, 1 / E2, -n32 / E3, z, z, z], [-n13 / E1, -n23 / E2, 1 / E3, z, z, z], [z, z, z, 1 / G12, z, z], [z, z, z, z, 1 / G23, z], [z, z, z, z, z, 1 / G31]])
    if case == "orthotropic-compliance":
        Cv = _voigt(A)
        eye6 = ring.lift(np.eye(6)) if vk.sym else np.eye(6)
        vk.ensures_eq("stiffness.compliance==1", ref_einsum("ab,bc->ac", Cv, S), eye6)
        vk.ensures_eq("minor-symmetry/ijkl==jikl==ijlk", A, (np.transpose(A, (1, 0, 2, 3)) + np.transpose(A, (0, 1, 3, 2))) / 2)
        vk.ensures_eq("major-symmetry", A, major_T(A))
        F = sym_F(vk)
        P = um.gradient([F, None])[0]
        H = F - (ring.lift(EYE) if vk.sym else EYE)
        eps = (H + M.tr_(H)) / 2
        vk.ensures_eq("stress==elasticity:strain", P[:, :, 0, 0], ref_einsum("ijkl,kl->ij", A, eps[:, :, 0, 0]))
        if vk.sym:
            vk.canary("stiffness.compliance==2", ref_einsum("ab,bc->ac", Cv, S), 2 * eye6)
        return
    # orthotropic SVK tangent at F = I through lame_converter_orthotropic
    # (rotated: the normals of the planes of symmetry are the columns of a rotation about the 3-axis by a free angle --
    # a NON-symmetric stacked matrix [r1, r2, r3]; the tangent must be the linear-elastic stiffness rotated by R)
    rotated = case == "orthotropic-svk-rotated"
    if rotated:
        tt = vk.reals("t", (), near=0.35, spread=0.2)
        Rm = M.rotation(tt, 2)
        rs = [[Rm[i, a] for i in range(3)] for a in range(3)]
        A = ref_einsum("ia,jb,kc,ld,abcd->ijkl", Rm, Rm, Rm, Rm, A)
    else:
        rs = [[1, 0, 0], [0, 1, 0], [0, 0, 1]]
    if not vk.sym:
        lm, mu = fem.constitution.lame_converter_orthotropic(Es, nus, Gs)
        svk = mt.Hyperelastic(TT.saint_venant_kirchhoff_orthotropic, mu=list(mu), lmbda=list(lm), r1=[float(x) for x in rs[0]], r2=[float(x) for x in rs[1]], r3=[float(x) for x in rs[2]])
        A0 = np.asarray(svk.hessian([EYE.copy(), None])[0])[..., 0, 0]
        vk.ensures_eq("svk-orthotropic-tangent(F=I)==LinearElasticOrthotropic.hessian", A0, A)
        return
    M.mark_real(vk, LAME.lame_converter_orthotropic)
    M.mark_real(vk, TT.saint_venant_kirchhoff_orthotropic, alias="felupe.constitution.tensortrax.models.hyperelastic.saint_venant_kirchhoff_orthotropic")

    def inv_exact(mat):
        symnp.INVENTORY.add("linear_elasticity._lame_converter:inv")
        mat = np.array([[co(x) for x in row] for row in mat], dtype=object)
        return inv_ref(mat)

    with M.module_globals(LAME, inv=inv_exact):
        lm, mu = LAME.lame_converter_orthotropic(Es, nus, Gs)
    C = M.sym_matrix(vk, "C")
    f = TT.saint_venant_kirchhoff_orthotropic
    with M.rebound(f):
        psi = co(f(C, mu=list(mu), lmbda=list(lm), r1=rs[0], r2=rs[1], r3=rs[2]))
    one = {ring.gen_of(C[i, j]): (1 if i == j else 0) for i, j in TRI}
    w = lambda i, j: 1 if i == j else Fr(1, 2)  # noqa: E731
    # tangent at F = I (S(I) = 0): A_iJkL = 4 d2psi/dC_iJ dC_kL (tensor derivative w.r.t. the symmetric C)
    A0 = np.empty((3, 3, 3, 3), dtype=object)
    for (i, j), (k, l) in itertools.product(TRI, TRI):
        v = 4 * w(i, j) * w(k, l) * ring.evalat(ring.D(ring.D(psi, C[i, j]), C[k, l]), one)
        for ii, jj in {(i, j), (j, i)}:
            for kk, ll in {(k, l), (l, k)}:
                A0[ii, jj, kk, ll] = v
    vk.ensures_zero("svk-orthotropic/stress-free-reference", np.array([ring.evalat(ring.D(psi, C[i, j]), one) for i, j in TRI], dtype=object))
    vk.ensures_eq("svk-orthotropic-tangent(F=I)==LinearElasticOrthotropic.hessian", A0, A)
    vk.canary("svk-tangent==2.linear-tangent", A0, 2 * A)


# ================================================================================================
# documented initial moduli (transcribed from the docstrings of the model functions / classes)
def _sum(xs):
    r = 0
    for x in xs:
        r = r + x
    return r


# name -> (parameters(vk, variant), documented mu0(kw), documented K0(kw) or None, docstring quote)
DOC = {
    "neo_hooke": (lambda k: k["mu"], lambda k: 0 * k["mu"], "mu : Shear modulus; psi = mu/2 (tr(C^) - 3) (distortional)"),
    "mooney_rivlin": (lambda k: 2 * (k["C10"] + k["C01"]), lambda k: 0 * k["C10"], "mu = 2 (C10 + C01); invariants of the distortional part"),
    "yeoh": (lambda k: 2 * k["C10"], lambda k: 0 * k["C10"], "mu = 2 C10; I1^ distortional"),
    "third_order_deformation": (lambda k: 2 * (k["C10"] + k["C01"]), lambda k: 0 * k["C10"], "mu = 2 (C10 + C01); invariants of the distortional part"),
    "blatz_ko": (lambda k: k["mu"], lambda k: Fr(5, 3) * k["mu"], "mu : The shear modulus; Poisson ratio nu = 0.25  =>  K = 2 mu (1+nu) / (3 (1-2nu)) = 5/3 mu"),
    "arruda_boyce": (lambda k: k["C1"] * (1 + Fr(3, 5) / k["limit"] ** 2 + Fr(99, 175) / k["limit"] ** 4 + Fr(513, 875) / k["limit"] ** 6 + Fr(42039, 67375) / k["limit"] ** 8), lambda k: 0 * k["C1"], "mu = C1 (1 + 3/(5 lm^2) + 99/(175 lm^4) + 513/(875 lm^6) + 42039/(67375 lm^8))"),
    "anssari_benam_bucchi": (lambda k: k["mu"] * (1 - 3 * k["N"]) / (3 - 3 * k["N"]), lambda k: 0 * k["mu"], "mu0 = mu (1 - 3N) / (3 - 3N)"),
    "lopez_pamies": (lambda k: _sum(k["mu"]), lambda k: 0 * k["mu"][0], "mu = sum_r mu_r"),
    "ogden": (lambda k: _sum(k["mu"]), None, "mu = sum_i mu_i"),
    "storakers": (lambda k: _sum(k["mu"]), lambda k: _sum(2 * m * (Fr(1, 3) + b) for m, b in zip(k["mu"], k["beta"])), "mu = sum_i mu_i; K = sum_i 2 mu_i (1/3 + beta_i)"),
    "extended_tube": (lambda k: k["Ge"] + k["Gc"], lambda k: 0 * k["Ge"], "mu = Ge + Gc (at delta = 0)"),
    "saint_venant_kirchhoff": (lambda k: k["mu"], lambda k: k["lmbda"] + Fr(2, 3) * k["mu"], "mu : second Lame constant (shear modulus), lmbda : first Lame constant  =>  K = lmbda + 2/3 mu"),
    "van_der_waals": (lambda k: k["mu"], None, "mu : Initial shear modulus (within the 1e-4 regularisation)"),
    "alexander": (lambda k: 2 * (k["C1"] + k["C2"] / k["gamma"] + k["C3"]), lambda k: 0 * k["C1"], "mu = 2 (C1 + C2/gamma + C3); first and second main invariant of the distortional part of C"),
}
DOC_VARIANTS = {
    "ogden": (["a=real(2)", "a=real(3)", "a=(3/2,-2)"], ["a=(2,-2)", "a=(1,4)", "a=(13/10,5,-2)", "a=(1/2,-1/3)"]),
    "lopez_pamies": (["a=real(2)", "a=real(3)", "a=(1,4)"], ["a=(1,2)", "a=(3/2,-1/2)", "a=(1/3,3)"]),
    "storakers": (["a=real(2),b=real(2)", "a=real(3),b=real(3)", "a=(2,-2),b=(1/2,1/4)"], ["a=(2),b=(1)", "a=(9/2,-9/2),b=(92/100,92/100)", "a=(3/2,4),b=(1/3,2)"]),
    "extended_tube": (["b=real", "b=1/2"], ["b=1", "b=1/5", "b=2", "b=3/4"]),
    "saint_venant_kirchhoff": (["k=real", "k=2", "k=0", "k=1"], ["k=-2", "k=3", "k=1/2"]),
}
MODULI_CONFIGS = []
for _lib, _tag in ((TT, "tensortrax"), (JX, "jax")):
    for _n in DOC:
        if hasattr(_lib, _n):
            _q, _t = DOC_VARIANTS.get(_n, ([""], []))
            MODULI_CONFIGS += [dict(backend=_tag, model=_n, variant=v) for v in _q] + [dict(backend=_tag, model=_n, variant=v, tier="thorough") for v in _t]
MODULI_CONFIGS += [dict(backend="hand", model=m, variant="") for m in ("NeoHooke", "NeoHookeCompressible", "Volumetric", "LinearElasticLargeStrain")]

VDW_LITERAL = 1e-4


def _native_moduli(um):
    A = np.asarray(um.hessian([EYE.copy(), None])[0])[..., 0, 0]
    mu0 = (A[0, 1, 0, 1] + A[0, 1, 1, 0]) / 2
    K0 = sum(A[i, i, j, j] for i in range(3) for j in range(3)) / 9
    return float(mu0), float(K0)


@contract("C12", "moduli", configs=MODULI_CONFIGS)
def moduli(vk, cfg):
    """initial tangent at F = I == isotropic linear-elastic tangent with the documented shear / bulk modulus"""
    backend, name, variant = cfg["backend"], cfg["model"], cfg["variant"]
    oracle.TIMEOUT_MS = 1500
    if backend == "hand":
        return _moduli_hand(vk, name)
    from .c11_objectivity import model_params

    kw = model_params(vk, name, variant)
    if name == "extended_tube":
        kw["delta"] = LP() if vk.sym else 0.0  # documented modulus holds at delta = 0 (property quantifier)
    doc_mu, doc_K, quote = DOC[name]
    f = get_model(backend, name)
    M.mark_real(vk, f, alias=f"felupe.constitution.{backend}.models.hyperelastic.{name}")
    if not vk.sym:
        # native: the real AD class at F = I (not for principal-stretch models: repeated eigenvalues / jax perturbation)
        if name in ("ogden", "storakers", "extended_tube") or (name == "saint_venant_kirchhoff" and variant != "k=2") or name == "van_der_waals":
            return
        if backend == "jax":
            import jax

            jax.config.update("jax_enable_x64", True)
        um = (mt if backend == "tensortrax" else mj).Hyperelastic(f, **native_kw(kw))
        mu0, K0 = _native_moduli(um)
        kf = native_kw(kw)
        zero_eq(vk, "initial-shear-modulus==documented", mu0, float(doc_mu(kf)))
        if doc_K is not None:
            zero_eq(vk, "initial-bulk-modulus==documented", K0, float(doc_K(kf)))
        return
    eps = None
    if name == "van_der_waals":
        eps = vk.reals("eps", (), near=1e-4, spread=0.0)
        vk.requires(eps, ">")
        f, n = M.with_literal(f, VDW_LITERAL, eps)
        vk.ensures_true("regularisation-literal-found", n == 1, f"{n} occurrence(s) of Im += {VDW_LITERAL} replaced by the symbol eps")
    elif backend == "jax" and name in JAX_PERTURBED:
        f, n = M.with_literal(f, JAX_PERTURBED[name], LP())
        vk.ensures_true("eigenvalue-perturbation-literal-found", n == 2, f"{n} occurrences of +-{JAX_PERTURBED[name]} replaced by 0")
    with M.canonical_roots():
        Cd, (a, b, c) = M.diag_matrix(vk)
        for x in (a, b, c):
            vk.requires(x, ">")
        HD.reset()
        with model_ctx(backend, name, f):
            psi = co(f(Cd, **kw))
        if name == "alexander":
            dual_consistent(vk)
            vk.note("documented initial moduli: the micro-sphere models state no closed form (not in the table)")
        pa, mu0, K0 = M.initial_moduli(psi, a, b, c)
        vk.ensures_zero("stress-free-reference/psi_a(1,1,1)==0", M.unify(pa))
        if name == "van_der_waals":
            lim, av, mu = kw["limit"], kw["a"], kw["mu"]
            eta = (eps / (lim**2 - 3)) ** Fr(1, 2)
            closed = mu * (1 / (1 - eta) - av * (eps / 2) ** Fr(1, 2))
            zero_eq(vk, "regularised-initial-shear-modulus==mu(1/(1-eta_eps)-a.sqrt(eps/2))", mu0, closed)
            vk.ensures_eq("initial-shear-modulus==documented/at-eps=0", ring.evalat(closed, {ring.gen_of(eps): 0}), doc_mu(kw))
            zero_eq(vk, "initial-bulk-modulus==0/isochoric", K0, 0 * mu)
            vk.note("van_der_waals: the documented initial shear modulus mu is met at regularisation eps -> 0; with the literal eps = 1e-4 the initial modulus is mu (1/(1-eta) - a sqrt(eps/2)), eta = sqrt(eps/(limit^2-3)) (relative deviation ~ 1e-2/sqrt(limit^2-3) + 7e-3 a)")
            vk.canary("regularised-modulus==mu", mu0, mu)
            return
        zero_eq(vk, "initial-shear-modulus==documented", mu0, doc_mu(kw))
        if doc_K is not None:
            zero_eq(vk, "initial-bulk-modulus==documented", K0, doc_K(kw))
        vk.canary("initial-shear-modulus==2.documented", M.unify(mu0), 2 * co(doc_mu(kw)) + 1)
    vk.note(f"documented ({name}): {quote}")


def _moduli_hand(vk, name):
    """hand-coded models: the full elasticity tensor at F = I is the isotropic linear-elastic tangent
    lmbda 1(x)1 + mu (1(.)1 + 1(:)1) with the documented moduli"""
    p = lambda n, near=1.0: _par(vk, n, near)  # noqa: E731
    if name == "NeoHooke":
        mu, K = p("mu"), p("bulk", 3.0)
        um, lm = vk.real(fem.NeoHooke)(mu=mu, bulk=K), K - Fr(2, 3) * mu  # docstring: mu shear modulus, bulk modulus
    elif name == "NeoHookeCompressible":
        mu, lm = p("mu"), p("lmbda", 2.0)
        um = vk.real(fem.NeoHookeCompressible)(mu=mu, lmbda=lm)  # docstring: Lame parameters
    elif name == "Volumetric":
        K = p("bulk", 3.0)
        um, mu, lm = vk.real(fem.Volumetric)(bulk=K), 0 * K, K
    else:
        E, nu = p("E", 2.0), vk.reals("nu", (), near=0.3, spread=0.1)
        um = vk.real(fem.LinearElasticLargeStrain)(E=E, nu=nu)
        lm, mu = fem.constitution.lame_converter(E, nu)
    vk.real(type(um).hessian)
    I = ring.lift(EYE) if vk.sym else EYE.copy()
    A = um.hessian([I, None])[0][..., 0, 0]
    d = np.eye(3)
    iso = np.einsum("ij,kl->ijkl", d, d), np.einsum("ik,jl->ijkl", d, d) + np.einsum("il,jk->ijkl", d, d)
    spec = lm * (ring.lift(iso[0]) if vk.sym else iso[0]) + mu * (ring.lift(iso[1]) if vk.sym else iso[1])
    vk.ensures_eq("A(I)==lmbda.1(x)1+mu.(1(.)1+1(:)1)", A, spec)
    if name == "LinearElasticLargeStrain":
        vk.ensures_eq("A(I)==LinearElastic.hessian", A, fem.LinearElastic(E, nu).hessian(shape=(1, 1), dtype=object if vk.sym else float)[0][..., 0, 0])
    vk.ensures_zero("stress-free-reference", um.gradient([I, None])[0])
    vk.canary("A(I)==2.spec", A, 2 * spec + 1)
