"""C13 -- boundary regions describe closed surfaces consistently with the volume.

Code under contract: `felupe/region/_boundary.py` (the six `boundary_cells_*` index tables,
`RegionBoundary.__init__`, `_init_faces`, `mesh_faces`) and the six boundary templates with their default
`GaussLegendreBoundary` quadrature.

E1 (generic cell): the real template is executed on ONE cell whose node coordinates are free reals
(incl. mid-side / face / centre nodes, hence curved).  `requires`: det(dX/dxi) > 0 at the points of the
closed reference cell where the code evaluates it -- the Gauss points of the 2*dim reference faces (the
boundary region) and the interior Gauss points (the volume template of the flux clause).  The reference
faces, their node sets and their outward normals are defined spec-side from the element's own points
(`element.points`, C04 contract): face (k, s) = { xi : xi_k = s }, N = s e_k -- never from the tables
under test.

Pairs (ground + E1): two cells glued along a face in every admissible way (every face of A, every proper
symmetry of the reference cell for B), nodes identified by position: `only_surface=True` keeps exactly
the non-shared faces, whose area vectors close and whose flux is dim * volume; with
`only_surface=False` the two copies of the interior face list the same nodes and carry opposite area
vectors at the same points.

Mask (symbolic membership + enumeration of the one data-dependent selection): the point mask is an array
of free Booleans; the selection conditions the real constructor computes (through np.arange(n)[mask],
np.isin, np.all) are compared by z3 with `all points of the geometric face satisfy the mask` for all
masks at once; the rest of the constructor is executed for every outcome of the selection.
"""
import inspect
import itertools
from fractions import Fraction

import numpy as np

import felupe as fem
from felupe.region import _boundary as B_
from vk import oracle, ring, symnp
from vk.core import Skip, contract
from vk.gencell import generic_points, ref_points, require_valid_cell
from vk.ring import LP, co
from vk.symnp import det_ref

from contracts.c06_regions import exact_quadrature

TRUSTED = [
    "C13: Region.reload (dXdr = sum_a X_a (x) grad h_a at the region's quadrature points, drdX, dhdX, dV sign test) and Field.interpolate are under the C06 contract; element.points / function / gradient under the C04 contract; GaussLegendre tables under C05",
    "C13: 'outward' is the local statement n . (dX/dxi N) > 0 with N the outward normal of the closed reference cell at the face point (the cell map preserves orientation on valid cells, so -dX/dxi N points into the body); on affine cells additionally (x_q - centroid) . n > 0",
    "C13: closure and flux of a closed surface made of several cells follow from the per-face integrals; the pair contracts instantiate this for two cells (every admissible gluing), larger meshes follow by induction on the number of cells (paper lemma: a shared face contributes opposite area vectors at equal positions, proved for every gluing)",
    "C13: derived sign facts (proved, then assumed): a . b == d > 0 entails a . a > 0 (a vector with a non-zero inner product is non-zero)",
    "C13 mask: numpy contracts assumed for the symbolic-membership run: np.arange(n)[mask] is the increasing list of the i with mask[i]; np.isin(a, s) is element-wise membership of a in s; np.all / np.any(b, axis=1) is the row-wise conjunction / disjunction; a[boolean vector] keeps the rows flagged True in order (the first three are replaced by stand-ins, differentially tested against numpy on concrete masks in every run)",
]

E = fem.element
# cell type: (boundary template, volume template, element)
CELLS = {
    "quad": (fem.RegionQuadBoundary, fem.RegionQuad, E.Quad),
    "quad8": (fem.RegionQuadraticQuadBoundary, fem.RegionQuadraticQuad, E.QuadraticQuad),
    "quad9": (fem.RegionBiQuadraticQuadBoundary, fem.RegionBiQuadraticQuad, E.BiQuadraticQuad),
    "hexahedron": (fem.RegionHexahedronBoundary, fem.RegionHexahedron, E.Hexahedron),
    "hexahedron20": (fem.RegionQuadraticHexahedronBoundary, fem.RegionQuadraticHexahedron, E.QuadraticHexahedron),
    "hexahedron27": (fem.RegionTriQuadraticHexahedronBoundary, fem.RegionTriQuadraticHexahedron, E.TriQuadraticHexahedron),
}
TABLES = {
    "quad": [B_.boundary_cells_quad],
    "quad8": [B_.boundary_cells_quad, B_.boundary_cells_quad8],
    "quad9": [B_.boundary_cells_quad, B_.boundary_cells_quad8, B_.boundary_cells_quad9],
    "hexahedron": [B_.boundary_cells_hexahedron],
    "hexahedron20": [B_.boundary_cells_hexahedron, B_.boundary_cells_hexahedron20],
    "hexahedron27": [B_.boundary_cells_hexahedron, B_.boundary_cells_hexahedron20, B_.boundary_cells_hexahedron27],
}
HI3 = ("hexahedron20", "hexahedron27")
QUADRATIC = ("quad8", "quad9", "hexahedron20", "hexahedron27")
TOL = 1e-11  # tolerance form (float Gauss tables read as the rationals they are)


def _default_quadrature(cls):
    return inspect.signature(cls.__init__).parameters["quadrature"].default


def _under_contract(vk, ct):
    vk.real(B_.RegionBoundary.__init__)
    vk.real(B_.RegionBoundary._init_faces)
    for t in TABLES[ct]:
        vk.real(t)
    vk.real(CELLS[ct][0].__init__)
    vk.real(fem.GaussLegendreBoundary.__init__)


# ---- spec side: reference cell, faces, symmetries -------------------------------------------------
def ref_faces(P):
    """faces of the reference cube [-1,1]^dim: {(k, s): frozenset of the element's nodes with xi_k == s}"""
    dim = P.shape[1]
    return {(k, s): frozenset(int(a) for a in np.nonzero(P[:, k] == s)[0]) for k in range(dim) for s in (-1, 1)}


def face_gauss_points(bcls, dim):
    """the Gauss points of all 2*dim reference faces (in-face coordinates = those of the template's own
    default rule, which is symmetric under the symmetries of the face)"""
    with symnp.native():
        qp = np.asarray(_default_quadrature(bcls).points, dtype=float)
    pts = []
    for k in range(dim):
        for s in (-1.0, 1.0):
            for p in qp:
                pts.append(tuple(float(x) for x in np.insert(p[:-1], k, s)))
    return list(dict.fromkeys(pts))


def proper_symmetries(dim):
    """the proper symmetries of the reference cube: signed permutation matrices with determinant +1"""
    out = []
    for perm in itertools.permutations(range(dim)):
        for signs in itertools.product((1, -1), repeat=dim):
            Q = np.zeros((dim, dim), dtype=int)
            for i in range(dim):
                Q[i, perm[i]] = signs[i]
            if round(np.linalg.det(Q)) == 1:
                out.append(Q)
    return out


def node_classes(P):
    """corner / edge / face / centre class of each node of the reference cell (number of free coordinates)"""
    return [int(np.sum(np.abs(p) != 1)) for p in P]


def representative_nodes(P):
    """a small set of nodes containing, for every reference face, one node of every class present on it,
    plus the interior node"""
    cls = node_classes(P)
    faces = list(ref_faces(P).values())
    need = {(fi, c) for fi, nodes in enumerate(faces) for c in {cls[a] for a in nodes}}
    chosen = []
    while need:
        best = max(range(len(P)), key=lambda a: (sum(1 for (fi, c) in need if a in faces[fi] and cls[a] == c), -a))
        chosen.append(best)
        need = {(fi, c) for (fi, c) in need if not (best in faces[fi] and cls[best] == c)}
    interior = [a for a in range(len(P)) if cls[a] == P.shape[1]]
    return sorted(set(chosen + interior))


def _lpvec(xi):
    """exact reference point (Fractions) as ring constants (a bare Fraction would be rounded by the float literals of the element code)"""
    return np.array([co(x) for x in xi], dtype=object)


def jac(el, X, xi):
    """spec: dX/dxi at an exact reference point = sum_a X_a (x) grad h_a(xi)"""
    g = np.asarray(el.gradient(_lpvec(xi)))
    n, dim = X.shape
    J = np.empty((dim, dim), dtype=object)
    for i in range(dim):
        for j in range(dim):
            J[i, j] = sum(X[a, i] * g[a, j] for a in range(n))
    return J


def cof_col(J, k):
    """column k of the cofactor matrix of J (Nanson: n da = cof(J) N dA)"""
    dim = J.shape[0]
    if dim == 2:
        o = 1 - k
        sg = 1 if k == 0 else -1
        return np.array([J[1, o] * sg, -J[0, o] * sg], dtype=object)
    a, b = [(1, 2), (2, 0), (0, 1)][k]
    u, v = J[:, a], J[:, b]
    return np.array([u[1] * v[2] - u[2] * v[1], u[2] * v[0] - u[0] * v[2], u[0] * v[1] - u[1] * v[0]], dtype=object)


def _fr(x):
    if isinstance(x, (float, np.floating, int, np.integer)):
        return Fraction(float(x))
    c = co(x).asconst()
    if c is None:
        raise ValueError("not a constant")
    return Fraction(c)


def _dot(a, b):
    return sum(co(x) * co(y) for x, y in zip(a, b))


def _assumed_sign(p):
    """'>' / '<' if p is literally in the assumption set up to a non-zero rational factor (no solver)"""
    p = co(p)
    for q, o in oracle.ASSUME:
        if o in (">", "<"):
            r_ = oracle._ratio(p, q)
            if r_ is not None and r_ != 0:
                return o if r_ > 0 else {">": "<", "<": ">"}[o]
    return None


def _decide(p, op, why):
    try:
        return oracle.decide(p, op, why=why)
    except oracle.Undecided:
        return None


def _all3(results):
    """three-valued conjunction: False if any False, None if any undecided, else True"""
    if any(x is False for x in results):
        return False
    if any(x is None for x in results):
        return None
    return True


# ---- generic meshes ------------------------------------------------------------------------------
class Cell:
    """a mesh of generic cells with its boundary region (real code) and the spec-side face data"""


def _coordinates(vk, pos, mode, reps, name="X"):
    """node coordinates: generic = every coordinate a free real near its reference position;
    affine = B pos + t (B, t free); classes = affine image plus a free displacement vector for the
    representative nodes `reps`"""
    pos = np.asarray(pos, dtype=float)
    ng, dim = pos.shape
    if mode == "generic":
        return vk.reals(name, (ng, dim), near=pos, spread=0.06)
    Bm = vk.reals(name + "B", (dim, dim), near=np.eye(dim), spread=0.1)
    t = vk.reals(name + "t", (dim,), near=0.0, spread=0.1)
    pl = ring.lift(pos) if vk.sym else pos
    X = np.empty((ng, dim), dtype=object if vk.sym else float)
    for a in range(ng):
        for i in range(dim):
            X[a, i] = sum(Bm[i, j] * pl[a, j] for j in range(dim)) + t[i]
    if mode == "classes":
        for a in reps:
            d = vk.reals(f"{name}d{a}", (dim,), near=0.0, spread=0.04)
            X[a] = X[a] + d
    return X


def build(vk, ct, mode, cells=None, pos=None, reps=None, volume=False, witness=True, **kw):
    """generic mesh (default: one cell), valid-cell precondition for every cell, the real boundary template"""
    bcls, vcls, el_cls = CELLS[ct]
    el = el_cls()
    P = ref_points(el)
    n, dim = P.shape
    if cells is None:
        cells, pos = np.arange(n).reshape(1, n), P
        reps = representative_nodes(P)
    X = _coordinates(vk, pos, mode, reps or [])
    mesh = fem.Mesh(X, cells, ct)
    c = Cell()
    c.ct, c.el, c.P, c.X, c.mesh, c.dim, c.n, c.cells = ct, el, P, X, mesh, dim, n, np.asarray(cells)
    c.bcls, c.vcls = bcls, vcls
    c.faces = ref_faces(P)
    # precondition schema "valid cell": det > 0 at the face Gauss points (and the interior Gauss points)
    fpts = face_gauss_points(bcls, dim)
    c.face_dets = []
    for cl in c.cells:
        dets = require_valid_cell(vk, el, X[cl], fpts)
        c.face_dets.append({tuple(Fraction(x) for x in p): d for p, d in zip(fpts, dets)})
        if volume:
            with symnp.native():
                vq = np.asarray(_default_quadrature(vcls).points, dtype=float)
            require_valid_cell(vk, el, X[cl], vq)
    if vk.sym:
        # every sign fact of these contracts is an instance of the schema (decided syntactically) or a derived
        # fact that is proved first; anything else must come out undecided, quickly: no solver search
        oracle.NO_SOLVER = True
    if vk.sym and witness:
        oracle.WITNESS = {ring._vars[nm]: Fraction(cen) for nm, (cen, sp) in vk.samplers.items()}
    c.kw = kw
    c.region = construct(vk, c, **kw)
    return c


def construct(vk, c, mesh=None, **kw):
    """the real constructor; sign tests it performs that are not literally instances of the precondition
    schema are collected (obligation pre/instance) and do not join the assumption set"""
    if vk.sym:
        oracle.COLLECT = []
        n0 = len(oracle.ASSUME)
        # radicands of the norms are polynomials in canonical form: syntactic atom lookup suffices (the
        # semantic lookup compares every new root with all earlier ones; a missed identification could
        # only make an obligation fail, never pass)
        sem, ring.SEMANTIC_ATOMS = ring.SEMANTIC_ATOMS, False
    try:
        r = c.bcls(mesh or c.mesh, quadrature=exact_quadrature(vk, c.bcls), **kw)
    finally:
        collected = oracle.COLLECT if vk.sym else []
        oracle.COLLECT = None
        if vk.sym:
            ring.SEMANTIC_ATOMS = sem
    r._fd = identify(vk, c, r)
    if vk.sym:
        keys = {p.key() for p, _ in collected}
        oracle.ASSUME[n0:] = [(p, o) for p, o in oracle.ASSUME[n0:] if p.key() not in keys]
        vk.ensures_true(
            "pre/instance" + ("" if not kw else "[" + ",".join(f"{k}={v}" for k, v in kw.items() if k != "mask") + "]"),
            True if not collected else None,
            f"{len(collected)} sign tests of the constructor (negative-volume check of the rotated cells) are not instances of the valid-cell schema det dX/dxi(xi) > 0, xi in the closed reference cell" if collected else "every sign test of the constructor is an instance of the valid-cell schema",
        )
        derive_norm_facts(vk, c, r)
    return r


def identify(vk, c, r):
    """spec-side identification of every boundary cell b of the region with a reference face of a cell of
    the original mesh: parent cell p (same node set), xi_q (position of the quadrature point in the
    parent's reference cell, through the region's own shape functions and cell table), the faces (k, s)
    with xi_q[k] == s for all q, the reference-to-reference Jacobian G_b(q), the local numbering.
    symbolic run: exact rationals; native run: floats rounded at 1e-9 (only used to name the same obligations)"""
    cells = np.asarray(r.mesh.cells)
    with symnp.native():
        h = np.asarray(r.h)
        dhdr = np.asarray(r.dhdr)
    h = h.reshape(h.shape[0], -1)
    dhdr = dhdr.reshape(dhdr.shape[0], dhdr.shape[1], -1)
    nq, dim, n = h.shape[1], c.dim, c.n
    if vk.sym:
        num = _fr
    else:
        num = lambda x: Fraction(round(float(x) * 2**30), 2**30)  # noqa: E731
    hF = [[num(h[a, q]) for q in range(nq)] for a in range(n)]
    dF = [[[num(dhdr[a, j, q]) for q in range(nq)] for j in range(dim)] for a in range(n)]
    Pex = [[Fraction(float(x)) for x in p] for p in c.P]
    sets = [frozenset(int(x) for x in cl) for cl in c.cells]
    out = []
    for b in range(len(cells)):
        nodes = [int(x) for x in cells[b]]
        parents = [p for p, s_ in enumerate(sets) if frozenset(nodes) == s_ and len(set(nodes)) == n]
        if len(parents) != 1:
            out.append(dict(parent=None, ks=[], xi=None, G=None, local=None))
            continue
        p = parents[0]
        loc = {int(g): a for a, g in enumerate(c.cells[p])}
        local = [loc[g] for g in nodes]
        xi = [[sum(hF[a][q] * Pex[local[a]][i] for a in range(n)) for i in range(dim)] for q in range(nq)]
        G = [[[sum(dF[a][j][q] * Pex[local[a]][i] for a in range(n)) for j in range(dim)] for i in range(dim)] for q in range(nq)]
        if not vk.sym:
            xi = [[Fraction(round(float(x) * 2**20), 2**20) for x in row] for row in xi]
        ks = [(k, s) for k in range(dim) for s in (-1, 1) if all(xi[q][k] == s for q in range(nq))]
        out.append(dict(parent=p, ks=ks, xi=xi, G=G, local=local))
    return out


_JCACHE: dict = {}


def spec_jac(c, f, q):
    """(J, det J, is-instance) of the parent cell at xi_q; det J is looked up in the declared schema instances"""
    key = (id(c), f["parent"], tuple(f["xi"][q]))
    if key not in _JCACHE:
        Xp = c.X[c.cells[f["parent"]]]
        J = jac(c.el, Xp, f["xi"][q])
        d = c.face_dets[f["parent"]].get(key[2])
        _JCACHE[key] = (J, (co(d) if d is not None else co(det_ref(J))), d is not None)
    return _JCACHE[key]


_COLS_DONE: set = set()


def derive_norm_facts(vk, c, r, label="derived"):
    """sign facts entailed by the valid-cell precondition, proved first and then added to the assumption
    set (they are the radicands of the norms taken by _init_faces):
      dA_q . (J N) == w_q det J > 0  at xi_q   =>  dA_q != 0  =>  dA_q . dA_q > 0
      J e_m . cof(J) e_m == det J > 0           =>  |J e_m|^2 > 0   (every column m)"""
    if not hasattr(r, "dA"):
        return
    dim = c.dim
    nq, nb = r.dA.shape[1], r.dA.shape[2]
    with symnp.native():
        w = np.asarray(r.quadrature.weights)
    lhs = np.empty((nq, nb), dtype=object)
    rhs = np.empty((nq, nb), dtype=object)
    inst = np.zeros((nq, nb), dtype=bool)
    for b, f in enumerate(r._fd):
        for q in range(nq):
            if len(f["ks"]) != 1:
                lhs[q, b], rhs[q, b] = LP(), LP.const(1)
                continue
            k, s = f["ks"][0]
            J, d, inst[q, b] = spec_jac(c, f, q)
            lhs[q, b] = _dot(r.dA[:dim, q, b], J[:, k] * s)
            rhs[q, b] = d * co(float(w[q]))
            if inst[q, b]:
                if ring.iszero(lhs[q, b] - rhs[q, b]):
                    oracle.assume(_dot(r.dA[:dim, q, b], r.dA[:dim, q, b]), ">")
                ck = (id(c), f["parent"], tuple(f["xi"][q]))
                if ck not in _COLS_DONE:
                    _COLS_DONE.add(ck)
                    for m in range(dim):
                        if ring.iszero(_dot(J[:, m], cof_col(J, m)) - d):
                            oracle.assume(_dot(J[:, m], J[:, m]), ">")
    r._nanson = (lhs, rhs)
    vk.ensures_true(f"{label}/face-points-are-schema-instances", bool(inst.all()), f"{int(inst.sum())} of {inst.size} quadrature points of the boundary cells are Gauss points of a reference face of their cell")
    vk.ensures_eq(f"{label}/dA.(dX/dxi N)==w det(dX/dxi)", lhs, rhs)


def positions(vk, c, r):
    """x_q through the real Field.interpolate on the boundary region"""
    return fem.Field(r, dim=c.dim, values=c.X).interpolate()


# =================================================================================================
# one generic cell
# =================================================================================================
def _cell_configs():
    out = []
    for ct in CELLS:
        for clause in ("faces", "area", "unit", "closure_flux", "outward"):
            if ct in HI3:
                out.append(dict(cell=ct, coords="classes", clause=clause))
                out.append(dict(cell=ct, coords="generic", clause=clause, tier="thorough"))
            else:
                out.append(dict(cell=ct, coords="generic", clause=clause))
        out.append(dict(cell=ct, coords="affine", clause="outward"))
    return out


@contract("C13", "cell", configs=_cell_configs())
def cell_contract(vk, cfg):
    """one generic cell, only_surface=False: the boundary cells are the reference faces, Nanson area
    vectors, unit normals and tangents, per-cell closure, flux == dim * volume, outwardness"""
    ct, mode, clause = cfg["cell"], cfg["coords"], cfg["clause"]
    _under_contract(vk, ct)
    c = build(vk, ct, mode, volume=(clause == "closure_flux"), only_surface=False)
    r, X, el, dim, n = c.region, c.X, c.el, c.dim, c.n
    obj = object if vk.sym else float
    nq, nb = r.dA.shape[1], r.dA.shape[2]
    with symnp.native():
        w = np.asarray(r.quadrature.weights)
    fd = r._fd if vk.sym else None
    one = np.ones((nq, nb)) if not vk.sym else ring.lift(np.ones((nq, nb)))

    if clause == "faces":
        cf = np.asarray(r.mesh.cells_faces)
        if vk.sym:
            vk.ensures_true("count", nb == 2 * dim and len(cf) == nb, f"{nb} boundary cells, {len(cf)} faces")
            vk.ensures_true("each-on-one-reference-face", all(len(f["ks"]) == 1 for f in fd), str([f["ks"] for f in fd]))
            vk.ensures_true("bijection", len({tuple(f["ks"]) for f in fd}) == 2 * dim, str([f["ks"] for f in fd]))
            with symnp.native():
                qp = np.asarray(_default_quadrature(c.bcls).points, dtype=float)
            for b, f in enumerate(fd):
                want = c.faces.get(f["ks"][0]) if len(f["ks"]) == 1 else None
                got = [int(x) for x in cf[b]]
                vk.ensures_true(f"cells_faces/[{b}]==nodes-on-face", want is not None and len(got) == len(want) and frozenset(got) == want, f"{sorted(got)} vs {sorted(want) if want else None}")
                # quadrature on the face: images of the region's points with their weights == tensor Gauss rule of the face
                ok = False
                if len(f["ks"]) == 1:
                    k, s = f["ks"][0]
                    have = sorted((tuple(f["xi"][q]), Fraction(float(w[q]))) for q in range(nq))
                    spec = sorted((tuple(Fraction(float(x)) for x in np.insert(p[:-1], k, s)), Fraction(float(w[q]))) for q, p in enumerate(qp))
                    ok = have == spec
                vk.ensures_true(f"face-rule/[{b}]", ok, "images of the quadrature points on the face with their weights == Gauss rule of the face")
            if ct in ("quad", "hexahedron", "quad8", "quad9"):
                vk.real(B_.RegionBoundary.mesh_faces)
                m = r.mesh_faces()
                same_pts = m.points.shape == r.mesh.points.shape and all(x is y for x, y in zip(m.points.ravel(), r.mesh.points.ravel()))
                vk.ensures_true("mesh_faces", np.array_equal(np.asarray(m.cells), cf) and m.cell_type == {"quad": "line", "hexahedron": "quad", "quad8": "line3", "quad9": "line3"}[ct] and same_pts, f"{m.cell_type} {m.cells.shape} points-identical={same_pts}")
            else:
                vk.note("RegionBoundary.mesh_faces has no face type for hexahedron20 / hexahedron27 (KeyError); not a C13 clause")
            # only_surface=True (the templates' default) on a single cell: the same boundary cells, re-ordered
            rs = construct(vk, c, only_surface=True)
            perm = [[b2 for b2 in range(nb) if list(r.mesh.cells[b2]) == list(rs.mesh.cells[b])] for b in range(len(rs.mesh.cells))]
            okp = len(rs.mesh.cells) == nb and all(len(x) == 1 for x in perm) and sorted(x[0] for x in perm) == list(range(nb))
            vk.ensures_true("only_surface=True/same-boundary-cells-reordered", okp and all(list(rs.mesh.cells_faces[b]) == list(cf[perm[b][0]]) for b in range(nb)), str(perm))
            if okp:
                pi = [x[0] for x in perm]
                vk.ensures_eq("only_surface=True/dA", rs.dA, r.dA[:, :, pi])
                vk.ensures_eq("only_surface=True/normals", rs.normals, r.normals[:, :, pi])
            vk.canary_bool("cells_faces-of-face-0-are-nodes-of-face-1", frozenset(int(x) for x in cf[0]) != c.faces.get(fd[1]["ks"][0] if fd[1]["ks"] else None))
        xq = positions(vk, c, r)
        xs = np.empty((dim, nq, nb), dtype=obj)
        if vk.sym:
            for b in range(nb):
                for q in range(nq):
                    ha = np.asarray(el.function(_lpvec(fd[b]["xi"][q])))
                    for i in range(dim):
                        xs[i, q, b] = sum(ha[a] * X[a, i] for a in range(n))
        vk.ensures_eq("x_q==x(xi_q)", xq, xs if vk.sym else xq)
        if vk.sym:
            vk.canary("x_q==0", xq, 0 * xq)
        return

    if clause == "area":
        # Nanson: dA_q = cof(dX/dxi(xi_q)) N w_q with N the outward reference normal of the face
        spec = np.empty((dim, nq, nb), dtype=obj)
        if vk.sym:
            for b in range(nb):
                k, s = fd[b]["ks"][0] if len(fd[b]["ks"]) == 1 else (0, 1)
                for q in range(nq):
                    J, d, _ = spec_jac(c, fd[b], q)
                    cc = cof_col(J, k)
                    for i in range(dim):
                        spec[i, q, b] = cc[i] * s * co(float(w[q]))
        vk.ensures_eq("dA==cof(dX/dxi(xi_q)).N.w_q", r.dA, spec if vk.sym else r.dA)
        vk.ensures_eq("dV^2==dA.dA", r.dV * r.dV, (r.dA * r.dA).sum(axis=0))
        if vk.sym:
            vk.ensures_true("dV>0", _all3([_decide(co(x), ">", "dV>0") for x in r.dV.ravel()]), "norm (positive root) of a non-zero area vector", backend="oracle")
            vk.canary("dA==0", r.dA, 0 * r.dA)
        return

    if clause == "unit":
        nn = (r.normals * r.normals).sum(axis=0)
        vk.ensures_eq("n.n==1", nn, one)
        vk.ensures_eq("n*dV==dA", r.normals * r.dV, r.dA)
        if vk.sym:
            vk.ensures_true("tangent-count", len(r.tangents) == dim - 1, str(len(r.tangents)))
        for i, t in enumerate(r.tangents):
            vk.ensures_eq(f"t{i}.t{i}==1", (t * t).sum(axis=0), one)
            vk.ensures_eq(f"t{i}.n==0", (t * r.normals).sum(axis=0), 0 * one)
        if vk.sym:
            vk.canary("n.n==2", nn, 2 * one)
            vk.canary("t0.n==1", (r.tangents[0] * r.normals).sum(axis=0), one)
        return

    if clause == "closure_flux":
        tot = r.dA.sum(axis=(1, 2))
        vk.ensures_eq("closure/sum_faces_sum_q dA==0", tot, 0 * tot, tol=TOL if ct in QUADRATIC else None)
        xq = positions(vk, c, r)
        flux = (xq * r.dA).sum()
        vol = c.vcls(c.mesh, quadrature=exact_quadrature(vk, c.vcls))
        V = vol.dV.sum()
        vk.ensures_eq("flux/sum x_q.dA_q==dim*sum(dV)", flux, dim * V, tol=TOL * 10)
        if vk.sym:
            vk.canary_bool("flux==(dim+1)*volume", ring.l1norm(co(flux) - (dim + 1) * co(V)) > TOL * 10)
            vk.canary_bool("closure-without-one-face", any(ring.l1norm(co(x)) > TOL for x in r.dA[:, :, 1:].sum(axis=(1, 2))))
        return

    if clause == "outward":
        if not vk.sym:
            return
        lhs, rhs = r._nanson
        res = []
        for b in range(nb):
            for q in range(nq):
                res.append(_decide(lhs[q, b], ">", "outward") if len(fd[b]["ks"]) == 1 else False)
        vk.ensures_true("outward/dA.(dX/dxi N)>0", _all3(res), f"{sum(1 for x in res if x is True)} of {len(res)} sign facts entailed by the valid-cell precondition", backend="oracle")
        if mode == "affine":
            xq = positions(vk, c, r)
            cen = X[: 2**dim].sum(axis=0) / 2**dim
            res2 = [_decide(_dot(xq[:, q, b] - cen, r.dA[:, q, b]), ">", "outward-centroid") for b in range(nb) for q in range(nq)]
            vk.ensures_true("outward/(x_q-centroid).dA>0", _all3(res2), f"{sum(1 for x in res2 if x is True)} of {len(res2)} entailed by det(B) > 0", backend="oracle")
        vk.canary_bool("inward", _decide(lhs[0, 0], "<", "canary") is not True)
        return


# ---- the rotated cells are proper re-numberings of the cell ---------------------------------------
@contract("C13", "rotated_cell", configs=[dict(cell=ct, coords=("classes" if ct in HI3 else "generic")) for ct in CELLS] + [dict(cell=ct, coords="generic", tier="thorough") for ct in HI3])
def rotated_cell(vk, cfg):
    """every boundary cell is the cell itself re-numbered by a proper rotation of the reference cell that
    maps the first face (last coordinate == -1) onto the boundary face, last axis pointing inward:
    J_b(q) == dX/dxi(xi_q) G_b with a constant proper signed permutation G_b -- this is what makes
    dXdr / drdX / dhdX of the boundary region the cell's own quantities at the face points"""
    ct, mode = cfg["cell"], cfg["coords"]
    _under_contract(vk, ct)
    c = build(vk, ct, mode, only_surface=False)
    r, X, el, dim, n = c.region, c.X, c.el, c.dim, c.n
    obj = object if vk.sym else float
    nq, nb = r.dA.shape[1], r.dA.shape[2]
    fd = r._fd if vk.sym else None
    cells = np.asarray(r.mesh.cells)
    with symnp.native():
        dh = np.asarray(r.dhdr)
    dh = dh.reshape(dh.shape[0], dh.shape[1], -1)
    lhs = np.empty((dim, dim, nq, nb), dtype=obj)
    rhs = np.empty((dim, dim, nq, nb), dtype=obj)
    dl = np.empty((nq, nb), dtype=obj)
    dr = np.empty((nq, nb), dtype=obj)
    for b in range(nb):
        if vk.sym:
            f = fd[b]
            vk.ensures_true(f"[{b}]/permutation-of-the-cell", f["parent"] is not None and sorted(f["local"]) == list(range(n)), str(list(cells[b])))
            ok = f["G"] is not None
            if ok:
                G0 = f["G"][0]
                ok = all(f["G"][q] == G0 for q in range(nq))
                ok = ok and all(x in (0, 1, -1) for row in G0 for x in row) and all(sum(abs(x) for x in row) == 1 for row in G0) and all(sum(abs(G0[i][j]) for i in range(dim)) == 1 for j in range(dim))
                ok = ok and det_ref(np.array(G0, dtype=object)) == 1
                if len(f["ks"]) == 1:
                    k, s = f["ks"][0]
                    ok = ok and all(G0[i][dim - 1] == (-s if i == k else 0) for i in range(dim))
                else:
                    ok = False
            vk.ensures_true(f"[{b}]/proper-rotation-last-axis-inward", ok, str(f["G"][0] if f["G"] else None))
        for q in range(nq):
            for i in range(dim):
                for j in range(dim):
                    lhs[i, j, q, b] = sum(X[cells[b, a], i] * dh[a, j, q] for a in range(n))
            dl[q, b] = det_ref(lhs[:, :, q, b])
            if vk.sym:
                f = fd[b]
                if f["parent"] is None:
                    rhs[:, :, q, b], dr[q, b] = LP(), LP()
                    continue
                J, d, _ = spec_jac(c, f, q)
                G = f["G"][q]
                for i in range(dim):
                    for j in range(dim):
                        rhs[i, j, q, b] = sum(J[i, m] * co(G[m][j]) for m in range(dim))
                dr[q, b] = d
    vk.ensures_eq("J_b==dX/dxi(xi_q).G_b", lhs, rhs if vk.sym else lhs)
    vk.ensures_eq("det(J_b)==det(dX/dxi(xi_q))", dl, dr if vk.sym else dl)
    if dim == 3:
        vk.ensures_eq("region.dXdr==J_b", r.dXdr, lhs)
    else:
        # 2D: _init_faces negates dXdr[1, 0] in place through a view (dA_1 aliases self.dXdr); the other entries are J_b
        vk.ensures_eq("region.dXdr[:,1]==J_b[:,1]", r.dXdr[:, 1], lhs[:, 1])
        vk.ensures_eq("region.dXdr[0,0]==J_b[0,0]", r.dXdr[0, 0], lhs[0, 0])
        vk.note("2D: RegionBoundary._init_faces negates region.dXdr[1, 0] in place (dA_1 is a view of self.dXdr); dA, dV, normals, tangents, drdX, dhdX are unaffected; region.dXdr is not an observable of C13")
    # end to end: drdX of the region inverts the cell's own Jacobian at the face point (up to the rotation)
    prod = np.empty((dim, dim, nq, nb), dtype=obj)
    eye = np.empty((dim, dim, nq, nb), dtype=obj)
    for b in range(nb):
        for q in range(nq):
            for i in range(dim):
                for j in range(dim):
                    prod[i, j, q, b] = sum(r.drdX[i, m, q, b] * (rhs if vk.sym else lhs)[m, j, q, b] for m in range(dim))
                    eye[i, j, q, b] = (LP.const(int(i == j)) if vk.sym else float(i == j))
    if mode != "generic" or ct not in HI3:
        vk.ensures_eq("drdX.(dX/dxi(xi_q).G_b)==I", prod, eye)
    if vk.sym:
        vk.canary("J_b==0", lhs, 0 * lhs)


# ---- ensure_3d ------------------------------------------------------------------------------------
@contract("C13", "ensure_3d", configs=[dict(cell=ct) for ct in ("quad", "quad8", "quad9", "hexahedron")])
def ensure_3d(vk, cfg):
    """ensure_3d=True pads dA, normals and the tangent of the 2D types with a zero third component and adds
    the out-of-plane unit tangent e_3; it changes nothing for 3D cells"""
    ct = cfg["cell"]
    _under_contract(vk, ct)
    c = build(vk, ct, "generic", only_surface=False, ensure_3d=False)
    r2 = c.region
    r3 = construct(vk, c, only_surface=False, ensure_3d=True)
    dim = c.dim
    nq, nb = r2.dA.shape[1], r2.dA.shape[2]
    obj = object if vk.sym else float
    zero = np.zeros((nq, nb)) if not vk.sym else ring.lift(np.zeros((nq, nb)))
    if vk.sym:
        vk.ensures_true("shapes", r3.dA.shape == (3, nq, nb) and r3.normals.shape == (3, nq, nb) and len(r3.tangents) == 2 and all(t.shape == (3, nq, nb) for t in r3.tangents) and r3.dV.shape == (nq, nb), f"{r3.dA.shape} {r3.normals.shape} {[t.shape for t in r3.tangents]}")
    vk.ensures_eq("dV==dV(2d)", r3.dV, r2.dV)
    vk.ensures_eq("dA[:dim]==dA(2d)", r3.dA[:dim], r2.dA)
    vk.ensures_eq("normals[:dim]==normals(2d)", r3.normals[:dim], r2.normals)
    vk.ensures_eq("tangents[0][:dim]==tangent(2d)", r3.tangents[0][:dim], r2.tangents[0])
    if dim == 2:
        vk.ensures_eq("dA[2]==0", r3.dA[2], zero)
        vk.ensures_eq("normals[2]==0", r3.normals[2], zero)
        vk.ensures_eq("tangents[0][2]==0", r3.tangents[0][2], zero)
        e3 = np.zeros((3, nq, nb), dtype=obj)
        e3[...] = LP() if vk.sym else 0.0
        e3[2] = zero + 1
        vk.ensures_eq("tangents[1]==e_3", r3.tangents[1], e3)
    else:
        vk.ensures_eq("tangents[1]==tangents[1](ensure_3d=False)", r3.tangents[1], r2.tangents[1])
    nn = (r3.normals * r3.normals).sum(axis=0)
    vk.ensures_eq("n.n==1", nn, zero + 1)
    for i, t in enumerate(r3.tangents):
        vk.ensures_eq(f"t{i}.t{i}==1", (t * t).sum(axis=0), zero + 1)
        vk.ensures_eq(f"t{i}.n==0", (t * r3.normals).sum(axis=0), zero)
    if vk.sym:
        vk.canary("normals[2]==1", r3.normals[2], zero + 1)


# =================================================================================================
# two cells sharing a face
# =================================================================================================
def pair_topology(P, k, s, Q):
    """cell A = the reference cell, cell B = the reference cell re-numbered by the proper symmetry Q and
    translated across face (k, s) of A; nodes identified by position.
    returns (cells (2, n), reference positions of the global nodes, shared node set, B's local shared face)"""
    n, dim = P.shape
    Pi = np.rint(P).astype(int)
    assert np.array_equal(Pi, P)
    shift = np.zeros(dim, dtype=int)
    shift[k] = 2 * s
    where = {tuple(p): a for a, p in enumerate(Pi)}
    pos = [tuple(p) for p in Pi]
    cb = []
    for a in range(n):
        p = tuple(shift + Q @ Pi[a])
        if p not in where:
            where[p] = len(pos)
            pos.append(p)
        cb.append(where[p])
    cells = np.array([list(range(n)), cb])
    shared = frozenset(cb) & frozenset(range(n))
    fB = [(kk, ss) for (kk, ss), nodes in ref_faces(P).items() if frozenset(cb[a] for a in nodes) == shared]
    assert len(fB) == 1 and shared == ref_faces(P)[(k, s)]
    return cells, np.array(pos, dtype=float), shared, fB[0]


def pair_representatives(P, cells, shared):
    """displaced nodes of the quick-tier pair: one node of every class on the shared face, and in each cell
    one node of every class off the shared face"""
    cls = node_classes(P)
    reps = []
    for p in range(2):
        seen_on, seen_off = set(), set()
        for a, g in enumerate(cells[p]):
            g = int(g)
            if g in shared and p == 0 and cls[a] not in seen_on:
                seen_on.add(cls[a])
                reps.append(g)
            if g not in shared and cls[a] not in seen_off and cls[a] < P.shape[1]:
                seen_off.add(cls[a])
                reps.append(g)
    return sorted(set(reps))


def all_pairings(dim):
    return [(k, s, qi) for k in range(dim) for s in (-1, 1) for qi in range(len(proper_symmetries(dim)))]


def expected_surface(P, cells, shared):
    """spec: the surface faces of the pair as (parent, (k, s)) with their global node sets"""
    out = {}
    for p in range(2):
        for ks, nodes in ref_faces(P).items():
            g = frozenset(int(cells[p][a]) for a in nodes)
            if g != shared:
                out[(p, ks)] = g
    return out


def _renumber(cells, pos, variant):
    """global numbering variants (the shared-face detection sorts and compares node numbers)"""
    ng = len(pos)
    if variant == "identity":
        return cells, pos
    perm = np.arange(ng)[::-1] if variant == "reversed" else np.random.RandomState(ng).permutation(ng)
    new_pos = np.empty_like(pos)
    new_pos[perm] = pos
    return perm[cells], new_pos


@contract("C13", "pairs_topology", configs=[dict(cell=ct) for ct in CELLS], engine="ground")
def pairs_topology(vk, cfg):
    """every admissible gluing of two cells along a face (exhaustive), three global numberings, concrete
    reference coordinates: only_surface=True drops exactly the two copies of the shared face;
    only_surface=False keeps all faces, the copies of the interior face list the same nodes"""
    if not vk.sym:
        return
    ct = cfg["cell"]
    _under_contract(vk, ct)
    bcls, vcls, el_cls = CELLS[ct]
    P = ref_points(el_cls())
    n, dim = P.shape
    nf = 2 * dim
    syms = proper_symmetries(dim)
    bad = {"count": [], "faces": [], "both": [], "interior": [], "rows": []}
    total = 0
    with symnp.native():
        for k, s, qi in all_pairings(dim):
            cells0, pos0, shared0, fB = pair_topology(P, k, s, syms[qi])
            for variant in ("identity", "reversed", "shuffled"):
                cells, pos = _renumber(cells0, pos0, variant)
                total += 1
                tag = f"k={k},s={s},Q={qi},{variant}"
                shared = frozenset(int(cells[0][a]) for a in ref_faces(P)[(k, s)])
                want = expected_surface(P, cells, shared)
                mesh = fem.Mesh(pos, cells, ct)
                rs = bcls(mesh, only_surface=True)
                got = [frozenset(int(x) for x in row) for row in rs.mesh.cells_faces]
                if len(got) != 2 * nf - 2 or len(rs.mesh.cells) != len(got) or rs.dA.shape[-1] != len(got):
                    bad["count"].append(tag)
                if sorted(map(sorted, got)) != sorted(map(sorted, want.values())) or any(len(row) != len(shared) for row in rs.mesh.cells_faces):
                    bad["faces"].append(tag)
                # each kept boundary cell is a re-numbering of the cell that owns the face
                for row, face in zip(rs.mesh.cells, got):
                    owners = [p for (p, ks), g in want.items() if g == face]
                    if len(owners) != 1 or frozenset(int(x) for x in row) != frozenset(int(x) for x in cells[owners[0]]):
                        bad["rows"].append(tag)
                        break
                ra = bcls(mesh, only_surface=False)
                allf = [frozenset(int(x) for x in row) for row in ra.mesh.cells_faces]
                if len(allf) != 2 * nf or sorted(map(sorted, allf)) != sorted(list(map(sorted, want.values())) + [sorted(shared)] * 2):
                    bad["both"].append(tag)
                # cell-major order: first the faces of A, then those of B; the interior copies match as sets
                ia = [i for i in range(nf) if allf[i] == shared]
                ib = [i for i in range(nf, 2 * nf) if allf[i] == shared]
                if len(ia) != 1 or len(ib) != 1:
                    bad["interior"].append(tag)
    vk.ensures_true("only_surface=True/count==2*nf-2", not bad["count"], f"{total} gluings x numberings; failing: {bad['count'][:4]}")
    vk.ensures_true("only_surface=True/cells_faces==all-faces-but-the-shared-one", not bad["faces"], f"failing: {bad['faces'][:4]}")
    vk.ensures_true("only_surface=True/boundary-cells-belong-to-the-owner-of-the-face", not bad["rows"], f"failing: {bad['rows'][:4]}")
    vk.ensures_true("only_surface=False/all-faces-kept", not bad["both"], f"failing: {bad['both'][:4]}")
    vk.ensures_true("only_surface=False/interior-face-listed-once-per-neighbour-with-equal-node-sets", not bad["interior"], f"failing: {bad['interior'][:4]}")
    vk.note(f"pairs_topology[{ct}]: {total} = {len(all_pairings(dim))} gluings x 3 numberings, exhaustive")
    # canary: a mesh of two cells that do NOT share a face keeps all faces
    cells0, pos0, shared0, fB = pair_topology(P, 0, 1, syms[0])
    with symnp.native():
        far = np.vstack([pos0[:n], pos0[:n] + 5.0])
        r_ = bcls(fem.Mesh(far, np.array([list(range(n)), list(range(n, 2 * n))]), ct), only_surface=True)
    vk.canary_bool("disjoint-cells-lose-a-face", len(r_.mesh.cells_faces) == 2 * nf)


def _representative_symmetry(fi, nsym):
    return (5 * fi + 3) % nsym


def _pair_configs():
    out = []
    for ct in sorted(CELLS, key=lambda t: (not t.startswith("hexa"), t)):
        dim = 2 if ct.startswith("quad") else 3
        nq_ = len(proper_symmetries(dim))
        mode = "classes" if ct in HI3 else "generic"
        for k in range(dim):
            for s in (-1, 1):
                # 3D quick: one symmetry per face of A, chosen so that the six faces of B all occur; thorough: all 24
                fi = 2 * k + (s + 1) // 2
                for qi in range(nq_):
                    quick = dim == 2 or qi == _representative_symmetry(fi, nq_)
                    out.append(dict(cell=ct, coords=mode, k=k, s=s, Q=qi, **({} if quick else {"tier": "thorough"})))
    return out


@contract("C13", "pairs", configs=_pair_configs())
def pairs(vk, cfg):
    """two generic cells sharing a face: only_surface=True -- the kept faces are the non-shared reference
    faces of both cells, area vectors close, flux == dim * volume of both cells; only_surface=False --
    the two copies of the interior face carry opposite area vectors at the same points"""
    ct, mode, k, s, qi = cfg["cell"], cfg["coords"], cfg["k"], cfg["s"], int(cfg["Q"])
    _under_contract(vk, ct)
    bcls, vcls, el_cls = CELLS[ct]
    P = ref_points(el_cls())
    n, dim = P.shape
    cells, pos, shared, fB = pair_topology(P, k, s, proper_symmetries(dim)[qi])
    reps = pair_representatives(P, cells, shared)
    # 20/27-node pairs: the flux clause needs the volume region of both cells (54 points, symbolic inverses): it is
    # evaluated in the thorough tier on the six representative gluings; every other clause on all 144
    flux_clause = ct not in HI3 or (vk.tier == "thorough" and qi == _representative_symmetry(2 * k + (s + 1) // 2, len(proper_symmetries(dim))))
    c = build(vk, ct, mode, cells=cells, pos=pos, reps=reps, volume=flux_clause, only_surface=True)
    r = c.region
    nq, nb = r.dA.shape[1], r.dA.shape[2]
    if vk.sym:
        want = expected_surface(P, cells, shared)
        got = {}
        for b, f in enumerate(r._fd):
            if f["parent"] is not None and len(f["ks"]) == 1:
                got[(f["parent"], f["ks"][0])] = frozenset(int(x) for x in r.mesh.cells_faces[b])
        vk.ensures_true("only_surface/kept-faces==non-shared-reference-faces", nb == len(want) and got == want, f"{nb} boundary cells; identified {sorted(got)}")
    tot = r.dA.sum(axis=(1, 2))
    vk.ensures_eq("only_surface/closure", tot, 0 * tot, tol=TOL if ct in QUADRATIC else None)
    if flux_clause:
        xq = positions(vk, c, r)
        flux = (xq * r.dA).sum()
        vol = vcls(c.mesh, quadrature=exact_quadrature(vk, vcls))
        V = vol.dV.sum()
        vk.ensures_eq("only_surface/flux==dim*volume", flux, dim * V, tol=TOL * 20)
    else:
        vk.note("pairs[hexahedron20/27]: the flux clause of the pair is checked in the thorough tier on the six representative gluings (it is the sum of the per-cell flux identities of `cell` and the opposite interior contributions, which are proved for every gluing)")
    # all faces: the interior face seen from both sides
    ra = construct(vk, c, only_surface=False)
    fa = [b for b, f in enumerate(ra._fd) if f["parent"] == 0 and f["ks"] == [(k, s)]]
    fb = [b for b, f in enumerate(ra._fd) if f["parent"] == 1 and f["ks"] == [fB]]
    ok = len(fa) == 1 and len(fb) == 1
    if vk.sym:
        vk.ensures_true("all-faces/interior-face-found-in-both-cells", ok and ra.dA.shape[2] == 4 * dim, f"A: {fa}, B: {fb}, {ra.dA.shape[2]} boundary cells")
    xa = positions(vk, c, ra)
    match = []
    if ok:
        a_, b_ = fa[0], fb[0]
        for q in range(nq):
            if vk.sym:
                qq = [q2 for q2 in range(nq) if all(ring.iszero(co(xa[i, q, a_]) - co(xa[i, q2, b_])) for i in range(dim))]
            else:
                qq = [q2 for q2 in range(nq) if all(abs(xa[i, q, a_] - xa[i, q2, b_]) < 1e-9 for i in range(dim))]
            match.append(qq[0] if len(qq) == 1 else None)
    good = ok and all(m is not None for m in match) and sorted(match) == list(range(nq))
    if vk.sym:
        vk.ensures_true("all-faces/interior-quadrature-points-coincide", good, str(match))
    if not good:
        if not vk.sym:
            raise Skip("interior face not identified in the native run")
        return
    vk.ensures_eq("all-faces/interior-dA-opposite", ra.dA[:, :, a_], -ra.dA[:, match, b_])
    vk.ensures_eq("all-faces/interior-normals-opposite", ra.normals[:, :, a_], -ra.normals[:, match, b_])
    if vk.sym:
        vk.ensures_true("all-faces/interior-cells_faces-equal-as-sets", sorted(int(x) for x in ra.mesh.cells_faces[a_]) == sorted(int(x) for x in ra.mesh.cells_faces[b_]) == sorted(shared), str(ra.mesh.cells_faces[a_]))
        allsum = ra.dA.sum(axis=(1, 2))
        vk.canary_bool("surface-closes-without-one-face", any(ring.l1norm(co(x)) > TOL for x in (tot - r.dA[:, :, 0].sum(axis=1))))
        vk.canary("interior-dA-equal", ra.dA[:, :, a_], ra.dA[:, match, b_])


# =================================================================================================
# point mask: symbolic membership
# =================================================================================================
class SymMask:
    """a point mask whose entries are free Booleans (z3)"""

    def __init__(s, bools):
        s.b = list(bools)


class _SymSet:
    """np.arange(n)[mask]: the set { values[i] : mask[i] }"""

    def __init__(s, values, mask):
        s.values, s.mask = [int(v) for v in values], mask

    def mem(s, v):
        import z3

        hits = [s.mask.b[i] for i, x in enumerate(s.values) if x == int(v)]
        return z3.Or(*hits) if len(hits) != 1 else hits[0]


class _Ar(np.ndarray):
    def __getitem__(s, key):
        if isinstance(key, SymMask):
            if s.ndim != 1 or len(key.b) != len(s):
                raise oracle.Undecided("symbolic mask on an array of different shape")
            return _SymSet(np.asarray(s), key)
        return super().__getitem__(key)


class MaskRun:
    """stand-ins bound to the module global `np` of felupe.region._boundary for one constructor call:
    arange / isin / all understand the symbolic mask; `np.all(<symbolic rows>, axis=1)` is the one
    data-dependent decision of the constructor: it returns the scripted outcome and records the
    symbolic conditions"""

    def __init__(s, script=None):
        s.script, s.conds = script, None

    def arange(s, *a, **k):
        return np.arange(*a, **k).view(_Ar)

    def isin(s, a, t, **k):
        if not isinstance(t, _SymSet):
            return np.isin(a, t, **k)
        a = np.asarray(a)
        out = np.empty(a.shape, dtype=object)
        for i in np.ndindex(*a.shape):
            out[i] = t.mem(a[i])
        return out

    def all(s, x, axis=None, **k):
        return s._reduce(x, axis, np.all, "And", **k)

    def any(s, x, axis=None, **k):
        return s._reduce(x, axis, np.any, "Or", **k)

    def _reduce(s, x, axis, real, op, **k):
        import z3

        if not (isinstance(x, np.ndarray) and x.dtype == object):
            return real(x, axis=axis, **k)
        if axis != 1 or x.ndim != 2 or s.conds is not None:
            raise oracle.Undecided("unexpected reduction of symbolic membership")
        s.conds = [getattr(z3, op)(*row) if len(row) != 1 else row[0] for row in x]
        if s.script is None:
            raise _NeedScript(len(s.conds))
        if len(s.script) != len(s.conds):
            raise oracle.Undecided("selection length changed between runs")
        return np.array(s.script, dtype=bool)


class _NeedScript(Exception):
    pass


def masked_region(bcls, mesh, mask, script, **kw):
    """run the real constructor with the stand-ins bound; returns (region or None, recorded conditions)"""
    run = MaskRun(script)
    old = B_.np
    B_.np = symnp.NPProxy({**symnp._OVERRIDES, "arange": run.arange, "isin": run.isin, "all": run.all, "any": run.any})
    try:
        with symnp.native():
            try:
                r = bcls(mesh, mask=mask, **kw)
            except _NeedScript:
                r = None
    finally:
        B_.np = old
    return r, run.conds


def _mask_configs():
    out = []
    for ct in CELLS:
        el = CELLS[ct][2]()
        P = ref_points(el)
        dim = P.shape[1]
        syms = proper_symmetries(dim)
        out.append(dict(cell=ct, mesh="single"))
        for k in range(dim):
            for s in (-1, 1):
                seen = set()
                for qi in range(len(syms)):
                    fB = pair_topology(P, k, s, syms[qi])[3]
                    if dim == 3 and fB in seen:
                        continue  # 3D: one symmetry per (face of A, face of B) -- the selection does not look at coordinates
                    seen.add(fB)
                    quick = (k, s) == (0, 1) and qi == (3 if dim == 2 else 8)
                    out.append(dict(cell=ct, mesh=f"pair:{k}:{s}:{qi}", **({} if quick else {"tier": "thorough"})))
        if not any(c_.get("cell") == ct and c_["mesh"].startswith("pair") and "tier" not in c_ for c_ in out):
            out.append(dict(cell=ct, mesh=f"pair:0:1:{3 if dim == 2 else 8}"))
    return out


@contract("C13", "mask", configs=_mask_configs(), engine="E3")
def mask_contract(vk, cfg):
    """restricting by a point mask selects exactly the faces whose points all satisfy the mask -- for all
    masks (free Booleans), only_surface on and off"""
    import z3

    if not vk.sym:
        return
    ct = cfg["cell"]
    _under_contract(vk, ct)
    bcls, vcls, el_cls = CELLS[ct]
    P = ref_points(el_cls())
    n, dim = P.shape
    if cfg["mesh"] == "single":
        cells, pos = np.arange(n).reshape(1, n), P
    else:
        _, k, s, qi = cfg["mesh"].split(":")
        cells, pos, shared, fB = pair_topology(P, int(k), int(s), proper_symmetries(dim)[int(qi)])
    npts = len(pos)
    with symnp.native():
        mesh = fem.Mesh(np.asarray(pos, dtype=float), cells, ct)
    m = SymMask([z3.Bool(f"m{i}") for i in range(npts)])
    faces = ref_faces(P)
    rng = np.random.RandomState(npts)
    for only_surface in (False, True):
        tag = f"only_surface={only_surface}"
        with symnp.native():
            r0 = bcls(mesh, only_surface=only_surface)  # unmasked: the candidate faces (pairs contracts)
        cand_faces = np.asarray(r0.mesh.cells_faces)
        cand_cells = np.asarray(r0.mesh.cells)
        nc = len(cand_faces)
        # spec: the geometric node set of every candidate (owner cell's nodes on the reference face it lies on)
        c = Cell()
        c.P, c.dim, c.n, c.cells = P, dim, n, np.asarray(cells)

        class _F:
            sym = False

        fd = identify(_F, c, r0)
        spec_nodes = []
        for b in range(nc):
            f = fd[b]
            spec_nodes.append(frozenset(int(cells[f["parent"]][a]) for a in faces[f["ks"][0]]) if f["parent"] is not None and len(f["ks"]) == 1 else None)
        vk.ensures_true(f"{tag}/candidates-identified", all(x is not None for x in spec_nodes), f"{nc} candidate faces")
        if any(x is None for x in spec_nodes):
            continue
        # 0. (native, first: independent of the symbolic mask stand-in) the other documented forms of a mask: a list of booleans, an array / list of point indices (in any order) --
        # the same point set selects the same faces
        mism = []
        for trial in range(8):
            mk = rng.rand(npts) < (0.85 if trial % 2 else 0.6)
            idx = np.flatnonzero(mk)
            want = np.array([all(mk[p] for p in spec_nodes[b]) for b in range(nc)], dtype=bool)
            forms = {"bool-list": mk.tolist(), "index-array": idx, "index-list": idx.tolist(), "index-array-shuffled": rng.permutation(idx)}
            for fname, form in forms.items():
                if len(idx) == 0 and fname != "bool-list":
                    continue
                with symnp.native():
                    rr = bcls(mesh, only_surface=only_surface, mask=form)
                if not np.array_equal(np.asarray(rr.mesh.cells_faces), cand_faces[want]):
                    mism.append((trial, fname))
        vk.ensures_true(f"{tag}/mask-forms (boolean list, index array, index list, shuffled indices) select the same faces", not mism, f"8 random point sets x 4 forms; mismatches {mism[:4]}")
        # 1. the selection conditions the constructor computes == all points of the geometric face satisfy the mask
        _, conds = masked_region(bcls, mesh, m, None, only_surface=only_surface)
        vk.ensures_true(f"{tag}/one-condition-per-candidate", conds is not None and len(conds) == nc, f"{None if conds is None else len(conds)} conditions")
        if conds is None or len(conds) != nc:
            continue
        for b in range(nc):
            vk.ensures_smt(f"{tag}/selected[{b}]<=>all-face-points-in-mask", conds[b] == z3.And(*[m.b[p] for p in sorted(spec_nodes[b])]))
        vk.canary_bool(f"{tag}/selected<=>corner-points-in-mask" if ct in QUADRATIC else f"{tag}/selected<=>first-point-in-mask", _smt_invalid(conds[0] == z3.And(*[m.b[p] for p in sorted(spec_nodes[0]) if (node_owner_class(P, cells, p) == 0 if ct in QUADRATIC else p == min(spec_nodes[0]))])))
        # 2. the rest of the constructor, for every outcome of the selection: exactly the selected rows, in order
        bad, runs = [], 0
        for script in itertools.product((False, True), repeat=nc):
            r, conds2 = masked_region(bcls, mesh, m, list(script), only_surface=only_surface)
            runs += 1
            sel = np.array(script, dtype=bool)
            ok = conds2 is not None and len(conds2) == nc and all(z3.eq(a, b) for a, b in zip(conds, conds2))
            ok = ok and np.array_equal(np.asarray(r.mesh.cells_faces), cand_faces[sel]) and np.array_equal(np.asarray(r.mesh.cells), cand_cells[sel])
            ok = ok and r.dA.shape[-1] == int(sel.sum()) and np.array_equal(r.dA, r0.dA[..., sel]) and np.array_equal(r.normals, r0.normals[..., sel])
            if not ok:
                bad.append(script)
        vk.ensures_true(f"{tag}/region-consists-of-exactly-the-selected-faces", not bad, f"{runs} outcomes of the selection executed; failing: {bad[:2]}")
        # 3. differential test of the stand-ins: concrete masks through real numpy
        mism = []
        for trial in range(12):
            mk = rng.rand(npts) < (0.85 if trial % 2 else 0.6)
            with symnp.native():
                rr = bcls(mesh, only_surface=only_surface, mask=mk)
            want = np.array([all(mk[p] for p in spec_nodes[b]) for b in range(nc)], dtype=bool)
            viaz3 = np.array([z3.is_true(z3.simplify(z3.substitute(conds[b], *[(m.b[i], z3.BoolVal(bool(mk[i]))) for i in range(npts)]))) for b in range(nc)], dtype=bool)
            if not (np.array_equal(np.asarray(rr.mesh.cells_faces), cand_faces[want]) and np.array_equal(want, viaz3)):
                mism.append(trial)
        vk.ensures_true(f"{tag}/concrete-masks-through-numpy-agree", not mism, f"12 random masks; mismatches {mism}")


def node_owner_class(P, cells, g):
    """class (0 = corner) of global node g in a cell that owns it"""
    cls = node_classes(P)
    for cl in np.asarray(cells):
        for a, x in enumerate(cl):
            if int(x) == int(g):
                return cls[a]
    return None


def _smt_invalid(claim):
    import z3

    sol = z3.Solver()
    sol.add(z3.Not(claim))
    return sol.check() == z3.sat


# =================================================================================================
# grad=False on the six boundary templates (option coverage): a boundary region without gradients
# =================================================================================================
@contract("C13", "grad_flag", configs=[dict(cell=ct, coords=("affine" if ct in HI3 else "generic"), **kw) for ct in CELLS for kw in (dict(), dict(only_surface=False))])
def grad_flag(vk, cfg):
    """grad=False ("a flag to invoke gradient evaluation"): the boundary template selects the same faces and rotated
    cells and evaluates the same shape functions at the same face quadrature points as with the default grad=True,
    but no Jacobian: none of dXdr, drdX, dhdX, dV, dA, normals, tangents exists (nothing stale, nothing made up);
    grad=True handed in explicitly is the default region"""
    ct = cfg["cell"]
    _under_contract(vk, ct)
    kw = {k: cfg[k] for k in ("only_surface",) if k in cfg}
    c = build(vk, ct, cfg["coords"], **kw)
    r1 = c.region
    snapX = vk.snapshot(c.X)
    r0 = c.bcls(c.mesh, quadrature=exact_quadrature(vk, c.bcls), grad=False, **kw)
    rt = c.bcls(c.mesh, quadrature=exact_quadrature(vk, c.bcls), grad=True, **kw)
    vk.ensures_eq("grad=False/h==h of the default region", r0.h, r1.h, tol=TOL)
    vk.ensures_eq("grad=False/dhdr==dhdr of the default region", r0.dhdr, r1.dhdr, tol=TOL)
    vk.ensures_eq("grad=False/points of the boundary mesh==points of the mesh", r0.mesh.points, c.X)
    vk.frame_unchanged("grad=False/mesh.points untouched", c.mesh.points, snapX)
    vk.ensures_eq("grad=True given/dA==dA of the default region", rt.dA, r1.dA, tol=TOL)
    vk.ensures_eq("grad=True given/dhdX==dhdX of the default region", rt.dhdX, r1.dhdX, tol=TOL)
    # a field on the gradient-free boundary region interpolates the nodal values to the face quadrature points
    vals = vk.reals("val", (c.n, 1), near=0.3, spread=0.5)
    f0 = fem.Field(r0, dim=1, values=vals)
    f1 = fem.Field(r1, dim=1, values=vals)
    vk.ensures_eq("grad=False/Field.interpolate==that on the default region", f0.interpolate(), f1.interpolate(), tol=TOL)
    if vk.sym:
        absent = [nm for nm in ("dXdr", "drdX", "dhdX", "dV", "dA", "normals", "tangents", "d2hdXdX") if hasattr(r0, nm)]
        vk.ensures_true("grad=False/no Jacobian, no area vectors, normals or tangents", not absent and r0.evaluate_gradient is False, f"present: {absent}", backend="exec")
        same_sel = (
            np.array_equal(np.asarray(r0.mesh.cells, dtype=int), np.asarray(r1.mesh.cells, dtype=int))
            and np.array_equal(np.asarray(r0.mesh.cells_faces, dtype=int), np.asarray(r1.mesh.cells_faces, dtype=int))
            and np.array_equal(r0._selection, r1._selection)
            and r0.mesh.cell_type == r1.mesh.cell_type
            and r0.only_surface == r1.only_surface
            and r0.ensure_3d == r1.ensure_3d
        )
        vk.ensures_true("grad=False/same faces, same rotated cells (mesh.cells, mesh.cells_faces) as the default region", bool(same_sel), f"{np.shape(r0.mesh.cells)}", backend="exec")
        vk.ensures_true("grad=True given/flag and tables present", rt.evaluate_gradient is True and all(hasattr(rt, nm) for nm in ("dXdr", "drdX", "dhdX", "dV", "dA", "normals", "tangents")), "", backend="exec")
        vk.canary_bool("grad=False still has dA", not hasattr(r0, "dA"))
