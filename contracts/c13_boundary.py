"""C13 -- boundary regions describe closed surfaces consistently with the volume.

Code under contract: `felupe/region/_boundary.py` (the six `boundary_cells_*` index tables,
`RegionBoundary.__init__`, `_init_faces`, `mesh_faces`) and the six boundary templates with their default
`GaussLegendreBoundary` quadrature.

E1 (generic cell): the real template is executed on ONE cell whose node coordinates are free reals
(incl. mid-side / face / centre nodes, hence curved).  `requires`: det(dX/dr) > 0 at the points of the
closed reference cell where the code evaluates it -- the Gauss points of the 2*dim reference faces (the
boundary region) and the interior Gauss points (the volume template of the flux clause).  The reference
faces, their node sets and their outward normals are defined spec-side from the element's own points
(`element.points`, C04 contract): face (k, s) = { xi : xi_k = s }, N = s e_k -- never from the tables
under test.

Pairs (E1 + ground): two cells glued along a face in every admissible way (every face of A, every proper
symmetry of the reference cell for B), nodes identified by position: `only_surface=True` keeps exactly
the non-shared faces, whose area vectors close and whose flux is dim * volume.

Mask (symbolic membership, path enumeration): the point mask is an array of free Booleans; the real
constructor is executed once per feasible outcome of its one data-dependent selection, the path
condition and the postcondition `selected(f) <=> all points of the geometric face f satisfy the mask`
are decided by z3 for all masks at once.
"""
import inspect
import itertools
from fractions import Fraction

import numpy as np

import felupe as fem
from felupe.region import _boundary as B_
from vk import gencell, oracle, ring, symnp
from vk.core import Skip, contract
from vk.gencell import generic_points, ref_points, require_valid_cell
from vk.ring import LP, co
from vk.symnp import det_ref, ref_einsum

from contracts.c06_regions import exact_quadrature

TRUSTED = [
    "C13: Region.reload (dXdr = sum_a X_a (x) grad h_a at the region's quadrature points, drdX, dhdX) and Field.interpolate are under the C06 contract; element.points / function / gradient under the C04 contract; GaussLegendre tables under C05",
    "C13: 'outward' is the local statement n . (dX/dxi N) > 0 with N the outward normal of the closed reference cell at the face point (the cell map preserves orientation on valid cells, so -dX/dxi N points into the body); on affine cells additionally (x_q - centroid) . n > 0",
    "C13: closure and flux of a closed surface made of several cells follow from the per-face integrals; the pair contracts instantiate this for two cells (every admissible gluing), larger meshes follow by induction on the number of cells (paper lemma: a shared face contributes opposite area vectors and equal positions)",
    "C13 mask: numpy contracts assumed for the symbolic-membership run: np.arange(n)[mask] is the increasing list of i with mask[i]; np.isin(a, s)[..] is membership of a[..] in s; np.all(b, axis=1) is the row-wise conjunction (stand-ins differentially tested against numpy on concrete masks in every run)",
]

E = fem.element
# cell type: (boundary template, volume template, element, float tables -> tolerance)
CELLS = {
    "quad": (fem.RegionQuadBoundary, fem.RegionQuad, E.Quad),
    "quad8": (fem.RegionQuadraticQuadBoundary, fem.RegionQuadraticQuad, E.QuadraticQuad),
    "quad9": (fem.RegionBiQuadraticQuadBoundary, fem.RegionBiQuadraticQuad, E.BiQuadraticQuad),
    "hexahedron": (fem.RegionHexahedronBoundary, fem.RegionHexahedron, E.Hexahedron),
    "hexahedron20": (fem.RegionQuadraticHexahedronBoundary, fem.RegionQuadraticHexahedron, E.QuadraticHexahedron),
    "hexahedron27": (fem.RegionTriQuadraticHexahedronBoundary, fem.RegionTriQuadraticHexahedron, E.TriQuadraticHexahedron),
}
TABLES = {
    "quad": B_.boundary_cells_quad,
    "quad8": B_.boundary_cells_quad8,
    "quad9": B_.boundary_cells_quad9,
    "hexahedron": B_.boundary_cells_hexahedron,
    "hexahedron20": B_.boundary_cells_hexahedron20,
    "hexahedron27": B_.boundary_cells_hexahedron27,
}
TOL = 1e-11  # tolerance form (float Gauss tables read as the rationals they are)


def _default_quadrature(cls):
    return inspect.signature(cls.__init__).parameters["quadrature"].default


# ---- spec side: reference faces ------------------------------------------------------------------
def ref_faces(P):
    """faces of the reference cube [-1,1]^dim: list of (k, s, frozenset of the element's nodes on xi_k == s)"""
    dim = P.shape[1]
    out = []
    for k in range(dim):
        for s in (-1, 1):
            out.append((k, s, frozenset(int(a) for a in np.nonzero(P[:, k] == s)[0])))
    return out


def face_gauss_points(bcls, dim):
    """the Gauss points of all 2*dim reference faces (in-face coordinates = those of the template's own
    default rule, which is symmetric under the symmetries of the face)"""
    with symnp.native():
        qp = np.asarray(_default_quadrature(bcls).points, dtype=float)
    pts = []
    for k in range(dim):
        for s in (-1.0, 1.0):
            for p in qp:
                pts.append(tuple(np.insert(p[:-1], k, s)))
    return pts


def node_classes(P):
    """corner / edge / face / centre class of each node of the reference cell (number of free coordinates)"""
    return [int(np.sum(np.abs(p) != 1)) for p in P]


def representative_nodes(P):
    """a small set of nodes containing, for every reference face, one node of every class present on it"""
    cls = node_classes(P)
    faces = ref_faces(P)
    need = {(fi, c) for fi, (k, s, nodes) in enumerate(faces) for c in {cls[a] for a in nodes}}
    chosen = []
    while need:
        best = max(range(len(P)), key=lambda a: (sum(1 for (fi, c) in need if a in faces[fi][2] and cls[a] == c), -a))
        chosen.append(best)
        need = {(fi, c) for (fi, c) in need if not (best in faces[fi][2] and cls[best] == c)}
    interior = [a for a in range(len(P)) if cls[a] == P.shape[1]]
    return sorted(set(chosen + interior))


def cell_points(vk, el, mode, name="X"):
    """node coordinates of the generic cell.
    generic: every coordinate a free real;  affine: X_a = B xi_a + t (B, t free);
    classes: affine image plus a free displacement vector for one representative node of every class
             (corner, edge, face, centre) on every face"""
    P = ref_points(el)
    if mode == "generic":
        return generic_points(vk, el, name=name, spread=0.06)
    X = generic_points(vk, el, name=name, affine=True, spread=0.1)
    if mode == "classes":
        for a in representative_nodes(P):
            d = vk.reals(f"{name}d{a}", (P.shape[1],), near=0.0, spread=0.04)
            X[a] = X[a] + d
    return X


def _lpvec(xi):
    """exact reference point (Fractions) as ring constants (a bare Fraction would be rounded by the float literals of the element code)"""
    return np.array([co(x) for x in xi], dtype=object)


def jac(el, X, xi):
    """spec: dX/dxi at a reference point (exact) = sum_a X_a (x) grad h_a(xi)"""
    g = np.asarray(el.gradient(_lpvec(xi)))
    n, dim = X.shape
    J = np.empty((dim, dim), dtype=X.dtype)
    for i in range(dim):
        for j in range(dim):
            J[i, j] = sum(X[a, i] * g[a, j] for a in range(n))
    return J


def cof_col(J, k):
    """column k of the cofactor matrix of J (Nanson: n da = cof(J) N dA)"""
    dim = J.shape[0]
    if dim == 2:
        o = 1 - k
        return np.array([J[1, o], -J[0, o]], dtype=J.dtype) * (1 if k == 0 else -1)
    a, b = [(1, 2), (2, 0), (0, 1)][k]
    u, v = J[:, a], J[:, b]
    return np.array([u[1] * v[2] - u[2] * v[1], u[2] * v[0] - u[0] * v[2], u[0] * v[1] - u[1] * v[0]], dtype=J.dtype)


def _fr(x):
    c = co(x).asconst()
    if c is None:
        raise ValueError("not a constant")
    return Fraction(c)


class Cell:
    """one generic cell with its boundary region (real code) and the spec-side face data"""


def build_cell(vk, ct, mode, volume=False, **kw):
    bcls, vcls, el_cls = CELLS[ct]
    el = el_cls()
    P = ref_points(el)
    n, dim = P.shape
    X = cell_points(vk, el, mode)
    mesh = fem.Mesh(X, np.arange(n).reshape(1, n), ct)
    c = Cell()
    c.ct, c.el, c.P, c.X, c.mesh, c.dim, c.n = ct, el, P, X, mesh, dim, n
    c.bcls, c.vcls = bcls, vcls
    # precondition schema "valid cell": det > 0 at the face Gauss points (and the interior Gauss points)
    fpts = face_gauss_points(bcls, dim)
    c.face_dets = dict(zip(fpts, require_valid_cell(vk, el, X, fpts)))
    if volume:
        with symnp.native():
            vq = np.asarray(_default_quadrature(vcls).points, dtype=float)
        require_valid_cell(vk, el, X, vq)
    if vk.sym:
        oracle.COLLECT = []
    try:
        c.region = bcls(mesh, quadrature=exact_quadrature(vk, bcls), **kw)
    finally:
        c.collected = oracle.COLLECT if vk.sym else []
        oracle.COLLECT = None
    derive_norm_facts(vk, c, c.region)
    return c


def _assumed_sign(p):
    """'>' / '<' if p is literally in the assumption set up to a non-zero rational factor (no solver)"""
    p = co(p)
    for q, o in oracle.ASSUME:
        if o in (">", "<"):
            r_ = oracle._ratio(p, q)
            if r_ is not None and r_ != 0:
                return o if r_ > 0 else {">": "<", "<": ">"}[o]
    return None


def rotated_jacobians(c, r, obj=object):
    """J_b(q) = sum_a X[cells[b, a]] (x) dhdr[a, :, q]: what Region.reload computes for the rotated cells (C06
    contract), from the region's own cell table and shape-function gradients"""
    cells = np.asarray(r.mesh.cells)
    with symnp.native():
        dh = np.asarray(r.dhdr)
    dh = dh.reshape(dh.shape[0], dh.shape[1], -1)
    nq, nb, dim = dh.shape[2], len(cells), c.dim
    pts = np.asarray(r.mesh.points)
    J = np.empty((dim, dim, nq, nb), dtype=obj)
    for b in range(nb):
        for q in range(nq):
            for i in range(dim):
                for j in range(dim):
                    J[i, j, q, b] = sum(pts[cells[b, a], i] * dh[a, j, q] for a in range(cells.shape[1]))
    return J


def derive_norm_facts(vk, c, r, label="derived"):
    """sign facts entailed by the valid-cell precondition, proved first and then added to the assumption
    set (they are the radicands of the norms taken by _init_faces):
      dA_q . (-J_b e_last) == w_q det J_b > 0   =>  dA_q != 0  =>  dA_q . dA_q > 0
      J_b e_j . cof(J_b) e_j == det J_b > 0     =>  J_b e_j != 0  =>  |J_b e_j|^2 > 0   (in-face columns j)
    where det J_b is literally one of the assumed determinants of the schema."""
    if not vk.sym or not hasattr(r, "dA"):
        return
    dim = c.dim
    Jb = rotated_jacobians(c, r)
    nq, nb = Jb.shape[2], Jb.shape[3]
    with symnp.native():
        w = np.asarray(r.quadrature.weights)
    lhs = np.empty((nq, nb), dtype=object)
    rhs = np.empty((nq, nb), dtype=object)
    pos = np.zeros((nq, nb), dtype=bool)
    for b in range(nb):
        for q in range(nq):
            J = Jb[:, :, q, b]
            d = co(det_ref(J))
            pos[q, b] = _assumed_sign(d) == ">"
            lhs[q, b] = -sum(co(r.dA[i, q, b]) * co(J[i, dim - 1]) for i in range(dim))
            rhs[q, b] = d * co(w[q])
            if pos[q, b] and ring.iszero(lhs[q, b] - rhs[q, b]):
                oracle.assume(sum(co(r.dA[i, q, b]) * co(r.dA[i, q, b]) for i in range(dim)), ">")
            if pos[q, b]:
                for j in range(dim - 1):
                    col = J[:, j]
                    if ring.iszero(sum(co(col[i]) * co(cof_col(J, j)[i]) for i in range(dim)) - d):
                        oracle.assume(sum(co(col[i]) * co(col[i]) for i in range(dim)), ">")
    vk.ensures_true(f"{label}/det(J_b)-is-an-assumed-determinant", bool(pos.all()), f"{int(pos.sum())} of {pos.size} rotated-cell determinants are instances of the valid-cell schema")
    vk.ensures_eq(f"{label}/dA.(-J_b e_last)==w det(J_b)", lhs, rhs)


def face_data(vk, c, region=None):
    """spec-side identification of every boundary cell b of the region with a reference face of the
    original cell: xi_q (position of the quadrature point in the original reference cell, through the
    region's own shape functions and cell table), (k, s) with xi_q[k] == s for all q, the
    reference-to-reference Jacobian G_b"""
    r = region or c.region
    cells = np.asarray(r.mesh.cells)
    nb = len(cells)
    with symnp.native():
        h = np.asarray(r.h)
        dhdr = np.asarray(r.dhdr)
    h = h.reshape(h.shape[0], -1)
    dhdr = dhdr.reshape(dhdr.shape[0], dhdr.shape[1], -1)
    nq = h.shape[1]
    Pex = np.array([[Fraction(x) for x in p] for p in c.P], dtype=object)
    out = []
    for b in range(nb):
        xi = np.empty((nq, c.dim), dtype=object)
        G = np.empty((nq, c.dim, c.dim), dtype=object)
        for q in range(nq):
            for i in range(c.dim):
                xi[q, i] = sum(_fr(h[a, q]) * Pex[cells[b, a] % c.n, i] for a in range(c.n))
                for j in range(c.dim):
                    G[q, i, j] = sum(_fr(dhdr[a, j, q]) * Pex[cells[b, a] % c.n, i] for a in range(c.n))
        ks = [(k, s) for k in range(c.dim) for s in (-1, 1) if all(xi[q, k] == s for q in range(nq))]
        out.append(dict(xi=xi, G=G, ks=ks))
    return out


def _is_signed_perm(G, dim):
    rows = [[G[i, j] for j in range(dim)] for i in range(dim)]
    ok = all(x in (0, 1, -1) for r_ in rows for x in r_)
    ok = ok and all(sum(abs(x) for x in r_) == 1 for r_ in rows) and all(sum(abs(rows[i][j]) for i in range(dim)) == 1 for j in range(dim))
    return ok and det_ref(np.array(rows, dtype=object)) == 1


def _cell_configs():
    out = []
    for ct in CELLS:
        hi3 = ct in ("hexahedron20", "hexahedron27")
        for clause in ("faces", "area", "unit", "closure_flux", "outward"):
            if hi3:
                out.append(dict(cell=ct, coords="classes", clause=clause))
                out.append(dict(cell=ct, coords="generic", clause=clause, tier="thorough"))
            else:
                out.append(dict(cell=ct, coords="generic", clause=clause))
        out.append(dict(cell=ct, coords="affine", clause="outward"))
    return out


@contract("C13", "cell", configs=_cell_configs())
def cell_contract(vk, cfg):
    """one generic cell, only_surface=False: face identification, Nanson area vectors, unit normals and
    tangents, per-cell closure, flux == dim * volume, outwardness"""
    ct, mode, clause = cfg["cell"], cfg["coords"], cfg["clause"]
    vk.real(B_.RegionBoundary.__init__)
    vk.real(B_.RegionBoundary._init_faces)
    vk.real(TABLES[ct])
    vk.real(CELLS[ct][0].__init__)
    vk.real(fem.GaussLegendreBoundary.__init__)
    c = build_cell(vk, ct, mode, volume=(clause == "closure_flux"), only_surface=False)
    r, X, el, dim, n = c.region, c.X, c.el, c.dim, c.n
    obj = object if vk.sym else float
    tol = TOL
    nq = r.dA.shape[1]
    nb = r.dA.shape[2]
    with symnp.native():
        w = np.asarray(r.quadrature.weights)
    if vk.sym:
        fd = face_data(vk, c)
        faces = ref_faces(c.P)
        vk.ensures_true("pre/instance", True if not c.collected else None, f"{len(c.collected)} sign tests of the constructor are not instances of the valid-cell schema (det dX/dxi at a point of the closed reference cell)")
    else:
        fd = None

    if clause == "faces":
        # the boundary cells are exactly the 2*dim reference faces, each once; cells_faces lists exactly the
        # nodes on the face; the rotated cell is a proper re-numbering of the original cell
        cf = np.asarray(r.mesh.cells_faces)
        if vk.sym:
            vk.ensures_true("count", nb == 2 * dim and len(cf) == nb, f"{nb} boundary cells, {len(cf)} faces")
            vk.ensures_true("each-on-one-reference-face", all(len(f["ks"]) == 1 for f in fd), str([f["ks"] for f in fd]))
            vk.ensures_true("bijection", len({tuple(f["ks"]) for f in fd}) == 2 * dim, str([f["ks"] for f in fd]))
            nodesets = {(k, s): nodes for k, s, nodes in faces}
            for b, f in enumerate(fd):
                want = nodesets.get(f["ks"][0]) if len(f["ks"]) == 1 else None
                vk.ensures_true(f"cells_faces/[{b}]==nodes-on-face", want is not None and len(cf[b]) == len(want) and frozenset(int(x) for x in cf[b]) == want, f"{sorted(int(x) for x in cf[b])} vs {sorted(want) if want else None}")
                vk.ensures_true(f"rotated-cell/[{b}]/permutation", sorted(int(x) for x in r.mesh.cells[b]) == list(range(n)), str(list(r.mesh.cells[b])))
                G0 = f["G"][0]
                okG = all(all(f["G"][q][i, j] == G0[i, j] for i in range(dim) for j in range(dim)) for q in range(nq)) and _is_signed_perm(G0, dim)
                if len(f["ks"]) == 1:
                    k, s = f["ks"][0]
                    okG = okG and all(G0[i, dim - 1] == (-s if i == k else 0) for i in range(dim))
                vk.ensures_true(f"rotated-cell/[{b}]/proper-rotation-last-axis-inward", okG, str(G0.tolist()))
                # quadrature on the face: the images of the region's points with their weights are the tensor Gauss rule of the face
                got = sorted((tuple(f["xi"][q]), Fraction(float(w[q]))) for q in range(nq))
                if len(f["ks"]) == 1:
                    k, s = f["ks"][0]
                    with symnp.native():
                        qp = np.asarray(_default_quadrature(c.bcls).points, dtype=float)
                    want = sorted((tuple(Fraction(float(x)) for x in np.insert(p[:-1], k, s)), Fraction(float(w[q]))) for q, p in enumerate(qp))
                    vk.ensures_true(f"face-rule/[{b}]", got == want, "images of the quadrature points on the face with their weights == Gauss rule of the face")
            vk.canary_bool("cells_faces-empty", True)
        # geometry of the rotated cell: J_b(q) == J(xi_q) G_b   (chain rule; linear in X)
        lhs = np.empty((dim, dim, nq, nb), dtype=obj)
        rhs = np.empty((dim, dim, nq, nb), dtype=obj)
        with symnp.native():
            dh = np.asarray(r.dhdr)
        dh = dh.reshape(dh.shape[0], dh.shape[1], -1)
        for b in range(nb):
            for q in range(nq):
                for i in range(dim):
                    for j in range(dim):
                        lhs[i, j, q, b] = sum(X[r.mesh.cells[b, a], i] * dh[a, j, q] for a in range(n))
                if vk.sym:
                    J = jac(el, X, fd[b]["xi"][q])
                    G = fd[b]["G"][q]
                    for i in range(dim):
                        for j in range(dim):
                            rhs[i, j, q, b] = sum(J[i, m] * G[m, j] for m in range(dim))
        vk.ensures_eq("rotated-cell/J_b==J(xi_q).G_b", lhs, rhs if vk.sym else lhs)
        if dim == 3:
            vk.ensures_eq("region.dXdr==J_b", r.dXdr, lhs)
        else:
            # 2D: _init_faces negates dXdr[1, 0] in place through a view (dA_1 aliases self.dXdr); the other entries are J_b
            vk.ensures_eq("region.dXdr[:,1]==J_b[:,1]", r.dXdr[:, 1], lhs[:, 1])
            vk.note("2D: RegionBoundary._init_faces negates region.dXdr[1, 0] in place (dA_1 is a view of self.dXdr); dA, dV, normals, tangents, drdX, dhdX are unaffected; region.dXdr is not an observable of C13")
        # positions of the quadrature points lie on the face of the original cell
        xq = fem.Field(r, dim=dim, values=X).interpolate()
        xs = np.empty((dim, nq, nb), dtype=obj)
        if vk.sym:
            for b in range(nb):
                for q in range(nq):
                    ha = np.asarray(el.function(_lpvec(fd[b]["xi"][q])))
                    for i in range(dim):
                        xs[i, q, b] = sum(ha[a] * X[a, i] for a in range(n))
        vk.ensures_eq("x_q==x(xi_q)", xq, xs if vk.sym else xq)
        if vk.sym:
            vk.canary("x_q==0", xq, 0 * xq)
        return

    if clause == "area":
        # Nanson: dA_q = cof(dX/dxi(xi_q)) N w_q with N the outward reference normal of the face
        spec = np.empty((dim, nq, nb), dtype=obj)
        if vk.sym:
            for b in range(nb):
                k, s = fd[b]["ks"][0] if len(fd[b]["ks"]) == 1 else (0, 1)
                for q in range(nq):
                    J = jac(el, X, fd[b]["xi"][q])
                    cc = cof_col(J, k)
                    for i in range(dim):
                        spec[i, q, b] = cc[i] * s * co(float(w[q]))
        vk.ensures_eq("dA==cof(J(xi_q)).N.w_q", r.dA, spec if vk.sym else r.dA, tol=None)
        vk.ensures_eq("dV^2==dA.dA", r.dV * r.dV, (r.dA * r.dA).sum(axis=0))
        if vk.sym:
            vk.ensures_true("dV>0", all(oracle.decide(co(x), ">") for x in r.dV.ravel()), "norm (positive root) of a non-zero area vector", backend="oracle")
            vk.canary("dA==0", r.dA, 0 * r.dA)
        return

    if clause == "unit":
        nn = (r.normals * r.normals).sum(axis=0)
        one = nn * 0 + 1
        vk.ensures_eq("n.n==1", nn, one)
        vk.ensures_eq("n*dV==dA", r.normals * r.dV, r.dA)
        vk.ensures_true("tangent-count", len(r.tangents) == dim - 1, str(len(r.tangents))) if vk.sym else None
        for i, t in enumerate(r.tangents):
            vk.ensures_eq(f"t{i}.t{i}==1", (t * t).sum(axis=0), one)
            vk.ensures_eq(f"t{i}.n==0", (t * r.normals).sum(axis=0), 0 * one)
        if vk.sym:
            vk.canary("n.n==2", nn, 2 * one)
            vk.canary("t0.n==1", (r.tangents[0] * r.normals).sum(axis=0), one)
        return

    if clause == "closure_flux":
        quadratic = ct not in ("quad", "hexahedron")
        tot = r.dA.sum(axis=(1, 2))
        vk.ensures_eq("closure/sum_faces_sum_q dA==0", tot, 0 * tot, tol=tol if quadratic else None)
        xq = fem.Field(r, dim=dim, values=X).interpolate()
        flux = (xq * r.dA).sum()
        vol = c.vcls(c.mesh, quadrature=exact_quadrature(vk, c.vcls))
        V = vol.dV.sum()
        vk.ensures_eq("flux/sum x_q.dA_q==dim*sum(dV)", flux, dim * V, tol=tol * 10)
        if vk.sym:
            vk.canary_bool("flux==(dim+1)*volume", ring.l1norm(co(flux) - (dim + 1) * co(V)) > tol * 10)
            vk.canary_bool("closure-without-one-face", any(ring.l1norm(co(x)) > tol for x in r.dA[:, :, 1:].sum(axis=(1, 2))))
        return

    if clause == "outward":
        if not vk.sym:
            return
        ok, bad = True, []
        for b in range(nb):
            if len(fd[b]["ks"]) != 1:
                ok, bad = False, bad + [f"boundary cell {b} is not on one reference face"]
                continue
            k, s = fd[b]["ks"][0]
            for q in range(nq):
                J = jac(el, X, fd[b]["xi"][q])
                JN = J[:, k] * s
                p = sum(co(r.dA[i, q, b]) * co(JN[i]) for i in range(dim))
                try:
                    good = oracle.decide(p, ">", why="outward")
                except oracle.Undecided:
                    good = None
                if good is not True:
                    ok = None if (good is None and ok is True) else (False if good is False else ok)
                    bad.append(f"b={b} q={q}: dA.(J N) > 0 {'undecided' if good is None else 'refuted'}")
        vk.ensures_true("outward/dA.(dX/dxi N)>0", ok, "; ".join(bad[:4]) or f"{nb * nq} sign facts entailed by the valid-cell precondition", backend="oracle")
        if mode == "affine":
            xq = fem.Field(r, dim=dim, values=X).interpolate()
            cen = X[: 2**dim].sum(axis=0) / 2**dim
            ok2, bad2 = True, []
            for b in range(nb):
                for q in range(nq):
                    p = sum((co(xq[i, q, b]) - co(cen[i])) * co(r.dA[i, q, b]) for i in range(dim))
                    try:
                        good = oracle.decide(p, ">", why="outward-centroid")
                    except oracle.Undecided:
                        good = None
                    if good is not True:
                        ok2 = None if (good is None and ok2 is True) else (False if good is False else ok2)
                        bad2.append(f"b={b} q={q}")
            vk.ensures_true("outward/(x_q-centroid).dA>0", ok2, "; ".join(bad2[:6]) or "entailed by det(B) > 0", backend="oracle")
        p0 = sum(co(r.dA[i, 0, 0]) * co(jac(el, X, fd[0]["xi"][0])[:, fd[0]["ks"][0][0]][i] * fd[0]["ks"][0][1]) for i in range(dim)) if len(fd[0]["ks"]) == 1 else None
        vk.canary_bool("inward", p0 is None or oracle.decide(p0, "<") is False)
        return
