"""C19 -- projection and post-processing return the quantities they name.

The real `tools.project / extrapolate / topoints`, `tools.force / moment`, `tools.save` (Cauchy point data), the
stress evaluators of SolidBody / SolidBodyNearlyIncompressible, the strain helpers of a field container
(`field.evaluate.*`) and the per-cell data of ViewField / ViewSolid are executed (E1) with symbolic values:
project on the real region templates over generic cells (free node coordinates, valid-cell precondition),
topoints / extrapolate on real regions over enumerated mesh topologies, the solid-body / field / view code on
opaque region tables.  External callees are contract stubs: the sparse direct solver (`A x = b`), the scipy COO
constructor (duplicates are summed), the material (StubMaterial: P(F) uninterpreted), the eigen backends (C17
contract), the pyvista dataset (`cell_data[label] = array` stores the array) and meshio.Mesh.
"""
import itertools
import warnings

import numpy as np

import felupe as fem
from contracts.c06_regions import CELLTYPE, TEMPLATES, _default_quadrature, exact_quadrature
from vk import coo, oracle, ring, symnp
from vk.core import Skip, contract
from vk.gencell import jacobian_at, ref_points, require_valid_cell
from vk.ring import LP, co
from vk.sparse_stub import DenseCSR
from vk.symnp import det_ref, ref_einsum

TRUSTED = [
    "C19: sparse direct solver contract (assumed): solver(A, b) returns the x with A x = b for nonsingular A (column-wise for a 2-d b).  The stub discharges it by certificate: a candidate x0 with A x0 == b (ring identity, checked at the call) is the solution because A is nonsingular; without a candidate it returns fresh unknowns x constrained only by A x = b and the obligations carry the linear combination of these equations they use (project_integral)",
    "C19: paper lemma (nonsingular volume matrix): A = sum_c P_c^T H_c^T diag(dV_c) H_c P_c with dV > 0 is positive definite on the points attached to cells iff every cell's table H_c[q, a] = h_a(xi_q) has full column rank (x^T A x = sum_qc dV_qc (H_c x_c)_q^2); the rank is computed exactly on the rational table (ground obligation 'sufficient rule'), dV > 0 is an oracle obligation, rows of points without cells are unit rows (obligation)",
    "C19: scipy COO contract (assumed, vk/coo.py): csr_matrix((data, (i, j)), shape) sums duplicates; toarray() returns the dense array (the `out=` argument of toarray is honoured); diagonal(), tolil(), item assignment and tocsr() of the dense stand-in (vk/sparse_stub.py) are the obvious dense operations, differentially tested against scipy in sparse_stub.selfcheck; scipy.sparse.issparse is true for the stand-in",
    "C19: the region tables are under the C06 contract (h = element functions at the quadrature points, dV = det(dX/dr) w > 0 on valid cells, sum_a h_a = 1); Field.interpolate / grad / extract incl. FieldPlaneStrain and FieldAxisymmetric are under the C06 field_kinds contract; Mesh.disconnect numbers the points of the disconnected mesh cell by cell (point k = cell k // npc, local point k % npc; C16 contract)",
    "C19: OpaqueTables = callee contract of Region for the solid-body / field / view code: h, dhdX, dV are free reals (dV > 0), i.e. every region with the given connectivity; configurations labelled tables=fixed use one table set in general position instead (noted per configuration)",
    "C19: material = vk.stubs.StubMaterial (C03 contract: gradient([F, statevars]) returns [P(F), statevars] with P an uninterpreted function of F; out= honoured); AreaChange.function == J F^-T (C03 kinematics contract)",
    "C19: let-abstraction of the pressure state of SolidBodyNearlyIncompressible: the real StateNearlyIncompressible is passed through the documented `state` argument with a pressure array that stores a fresh symbol for every update; the stress identities are thus proved for every pressure state (the update formula of p belongs to C10)",
    "C19: eigen backends (np.linalg.eigh / eigvalsh) are contract stubs returning fresh eigenvalues / eigenvectors (C17 contract of the math wrappers incl. their axis conventions; eigvalsh ascending); math.tovoigt, equivalent_von_mises, strain_stretch_1d, cross (np.cross) are under the C17 contract and executed",
    "C19: pyvista dataset contract (assumed): mesh.cell_data[label] = array stores the array with one row per cell, rows flattened in C order; the symbolic run uses a recording stand-in for Mesh.as_pyvista, the paired native run the real pyvista.UnstructuredGrid; meshio.Mesh is a recording stand-in in save_cauchy (files: C20)",
    "C19: linearity (paper lemma): project / extrapolate / topoints act on the tensor components independently; obligations are instantiated for scalar, (3,) vector, (3,3) and non-square (2,3) values",
]

E = fem.element


# ---- meshes of generic cells ---------------------------------------------------------------------
def _reference_mesh(name, ncells):
    """a small reference mesh (float coordinates, real mesh generators) whose cells share points"""
    with symnp.native():
        ct = CELLTYPE[name]
        if ct in ("quad", "quad8", "quad9"):
            m = fem.Rectangle(a=(-1, -1), b=(2 * ncells - 1, 1), n=(ncells + 1, 2))
            if ct == "quad8":
                m = m.add_midpoints_edges()
            if ct == "quad9":
                m = m.add_midpoints_edges().add_midpoints_faces()
        elif ct in ("hexahedron", "hexahedron20", "hexahedron27"):
            m = fem.Cube(a=(-1, -1, -1), b=(2 * ncells - 1, 1, 1), n=(ncells + 1, 2, 2))
            if ct == "hexahedron20":
                m = m.add_midpoints_edges()
            if ct == "hexahedron27":
                m = m.add_midpoints_edges().add_midpoints_faces().add_midpoints_volumes()
        elif ct in ("triangle", "triangle6"):
            m = fem.Mesh(np.array([[0.0, 0.0], [1.0, 0.0], [0.0, 1.0], [1.0, 1.0]]), np.array([[0, 1, 2], [1, 3, 2]])[:ncells], "triangle")
            if ncells == 1:
                m = fem.Mesh(m.points[:3], m.cells, "triangle")
            if ct == "triangle6":
                m = m.add_midpoints_edges()
            if "MINI" in name:
                m = m.add_midpoints_faces()
        elif ct in ("tetra", "tetra10"):
            P = np.array([[0.0, 0.0, 0.0], [1.0, 0.0, 0.0], [0.0, 1.0, 0.0], [0.0, 0.0, 1.0], [1.0, 1.0, 1.0]])
            m = fem.Mesh(P[: 3 + ncells], np.array([[0, 1, 2, 3], [1, 2, 3, 4]])[:ncells], "tetra")
            if ct == "tetra10":
                m = m.add_midpoints_edges()
            if "MINI" in name:
                m = m.add_midpoints_volumes()
        else:
            raise KeyError(ct)
        return np.asarray(m.points, dtype=float), np.asarray(m.cells), m.cell_type


def generic_region(vk, name, ncells=1, quadrature=None, spread=0.08, **kw):
    """the real region template over ncells generic cells sharing points; valid-cell precondition per cell"""
    cls, el_cls = TEMPLATES[name][0], TEMPLATES[name][1]
    P, cells, ct = _reference_mesh(name, ncells)
    X = vk.reals("X", P.shape, near=P, spread=spread)
    el = el_cls()  # MINI templates: the documented default bubble multiplier
    quad = quadrature(vk) if quadrature is not None else exact_quadrature(vk, cls)
    with symnp.native():
        qp = np.array([[float(co(x).asconst()) if isinstance(x, LP) else float(x) for x in p] for p in np.asarray(quad.points)], dtype=float)
    for c in range(len(cells)):
        if "MINI" in name:
            geo = {"RegionTriangleMINI": E.Triangle, "RegionTetraMINI": E.Tetra}[name]()
            require_valid_cell(vk, geo, X[cells[c][:-1]], qp[:1])
        require_valid_cell(vk, el, X[cells[c]], qp)
    mesh = fem.Mesh(X, cells, ct)
    region = cls(mesh, quadrature=quad, **kw)
    return region, mesh, X, cells, el


def _lift_quadrature(vk, q):
    if vk.sym:
        with symnp.native():
            pts, wts = np.asarray(q.points, dtype=float), np.asarray(q.weights, dtype=float)
        q.points, q.weights = ring.lift(pts), ring.lift(wts)
    return q


def _values(vk, name, shape, near=0.0, spread=1.0):
    return vk.reals(name, shape, near=near, spread=spread)


def _zeros(vk, shape):
    a = np.zeros(shape, dtype=object if vk.sym else float)
    if vk.sym:
        a[...] = LP()
    return a


ORDERS = {"scalar": (), "vector": (3,), "tensor": (3, 3), "vector2": (2,), "tensor23": (2, 3)}


# ---- the solver stub -------------------------------------------------------------------------------
class CertifiedSolver:
    """contract stub of the sparse direct solver: x with A x = b.  With a candidate the call is discharged by
    certificate (A x0 == b as ring identities; uniqueness by the nonsingularity lemma whose premises are
    separate obligations of the contract); without one (or if the certificate fails) small systems are
    solved explicitly, larger ones return fresh unknowns constrained only by A x = b."""

    def __init__(s, vk, candidate=None, explicit_max=3):
        s.vk, s.candidate, s.explicit_max = vk, candidate, explicit_max
        s.calls = []
        s.how = None
        s.unknowns = None

    def __call__(s, A, b):
        Ad = coo.todense(A)
        b = np.asarray(b)
        s.calls.append((Ad, b))
        if not s.vk.sym:
            from scipy.sparse import csr_matrix
            from scipy.sparse.linalg import spsolve

            return spsolve(csr_matrix(np.asarray(Ad, dtype=float)), np.asarray(b, dtype=float))
        b2 = b.reshape(len(b), -1)
        if s.candidate is not None:
            x0 = np.asarray(s.candidate, dtype=object).reshape(len(b), -1)
            r = ref_einsum("ij,jk->ik", Ad, x0) - b2
            if all(ring.iszero(co(x)) for x in r.ravel()):
                s.how = "certificate"
                return x0.reshape(b.shape).copy()
        if Ad.shape[0] <= s.explicit_max:
            s.how = "explicit"
            return symnp._linalg_solve(Ad, b)
        s.how = "unknowns"
        s.unknowns = ring.symarray("xsolve", b2.shape)
        return s.unknowns.reshape(b.shape).copy()


def _full_column_rank(H):
    """exact rank test of a rational table (rows = quadrature points, columns = shape functions)"""
    from fractions import Fraction

    M = [[Fraction(co(x).asconst()) for x in row] for row in np.asarray(H, dtype=object)]
    rows, cols = len(M), len(M[0])
    r = 0
    for c in range(cols):
        piv = next((i for i in range(r, rows) if M[i][c] != 0), None)
        if piv is None:
            return False
        M[r], M[piv] = M[piv], M[r]
        for i in range(r + 1, rows):
            if M[i][c] != 0:
                f = M[i][c] / M[r][c]
                M[i] = [a - f * b for a, b in zip(M[i], M[r])]
        r += 1
    return r == cols


class _bound_project:
    """rebinding for the duration of a project call: scipy COO constructor -> dense stand-in (symbolic run
    only), the module-level direct solver -> the contract stub (both runs)"""

    def __init__(s, vk, solver):
        s.vk, s.solver = vk, solver

    def __enter__(s):
        import felupe.tools._project as TP

        s.TP = TP
        s.saved = TP.spsolve
        TP.spsolve = s.solver
        symnp.INVENTORY.add("scipy.sparse.linalg.spsolve")
        s.cm = coo.bound() if s.vk.sym else None
        if s.cm:
            s.cm.__enter__()
        return s

    def __exit__(s, *a):
        s.TP.spsolve = s.saved
        if s.cm:
            s.cm.__exit__(*a)


def volume_matrix_spec(vk, h, dV, cells, npoints):
    """spec: A[i, j] = sum_c sum_q sum_{a, b : cells[c, a] = i, cells[c, b] = j} h_a(q) h_b(q) dV[q, c]"""
    A = _zeros(vk, (npoints, npoints))
    n, nq = h.shape[0], h.shape[1]
    for c in range(len(cells)):
        hc = h[:, :, c if h.shape[2] > 1 else 0]
        for a in range(n):
            for b in range(n):
                A[cells[c, a], cells[c, b]] = A[cells[c, a], cells[c, b]] + sum(hc[a, q] * hc[b, q] * dV[q, c] for q in range(nq))
    return A


def _one_coefficients(vk, name, cells, npoints):
    """nodal coefficients of the constant function one in the region's space"""
    e = np.ones(npoints, dtype=object if vk.sym else float)
    if vk.sym:
        e[...] = LP.const(1)
    if "MINI" in name:
        e[cells[:, -1]] = 0 * e[cells[:, -1]]
    return e


PROJECT_TEMPLATES = {
    # name: (quadrature factory or None = the template's default, tier of the 2-cell config)
    "RegionQuad": (None, "quick"),
    "RegionTriangle": (lambda vk: _lift_quadrature(vk, fem.TriangleQuadrature(order=2)), "quick"),  # the default 1-point rule is not sufficient (documented)
    "RegionTetra": (lambda vk: _lift_quadrature(vk, fem.TetrahedronQuadrature(order=2)), "quick"),
    "RegionHexahedron": (None, "thorough"),
    "RegionQuadraticQuad": (None, "thorough"),
    "RegionBiQuadraticQuad": (None, "thorough"),
    "RegionQuadraticTriangle": (lambda vk: _lift_quadrature(vk, fem.TriangleQuadrature(order=5)), "thorough"),
    "RegionTriangleMINI": (lambda vk: _lift_quadrature(vk, fem.TriangleQuadrature(order=5)), "thorough"),
}


def _project_configs():
    out = []
    for name, (qf, tier2) in PROJECT_TEMPLATES.items():
        for order in ("scalar", "vector", "tensor"):
            for dv in ("region", "user"):
                for avg in (True, False):
                    quick = name in ("RegionQuad", "RegionTriangle") or (name == "RegionTetra" and order == "vector")
                    cfg = dict(template=name, values=order, dV=dv, average=avg, cells=2)
                    if not quick:
                        cfg["tier"] = "thorough"
                    out.append(cfg)
    # single cells with the solver contract discharged by the explicit exact solve (adjugate) instead of a certificate
    out.append(dict(template="RegionTriangle", values="vector", dV="user", average=True, cells=1, solve="explicit"))
    out.append(dict(template="RegionQuad", values="scalar", dV="region", average=True, cells=1, solve="explicit"))
    # solver=: a user callable x = solver(A, b) handed to project (same obligations; which route the system takes is recorded)
    out.append(dict(template="RegionQuad", values="vector", dV="user", average=True, cells=2, solver="user"))
    out.append(dict(template="RegionTriangle", values="scalar", dV="region", average=False, cells=1, solve="explicit", solver="user"))
    return out


@contract("C19", "project", configs=_project_configs())
def project_contract(vk, cfg):
    """values that stem from nodal values u of the region's own space: the assembled right-hand side is A.u with
    the volume matrix A of the SAME dV (the region's or the user's) => project returns u (solver contract);
    the volume integral is preserved; average=False: values of the disconnected mesh"""
    name, order, avg = cfg["template"], ORDERS[cfg["values"]], cfg["average"]
    vk.real(fem.project)
    qf = PROJECT_TEMPLATES[name][0]
    region, mesh, X, cells, el = generic_region(vk, name, ncells=cfg["cells"], quadrature=qf)
    ncells, npc = cells.shape
    work = region
    h = work.h  # (a, q, 1) tables of the space (C06 contract)
    nq = h.shape[1]
    hq = np.broadcast_to(h, (npc, nq, ncells))
    # nodal values: of the mesh points (average=True) / of each cell separately (average=False: the space of the
    # disconnected mesh, of which the continuous fields are the special case U[c, a] = u[cells[c, a]])
    size = int(np.prod(order)) if order else 1
    if avg:
        u = _values(vk, "u", (mesh.npoints,) + order)
        U = u[cells]  # (c, a, ...)
        target = u
    else:
        U = _values(vk, "U", (ncells, npc) + order)
        target = U.reshape((ncells * npc,) + order)
    # quadrature-point values of that field: v[..., q, c] = sum_a h_a(q) U[c, a, ...]
    Uf = U.reshape(ncells, npc, size)
    vals = ref_einsum("aqc,cak->kqc", hq, Uf).reshape(order + (nq, ncells))
    if cfg["dV"] == "user":
        dV = vk.reals("dVuser", (nq, ncells), near=0.4, spread=0.2)
        for x in dV.ravel():
            vk.requires(x, ">")
    else:
        dV = None
    dVeff = work.dV if dV is None else dV
    explicit = cfg.get("solve") == "explicit"
    solver = CertifiedSolver(vk, candidate=None if explicit else target.reshape(-1, size), explicit_max=4 if explicit else 0)
    vals0 = vk.snapshot(vals)
    call_region = region
    user_calls = []
    kw_solver = {}
    if cfg.get("solver") == "user":

        def user_solver(A_, b_):
            "the caller's sparse solver, documented signature x = solver(A, b) (same contract as the default one)"
            user_calls.append(1)
            return solver(A_, b_)

        kw_solver["solver"] = user_solver
    with _bound_project(vk, solver):
        out = fem.project(vals, call_region, average=avg, dV=dV, **kw_solver)
    if cfg.get("solver") == "user" and vk.sym:
        vk.note("C19 observation (recorded, NOT an obligation: no clause of the property names the solver route): project(values, region, solver=user_solver) " + ("hands the system to the user's solver" if user_calls else "IGNORES the `solver` argument -- the user's callable is never called, the system is solved by the module-level scipy.sparse.linalg.spsolve (docstring: 'A function for a sparse solver with signature x=solver(A, b)')") + f"; calls of the user's solver: {len(user_calls)}")
    vk.frame_unchanged("values", vals, vals0)
    cells_w = cells if avg else np.arange(ncells * npc).reshape(ncells, npc)
    npts = mesh.npoints if avg else ncells * npc
    Aspec = volume_matrix_spec(vk, hq, dVeff, cells_w, npts)
    vk.ensures_true("solver-called-once", len(solver.calls) == 1, f"{len(solver.calls)} calls", backend="exec")
    if len(solver.calls) != 1:
        return
    A, b = solver.calls[0]
    vk.ensures_eq("volume-matrix==sum_qc h_a h_b dV (the dV of the call)", A, Aspec)
    vk.ensures_eq("rhs==A.u", b.reshape(npts, size), ref_einsum("ij,jk->ik", Aspec, target.reshape(npts, size)))
    # volume integral preserved: sum over the points of the right-hand side == sum_qc values dV
    # (summed with the nodal coefficients e of the constant function one: 1 on nodal points, 0 on MINI bubbles)
    integral = ref_einsum("kqc,qc->k", vals.reshape(size, nq, ncells), dVeff)
    one = _one_coefficients(vk, name, cells_w, npts)
    vk.ensures_eq("sum_a b_a == sum_qc values dV", ref_einsum("a,ak->k", one, b.reshape(npts, size)), integral)
    if vk.sym:
        # premises of the nonsingularity lemma
        H = np.asarray(hq[:, :, 0], dtype=object).T
        vk.ensures_true("sufficient-rule: h table has full column rank", _full_column_rank(H), f"table {H.shape}")
        vk.ensures_true("dV>0", all(oracle.decide(co(x), ">") for x in np.asarray(dVeff, dtype=object).ravel()), "differential volumes of the call are positive", backend="oracle")
        vk.ensures_true("solver-contract discharged by " + ("the explicit exact solve" if explicit else "certificate A.u==b"), solver.how == ("explicit" if explicit else "certificate"), str(solver.how), backend="ring")
    vk.ensures_eq("project==nodal values", out, target)
    if vk.sym:
        vk.canary("project==2u", out, 2 * target)
        vk.canary("volume-matrix==2A", A, 2 * Aspec)


# ---- project: arbitrary values (volume integral of the projected field), 1-point simplex rules, mean=True --------
def _interp_integral(vk, hq, out, cells, dV, size):
    """spec: integral of the FE function with nodal values `out`: sum_qc (sum_a h_a(q) out[cells[c, a]]) dV[q, c]"""
    ncells, npc = cells.shape
    U = out.reshape(-1, size)[cells]  # (c, a, k)
    return ref_einsum("aqc,cak,qc->k", hq, U, dV)


@contract(
    "C19",
    "project_integral",
    configs=[dict(template=t, values=o, dV=d, average=a) for t in ("RegionQuad", "RegionTriangle", "RegionTetra", "RegionTriangleMINI") for o in ("scalar", "tensor23") for d in ("region", "user") for a in (True, False)],
)
def project_integral(vk, cfg):
    """ARBITRARY quadrature-point values v (not from the FE space): the projected field has the same volume
    integral, for the dV of the call.  The solver stub returns unknowns x constrained only by its contract
    A x = b; the obligation carries the certificate:  int(x_h) - sum v dV  ==  e^T (A x - b)  identically,
    e = coefficients of the constant one"""
    name, order, avg = cfg["template"], ORDERS[cfg["values"]], cfg["average"]
    vk.real(fem.project)
    region, mesh, X, cells, el = generic_region(vk, name, ncells=2, quadrature=PROJECT_TEMPLATES[name][0])
    ncells, npc = cells.shape
    nq = region.h.shape[1]
    hq = np.broadcast_to(region.h, (npc, nq, ncells))
    size = int(np.prod(order)) if order else 1
    vals = _values(vk, "v", order + (nq, ncells))
    dV = None
    if cfg["dV"] == "user":
        dV = vk.reals("dVuser", (nq, ncells), near=0.4, spread=0.2)
        for x in dV.ravel():
            vk.requires(x, ">")
    dVeff = region.dV if dV is None else dV
    solver = CertifiedSolver(vk, candidate=None, explicit_max=0)
    with _bound_project(vk, solver):
        out = fem.project(vals, region, average=avg, dV=dV)
    cells_w = cells if avg else np.arange(ncells * npc).reshape(ncells, npc)
    npts = mesh.npoints if avg else ncells * npc
    integral = ref_einsum("kqc,qc->k", vals.reshape(size, nq, ncells), dVeff)
    lhs = _interp_integral(vk, hq, np.asarray(out), cells_w, dVeff, size)
    if not vk.sym:
        vk.ensures_eq("integral(projected field) == sum_qc values dV (mod solver contract A x = b)", lhs, integral)
        return
    vk.ensures_true("solver-called-once", len(solver.calls) == 1, f"{len(solver.calls)} calls", backend="exec")
    A, b = solver.calls[0]
    xs = solver.unknowns
    vk.ensures_eq("result is the solver's solution", np.asarray(out).reshape(npts, size), xs)
    one = _one_coefficients(vk, name, cells_w, npts)
    cert = ref_einsum("a,ak->k", one, ref_einsum("ij,jk->ik", A, xs) - b.reshape(npts, size))
    vk.ensures_eq("integral(projected field) == sum_qc values dV (mod solver contract A x = b)", lhs - cert, integral)
    vk.canary("integral==2*sum", lhs - cert, 2 * integral)


@contract("C19", "project_onepoint", configs=[dict(template=t, dV="region") for t in ("RegionTriangle", "RegionTetra")] + [dict(template=t, case="raises") for t in ("RegionQuadraticTriangle", "RegionTriangleMINI")])
def project_onepoint(vk, cfg):
    """documented rule handling: a 1-point rule of a linear simplex region is replaced by the second-order
    scheme (one value per cell): volume matrix and right-hand side of the second-order region, constants are
    returned, sum_a b_a == sum_c v_c vol_c; an insufficient multi-point rule raises ValueError"""
    name = cfg["template"]
    vk.real(fem.project)
    region, mesh, X, cells, el = generic_region(vk, name, ncells=2)
    ncells, npc = cells.shape
    if cfg.get("case") == "raises":
        if not vk.sym:
            return
        vals = _values(vk, "v", (region.h.shape[1], ncells))
        try:
            with _bound_project(vk, CertifiedSolver(vk)):
                fem.project(vals, region)
            ok, detail = False, "no exception"
        except ValueError as e:
            ok, detail = "Quadrature not supported" in str(e), str(e)[:80]
        vk.ensures_true("insufficient-rule-raises-ValueError", ok, detail, backend="exec")
        vk.canary_bool("sufficient-rule-does-not-raise", True)
        return
    q2 = _lift_quadrature(vk, (fem.TriangleQuadrature if name == "RegionTriangle" else fem.TetrahedronQuadrature)(order=2))
    with symnp.native():
        qp2 = np.asarray(type(q2)(order=2).points, dtype=float)
    for c in range(ncells):
        require_valid_cell(vk, el, X[cells[c]], qp2)
    spec_region = TEMPLATES[name][0](mesh, quadrature=q2)  # the second-order region (C06 contract)
    nq = spec_region.h.shape[1]
    hq = np.broadcast_to(spec_region.h, (npc, nq, ncells))
    k = vk.real_scalar("k", near=1.5)
    v = _values(vk, "v", (2, 1, ncells))
    v[0] = 0 * v[0] + k  # component 0: the constant k; component 1: arbitrary cell values
    solver = CertifiedSolver(vk, candidate=None, explicit_max=0)
    with _bound_project(vk, solver):
        out = fem.project(v, region)
    Aspec = volume_matrix_spec(vk, hq, spec_region.dV, cells, mesh.npoints)
    bspec = _zeros(vk, (mesh.npoints, 2))
    for c in range(ncells):
        for a in range(npc):
            for j in range(2):
                bspec[cells[c, a], j] = bspec[cells[c, a], j] + sum(hq[a, q, c] * v[j, 0, c] * spec_region.dV[q, c] for q in range(nq))
    if not vk.sym:
        vk.ensures_eq("constant values are returned", out[:, 0], 0 * out[:, 0] + k)
        return
    A, b = solver.calls[0]
    tol = 1e-12  # the code builds the second-order scheme itself: float tables, float shape-function values (A1)
    vk.ensures_eq("volume-matrix of the second-order region", A, Aspec, tol=tol)
    vk.ensures_eq("rhs == sum_qc h_a v_c dV of the second-order region", b.reshape(-1, 2), bspec, tol=tol)
    vol = np.sum(spec_region.dV, axis=0)
    vk.ensures_eq("sum_a b_a == sum_c v_c vol_c", np.sum(b.reshape(-1, 2), axis=0), ref_einsum("jc,c->j", v[:, 0, :], vol), tol=tol)
    # constant: A.(k 1) == b[:, 0]  => the solution is k at every point (nonsingular A: lemma, premises below)
    kvec = 0 * Aspec[:, 0] + k
    vk.ensures_eq("constant values are returned (certificate A.k == b)", ref_einsum("ij,j->i", A, kvec), b.reshape(-1, 2)[:, 0], tol=tol)
    vk.ensures_true("sufficient-rule: h table has full column rank", _full_column_rank(np.asarray(hq[:, :, 0], dtype=object).T), "")
    vk.ensures_true("dV>0", all(oracle.decide(co(x), ">") for x in np.asarray(spec_region.dV, dtype=object).ravel()), "", backend="oracle")
    vk.canary("volume-matrix of the 1-point region", A, volume_matrix_spec(vk, np.broadcast_to(region.h, (npc, 1, ncells)), region.dV, cells, mesh.npoints))


@contract("C19", "project_unattached_point", configs=[dict(template="RegionQuad")])
def project_unattached_point(vk, cfg):
    """a mesh point that belongs to no cell: its row of the volume matrix is made a unit row (zero result there);
    the attached points still receive the nodal values"""
    name = cfg["template"]
    vk.real(fem.project)
    cls, el_cls = TEMPLATES[name][0], TEMPLATES[name][1]
    P, cells, ct = _reference_mesh(name, 1)
    P = np.concatenate([P, [[5.0, 5.0]]])
    X = vk.reals("X", P.shape, near=P, spread=0.08)
    quad = exact_quadrature(vk, cls)
    with symnp.native():
        qp = np.asarray(_default_quadrature(cls).points, dtype=float)
    require_valid_cell(vk, el_cls(), X[cells[0]], qp)
    mesh = fem.Mesh(X, cells, ct)
    region = cls(mesh, quadrature=quad)
    nq = region.h.shape[1]
    u = _values(vk, "u", (mesh.npoints, 2))
    u[-1] = 0 * u[-1]
    vals = ref_einsum("aqc,cak->kqc", region.h, u[cells])
    solver = CertifiedSolver(vk, candidate=u)
    with _bound_project(vk, solver):
        out = fem.project(vals, region)
    vk.ensures_eq("project==nodal values (0 at the unattached point)", out, u)
    if vk.sym:
        A, b = solver.calls[0]
        unit = _zeros(vk, (mesh.npoints,))
        unit[-1] = LP.const(1)
        vk.ensures_eq("unit row/column of the unattached point", np.concatenate([A[-1], A[:, -1]]), np.concatenate([unit, unit]))
        vk.ensures_true("solver-contract discharged by certificate", solver.how == "certificate", str(solver.how), backend="ring")
        vk.canary("project==2u", out[:1], 2 * u[:1])


# ---- cell means, topologies ----------------------------------------------------------------------------------------
def _cell_means(vk, vals, weights):
    """spec (docstring): cell-means of the values, averaged by the quadrature weights"""
    w = np.asarray(weights)
    return ref_einsum("...qc,q->...c".replace("...", "k"), vals.reshape((-1,) + vals.shape[-2:]), w).reshape(vals.shape[:-2] + vals.shape[-1:]) / sum(w)


def _attached(cells, npoints):
    """spec: for every point the list of (cell, local index) it is attached to"""
    att = [[] for _ in range(npoints)]
    for c in range(cells.shape[0]):
        for a in range(cells.shape[1]):
            att[cells[c, a]].append((c, a))
    return att


def _point_means(vk, per_cell_point, cells, npoints):
    """spec: value at point p = mean over the attached (cell c, local a) of per_cell_point[c, a, ...]"""
    att = _attached(cells, npoints)
    out = _zeros(vk, (npoints,) + per_cell_point.shape[2:])
    for p in range(npoints):
        out[p] = sum(per_cell_point[c, a] for c, a in att[p]) / len(att[p])
    return out


def enum_connectivities(npc, ncells):
    """all cell arrays of `ncells` cells with `npc` distinct points each, up to relabelling of the points
    (labels in order of first occurrence)"""
    out = []

    def rec(cur, nlab):
        if len(cur) == npc * ncells:
            out.append(np.array(cur).reshape(ncells, npc))
            return
        start = (len(cur) // npc) * npc
        incell = set(cur[start:])
        for lab in range(nlab + 1):
            if lab not in incell:
                rec(cur + [lab], max(nlab, lab + 1))

    rec([], 0)
    return out


CATALOGUE = {
    # hand-picked topologies with points shared by 1, 2 and 3 cells and rotated local numbering
    "quad": [
        [[0, 1, 2, 3]],
        [[0, 1, 4, 3], [1, 2, 5, 4]],
        [[0, 1, 4, 3], [5, 4, 1, 2]],
        [[0, 1, 2, 3], [2, 4, 5, 6]],
        [[0, 1, 2, 3], [4, 5, 6, 7]],
        [[0, 1, 4, 3], [1, 2, 5, 4], [2, 6, 7, 5]],
        [[0, 1, 4, 3], [1, 2, 5, 4], [3, 4, 7, 6]],
        [[0, 1, 2, 3], [0, 3, 4, 5], [0, 5, 6, 1]],
        [[0, 1, 2, 3], [2, 0, 4, 5], [6, 2, 7, 0]],
    ],
    "triangle": [
        [[0, 1, 2]],
        [[0, 1, 2], [1, 3, 2]],
        [[0, 1, 2], [2, 3, 4]],
        [[0, 1, 2], [0, 2, 3], [0, 3, 1]],
        [[0, 1, 2], [2, 1, 3], [3, 1, 4]],
        [[0, 1, 2], [3, 0, 4], [5, 6, 0]],
    ],
    "hexahedron": [
        [[0, 1, 2, 3, 4, 5, 6, 7]],
        [[0, 1, 4, 3, 6, 7, 10, 9], [1, 2, 5, 4, 7, 8, 11, 10]],
        [[0, 1, 4, 3, 8, 9, 12, 11], [1, 2, 5, 4, 9, 10, 13, 12], [3, 4, 7, 6, 11, 12, 15, 14]],
    ],
    "tetra": [
        [[0, 1, 2, 3]],
        [[0, 1, 2, 3], [1, 2, 3, 4]],
        [[0, 1, 2, 3], [0, 1, 3, 4], [0, 1, 4, 2]],
        [[0, 1, 2, 3], [3, 4, 5, 6], [6, 7, 8, 0]],
    ],
}
TOPO_ELEMENT = {
    "triangle": (E.Triangle, lambda n: {1: fem.TriangleQuadrature(order=1), 3: fem.TriangleQuadrature(order=2), 4: fem.TriangleQuadrature(order=3)}[n]),
    "quad": (E.Quad, lambda n: {1: fem.GaussLegendre(order=0, dim=2), 4: fem.GaussLegendre(order=1, dim=2), 9: fem.GaussLegendre(order=2, dim=2)}[n]),
    "tetra": (E.Tetra, lambda n: {1: fem.TetrahedronQuadrature(order=1), 4: fem.TetrahedronQuadrature(order=2), 5: fem.TetrahedronQuadrature(order=3)}[n]),
    "hexahedron": (E.Hexahedron, lambda n: {1: fem.GaussLegendre(order=0, dim=3), 8: fem.GaussLegendre(order=1, dim=3), 27: fem.GaussLegendre(order=2, dim=3)}[n]),
}


def topo_region(vk, ct, cells, nq, seed=0):
    """a real Region (grad=False: no geometry is evaluated) over a mesh of the given connectivity; the point
    coordinates are irrelevant for the functions under contract (arbitrary concrete numbers)"""
    cells = np.asarray(cells)
    el_cls, qf = TOPO_ELEMENT[ct]
    el = el_cls()
    dim = np.asarray(el.points).shape[1]
    rng = np.random.RandomState(seed)
    with symnp.native():
        pts = rng.randint(-8, 9, size=(int(cells.max()) + 1, dim)) / 4.0
        quad = qf(nq)
    quad = _lift_quadrature(vk, quad)
    mesh = fem.Mesh(pts, cells, ct)
    return fem.Region(mesh, el, quad, grad=False), mesh


def _topoints_spec(vk, vals, cells, npoints, weights, average, mean):
    """docstring of topoints: values at the quadrature points are shifted to the cell's points (q-th quadrature
    point -> q-th point of the cell; a single value is broadcast, surplus quadrature points are trimmed;
    mean=True: the cell mean at every point of the cell); average=True: mean over the attached cells at each
    mesh point, average=False: values of the disconnected mesh (cell by cell)"""
    ncells, npc = cells.shape
    comp = vals.shape[:-2]
    if mean:
        m = _cell_means(vk, vals, weights)  # (..., c)
        pcp = np.broadcast_to(np.moveaxis(m, -1, 0)[:, None], (ncells, npc) + comp)
    else:
        nq = vals.shape[-2]
        v = np.moveaxis(np.moveaxis(vals, -1, 0), -1, 1)  # (c, q, ...)
        pcp = np.broadcast_to(v, (ncells, npc) + comp) if nq == 1 else v[:, :npc]
    if average:
        return _point_means(vk, pcp, cells, npoints)
    return pcp.reshape((ncells * npc,) + comp)


def _topo_chunks():
    cfgs = []
    for ct in ("quad", "tetra", "hexahedron"):
        cfgs.append(dict(ct=ct, meshes="catalogue"))
    cfgs.append(dict(ct="triangle", meshes="catalogue"))
    cfgs.append(dict(ct="triangle", meshes="all<=2cells"))
    cfgs.append(dict(ct="quad", meshes="all<=2cells"))
    cfgs.append(dict(ct="triangle", meshes="3cells-sample"))
    for k in range(8):
        cfgs.append(dict(ct="triangle", meshes=f"all-3cells-chunk{k}of8", tier="thorough"))
    return cfgs


def _topo_meshes(cfg):
    ct, sel = cfg["ct"], cfg["meshes"]
    npc = {"triangle": 3, "quad": 4, "tetra": 4, "hexahedron": 8}[ct]
    if sel == "catalogue":
        return [np.array(c) for c in CATALOGUE[ct]]
    if sel == "all<=2cells":
        return enum_connectivities(npc, 1) + enum_connectivities(npc, 2)
    allm = enum_connectivities(npc, 3)
    if sel == "3cells-sample":
        return allm[::37]
    k = int(sel.split("chunk")[1].split("of")[0])
    return allm[k::8]


@contract("C19", "topoints", configs=_topo_chunks())
def topoints_contract(vk, cfg):
    """topoints(values, region, average, mean): at each point the mean over the attached cells (average=True),
    the disconnected values (average=False), cell means (mean=True) -- symbolic values, per mesh topology"""
    vk.real(fem.topoints)
    ct = cfg["ct"]
    meshes = _topo_meshes(cfg)
    npc = meshes[0].shape[1]
    full = cfg["meshes"] in ("catalogue", "all<=2cells")
    nqs = {"triangle": (3, 1, 4), "quad": (4, 1, 9), "tetra": (4, 1, 5), "hexahedron": (8, 1, 27)}[ct]
    ncanary = 0
    for k, cells in enumerate(meshes):
        ncells = len(cells)
        label = "mesh=" + "|".join("".join(format(x, "x") for x in row) for row in cells)
        flags = [(a, m) for a in (True, False) for m in (False, True)]
        if cfg["meshes"] == "catalogue":  # all tensor orders, all quadrature sizes (equal / single value / surplus points)
            variants = [(nqs[0], o, a, m) for o in ("scalar", "vector", "tensor23") for a, m in flags] + [(nq, "vector", a, m) for nq in nqs[1:] for a, m in flags]
            if ct == "hexahedron":
                variants = [v for v in variants if v[1] != "tensor23" and (v[0] != 27 or v[2:] == (True, False))]
        elif full:
            variants = [(nq, "vector", a, m) for nq in nqs for a, m in flags]
        else:
            variants = [(nqs[0], "vector", a, m) for a, m in flags]
        regions = {}
        for nq, o, a, m in variants:
            if nq not in regions:
                regions[nq] = topo_region(vk, ct, cells, nq, seed=k)
            region, mesh = regions[nq]
            order = ORDERS[o]
            vals = _values(vk, f"v{nq}", order + (nq, ncells))
            v0 = vk.snapshot(vals)
            with coo.bound() if vk.sym else _nullcontext():
                out = fem.topoints(vals, region, average=a, mean=m)
            spec = _topoints_spec(vk, vals, cells, mesh.npoints, region.quadrature.weights, a, m)
            vk.ensures_eq(f"{label}/nq={nq},{o},average={a},mean={m}", out, spec)
            if a and not m and o == "vector" and nq == nqs[0]:
                vk.frame_unchanged(f"{label}/values", vals, v0)
                if vk.sym and ncanary < 3 and ncells > 1 and mesh.npoints < ncells * npc:
                    # dividing by a uniform count is refuted on meshes whose points have different valences
                    att = _attached(cells, mesh.npoints)
                    if len({len(x) for x in att}) > 1:
                        wrong = np.array([sum(spec[p] * len(att[p]) for p in [p]) / max(len(x) for x in att) for p in range(mesh.npoints)], dtype=object)
                        vk.canary(f"{label}/uniform-count", out, wrong)
                        ncanary += 1
    if vk.sym:
        if ncanary == 0:
            vk.canary("topoints==0", out, 0 * out)
        vk.bounded_standin(
            f"mesh quantifier of topoints for {ct} cells",
            bound={"catalogue": "hand-picked topologies of <= 3 cells (points shared by 1, 2, 3 cells, rotated local numbering)", "all<=2cells": "ALL connectivity arrays of <= 2 cells up to relabelling of the points"}.get(cfg["meshes"], "connectivity arrays of 3 triangles up to relabelling of the points (thorough tier: all 2971)"),
            evaluations=len(meshes),
            ok=True,
            detail="each mesh carries P obligations universal in the values; meshes with more cells are not covered",
        )


class _nullcontext:
    def __enter__(s):
        return s

    def __exit__(s, *a):
        return False


# ---- extrapolate ---------------------------------------------------------------------------------------------------
EXTRAPOLATE = {
    # celltype: (element, GaussLegendre order, dim, tier of the 2/3-cell configs)
    "quad": (E.Quad, 1, 2),
    "hexahedron": (E.Hexahedron, 1, 3),
    "quad9": (E.BiQuadraticQuad, 2, 2),
    "hexahedron27": (E.TriQuadraticHexahedron, 2, 3),
}
EXTRA_MESHES = {
    "quad": CATALOGUE["quad"],
    "hexahedron": CATALOGUE["hexahedron"],
    "quad9": [[list(range(9))], [[0, 1, 4, 3, 6, 7, 8, 9, 10], [1, 2, 5, 4, 11, 12, 13, 7, 14]]],
    "hexahedron27": [[list(range(27))]],
}


def _extrapolate_configs():
    out = []
    for ct in EXTRAPOLATE:
        for k, cells in enumerate(EXTRA_MESHES[ct]):
            for o in ("scalar", "vector", "tensor23"):
                cfg = dict(ct=ct, mesh=k, values=o)
                heavy = (ct == "hexahedron27" and o == "tensor23") or (ct == "hexahedron" and (k > 1 or o == "tensor23")) or (ct == "quad9" and o == "tensor23")
                if heavy:
                    cfg["tier"] = "thorough"
                out.append(cfg)
    return out


@contract("C19", "extrapolate", configs=_extrapolate_configs())
def extrapolate_contract(vk, cfg):
    """extrapolate(values, region, average, mean) on Gauss-Legendre quad / hexahedron regions: quadrature-point
    values of a field of the element's (multilinear / multi-quadratic) space with cell-wise nodal values U[c, a]
    are taken back to the points: U itself on the disconnected mesh (average=False), the mean over the attached
    cells at each mesh point (average=True: u for a continuous field); mean=True: cell means instead"""
    vk.real(fem.tools.extrapolate)
    vk.real(fem.GaussLegendre.inv)
    ct, order = cfg["ct"], ORDERS[cfg["values"]]
    el_cls, gl_order, dim = EXTRAPOLATE[ct]
    cells = np.array(EXTRA_MESHES[ct][cfg["mesh"]])
    ncells, npc = cells.shape
    el = el_cls()
    with symnp.native():
        quad = fem.GaussLegendre(order=gl_order, dim=dim)
        rng = np.random.RandomState(3)
        pts = rng.randint(-8, 9, size=(int(cells.max()) + 1, dim)) / 4.0
    quad = _lift_quadrature(vk, quad)
    mesh = fem.Mesh(pts, cells, ct)
    region = fem.Region(mesh, el, quad, grad=False)  # extrapolate evaluates no geometry
    nq = region.h.shape[1]
    hq = np.broadcast_to(region.h, (npc, nq, ncells))
    size = int(np.prod(order)) if order else 1
    tol = 1e-11  # float Gauss points and their float reciprocals (tolerance form; |U| <= 1 scale)
    U = _values(vk, "U", (ncells, npc) + order)
    vals = ref_einsum("aqc,cak->kqc", hq, U.reshape(ncells, npc, size)).reshape(order + (nq, ncells))
    v0 = vk.snapshot(vals)
    with coo.bound() if vk.sym else _nullcontext():
        out_d = fem.tools.extrapolate(vals, region, average=False)
        out_a = fem.tools.extrapolate(vals, region, average=True)
        out_md = fem.tools.extrapolate(vals, region, average=False, mean=True)
        out_ma = fem.tools.extrapolate(vals, region, average=True, mean=True)
    vk.frame_unchanged("values", vals, v0)
    vk.ensures_eq("average=False: nodal values of each cell (disconnected mesh)", out_d, U.reshape((ncells * npc,) + order), tol=tol)
    vk.ensures_eq("average=True: mean of the nodal values over the attached cells", out_a, _point_means(vk, U, cells, mesh.npoints), tol=tol)
    m = _cell_means(vk, vals, region.quadrature.weights)
    pcp = np.broadcast_to(np.moveaxis(m, -1, 0)[:, None], (ncells, npc) + order)
    vk.ensures_eq("mean=True,average=False: cell mean at every point of the cell", out_md, pcp.reshape((ncells * npc,) + order), tol=tol)
    vk.ensures_eq("mean=True,average=True: mean of the cell means over the attached cells", out_ma, _point_means(vk, pcp, cells, mesh.npoints), tol=tol)
    if cfg["mesh"] > 0 or ncells == 1:
        # continuous field: u at the points
        u = _values(vk, "u", (mesh.npoints,) + order)
        vals_c = ref_einsum("aqc,cak->kqc", hq, u[cells].reshape(ncells, npc, size)).reshape(order + (nq, ncells))
        with coo.bound() if vk.sym else _nullcontext():
            out_c = fem.tools.extrapolate(vals_c, region)
        vk.ensures_eq("continuous field: reproduced at the points", out_c, u, tol=tol)
    if vk.sym:
        vk.canary("extrapolate==2U", out_d, 2 * U.reshape((ncells * npc,) + order))
        vk.canary("extrapolate(no inverse scheme): values at the Gauss points", out_d.reshape(ncells, npc, size)[0, :, 0], vals.reshape(size, nq, ncells)[0, :npc, 0])


@contract("C19", "project_mean", configs=[dict(template=t, average=a) for t in ("RegionQuad", "RegionHexahedron") for a in (True, False)])
def project_mean(vk, cfg):
    """project(mean=True) (documented: extrapolates the cell means; dV and solver are ignored) on a real region
    over generic cells"""
    name, avg = cfg["template"], cfg["average"]
    vk.real(fem.project)
    vk.real(fem.tools.extrapolate)
    region, mesh, X, cells, el = generic_region(vk, name, ncells=2)
    ncells, npc = cells.shape
    nq = region.h.shape[1]
    vals = _values(vk, "v", (2, nq, ncells))
    dV = vk.reals("dVuser", (nq, ncells), near=0.4, spread=0.2)
    for x in dV.ravel():
        vk.requires(x, ">")
    solver = CertifiedSolver(vk)
    with _bound_project(vk, solver):
        out = fem.project(vals, region, average=avg, mean=True, dV=dV)
    m = _cell_means(vk, vals, region.quadrature.weights)
    pcp = np.broadcast_to(np.moveaxis(m, -1, 0)[:, None], (ncells, npc, 2))
    spec = _point_means(vk, pcp, cells, mesh.npoints) if avg else pcp.reshape(ncells * npc, 2)
    vk.ensures_eq("project(mean=True)==cell means (quadrature-weighted) at the points", out, spec, tol=1e-11)
    if vk.sym:
        vk.ensures_true("solver is not called", len(solver.calls) == 0, f"{len(solver.calls)} calls", backend="exec")
        vk.canary("project(mean=True)==dV-weighted means", out[:1], (ref_einsum("kqc,qc->kc", vals, dV) / np.sum(dV, axis=0)).T[:1])


# ---- stresses of the solid bodies ----------------------------------------------------------------------------------
from vk.stubs import StubMaterial  # noqa: E402

STRESS_FIELDS = {
    # kind: (points per cell, quadrature points, field class, field dim, dim of F)
    "3d": (4, 1, fem.Field, 3, 3),
    "3d-q2": (4, 2, fem.Field, 3, 3),
    "planestrain": (3, 2, fem.FieldPlaneStrain, 2, 3),
    "axisymmetric": (3, 2, fem.FieldAxisymmetric, 2, 3),
    "2d": (3, 2, fem.Field, 2, 2),
}


class OpaqueTables:
    """callee contract of Region for the field / solid-body code, which only reads its tables: shape functions h,
    their gradients dhdX and the differential volumes dV are free reals (dV > 0); the real Region produces
    such tables (C06).  One object = every region / mesh geometry with this connectivity"""

    def __init__(s, vk, cells, dim, nq, concrete=False, cell_type="opaque"):
        cells = np.asarray(cells)
        nc, npc = cells.shape
        npoints = int(cells.max()) + 1
        near = (np.arange(npoints * dim).reshape(npoints, dim) % 5) * 0.4 + 1.0
        if concrete:
            # fixed tables in general position (dyadic rationals): one particular region
            rng = np.random.RandomState(7)

            def tab(shape, lo, hi):
                a = rng.randint(int(lo * 16), int(hi * 16) + 1, size=shape) / 16.0
                return ring.lift(a) if vk.sym else a

            s.mesh = fem.Mesh(tab((npoints, dim), 1.0, 3.0), cells, cell_type)
            s.h = tab((npc, nq, nc), 0.1, 0.6)
            s.dhdX = tab((npc, dim, nq, nc), -0.7, 0.7)
            s.dV = tab((nq, nc), 0.25, 0.75)
        else:
            s.mesh = fem.Mesh(vk.reals("X", (npoints, dim), near=near, spread=0.2), cells, cell_type)
            s.h = vk.reals("h", (npc, nq, nc), near=1.0 / npc, spread=0.2)
            s.dhdX = vk.reals("g", (npc, dim, nq, nc), near=0.0, spread=0.7)
            s.dV = vk.reals("dV", (nq, nc), near=0.5, spread=0.25)
            for x in s.dV.ravel():
                vk.requires(x, ">")

        class Q:
            npoints = nq
            weights = np.ones(nq) / nq

        s.quadrature = Q()
        s.element = None


def _F_spec(vk, kind, region, mesh, cells, u):
    """spec: deformation gradient of the field with nodal values u: I + sum_a u_a (x) dhdX_a (Field.grad /
    FieldPlaneStrain / FieldAxisymmetric extraction: C06 field_kinds contract)"""
    fdim = u.shape[1]
    nq, nc = region.dhdX.shape[2], len(cells)
    H = ref_einsum("cai,ajqc->ijqc", u[cells], region.dhdX)
    Fd = 3 if kind in ("planestrain", "axisymmetric") else fdim
    F = _zeros(vk, (Fd, Fd, nq, nc))
    F[:fdim, :fdim] = H
    if kind == "axisymmetric":
        R = ref_einsum("aqc,ca->qc", region.h, mesh.points[:, 1][cells])
        ur = ref_einsum("aqc,ca->qc", region.h, u[:, 1][cells])
        for x in R.ravel():
            if not (vk.sym and not co(x).gens()):
                vk.requires(x, ">")
        F[2, 2] = ur / R
    for i in range(Fd):
        F[i, i] = F[i, i] + 1
    return F


class _LetArray(np.ndarray):
    """object array whose item assignment stores FRESH symbols instead of the assigned expressions
    (let-abstraction of an intermediate quantity: what is proved afterwards holds for every value of it)"""

    _count = [0]

    def __setitem__(s, key, value):
        tgt = np.asarray(s)[key]
        n = _LetArray._count[0]
        _LetArray._count[0] += 1
        fresh = ring.symarray(f"p{n}_", np.shape(tgt))
        np.ndarray.__setitem__(s, key, fresh)


def _abstract_pressure_state(vk, field):
    """the real StateNearlyIncompressible (documented `state` argument) whose pressure array abstracts every
    update by fresh symbols in the symbolic run: the stress identities are then proved for EVERY pressure state
    (the update formula of p itself belongs to C10); native run: the plain state"""
    from felupe.mechanics._helpers import StateNearlyIncompressible

    st = StateNearlyIncompressible(field)
    if vk.sym:
        p = np.empty(np.shape(st.p), dtype=object).view(_LetArray)
        p[...] = 0
        st.p = p
    return st


def _require_detF(vk, F):
    J = det_ref(F)
    for x in np.asarray(J).ravel():
        if vk.sym:
            oracle.assume(co(x), ">")
        elif float(x) <= 0.2:
            raise Skip("det F too small at the sample point")
    return J


def _stress_configs():
    out = []
    for kind in STRESS_FIELDS:
        out.append(dict(solid="SolidBody", field=kind, tables="free"))
    for kind in ("2d", "planestrain"):
        out.append(dict(solid="SolidBodyNearlyIncompressible", field=kind, tables="free"))
    out.append(dict(solid="SolidBodyNearlyIncompressible", field="3d", tables="fixed"))
    out.append(dict(solid="SolidBodyNearlyIncompressible", field="axisymmetric", tables="fixed"))
    out.append(dict(solid="SolidBodyNearlyIncompressible", field="axisymmetric", tables="free", tier="thorough"))
    out.append(dict(solid="SolidBodyNearlyIncompressible", field="3d", tables="free", tier="thorough"))
    return out


@contract("C19", "stress", configs=_stress_configs())
def stress_contract(vk, cfg):
    """solid.evaluate.kirchhoff_stress(field) == P F^T and cauchy_stress(field) == P F^T / det F with P and F OF
    THE FIELD GIVEN IN THE CALL: after construction, after the field values were changed in place, and for
    another container; 2d-field fallback J = 1 with a warning.  Material = StubMaterial (uninterpreted P(F))"""
    kind = cfg["field"]
    npc, nq, fcls, fdim, Fd = STRESS_FIELDS[kind]
    ni = cfg["solid"] == "SolidBodyNearlyIncompressible"
    scls = fem.SolidBodyNearlyIncompressible if ni else fem.SolidBody
    vk.real(scls._kirchhoff_stress)
    vk.real(scls._cauchy_stress)
    vk.real(scls._gradient)
    vk.real(scls._extract)
    cells = np.array([[0, 1, 2, 3], [1, 2, 3, 4]]) if npc == 4 else np.array([[0, 1, 2], [1, 3, 2]])
    region = OpaqueTables(vk, cells, fdim, nq, concrete=cfg["tables"] == "fixed")
    if cfg["tables"] == "fixed":
        vk.note("stress[tables=fixed]: universal in the field values of all states, the bulk modulus and the pressure state on ONE region with fixed tables in general position (quick-tier stand-in for the free-table configuration of the thorough tier)")
    mesh = region.mesh
    us = [vk.reals(f"u{k}", (mesh.npoints, fdim), near=0.0, spread=0.08) for k in range(3)]
    Fs = [_F_spec(vk, kind, region, mesh, cells, u) for u in us]
    Js = [_require_detF(vk, F) for F in Fs]
    umat = StubMaterial(vk, dim=Fd, hyperelastic=False)
    field_a = fem.FieldContainer([fcls(region, dim=fdim, values=us[0].copy())])
    field_b = fem.FieldContainer([fcls(region, dim=fdim, values=us[2].copy())])
    if ni:
        bulk = vk.real_scalar("bulk", near=5.0, spread=1.0)
        solid = scls(umat, field_a, bulk=bulk, state=_abstract_pressure_state(vk, field_a))
    else:
        solid = scls(umat, field_a)

    def spec(F, J, cauchy):
        # P: the stub's P(F) (SolidBody) / the total first Piola-Kirchhoff stress P(F) + p J F^-T of the nearly
        # incompressible formulation with the solid's pressure state p at the time of the call
        tau = ref_einsum("ikqc,jkqc->ijqc", _P_total(vk, umat, solid, F, ni, Fd), F)
        if cauchy and Fd == 3:
            tau = tau / np.asarray(J)[None, None]
        return tau

    def call(which, *args):
        with warnings.catch_warnings(record=True) as w:
            warnings.simplefilter("always")
            val = getattr(solid.evaluate, which)(*args)
        return val, [str(x.message) for x in w]

    # 1. right after construction, no argument: the state of the constructor's field
    t, w = call("kirchhoff_stress")
    vk.ensures_eq("1/kirchhoff_stress() after construction == P F^T", t, spec(Fs[0], Js[0], False))
    # 2. the field values are changed in place, the container is passed: the NEW state
    field_a[0].values[...] = us[1]
    t, w = call("kirchhoff_stress", field_a)
    vk.ensures_eq("2/kirchhoff_stress(field) after in-place change == P F^T of the new values", t, spec(Fs[1], Js[1], False))
    s, w = call("cauchy_stress", field_a)
    vk.ensures_eq("2/cauchy_stress(field) == P F^T / det F" if Fd == 3 else "2/cauchy_stress(field) on a 2d-field == P F^T (fallback J = 1)", s, spec(Fs[1], Js[1], True))
    if vk.sym:
        warned = any("Cauchy stress tensor can't be evaluated on a 2d-Field" in m for m in w)
        vk.ensures_true("2d-fallback warning iff 2d-field", warned == (Fd == 2), f"warnings: {w}", backend="exec")
    # 3. another container: its state
    s, w = call("cauchy_stress", field_b)
    vk.ensures_eq("3/cauchy_stress(other field) == P F^T / det F of that field", s, spec(Fs[2], Js[2], True))
    t, w = call("kirchhoff_stress", field_b)
    vk.ensures_eq("3/kirchhoff_stress(other field) == P F^T of that field", t, spec(Fs[2], Js[2], False))
    vk.frame_unchanged("values of the other container", field_b[0].values, us[2])
    # 4. back to the first container: P and F of the values it holds at the time of the call
    ua = vk.snapshot(field_a[0].values)
    Fa = _F_spec(vk, kind, region, mesh, cells, ua)
    t, w = call("kirchhoff_stress", field_a)
    vk.ensures_eq("4/kirchhoff_stress(first field again) == P F^T of its values", t, spec(Fa, None, False))
    # the first Piola-Kirchhoff stress the view uses (stress_type=None)
    Pv = solid.evaluate.stress(field_b)
    vk.ensures_eq("evaluate.stress(field) == P of that field", Pv, _P_total(vk, umat, solid, Fs[2], ni, Fd))
    if vk.sym:
        vk.canary("kirchhoff==cauchy", t, spec(Fa, det_ref(Fa), True) if Fd == 3 else 2 * t)
        vk.canary("stale-state", t, spec(Fs[0], Js[0], False))


def _P_total(vk, umat, solid, F, ni, Fd):
    P = umat._map(F, "P")
    if ni:
        p = np.asarray(solid.results.state.p)
        cof = np.empty(F.shape, dtype=F.dtype)
        for q in range(F.shape[2]):
            for c in range(F.shape[3]):
                cof[:, :, q, c] = symnp.adj_ref(F[:, :, q, c]).T if Fd == 3 else np.array([[F[1, 1, q, c], -F[1, 0, q, c]], [-F[0, 1, q, c], F[0, 0, q, c]]])
        P = P + p.reshape(1, 1, 1, -1) * cof
    return P


# ---- tools.force / tools.moment ------------------------------------------------------------------------------------
def _subsets(n):
    return [np.array(m) for m in itertools.product([False, True], repeat=n) if any(m)]


@contract("C19", "force_moment", configs=[dict(dim=3, container=c, forces=f) for c in ("single", "mixed") for f in ("dense", "sparse")] + [dict(dim=2, container=c, forces=f, only="force") for c in ("single", "mixed") for f in ("dense", "sparse")])
def force_moment(vk, cfg):
    """tools.force(field, forces, boundary) == sum over the boundary's points of the nodal force vectors (first
    field's part of the force vector); tools.moment(field, forces, boundary, centerpoint) == sum over the
    boundary's points of (X + u - c) x f -- symbolic coordinates, displacements, forces and centre point; every
    non-empty point subset of a 5-point mesh as boundary (real Boundary with a point mask)"""
    import felupe.tools._post as TP

    dim = cfg["dim"]
    vk.real(fem.tools.force)
    vk.real(fem.tools.moment)
    cells = np.array([[0, 1, 2, 3], [1, 2, 3, 4]]) if dim == 3 else np.array([[0, 1, 2], [1, 3, 2], [2, 3, 4]])
    ct, el, quad = ("tetra", E.Tetra(), fem.TetrahedronQuadrature(order=1)) if dim == 3 else ("triangle", E.Triangle(), fem.TriangleQuadrature(order=1))
    npts = 5
    X = vk.reals("X", (npts, dim), near=np.arange(npts * dim).reshape(npts, dim) % 4 * 0.5, spread=0.3)
    mesh = fem.Mesh(X, cells, ct)
    region = fem.Region(mesh, el, _lift_quadrature(vk, quad), grad=False)
    u = vk.reals("u", (npts, dim), near=0.0, spread=0.2)
    fields = [fem.Field(region, dim=dim, values=u.copy())]
    nextra = 0
    if cfg["container"] == "mixed":
        fields.append(fem.Field(region, dim=1, values=vk.reals("p", (npts, 1))))
        nextra = npts
    field = fem.FieldContainer(fields)
    f = vk.reals("f", (npts * dim + nextra,), near=0.0, spread=1.0)
    c3 = vk.reals("c", (3,), near=0.5, spread=0.5)
    fn = f[: npts * dim].reshape(npts, dim)  # spec: the nodal force vectors of the first field
    if cfg["forces"] == "sparse":
        # forces as assembled sparse column vector (documented use: forces=job.res.fun / solid.assemble.vector())
        if vk.sym:
            forces = DenseCSR(f.reshape(-1, 1))
        else:
            from scipy.sparse import csr_matrix

            forces = csr_matrix(f.reshape(-1, 1))
    else:
        forces = f.reshape(-1, 1) if cfg["container"] == "single" else f
    saved = TP.issparse
    if vk.sym:
        TP.issparse = lambda x: isinstance(x, DenseCSR) or saved(x)
    try:
        subsets = _subsets(npts)
        for k, mask in enumerate(subsets):
            lab = "boundary=" + "".join("1" if m else "0" for m in mask)
            bnd = fem.Boundary(field[0], mask=mask)
            pts = np.where(mask)[0]
            if vk.sym:
                vk.ensures_true(f"{lab}/boundary.points", list(bnd.points) == list(pts), str(bnd.points), backend="exec")
            if cfg.get("only") != "moment":
                F = fem.tools.force(field, forces, bnd)
                vk.ensures_eq(f"{lab}/force==sum of nodal forces", F, sum(fn[p] for p in pts))
                # a boundary that prescribes only some components (skip=): its POINTS are the same, and the force is
                # the sum of the complete nodal force vectors there (the reaction along a free axis is part of it)
                for skip in ([(True, False, False), (False, True, True)] if dim == 3 else [(True, False), (False, True)]) if k % 3 == 0 else []:
                    bs = fem.Boundary(field[0], mask=mask, skip=skip)
                    if vk.sym:
                        vk.ensures_true(f"{lab}/skip={skip}/boundary.points", list(bs.points) == list(pts), str(bs.points), backend="exec")
                    vk.ensures_eq(f"{lab}/skip={skip}/force==sum of nodal forces (all components)", fem.tools.force(field, forces, bs), sum(fn[p] for p in pts))
            for cname, cp in (("given", c3), ("default", None)) if cfg.get("only") != "force" else ():
                M = fem.tools.moment(field, forces, bnd, cp) if cp is not None else fem.tools.moment(field, forces, bnd)
                c = cp[:dim] if cp is not None else 0 * c3[:dim]
                r = [X[p] + u[p] - c for p in pts]
                if dim == 3:
                    spec = sum(np.array([r_[1] * fn[p][2] - r_[2] * fn[p][1], r_[2] * fn[p][0] - r_[0] * fn[p][2], r_[0] * fn[p][1] - r_[1] * fn[p][0]]) for r_, p in zip(r, pts))
                else:
                    spec = sum(r_[0] * fn[p][1] - r_[1] * fn[p][0] for r_, p in zip(r, pts))
                vk.ensures_eq(f"{lab}/moment(centerpoint={cname})==sum (X+u-c) x f", M, spec)
                if vk.sym and k == len(subsets) - 1 and cname == "given":
                    vk.canary("moment==sum f x (X+u-c)", M, -spec)
                    r0 = [X[p] - c for p in pts]
                    vk.canary("moment without displacement", np.ravel(M)[-1:], np.ravel(sum(r_[0] * fn[p][1] - r_[1] * fn[p][0] for r_, p in zip(r0, pts)))[-1:])
    finally:
        TP.issparse = saved
    if vk.sym:
        if cfg.get("only") == "force":
            vk.canary("force==2*sum", F, 2 * sum(fn[p] for p in pts))
        vk.bounded_standin("number of mesh points / boundary points of force and moment", bound="one 5-point mesh, all 31 non-empty point subsets as boundary", evaluations=len(subsets), ok=True, detail="each subset carries P obligations universal in coordinates, displacements, forces, centre point")


# ---- strain / stretch helpers of a field container -----------------------------------------------------------------
class _EigenBackends:
    """contract stubs of np.linalg.eigh / eigvalsh (C17 contract: matrices in the last two axes; eigh returns
    (w[..., a], V[..., i, a])): fresh symbols, positive eigenvalues for the positive definite arguments"""

    def __init__(s, vk):
        s.vk, s.calls = vk, []

    def _w(s, a, tag):
        a = np.asarray(a)
        n = len(s.calls)
        w = s.vk.reals(f"lam{n}{tag}", a.shape[:-1], near=1.0, spread=0.3)
        for x in w.ravel():
            oracle.assume(co(x), ">")
        return a, w, n

    def eigh(s, a, UPLO="L"):
        # (math.eigh hands its UPLO on to the back end; the arguments here are symmetric tensors: either triangle)
        a, w, n = s._w(a, "h")
        V = ring.symarray(f"vec{n}_", a.shape)
        s.calls.append(("eigh", a, w, V))
        return w, V

    def eigvalsh(s, a, UPLO="L"):
        a, w, n = s._w(a, "v")
        s.calls.append(("eigvalsh", a, w, None))
        return w

    def __enter__(s):
        symnp.LINALG_STUBS.update(eigh=s.eigh, eigvalsh=s.eigvalsh)
        return s

    def __exit__(s, *a):
        symnp.LINALG_STUBS.clear()


def _batch_first(A, kind="eigh"):
    """the layout the eigen backends receive (C17 contract of the math wrappers): eigh gets (q, c, i, j) and
    returns w[q, c, a], V[q, c, i, a]; eigvalsh gets A.T = (c, q, j, i) and returns w[c, q, a]"""
    if kind == "eigvalsh":
        return np.asarray(A).T
    return np.moveaxis(np.moveaxis(A, 0, -1), 0, -1)


def _lam(w, kind):
    """eigenvalues as (a, q, c)"""
    return np.asarray(w).T if kind == "eigvalsh" else np.moveaxis(w, -1, 0)


def _seth_hill(k, lam):
    st = symnp._sqrt(lam)
    return symnp._OVERRIDES["log"](st) if k == 0 else (st**k - 1) / k


VOIGT = [(0, 0), (1, 1), (2, 2), (0, 1), (1, 2), (0, 2)]


def _strain_from_backend(k, w, V, tensor, asvoigt, kind="eigh"):
    """spec (docstring of EvaluateFieldContainer.strain / math.strain): E = sum_a f(lambda_a) N_a (x) N_a with
    (lambda_a^2, N_a) the eigenpairs of C; reduced (Voigt) storage of a strain tensor: C17 tovoigt(strain=True)"""
    lam = _lam(w, kind)  # (a, q, c)
    if not tensor:
        return _seth_hill(k, lam)
    N = np.moveaxis(np.moveaxis(V, -1, 0), -1, 0)  # (i, a, q, c)
    Et = ref_einsum("aqc,iaqc,jaqc->ijqc", _seth_hill(k, lam), N, N)
    if asvoigt:
        return np.array([Et[i, j] * (1 if i == j else 2) for i, j in VOIGT])
    return Et


@contract("C19", "field_evaluate", configs=[dict(field=k) for k in ("3d", "planestrain", "axisymmetric")])
def field_evaluate(vk, cfg):
    """field.evaluate.*: deformation_gradient() == I + grad u, right_cauchy_green_deformation() == F^T F,
    strain / log_strain / green_lagrange_strain == sum_a f(lambda_a) N_a (x) N_a (tensor, Voigt storage,
    principal values) of the eigen-decomposition of C = F^T F of THIS field (eigen backends: C17 contract)"""
    from felupe.field._evaluate import EvaluateFieldContainer as EV

    kind = cfg["field"]
    npc, nq, fcls, fdim, Fd = STRESS_FIELDS[kind]
    for fn in (EV.deformation_gradient, EV.right_cauchy_green_deformation, EV.strain, EV.log_strain, EV.green_lagrange_strain):
        vk.real(fn)
    cells = np.array([[0, 1, 2, 3], [1, 2, 3, 4]]) if npc == 4 else np.array([[0, 1, 2], [1, 3, 2]])
    region = OpaqueTables(vk, cells, fdim, nq)
    u = vk.reals("u", (region.mesh.npoints, fdim), near=0.0, spread=0.08)
    F = _F_spec(vk, kind, region, region.mesh, cells, u)
    field = fem.FieldContainer([fcls(region, dim=fdim, values=u.copy())])
    C = ref_einsum("kiqc,kjqc->ijqc", F, F)
    vk.ensures_eq("deformation_gradient()==I+grad(u)", field.evaluate.deformation_gradient(), F)
    vk.ensures_eq("right_cauchy_green_deformation()==F^T F", field.evaluate.right_cauchy_green_deformation(), C)
    if not vk.sym:
        return
    calls = [
        ("strain()", lambda: field.evaluate.strain(), 0, True, False),
        ("strain(tensor=True,asvoigt=True)", lambda: field.evaluate.strain(tensor=True, asvoigt=True), 0, True, True),
        ("strain(tensor=False)", lambda: field.evaluate.strain(tensor=False), 0, False, False),
        ("strain(k=1)", lambda: field.evaluate.strain(k=1), 1, True, False),
        ("strain(fun=custom)", lambda: field.evaluate.strain(fun=lambda stretch, m: stretch**m - 1, m=3, tensor=False), None, False, False),
        ("log_strain()", lambda: field.evaluate.log_strain(), 0, True, False),
        ("log_strain(tensor=False)", lambda: field.evaluate.log_strain(tensor=False), 0, False, False),
        ("log_strain(asvoigt=True)", lambda: field.evaluate.log_strain(asvoigt=True), 0, True, True),
        ("green_lagrange_strain()", lambda: field.evaluate.green_lagrange_strain(), 2, True, False),
        ("green_lagrange_strain(tensor=False)", lambda: field.evaluate.green_lagrange_strain(tensor=False), 2, False, False),
        ("green_lagrange_strain(asvoigt=True)", lambda: field.evaluate.green_lagrange_strain(asvoigt=True), 2, True, True),
    ]
    for lab, fn, k, tensor, asvoigt in calls:
        with _EigenBackends(vk) as eb:
            val = fn()
        vk.ensures_true(f"{lab}/one eigen-decomposition", len(eb.calls) == 1 and eb.calls[0][0] == ("eigh" if tensor else "eigvalsh"), str([c[0] for c in eb.calls]), backend="exec")
        kindc, a, w, V = eb.calls[0]
        vk.ensures_eq(f"{lab}/decomposed tensor is C=F^T F of this field", a, _batch_first(C, kindc))
        if k is None:
            spec = symnp._sqrt(_lam(w, kindc)) ** 3 - 1
        else:
            spec = _strain_from_backend(k, w, V, tensor, asvoigt, kindc)
        vk.ensures_eq(f"{lab}==sum f(lambda) N(x)N", val, spec)
    vk.canary("log_strain==green_lagrange", val, _strain_from_backend(0, w, V, True, True, kindc))


# ---- per-cell data of the view classes ------------------------------------------------------------------------------
class _DatasetStub:
    """contract stub of the pyvista dataset the view classes fill: point_data[label] = array / cell_data[label]
    = array store the array, one row per point / cell, rows flattened in C order (checked against the real
    pyvista.UnstructuredGrid by the native run, which uses the real pyvista)"""

    def __init__(s):
        s.point_data, s.cell_data = {}, {}

    def set_active_scalars(s, *a, **k):
        pass

    set_active_vectors = set_active_tensors = set_active_scalars


def _rows(a, n):
    a = np.asarray(a)
    return a.reshape(n, -1)


@contract("C19", "view_defgrad", configs=[dict(view="ViewField", only="defgrad"), dict(view="ViewSolid", stress_type=None, only="defgrad")])
def view_defgrad(vk, cfg):
    """cell data "Deformation Gradient" of ViewField / ViewSolid: per cell the 9 components (row-major, the
    VTK tensor convention and the layout of Job's file export) of the quadrature-point mean of F"""
    view_cell_data(vk, cfg)


@contract("C19", "view_cell_data", configs=[dict(view="ViewField")] + [dict(view="ViewSolid", stress_type=t) for t in ("Kirchhoff", None)] + [dict(view="ViewSolid", stress_type="Cauchy", tables="fixed", cells=1), dict(view="ViewSolid", stress_type="Cauchy", tables="fixed", cells=2, tier="thorough")])
def view_cell_data(vk, cfg):
    """ViewField / ViewSolid (project=None): every default cell-data item is, per cell, the mean over the
    quadrature points of the named quantity: Deformation Gradient (9 components, row-major), Logarithmic Strain
    (Voigt storage), its principal values; <type> Stress (Voigt), its principal values, its von Mises equivalent,
    evaluated for the field given to the view"""
    from felupe.view._field import ViewField
    from felupe.view._solid import ViewSolid

    vk.real(ViewField.__init__)
    vk.real(ViewSolid.__init__)
    cells = np.array([[0, 1, 2, 3], [1, 2, 3, 4]])[: cfg.get("cells", 2)]
    nq, nc = 2, len(cells)
    region = OpaqueTables(vk, cells, 3, nq, cell_type="tetra", concrete=cfg.get("tables") == "fixed")
    if cfg.get("tables") == "fixed":
        vk.note("view_cell_data[stress_type=Cauchy]: universal in the field values and the material response on ONE region with fixed tables in general position (the von Mises root of the Cauchy stress over free tables exceeds the memory budget); Kirchhoff / first Piola-Kirchhoff stress and the strain items: free tables")
    u = vk.reals("u", (region.mesh.npoints, 3), near=0.0, spread=0.08)
    F = _F_spec(vk, "3d", region, region.mesh, cells, u)
    J = _require_detF(vk, F)
    field = fem.FieldContainer([fem.Field(region, dim=3, values=u.copy())])
    C = ref_einsum("kiqc,kjqc->ijqc", F, F)
    if vk.sym:
        region.mesh.as_pyvista = lambda cell_type=None: _DatasetStub()
    solid = None
    if cfg["view"] == "ViewSolid":
        umat = StubMaterial(vk, dim=3, hyperelastic=False)
        u0 = vk.reals("u0", (region.mesh.npoints, 3), near=0.0, spread=0.08)
        _require_detF(vk, _F_spec(vk, "3d", region, region.mesh, cells, u0))
        solid = fem.SolidBody(umat, fem.FieldContainer([fem.Field(region, dim=3, values=u0.copy())]))  # another state
    with _EigenBackends(vk) if vk.sym else _nullcontext() as eb:
        with warnings.catch_warnings():
            warnings.simplefilter("ignore")
            view = ViewSolid(field, solid=solid, stress_type=cfg["stress_type"]) if solid is not None else ViewField(field)
    cd = view.mesh.cell_data
    mean_q = lambda A: ref_einsum("kqc->ck", A.reshape((-1,) + A.shape[-2:])) / nq  # (c, components in C order)
    if cfg.get("only") == "defgrad":
        vk.ensures_eq("Deformation Gradient: row-major mean over q of F", _rows(cd["Deformation Gradient"], nc), mean_q(F))
        if vk.sym:
            vk.canary("Deformation Gradient==0", _rows(cd["Deformation Gradient"], nc), 0 * mean_q(F))
        return
    # the set of 9 components per cell (the component ORDER is the separate contract view_defgrad)
    vk.ensures_eq("Deformation Gradient: diagonal components and sum of all components", np.stack([_rows(cd["Deformation Gradient"], nc)[:, k] for k in (0, 4, 8)] + [np.sum(_rows(cd["Deformation Gradient"], nc), axis=1)]), np.stack([mean_q(F)[:, k] for k in (0, 4, 8)] + [np.sum(mean_q(F), axis=1)]))
    if vk.sym:
        byarg = {}
        for kindc, a, w, V in eb.calls:
            byarg.setdefault(kindc, []).append((a, w, V))
        # strains: one eigh (tensor) and one eigvalsh (principal values) of C of the viewed field
        (a, w, V), = byarg["eigh"]
        vk.ensures_eq("Logarithmic Strain/decomposed tensor is C of the viewed field", a, _batch_first(C))
        vk.ensures_eq("Logarithmic Strain: mean over q (Voigt storage)", _rows(cd["Logarithmic Strain"], nc), mean_q(_strain_from_backend(0, w, V, True, True)))
        ev = byarg["eigvalsh"]
        a, w, V = ev[-1]
        vk.ensures_eq("Principal Values of Logarithmic Strain/decomposed tensor is C", a, _batch_first(C, "eigvalsh"))
        vk.ensures_eq("Principal Values of Logarithmic Strain: mean over q", _rows(cd["Principal Values of Logarithmic Strain"], nc), mean_q(_strain_from_backend(0, w, V, False, False, "eigvalsh")))
    if solid is not None:
        P = umat._map(F, "P")
        S = ref_einsum("ikqc,jkqc->ijqc", P, F)
        st = cfg["stress_type"]
        if st == "Cauchy":
            S = S / np.asarray(J)[None, None]
        elif st is None:
            S = P
        label = f"{st} Stress" if st else "Stress"
        if vk.sym:
            a, w, V = ev[0]
            vk.ensures_eq(f"Principal Values of {label}/decomposed tensor is the stress", a, _batch_first(S, "eigvalsh"))
            vk.ensures_eq(f"Principal Values of {label}: mean over q", _rows(cd[f"Principal Values of {label}"], nc), mean_q(_lam(w, "eigvalsh")))
        vk.ensures_true("stress labels", sorted(k for k in cd if "Stress" in k) == sorted([label, f"Principal Values of {label}", f"Equivalent of {label}"]), str(sorted(cd)), backend="exec")
        vk.ensures_eq(f"{label}: mean over q (Voigt storage) of the stress of the viewed field", _rows(cd[label], nc), mean_q(np.array([S[i, j] for i, j in VOIGT])))
        dev = S.copy()
        tr = (S[0, 0] + S[1, 1] + S[2, 2]) / 3
        for i in range(3):
            dev[i, i] = dev[i, i] - tr
        vm = symnp._sqrt(np.asarray(ref_einsum("ijqc,ijqc->qc", dev, dev) * 3 / 2))
        vk.ensures_eq(f"Equivalent of {label}: mean over q of sqrt(3/2 dev:dev)", _rows(cd[f"Equivalent of {label}"], nc), mean_q(vm[None]))
    if vk.sym:
        vk.canary("Deformation Gradient==0", _rows(cd["Deformation Gradient"], nc), 0 * mean_q(F))


# ---- options of the view classes: project=, cell_type=, point_data=, cell_data= --------------------------------------
@contract("C19", "view_options", configs=[dict(view="ViewField", option="project"), dict(view="ViewSolid", option="project"), dict(view="ViewField", option="cell_type"), dict(view="ViewSolid", option="point_data+cell_data+cell_type"), dict(view="ViewSolid", option="project-not-callable")])
def view_options(vk, cfg):
    """ViewField / ViewSolid options.  project= ("callable to project internal cell-data at quadrature-points to
    mesh-points"): the callable is handed, with the field's region, the quadrature-point values of exactly the named
    quantities (Deformation Gradient, Logarithmic Strain in Voigt storage, its principal values; <type> Stress in
    Voigt storage, its principal values, its von Mises equivalent -- of the field given to the view), what it returns
    becomes the POINT data of that name, and no default cell-data item is left; anything but a callable or None raises
    TypeError.  cell_type=: handed on to the plotting back end's grid.  point_data= / cell_data= of ViewSolid
    ("additional ... dict"; "optional items of given point- and cell-data overwrite the default items"): the given arrays
    reach the back end under their labels, a given item named like a default one replaces it, the other defaults stay"""
    from felupe.view._field import ViewField
    from felupe.view._solid import ViewSolid

    vk.real(ViewField.__init__)
    vk.real(ViewSolid.__init__)
    opt = cfg["option"]
    cells = np.array([[0, 1, 2, 3], [1, 2, 3, 4]])
    nq, nc = 2, len(cells)
    region = OpaqueTables(vk, cells, 3, nq, cell_type="tetra")
    npts = region.mesh.npoints
    u = vk.reals("u", (npts, 3), near=0.0, spread=0.08)
    F = _F_spec(vk, "3d", region, region.mesh, cells, u)
    _require_detF(vk, F)
    field = fem.FieldContainer([fem.Field(region, dim=3, values=u.copy())])
    C = ref_einsum("kiqc,kjqc->ijqc", F, F)
    seen_cell_type = []
    if vk.sym:

        def as_pyvista(cell_type=None):
            seen_cell_type.append(cell_type)
            return _DatasetStub()

        region.mesh.as_pyvista = as_pyvista
    solid = None
    if cfg["view"] == "ViewSolid":
        umat = StubMaterial(vk, dim=3, hyperelastic=False)
        u0 = vk.reals("u0", (npts, 3), near=0.0, spread=0.08)
        _require_detF(vk, _F_spec(vk, "3d", region, region.mesh, cells, u0))
        solid = fem.SolidBody(umat, fem.FieldContainer([fem.Field(region, dim=3, values=u0.copy())]))  # another state
    calls = []

    def proj(values, reg):
        "the caller's projection (stub): remembers what it is handed, returns one row per point tagged by the call"
        values = np.asarray(values)
        ncomp = int(np.prod(values.shape[:-2])) if values.ndim > 2 else 1
        out = np.zeros((npts, ncomp), dtype=object if vk.sym else float)
        out[...] = (LP.const(len(calls) + 1) if vk.sym else float(len(calls) + 1))
        out[:, 0] = out[:, 0] + np.arange(npts)
        calls.append((values, reg, out))
        return out

    kw = {}
    stress_type = "Kirchhoff"
    if opt == "project":
        kw["project"] = proj
    elif opt == "project-not-callable":
        kw["project"] = "project"
    elif opt == "cell_type":
        kw["cell_type"] = 10  # pyvista.CellType.TETRA, the VTK id of the mesh's own cell type, spelled out
    else:
        given_p = {"Temperature": vk.reals("T", (npts,), near=20.0), "Displacement": vk.reals("ugiven", (npts, 3), near=0.5)}
        given_c = {"Density": vk.reals("rho", (nc,), near=1.0), "Deformation Gradient": vk.reals("Fgiven", (nc, 9), near=0.3), f"{stress_type} Stress": vk.reals("Sgiven", (nc, 6), near=0.7)}
        kw.update(point_data=dict(given_p), cell_data=dict(given_c), cell_type=10)
    raised = None
    with _EigenBackends(vk) if vk.sym else _nullcontext() as eb:
        with warnings.catch_warnings():
            warnings.simplefilter("ignore")
            try:
                view = ViewSolid(field, solid=solid, stress_type=stress_type, **kw) if solid is not None else ViewField(field, **kw)
            except TypeError as e:
                if opt != "project-not-callable":
                    raise
                raised = str(e)
    if opt == "project-not-callable":
        vk.ensures_true("project= neither callable nor None: TypeError", raised is not None, repr(raised), backend="exec")
        return
    pd, cd = view.mesh.point_data, view.mesh.cell_data
    rows = lambda a, n: _rows(np.asarray(a, dtype=object if vk.sym else float), n)  # noqa: E731
    if "cell_type" in kw:
        got = seen_cell_type if vk.sym else sorted(set(int(t) for t in view.mesh.celltypes))
        vk.ensures_true("cell_type=: the back end's grid is built with the given cell type", got == [10], str(got), backend="exec")
    if opt == "cell_type":
        # everything else as without the option
        vk.ensures_eq("cell_type=/Deformation Gradient: row-major mean over q of F", rows(cd["Deformation Gradient"], nc), ref_einsum("kqc->ck", F.reshape((-1,) + F.shape[-2:])) / nq)
        vk.ensures_eq("cell_type=/Displacement", rows(pd["Displacement"], npts), u)
        if vk.sym:
            vk.canary("cell_type=/Deformation Gradient==0", rows(cd["Deformation Gradient"], nc), 0 * rows(cd["Deformation Gradient"], nc))
        return
    P = umat._map(F, "P") if solid is not None else None
    S = ref_einsum("ikqc,jkqc->ijqc", P, F) if solid is not None else None  # Kirchhoff stress of the VIEWED field
    label = f"{stress_type} Stress"
    if opt == "project":
        order = ([label, f"Principal Values of {label}", f"Equivalent of {label}"] if solid is not None else []) + ["Deformation Gradient", "Logarithmic Strain", "Principal Values of Logarithmic Strain"]
        vk.ensures_true("project=: called once per named quantity", len(calls) == len(order), f"{len(calls)} calls", backend="exec")
        if len(calls) != len(order):
            return
        reg_ok = [c[1] is (solid.field.region if (solid is not None and k < 3) else field.region) for k, c in enumerate(calls)]
        vk.ensures_true("project=: called with the region of the field", all(reg_ok), str(reg_ok), backend="exec")
        vk.ensures_true("project=: no default cell-data item is left, the named quantities are point data", sorted(cd.keys()) == [] and sorted(pd.keys()) == sorted(order + ["Displacement"]), f"cell data {sorted(cd.keys())}, point data {sorted(pd.keys())}", backend="exec")
        for k, name in enumerate(order):
            vk.ensures_eq(f"project=/point data '{name}' is what the callable returned for it", rows(pd[name], npts), calls[k][2])
        handed = {name: calls[k][0] for k, name in enumerate(order)}
        vk.ensures_eq("project=/Deformation Gradient: the callable is handed F at the quadrature points", handed["Deformation Gradient"], F)
        vk.ensures_eq("project=/Displacement", rows(pd["Displacement"], npts), u)
        if solid is not None:
            vk.ensures_eq(f"project=/{label}: the callable is handed the stress of the viewed field (Voigt storage)", handed[label], np.array([S[i, j] for i, j in VOIGT]))
            dev = S.copy()
            tr = (S[0, 0] + S[1, 1] + S[2, 2]) / 3
            for i in range(3):
                dev[i, i] = dev[i, i] - tr
            vm = symnp._sqrt(np.asarray(ref_einsum("ijqc,ijqc->qc", dev, dev) * 3 / 2))
            vk.ensures_eq(f"project=/Equivalent of {label}: the callable is handed sqrt(3/2 dev:dev)", handed[f"Equivalent of {label}"], vm)
        if vk.sym:
            byarg = {}
            for kindc, a, w, V in eb.calls:
                byarg.setdefault(kindc, []).append((a, w, V))
            (a, w, V), = byarg["eigh"]
            vk.ensures_eq("project=/Logarithmic Strain/decomposed tensor is C of the viewed field", a, _batch_first(C))
            vk.ensures_eq("project=/Logarithmic Strain: the callable is handed the strain (Voigt storage)", handed["Logarithmic Strain"], _strain_from_backend(0, w, V, True, True))
            ev = byarg["eigvalsh"]
            a, w, V = ev[-1]
            vk.ensures_eq("project=/Principal Values of Logarithmic Strain/decomposed tensor is C", a, _batch_first(C, "eigvalsh"))
            vk.ensures_eq("project=/Principal Values of Logarithmic Strain: the callable is handed them", handed["Principal Values of Logarithmic Strain"], _strain_from_backend(0, w, V, False, False, "eigvalsh"))
            if solid is not None:
                a, w, V = ev[0]
                vk.ensures_eq(f"project=/Principal Values of {label}/decomposed tensor is the stress", a, _batch_first(S, "eigvalsh"))
                vk.ensures_eq(f"project=/Principal Values of {label}: the callable is handed them", handed[f"Principal Values of {label}"], _lam(w, "eigvalsh"))
            vk.canary("project=/the callable is handed the cell means", np.asarray(handed["Deformation Gradient"])[..., 0, :], np.asarray(F).mean(-2) + 1)
        return
    # point_data= / cell_data= of ViewSolid
    for k, v in given_p.items():
        vk.ensures_eq(f"point_data=/'{k}' reaches the back end as given" + (" (replaces the default item)" if k == "Displacement" else ""), rows(pd[k], npts), rows(v, npts))
    for k, v in given_c.items():
        vk.ensures_eq(f"cell_data=/'{k}' reaches the back end as given" + ("" if k == "Density" else " (replaces the default item)"), rows(cd[k], nc), rows(v, nc))
    vk.ensures_true("point_data= / cell_data=: the other default items stay", sorted(pd.keys()) == sorted(given_p) and sorted(cd.keys()) == sorted(set(given_c) | {"Logarithmic Strain", "Principal Values of Logarithmic Strain", f"Principal Values of {label}", f"Equivalent of {label}"}), f"point data {sorted(pd.keys())}, cell data {sorted(cd.keys())}", backend="exec")
    dev = S.copy()
    tr = (S[0, 0] + S[1, 1] + S[2, 2]) / 3
    for i in range(3):
        dev[i, i] = dev[i, i] - tr
    vm = symnp._sqrt(np.asarray(ref_einsum("ijqc,ijqc->qc", dev, dev) * 3 / 2))
    vk.ensures_eq(f"cell_data=/default item 'Equivalent of {label}' unchanged: mean over q of sqrt(3/2 dev:dev)", rows(cd[f"Equivalent of {label}"], nc), ref_einsum("kqc->ck", vm[None]) / nq)
    if vk.sym:
        vk.canary("cell_data=/the given 'Deformation Gradient' is overwritten by the default item", rows(cd["Deformation Gradient"], nc), ref_einsum("kqc->ck", F.reshape((-1,) + F.shape[-2:])) / nq)


# ---- tools.save: the Cauchy stress point data (the arrays handed to meshio otherwise: C20) --------------------------
@contract("C19", "save_cauchy", configs=[dict(nq=4), dict(nq=1)])
def save_cauchy(vk, cfg):
    """tools.save(region, field, gradient=[P]): point data "Cauchy Stress" is, at each point, the mean over the
    attached cells of P F^T / det F shifted to the points (topoints); the principal items are the ascending
    eigenvalues (eigvalsh contract) shifted the same way: Max = [2], Int = [1], Min = [0], shear = [2] - [0]"""
    import sys
    import types

    vk.real(fem.tools.save)
    nq = cfg["nq"]
    cells = np.array([[0, 1, 2, 3], [1, 2, 3, 4]])
    nc, npc = cells.shape
    region = OpaqueTables(vk, cells, 3, nq, concrete=True, cell_type="tetra")
    u = vk.reals("u", (region.mesh.npoints, 3), near=0.0, spread=0.08)
    F = _F_spec(vk, "3d", region, region.mesh, cells, u)
    J = _require_detF(vk, F)
    P = vk.reals("P", (3, 3, nq, nc), near=0.0, spread=1.0)
    field = fem.FieldContainer([fem.Field(region, dim=3, values=u.copy())])
    got = {}

    class Mesh:
        def __init__(s, points, cells, point_data=None, cell_data=None, **kw):
            got.update(points=points, cells=cells, point_data=point_data, cell_data=cell_data)

        def write(s, filename):
            got["filename"] = filename

    stub = types.ModuleType("meshio")
    stub.Mesh = Mesh
    saved = sys.modules.get("meshio")
    sys.modules["meshio"] = stub
    try:
        with _EigenBackends(vk) if vk.sym else _nullcontext() as eb, coo.bound() if vk.sym else _nullcontext():
            fem.tools.save(region, field, gradient=[P], filename="c19.vtu")
    finally:
        if saved is not None:
            sys.modules["meshio"] = saved
        else:
            del sys.modules["meshio"]
    pd = got["point_data"]
    S = ref_einsum("ikqc,jkqc->ijqc", P, F) / np.asarray(J)[None, None]
    w = np.ones(nq)
    vk.ensures_eq("Cauchy Stress == topoints(P F^T / det F)", pd["Cauchy Stress"], _topoints_spec(vk, S, cells, region.mesh.npoints, w, True, False))
    if not vk.sym:
        return
    kindc, a, lam, V = eb.calls[0]
    vk.ensures_eq("decomposed tensor is the Cauchy stress", a, _batch_first(S, "eigvalsh"))
    pr = _topoints_spec(vk, _lam(lam, "eigvalsh"), cells, region.mesh.npoints, w, True, False)  # (p, 3) ascending
    for label, spec in (("Max. Principal", pr[:, 2]), ("Int. Principal", pr[:, 1]), ("Min. Principal", pr[:, 0]), ("Max. Principal Shear", pr[:, 2] - pr[:, 0])):
        vk.ensures_eq(f"Cauchy Stress ({label})", pd[f"Cauchy Stress ({label})"], spec)
    vk.canary("Cauchy Stress == Kirchhoff stress at the points", pd["Cauchy Stress"], _topoints_spec(vk, ref_einsum("ikqc,jkqc->ijqc", P, F), cells, region.mesh.npoints, w, True, False))
