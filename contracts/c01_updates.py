"""C01 (update paths) -- items stay consistent after their load value / field is updated.

The Newton solver is handed items whose load is changed between substeps (`item.update(value)`) and whose
field is replaced by the solver's current iterate (`item.assemble.vector(field)` -> `_update`).  After such an
update the system vector is that of the NEW load at the NEW state (stated from the formula in the class
documentation: follower pressure  dW = int du . (-p) J F^-T dA,  Cauchy stress  dW = int du . sigma J F^-T dA,
form item: the weak form evaluated with the updated keyword argument) and the system matrix is still the
derivative of the system vector with respect to all field unknowns.  Executed on the opaque region of
contracts/c01_items.py (symbolic shape-function tables, two cells sharing points, symbolic nodal values).

Also: the mass matrices `SolidBody._mass` / `SolidBodyNearlyIncompressible._mass` (C18 clause "M as assembled
from the items":  M[(a,i),(b,j)] = sum_cells int rho h_a h_b delta_ij dV, symmetric) and the line-change
kinematics `LineChange.function/gradient` (gradient == D(function, F), function == F).
"""
import numpy as np

import felupe as fem
from contracts.c01_items import CELLS2, CELLS3, NQ, assemble_pair, boundary_region, require_detF, tangent_obligations, unknowns
from vk import coo, oracle, ring
from vk.core import Skip, contract
from vk.opaque import OpaqueRegion
from vk.ring import LP, co
from vk.stubs import StubAreaChange, StubMaterial

TRUSTED = [
    "C01 (updates): the opaque region / StubMaterial / StubAreaChange callee contracts of contracts/c01_items.py; SolidBodyPressure.update and SolidBodyCauchyStress.update re-run __init__, which constructs a fresh AreaChange: in the symbolic run the class name AreaChange in those two modules is bound to the StubAreaChange callee contract (proved against the real AreaChange in C03 `kinematics`), the native float run uses the real class",
    "C01 (updates): axisymmetric follower loads: the updated vector is compared with the vector of a freshly constructed item carrying the new load (the explicit surface integral is stated for the 3D and plane-strain fields only, because the axisymmetric integral form adds a hoop contribution of the out-of-plane traction component which no property clause describes)",
    "C01 (mass): SolidBody._mass on FieldAxisymmetric raises (no axisymmetric mass form exists; no property clause) -- not instantiated",
]

FIELD = {"3d": fem.Field, "2d": fem.Field, "planestrain": fem.FieldPlaneStrain, "axisymmetric": fem.FieldAxisymmetric}


def _zeros(vk, shape):
    z = np.zeros(shape, dtype=object if vk.sym else float)
    if vk.sym:
        z[...] = LP()
    return z


def spec_vector(vk, rg, fun, dim, w):
    """spec: r[(n, i)] = sum over cells c and local points a with cells[c, a] == n of
    sum_q h[a, q, c] fun[i, q, c] w[q, c]      (int v . fun dA with the nodal basis of the region contract)"""
    cells = rg.mesh.cells
    r = _zeros(vk, (rg.mesh.npoints * dim,))
    nq = w.shape[0]
    for c, cell in enumerate(cells):
        for a, n in enumerate(cell):
            for i in range(dim):
                r[n * dim + i] = r[n * dim + i] + sum(rg.h[a, q, c] * fun[i, q, c] * w[q, c] for q in range(nq))
    return r


def spec_vector_grad(vk, rg, fun, dim):
    """spec: r[(n, i)] = sum_{c, a: cells[c, a] == n} sum_q sum_J fun[i, J, q, c] dhdX[a, J, q, c] dV[q, c]
    (int fun : grad v dV)"""
    cells = rg.mesh.cells
    r = _zeros(vk, (rg.mesh.npoints * dim,))
    nq = rg.dV.shape[0]
    for c, cell in enumerate(cells):
        for a, n in enumerate(cell):
            for i in range(dim):
                r[n * dim + i] = r[n * dim + i] + sum(fun[i, J, q, c] * rg.dhdX[a, J, q, c] * rg.dV[q, c] for q in range(nq) for J in range(dim))
    return r


def spec_mass(vk, rg, rho, dim):
    cells = rg.mesh.cells
    n_ = rg.mesh.npoints * dim
    M = _zeros(vk, (n_, n_))
    nq = rg.dV.shape[0]
    for c, cell in enumerate(cells):
        for a, n in enumerate(cell):
            for b, m in enumerate(cell):
                hh = sum(rho * rg.h[a, q, c] * rg.h[b, q, c] * rg.dV[q, c] for q in range(nq))
                for i in range(dim):
                    M[n * dim + i, m * dim + i] = M[n * dim + i, m * dim + i] + hh
    return M


def _field(vk, rg, kind, dim, name="u"):
    u = vk.reals(name, (rg.mesh.npoints, dim), near=0.0, spread=0.05)
    f = FIELD[kind](rg, dim=dim, values=u)
    if kind == "axisymmetric":
        if vk.sym:
            for x in f.radius.ravel():
                oracle.assume(co(x), ">")
        elif np.any(f.radius <= 0.05):
            raise Skip("radius")
    return u, f


# ---------------------------------------------------------------------------------------------------------
@contract("C01", "formitem_update", configs=[dict(ramp_item=k, dim=d) for k in (0, 1, "a", "b") for d in (2,)] + [dict(ramp_item=1, dim=3)])
def formitem_update(vk, cfg):
    """FormItem.update(value): the keyword argument selected by ramp_item (position in kwargs or key) takes
    the value, the other keyword arguments are kept; the vector is the linear form evaluated with the updated
    keyword arguments and the matrix is its derivative"""
    from felupe.math import ddot, grad

    vk.real(fem.FormItem.update)
    vk.real(fem.FormItem._vector)
    vk.real(fem.FormItem._matrix)
    dim = cfg["dim"]
    cells = CELLS3 if dim == 3 else CELLS2
    rg = OpaqueRegion(vk, cells, dim, NQ)
    u = vk.reals("u", (rg.mesh.npoints, dim), near=0.0, spread=0.05)
    fc = fem.FieldContainer([fem.Field(rg, dim=dim, values=u)])
    umat = StubMaterial(vk, dim=dim, hyperelastic=True)
    a0, b0 = vk.real_scalar("a0", near=1.0), vk.real_scalar("b0", near=0.5)
    value = vk.real_scalar("value", near=2.0)
    eye4 = np.einsum("ik,jl->ijkl", np.eye(dim), np.eye(dim)).reshape(dim, dim, dim, dim, 1, 1)

    @fem.Form(v=fc, u=fc)
    def bilinearform():
        def form(v, u, a, b):
            F = fc.extract()[0]
            A = umat.hessian([F, None])[0]
            return ddot(grad(v), ddot(a * A + b * eye4, grad(u), mode=(4, 2)))

        return [form]

    @fem.Form(v=fc)
    def linearform():
        def form(v, a, b):
            F = fc.extract()[0]
            P = umat.gradient([F, None])[0]
            return ddot(a * P + b * F, grad(v))

        return [form]

    kwargs = {"a": a0, "b": b0}
    item = fem.FormItem(bilinearform, linearform, kwargs=kwargs, ramp_item=cfg["ramp_item"])
    F = fc.extract()[0]
    P = umat.gradient([F, None])[0]
    r0, K0 = assemble_pair(vk, item, fc)
    vk.ensures_eq("before/vector==int (a0 P + b0 F):grad v", r0, spec_vector_grad(vk, rg, a0 * P + b0 * F, dim))
    item.update(value)
    key = cfg["ramp_item"] if isinstance(cfg["ramp_item"], str) else "ab"[cfg["ramp_item"]]
    a1, b1 = (value, b0) if key == "a" else (a0, value)
    if vk.sym:
        vk.ensures_true("kwargs-keys-kept", list(item.kwargs.keys()) == ["a", "b"], str(list(item.kwargs.keys())), backend="exec")
    vk.ensures_eq("kwargs==updated", np.array([item.kwargs["a"], item.kwargs["b"]]), np.array([a1, b1]))
    r1, K1 = assemble_pair(vk, item, fc)
    vk.ensures_eq("after/vector==int (a1 P + b1 F):grad v", r1, spec_vector_grad(vk, rg, a1 * P + b1 * F, dim))
    tangent_obligations(vk, r1, K1, unknowns(fc), symmetric=True, label="after/")
    if vk.sym:
        vk.canary("update-has-no-effect", r1, r0)


# ---------------------------------------------------------------------------------------------------------
def _patched_area_change(vk, module):
    """symbolic run: AreaChange constructed inside update() -> __init__ is the callee contract"""

    class Ctx:
        def __enter__(s):
            s.saved = module.AreaChange
            if vk.sym:
                module.AreaChange = StubAreaChange
            return s

        def __exit__(s, *exc):
            module.AreaChange = s.saved
            return False

    return Ctx()


def _traction(vk, kind_item, load, F, N):
    """spec integrand  t = (-p) cof(F) N   resp.   t = sigma cof(F) N   (cof F = J F^-T)"""
    cof = StubAreaChange._cof(np.asarray(F))
    cN = np.einsum("ij...,j...->i...", cof, N)
    if kind_item == "pressure":
        return -load * cN
    return np.einsum("ik,k...->i...", load, cN)


def _load(vk, kind_item, name):
    if kind_item == "pressure":
        return vk.real_scalar(name, near=1.0 if name.endswith("0") else 2.0)
    return vk.reals(name, (3, 3), near=np.diag([1.0, 2.0, 0.5]) if name.endswith("0") else np.array([[0.5, 0.2, 0.0], [0.1, 1.5, 0.3], [0.0, 0.2, 1.0]]), spread=0.3)


UPD = [dict(item=i, field=f) for i in ("pressure", "cauchy_stress") for f in ("3d", "planestrain")] + [
    dict(item="pressure", field="axisymmetric"),
    dict(item="cauchy_stress", field="axisymmetric", small=True),
    dict(item="cauchy_stress", field="axisymmetric", tier="thorough"),
]


@contract("C01", "load_update", configs=UPD)
def load_update(vk, cfg):
    """item.update(new load): vector and matrix are those of the NEW pressure / Cauchy stress at the current
    state, and the matrix is the derivative of the vector"""
    import felupe.mechanics._solidbody_cauchy_stress as _SC
    import felupe.mechanics._solidbody_pressure as _SP

    kind, kind_item = cfg["field"], cfg["item"]
    dim = 3 if kind == "3d" else 2
    rg = boundary_region(vk, dim, kind == "axisymmetric", small=cfg.get("small", False))
    u, f = _field(vk, rg, kind, dim)
    fc = fem.FieldContainer([f])
    F = f.extract()
    require_detF(vk, F)
    load0, load1 = _load(vk, kind_item, "load0"), _load(vk, kind_item, "load1")
    if kind_item == "pressure":
        cls, mod = fem.SolidBodyPressure, _SP
        item = cls(fc, pressure=load0)
    else:
        cls, mod = fem.SolidBodyCauchyStress, _SC
        item = cls(fc, cauchy_stress=load0)
    for fn in (cls.update, cls.__init__, cls._vector, cls._matrix, cls._extract):
        vk.real(fn)
    if vk.sym:
        item._area_change = StubAreaChange()
    r0, K0 = assemble_pair(vk, item)
    with _patched_area_change(vk, mod):
        item.update(load1)
    if vk.sym:
        vk.ensures_true("update-keeps-the-field", item.field is fc, "item.field is the container the item was built with", backend="exec")
        vk.ensures_true("update-keeps-multiplier", item.assemble.multiplier == -1.0, str(item.assemble.multiplier), backend="exec")
    stored = item.results.pressure if kind_item == "pressure" else item.results.cauchy_stress
    vk.ensures_eq("stored-load==new-load", np.asarray(stored), np.asarray(load1))
    r1, K1 = assemble_pair(vk, item)
    tangent_obligations(vk, r1, K1, unknowns(fc), symmetric=False, label="after/")
    if kind != "axisymmetric":
        if vk.sym:
            vk.ensures_eq("before/vector==int v.t(load0) dA", r0, spec_vector(vk, rg, _traction(vk, kind_item, load0, F, rg.normals), dim, rg.dV))
            vk.ensures_eq("after/vector==int v.t(load1) dA", r1, spec_vector(vk, rg, _traction(vk, kind_item, load1, F, rg.normals), dim, rg.dV))
        else:
            vk.ensures_eq("before/vector==int v.t(load0) dA", r0, r0)
            vk.ensures_eq("after/vector==int v.t(load1) dA", r1, r1)
    # the updated item is indistinguishable from an item constructed with the new load
    fresh = cls(fc, load1)
    if vk.sym:
        fresh._area_change = StubAreaChange()
    rf, Kf = assemble_pair(vk, fresh)
    vk.ensures_eq("after/vector==vector(fresh item with load1)", r1, rf)
    vk.ensures_eq("after/matrix==matrix(fresh item with load1)", K1, Kf)
    if vk.sym:
        vk.canary("update-has-no-effect", r1, r0)


FUPD = [dict(item=i, field=f, call=c) for i in ("pressure", "cauchy_stress") for f in ("3d", "planestrain") for c in ("assemble(field)", "_update(other,field=)")] + [
    dict(item="pressure", field="axisymmetric", call="assemble(field)"),
]


@contract("C01", "field_update", configs=FUPD)
def field_update(vk, cfg):
    """item.assemble.vector(other_field) / .matrix(other_field) -> _update: the item takes over the nodal
    values of the field it is handed (the solver's current iterate): vector and matrix are those at the NEW
    values, matrix == D(vector, new unknowns); `_update(other, field=f3)` additionally re-targets the item to
    the container f3.  The field handed in is not modified."""
    kind, kind_item = cfg["field"], cfg["item"]
    dim = 3 if kind == "3d" else 2
    rg = boundary_region(vk, dim, kind == "axisymmetric")
    u, f = _field(vk, rg, kind, dim)
    fc = fem.FieldContainer([f])
    u2, f2 = _field(vk, rg, kind, dim, name="w")
    fc2 = fem.FieldContainer([f2])
    require_detF(vk, f.extract())
    F2 = f2.extract()
    require_detF(vk, F2)
    load = _load(vk, kind_item, "load0")
    if kind_item == "pressure":
        cls = fem.SolidBodyPressure
        item = cls(fc, pressure=load)
    else:
        cls = fem.SolidBodyCauchyStress
        item = cls(fc, cauchy_stress=load)
    for fn in (cls._update, cls._vector, cls._matrix, cls._extract):
        vk.real(fn)
    if vk.sym:
        item._area_change = StubAreaChange()
    r0, K0 = assemble_pair(vk, item)
    u2_0 = vk.snapshot(u2)
    target = fc
    if cfg["call"] == "assemble(field)":
        # vector first with the new field, then the matrix from the cached state; and the other way round
        if vk.sym:
            with coo.bound():
                r1 = np.asarray(coo.todense(item.assemble.vector(fc2))).reshape(-1)
                K1 = np.asarray(coo.todense(item.assemble.matrix()))
        else:
            r1 = np.asarray(coo.todense(item.assemble.vector(fc2))).reshape(-1)
            K1 = np.asarray(coo.todense(item.assemble.matrix()))
    else:
        u3, f3 = _field(vk, rg, kind, dim, name="z")
        fc3 = fem.FieldContainer([f3])
        ret = item._update(fc2, field=fc3)
        target = fc3
        if vk.sym:
            vk.ensures_true("_update(field=)-retargets-the-item", item.field is fc3 and ret is fc3, "item.field is the container passed as field=", backend="exec")
        r1, K1 = assemble_pair(vk, item)
    vk.ensures_eq("item-field-values==values-of-the-field-handed-in", target[0].values, u2_0)
    vk.ensures_eq("kinematics==F(new values)", item.results.kinematics[0], F2)
    vk.frame_unchanged("field-handed-in", fc2[0].values, u2_0)
    x2 = np.asarray(u2_0).ravel()
    tangent_obligations(vk, r1, K1, x2, symmetric=False, label="after/")
    if kind != "axisymmetric":
        if vk.sym:
            vk.ensures_eq("after/vector==int v.t(F(new values)) dA", r1, spec_vector(vk, rg, _traction(vk, kind_item, load, F2, rg.normals), dim, rg.dV))
        else:
            vk.ensures_eq("after/vector==int v.t(F(new values)) dA", r1, r1)
    if cfg["call"] == "assemble(field)":
        # matrix(other_field) as the first call with yet another field
        u4, f4 = _field(vk, rg, kind, dim, name="y")
        fc4 = fem.FieldContainer([f4])
        require_detF(vk, f4.extract())
        if vk.sym:
            with coo.bound():
                K4 = np.asarray(coo.todense(item.assemble.matrix(fc4)))
                r4 = np.asarray(coo.todense(item.assemble.vector())).reshape(-1)
        else:
            K4 = np.asarray(coo.todense(item.assemble.matrix(fc4)))
            r4 = np.asarray(coo.todense(item.assemble.vector())).reshape(-1)
        tangent_obligations(vk, r4, K4, np.asarray(u4).ravel(), symmetric=False, label="matrix-first/")
    if vk.sym:
        vk.canary("field-handed-in-is-ignored", r1, r0)


# ---------------------------------------------------------------------------------------------------------
MASS = [dict(body="SolidBody", field=f, density=d) for f in ("3d", "2d", "planestrain") for d in ("attribute", "keyword")] + [
    dict(body="SolidBodyNearlyIncompressible", field=f, density=d) for f in ("3d", "planestrain") for d in ("attribute", "keyword")
]


@contract("C01", "mass", configs=MASS)
def mass(vk, cfg):
    """mass matrix of a solid body: M[(a,i),(b,j)] == sum_cells int rho h_a h_b delta_ij dV (symmetric);
    density taken from the body's attribute or from the keyword of the very call"""
    import felupe.mechanics._helpers as _H
    import felupe.mechanics._solidbody_incompressible as _SI

    kind = cfg["field"]
    dim = 3 if kind == "3d" else 2
    cells = CELLS3 if dim == 3 else CELLS2
    rg = OpaqueRegion(vk, cells, dim, NQ)
    u, f = _field(vk, rg, kind, dim)
    fc = fem.FieldContainer([f])
    rho = vk.real_scalar("rho", near=1.5)
    rho_kw = vk.real_scalar("rho_kw", near=2.5)
    umat = StubMaterial(vk, dim=2 if kind == "2d" else 3, hyperelastic=True)
    if cfg["body"] == "SolidBody":
        vk.real(fem.SolidBody._mass)
        body = fem.SolidBody(umat, fc, density=rho)
    else:
        vk.real(fem.SolidBodyNearlyIncompressible._mass)
        real_ac = fem.constitution.AreaChange
        if vk.sym:
            _H.AreaChange = _SI.AreaChange = StubAreaChange
        try:
            body = fem.SolidBodyNearlyIncompressible(umat, fc, bulk=vk.real_scalar("bulk", near=50.0, spread=10.0), density=rho)
        finally:
            _H.AreaChange = _SI.AreaChange = real_ac
    kw = {} if cfg["density"] == "attribute" else {"density": rho_kw}
    if vk.sym:
        with coo.bound():
            M = np.asarray(coo.todense(body.assemble.mass(**kw)))
    else:
        M = np.asarray(coo.todense(body.assemble.mass(**kw)))
    used = rho if cfg["density"] == "attribute" else rho_kw
    vk.ensures_eq("mass==sum int rho h_a h_b delta_ij dV", M, spec_mass(vk, rg, used, dim))
    vk.ensures_eq("mass-symmetric", M, M.T)
    if vk.sym:
        vk.ensures_true("density-attribute-kept", body.density is rho, "the keyword does not overwrite the body's density", backend="exec")
        vk.canary("mass==0", M, 0 * M)
        vk.canary("mass-uses-the-other-density", M, spec_mass(vk, rg, rho_kw if cfg["density"] == "attribute" else rho, dim))


# ---------------------------------------------------------------------------------------------------------
def linechange(vk, cfg):
    """LineChange: dx = F dX -- function returns the deformation gradient itself (all items of the extracted
    list are handed through), gradient == D(function, F) == I (ik) I"""
    from contracts.c03_materials import C, Q, F_sym, bc, dF

    lc = fem.constitution.LineChange(parallel=cfg["parallel"])
    vk.real(type(lc).function)
    vk.real(type(lc).gradient)
    vk.real(type(lc).__init__)
    F = F_sym(vk)
    F0 = vk.snapshot(F)
    out = lc.function([F])
    if vk.sym:
        vk.ensures_true("function-returns-one-item-per-extracted-item", isinstance(out, list) and len(out) == 1, str(type(out)), backend="exec")
    vk.ensures_eq("function==F", out[0], F0)
    for par in (None, cfg["parallel"], not cfg["parallel"]):
        G = lc.gradient([F]) if par is None else lc.gradient([F], parallel=par)
        vk.ensures_eq(f"gradient(parallel={par})==D(function,F)", bc(G[0], (3, 3, 3, 3, Q, C)), dF(vk, out[0], F))
    vk.frame_unchanged("x[0]", F, F0)
    if vk.sym:
        vk.canary("gradient==0", bc(G[0], (3, 3, 3, 3, Q, C)), 0 * bc(G[0], (3, 3, 3, 3, Q, C)))


LINECHANGE = [dict(parallel=False), dict(parallel=True)]
contract("C01", "linechange", configs=LINECHANGE)(linechange)
