"""C01 -- the assembled tangent matrix is the exact derivative of the assembled vector; symmetric when
conservative.

Every item that can be handed to the Newton solver is executed for real (its `assemble.vector` and
`assemble.matrix`, through the real Field.extract and the real IntegralForm) on an *opaque region*
(symbolic shape-function tables, two cells sharing points), with symbolic nodal values and -- for solid
bodies -- the StubMaterial callee contract (uninterpreted P(F) with dP/dF = A; major-symmetric A for the
symmetry clause).  Obligation per entry of the dense matrix:  K[m, n] == D(r[m], unknown_n)  for all
values of all unknowns, and K == K^T for hyperelastic bodies and conservative constraints.
"""
import numpy as np

import felupe as fem
from vk import coo, oracle, ring, symnp
from vk.core import Skip, contract
from vk.opaque import OpaqueRegion
from vk.ring import LP, co
from vk.stubs import StubAreaChange, StubMaterial, StubMixedMaterial
from vk.symnp import det_ref

TRUSTED = [
    "C01: the opaque region is the callee contract of Region (its tables are proved from the real elements in C04/C06); two cells sharing points, q=2 quadrature points, 3-4 points per cell (A2)",
    "C01: StubMaterial is the callee contract of the constitutive material (C03): every material that honours it is covered",
    "C01 lemma (A6): assembly is linear, so d/du of the assembled vector is the assembled per-cell derivative; placement is C02/C08",
    "C01 (A3): scipy.sparse csr/lil/bmat/vstack/eye dense stand-ins (vk/coo.py)",
]

CELLS2 = np.array([[0, 1, 2], [1, 3, 2]])
CELLS3 = np.array([[0, 1, 2, 3], [1, 2, 3, 4]])
NQ = 2


def unknowns(fc):
    return np.concatenate([f.values.ravel() for f in fc.fields])


def assemble_pair(vk, item, field=None, **kw):
    if vk.sym:
        with coo.bound():
            r = coo.todense(item.assemble.vector(field, **kw))
            K = coo.todense(item.assemble.matrix(field, **kw))
    else:
        r = coo.todense(item.assemble.vector(field, **kw))
        K = coo.todense(item.assemble.matrix(field, **kw))
    return np.asarray(r).reshape(-1), np.asarray(K)


def tangent_obligations(vk, r, K, x, symmetric, label=""):
    n = len(x)
    spec = np.empty((len(r), n), dtype=object if vk.sym else float)
    for m in range(len(r)):
        for k in range(n):
            spec[m, k] = vk.D(r[m], x[k]) if vk.sym else np.nan
    vk.ensures_eq(label + "matrix==D(vector,unknowns)", K, spec)
    if symmetric:
        vk.ensures_eq(label + "matrix-symmetric", K, K.T)
    if vk.sym:
        vk.canary(label + "matrix==2*D(vector)", K, 2 * spec + 1)


def require_detF(vk, F):
    J = det_ref(F)
    if vk.sym:
        for x in np.asarray(J, dtype=object).ravel():
            oracle.assume(co(x), ">")
    elif np.any(np.asarray(J, dtype=float) <= 0.2):
        raise Skip("det F too small")


def other_state(vk, item, fresh, cls, rg, dim, fc, r, K, prepare=None):
    """the same item evaluated for ANOTHER state handed over as `field=` (a container of its own): vector and matrix
    are those of a freshly built item at that state (which is under the single-call contract), the state handed over
    is only read, and going back to the first state reproduces the first result (nothing stale is kept)"""
    # (a load item owns the field it was built with and links the values handed over into it, so the first state
    # is handed over again as a container of its own)
    fcA = fem.FieldContainer([cls(rg, dim=dim, values=np.array(fc[0].values))])
    uB = vk.reals("uB", (rg.mesh.npoints, dim), near=0.0, spread=0.05)
    fB = cls(rg, dim=dim, values=uB)
    fcB = fem.FieldContainer([fB])
    require_detF(vk, fB.extract())
    snap = vk.snapshot(fB.values)
    rB, KB = assemble_pair(vk, item, fcB)
    vk.frame_unchanged("other-state/values of the state handed over", fB.values, snap)
    it2 = fresh(fcB)
    if prepare is not None:
        prepare(it2)
    rF, KF = assemble_pair(vk, it2, fcB)
    vk.ensures_eq("other-state/vector(field=B)==vector of a fresh item at B", rB, rF)
    vk.ensures_eq("other-state/matrix(field=B)==matrix of a fresh item at B", KB, KF)
    rA, KA = assemble_pair(vk, item, fcA)
    vk.ensures_eq("other-state/back at the first state: vector", rA, r)
    vk.ensures_eq("other-state/back at the first state: matrix", KA, K)
    if vk.sym:
        vk.canary("other-state/vector(field=B)==vector(A)", rB, r)


SOLID = [dict(field=f, hyper=h) for f in ("3d", "2d", "planestrain", "axisymmetric") for h in (True, False)]
SOLID += [dict(field=f, hyper=True, state=True) for f in ("3d", "planestrain")]  # material with stored state variables
SOLID += [dict(field="planestrain", hyper=h, options=o) for h in (True, False) for o in ("apply", "apply+noblock")]  # constructor options


@contract("C01", "solidbody", configs=SOLID)
def solidbody(vk, cfg):
    vk.real(fem.SolidBody._vector)
    vk.real(fem.SolidBody._matrix)
    vk.real(fem.SolidBody._gradient)
    vk.real(fem.SolidBody._hessian)
    vk.real(fem.SolidBody._extract)
    kind = cfg["field"]
    dim = 3 if kind == "3d" else 2
    cells = CELLS3 if dim == 3 else CELLS2
    rg = OpaqueRegion(vk, cells, dim, NQ)
    u = vk.reals("u", (rg.mesh.npoints, dim), near=0.0, spread=0.05)
    cls = {"3d": fem.Field, "2d": fem.Field, "planestrain": fem.FieldPlaneStrain, "axisymmetric": fem.FieldAxisymmetric}[kind]
    f = cls(rg, dim=dim, values=u)
    if kind == "axisymmetric":
        if vk.sym:
            for x in f.radius.ravel():
                oracle.assume(co(x), ">")
        elif np.any(f.radius <= 0.05):
            raise Skip("radius")
    fc = fem.FieldContainer([f])
    if cfg.get("state"):
        # history-dependent material (C03 contract with stored state z): vector and matrix are evaluated at the
        # COMMITTED state variables; assembling commits nothing (the tentative new state is kept aside)
        from vk.stubs import StubStateMaterial

        z = vk.reals("z", (2, NQ, cells.shape[0]), near=0.2, spread=0.1)
        z0 = vk.snapshot(z)
        umat = StubStateMaterial(vk, dim=3, nstate=2)
        body = fem.SolidBody(umat, fc, statevars=z)
        r, K = assemble_pair(vk, body, fc)
        tangent_obligations(vk, r, K, unknowns(fc), symmetric=True, label="state/")
        vk.frame_unchanged("state/committed statevars after vector+matrix", body.results.statevars, z0)
        vk.ensures_eq("state/tentative statevars == material's new state at (F, committed state)", body.results._statevars, umat.gradient([*body.results.kinematics, z])[-1])
        r2, K2 = assemble_pair(vk, body)
        vk.ensures_eq("state/vector(cached)==vector(field)", r2, r)
        vk.ensures_eq("state/matrix(cached)==matrix(field)", K2, K)
        return
    umat = StubMaterial(vk, dim=2 if kind == "2d" else 3, hyperelastic=cfg["hyper"])
    if cfg.get("options"):
        # the constructor options `apply=` (a callable applied to the assembled vector AND matrix: thickness / symmetry
        # factor) and `block=`: what Newton sums is assemble.vector() / assemble.matrix() WITHOUT per-call options, so the
        # matrix must be the derivative of the vector under the options of the constructor
        t = vk.reals("t", (), near=0.25, spread=0.1)
        noblock = "noblock" in cfg["options"]
        scale = (lambda A: [t * a for a in A]) if noblock else (lambda A: t * A)
        body = fem.SolidBody(umat, fc, apply=scale, block=not noblock)
        plain = fem.SolidBody(umat, fc)
        if vk.sym:
            with coo.bound():
                r = coo.todense(body.assemble.vector(fc)[0] if noblock else body.assemble.vector(fc))
                K = coo.todense(body.assemble.matrix(fc)[0] if noblock else body.assemble.matrix(fc))
        else:
            r = coo.todense(body.assemble.vector(fc)[0] if noblock else body.assemble.vector(fc))
            K = coo.todense(body.assemble.matrix(fc)[0] if noblock else body.assemble.matrix(fc))
        r, K = np.asarray(r).reshape(-1), np.asarray(K)
        tangent_obligations(vk, r, K, unknowns(fc), symmetric=cfg["hyper"], label="options/")
        r0, K0 = assemble_pair(vk, plain, fc)
        vk.ensures_eq("options/vector==apply(vector of the body without options)", r, t * r0)
        vk.ensures_eq("options/matrix==apply(matrix of the body without options)", K, t * K0)
        # a per-call option takes precedence over the constructor's
        r1, K1 = assemble_pair(vk, body, fc, apply=(lambda A: A), block=True)
        vk.ensures_eq("options/per-call apply, block take precedence: vector", r1, r0)
        vk.ensures_eq("options/per-call apply, block take precedence: matrix", K1, K0)
        if vk.sym:
            vk.canary("options/matrix ignores apply", K, K0)
        return
    body = fem.SolidBody(umat, fc)
    r, K = assemble_pair(vk, body, fc)
    tangent_obligations(vk, r, K, unknowns(fc), symmetric=cfg["hyper"])
    # assembling again with the cached state (field=None) gives the same result
    r2, K2 = assemble_pair(vk, body)
    vk.ensures_eq("vector(cached)==vector(field)", r2, r)
    vk.ensures_eq("matrix(cached)==matrix(field)", K2, K)
    if kind in ("3d", "planestrain") and cfg["hyper"]:
        other_state(vk, body, lambda fcx: fem.SolidBody(umat, fcx), cls, rg, dim, fc, r, K)


@contract("C01", "mixed", configs=[dict(field=f) for f in ("3d", "planestrain", "axisymmetric")])
def mixed(vk, cfg):
    """(u, p, J) fields with cell-wise constant p, J: every block of the system matrix (upper-triangle
    storage, transposed lower blocks) is the derivative of the system vector w.r.t. all unknowns"""
    vk.real(fem.SolidBody._vector)
    vk.real(fem.SolidBody._matrix)
    kind = cfg["field"]
    dim = 3 if kind == "3d" else 2
    cells = CELLS3 if dim == 3 else CELLS2
    rg = OpaqueRegion(vk, cells, dim, NQ)
    rd = OpaqueRegion(vk, np.array([[0], [1]]), dim, NQ, name="d", grad=False)
    rd.h = np.ones((1, NQ, 2)) if not vk.sym else ring.lift(np.ones((1, NQ, 2)))  # cell-wise constant space (C04: h == 1)
    rd.dV = rg.dV
    u = vk.reals("u", (rg.mesh.npoints, dim), near=0.0, spread=0.05)
    p = vk.reals("p", (2, 1), near=0.3, spread=0.2)
    J = vk.reals("J", (2, 1), near=1.0, spread=0.1)
    cls = {"3d": fem.Field, "planestrain": fem.FieldPlaneStrain, "axisymmetric": fem.FieldAxisymmetric}[kind]
    fu = cls(rg, dim=dim, values=u)
    if kind == "axisymmetric":
        if vk.sym:
            for x in fu.radius.ravel():
                oracle.assume(co(x), ">")
        elif np.any(fu.radius <= 0.05):
            raise Skip("radius")
    fp, fJ = fem.Field(rd, dim=1, values=p), fem.Field(rd, dim=1, values=J)
    if vk.sym:
        for x in J.ravel():
            oracle.assume(x, ">")
    elif np.any(J <= 0.2):
        raise Skip("J")
    fc = fem.FieldContainer([fu, fp, fJ])
    # callee contract of the mixed material (the real ThreeFieldVariation / NearlyIncompressible blocks are
    # proved to honour it in C03 `mixed`)
    umat = StubMixedMaterial(vk, dim=3)
    body = fem.SolidBody(umat, fc)
    r, K = assemble_pair(vk, body, fc)
    tangent_obligations(vk, r, K, unknowns(fc), symmetric=True)


@contract("C01", "nearly_incompressible", configs=[dict(field="planestrain"), dict(field="3d", small=True), dict(field="axisymmetric", small=True), dict(field="3d", tier="thorough"), dict(field="axisymmetric", tier="thorough")])
def nearly_incompressible(vk, cfg):
    """condensed body at a settled state: p == bulk (v/V - 1) after the body has seen the field; the
    matrix is the derivative of the condensed residual (p eliminated)"""
    B = fem.SolidBodyNearlyIncompressible
    for fn in (B._vector, B._matrix, B._extract, B._gradient, B._hessian):
        vk.real(fn)
    vk.real(fem.mechanics.StateNearlyIncompressible.volume)
    vk.real(fem.mechanics.StateNearlyIncompressible.integrate_shape_function_gradient)
    kind = cfg["field"]
    dim = 3 if kind == "3d" else 2
    cells = CELLS3 if dim == 3 else CELLS2
    nq = NQ
    if cfg.get("small"):  # quick tier: one cell, one quadrature point (A2); the full size runs in the thorough tier
        cells, nq = cells[:1], 1
    rg = OpaqueRegion(vk, cells, dim, nq)
    u = vk.reals("u", (rg.mesh.npoints, dim), near=0.0, spread=0.05)
    cls = {"3d": fem.Field, "planestrain": fem.FieldPlaneStrain, "axisymmetric": fem.FieldAxisymmetric}[kind]
    f = cls(rg, dim=dim, values=u)
    if kind == "axisymmetric":
        if vk.sym:
            for x in f.radius.ravel():
                oracle.assume(co(x), ">")
        elif np.any(f.radius <= 0.05):
            raise Skip("radius")
    fc = fem.FieldContainer([f])
    umat = StubMaterial(vk, dim=3, hyperelastic=True)
    bulk = vk.real_scalar("bulk", near=50.0, spread=10.0)
    real_ac = fem.constitution.AreaChange
    import felupe.mechanics._helpers as _H
    import felupe.mechanics._solidbody_incompressible as _SI

    # callee contract of AreaChange (C03 `kinematics`) in place of its body
    if vk.sym:  # the native float run uses the real callee
        _H.AreaChange = _SI.AreaChange = StubAreaChange
    try:
        body = B(umat, fc, bulk=bulk)
        r, K = assemble_pair(vk, body)
    finally:
        _H.AreaChange = _SI.AreaChange = real_ac
    # settled state: the stored pressure equals bulk (v/V - 1) with v the current cell volumes
    w = rg.dV if kind != "axisymmetric" else 2 * (ring.PI() if vk.sym else np.pi) * f.radius * rg.dV
    F = f.extract()
    v = np.sum(det_ref(F) * w, axis=0)
    V = np.sum(w, axis=0)
    vk.ensures_eq("settled: p==bulk*(v/V-1)", body.results.state.p, bulk * (v / V - 1))
    vk.ensures_eq("settled: J==v/V", body.results.state.J, v / V)
    tangent_obligations(vk, r, K, unknowns(fc), symmetric=True)


def boundary_region(vk, dim, axisymmetric=False, small=False):
    cells = CELLS3 if dim == 3 else CELLS2
    nq = NQ
    if small:
        cells, nq = cells[:1], 1
    rg = OpaqueRegion(vk, cells, dim, nq)
    nd = 3
    rg.normals = vk.reals("N", (nd, nq, cells.shape[0]), near=np.broadcast_to(np.array([0.0, 1.0, 0.0]).reshape(3, 1, 1), (3, nq, cells.shape[0])), spread=0.3)
    if dim == 2 and not axisymmetric:
        rg.normals = rg.normals  # plane strain: ensure_3d normals
    return rg


LOADS = [dict(item=i, field=f) for i in ("pressure", "cauchy_stress") for f in ("3d", "planestrain", "axisymmetric") if not (i == "cauchy_stress" and f == "axisymmetric")] + [dict(item="cauchy_stress", field="axisymmetric", small=True), dict(item="cauchy_stress", field="axisymmetric", tier="thorough")]


@contract("C01", "follower_loads", configs=LOADS)
def follower_loads(vk, cfg):
    """follower pressure / Cauchy-stress loads: not conservative in general, so only matrix == D(vector)"""
    kind = cfg["field"]
    dim = 3 if kind == "3d" else 2
    rg = boundary_region(vk, dim, kind == "axisymmetric", small=cfg.get("small", False))
    u = vk.reals("u", (rg.mesh.npoints, dim), near=0.0, spread=0.05)
    cls = {"3d": fem.Field, "planestrain": fem.FieldPlaneStrain, "axisymmetric": fem.FieldAxisymmetric}[kind]
    f = cls(rg, dim=dim, values=u)
    if kind == "axisymmetric":
        if vk.sym:
            for x in f.radius.ravel():
                oracle.assume(co(x), ">")
        elif np.any(f.radius <= 0.05):
            raise Skip("radius")
    fc = fem.FieldContainer([f])
    require_detF(vk, f.extract())
    if cfg["item"] == "pressure":
        item = fem.SolidBodyPressure(fc, pressure=vk.real_scalar("pressure", near=1.0))
        vk.real(fem.SolidBodyPressure._vector)
        vk.real(fem.SolidBodyPressure._matrix)
    else:
        sig = vk.reals("sigma", (3, 3), near=np.diag([1.0, 2.0, 0.5]), spread=0.3)
        item = fem.SolidBodyCauchyStress(fc, cauchy_stress=sig)
        vk.real(fem.SolidBodyCauchyStress._vector)
        vk.real(fem.SolidBodyCauchyStress._matrix)
    if vk.sym:  # callee contract of AreaChange (C03 `kinematics`); the native float run uses the real callee
        item._area_change = StubAreaChange()
    # the load item aliases the field it was constructed with: evaluate at the current state (field=None)
    r, K = assemble_pair(vk, item)
    tangent_obligations(vk, r, K, unknowns(fc), symmetric=False)
    if not cfg.get("small") and kind != "axisymmetric":
        prep = (lambda it: setattr(it, "_area_change", StubAreaChange())) if vk.sym else None
        if cfg["item"] == "pressure":
            vk.real(fem.SolidBodyPressure._update)
            p_ = item.results.pressure
            other_state(vk, item, lambda fcx: fem.SolidBodyPressure(fcx, pressure=p_), cls, rg, dim, fc, r, K, prepare=prep)
        else:
            vk.real(fem.SolidBodyCauchyStress._update)
            other_state(vk, item, lambda fcx: fem.SolidBodyCauchyStress(fcx, cauchy_stress=sig), cls, rg, dim, fc, r, K, prepare=prep)
    if cfg["item"] == "pressure":
        # the pressure keyword is used for the very call it is passed to (vector and matrix alike)
        p2 = vk.real_scalar("pressure2", near=2.0)
        if vk.sym:
            with coo.bound():
                rk = coo.todense(item.assemble.vector(pressure=p2)).reshape(-1)
                Kk = coo.todense(item.assemble.matrix(pressure=p2))
        else:
            rk = coo.todense(item.assemble.vector(pressure=p2)).reshape(-1)
            Kk = coo.todense(item.assemble.matrix(pressure=p2))
        tangent_obligations(vk, rk, Kk, unknowns(fc), symmetric=False, label="pressure-keyword/")
        p1 = ring.var("pressure") if vk.sym else vk.point["pressure"]
        vk.ensures_eq("pressure-keyword/vector*p==vector(p)*p2", rk * p1, r * p2)
        # the keyword must act on the very call it is passed to -- also when the MATRIX is the first call
        # with the new value (no vector call with it before)
        p3 = vk.real_scalar("pressure3", near=3.0)
        if vk.sym:
            with coo.bound():
                K3 = coo.todense(item.assemble.matrix(pressure=p3))
        else:
            K3 = coo.todense(item.assemble.matrix(pressure=p3))
        vk.ensures_eq("pressure-keyword/matrix-first: matrix(p3)*p2==matrix(p2)*p3", K3 * p2, Kk * p3)


@contract("C01", "constraints_and_loads", configs=[dict(item=i) for i in ("mpc", "mpc-skip", "mpc-center-in-points", "contact-closed", "contact-open", "contact-zero-initial-gap", "pointload", "pointload-axi", "bodyforce", "gravity")])
def constraints_and_loads(vk, cfg):
    item_kind = cfg["item"]
    dim = 3 if item_kind.startswith(("mpc", "contact")) else 2
    cells = CELLS3 if dim == 3 else CELLS2
    rg = OpaqueRegion(vk, cells, dim, NQ)
    npts = rg.mesh.npoints
    unear = np.zeros((npts, dim))
    if item_kind in ("contact-closed", "contact-zero-initial-gap"):
        unear[[0, 2]] = 3.0  # only steers the sampling into the closed sign pattern
    u = vk.reals("u", (npts, dim), near=unear, spread=0.05)
    if item_kind == "pointload-axi":
        f = fem.FieldAxisymmetric(rg, dim=2, values=u)
    else:
        f = fem.Field(rg, dim=dim, values=u)
    fc = fem.FieldContainer([f])
    symmetric = True
    if item_kind.startswith("mpc"):
        item = fem.MultiPointConstraint(fc, points=[0, 2, 4] if item_kind == "mpc-center-in-points" else [0, 2, 3], centerpoint=4, skip=(False, True, False) if item_kind == "mpc-skip" else (False, False, False), multiplier=vk.real_scalar("k", near=10.0))
        vk.real(fem.MultiPointConstraint._vector)
        vk.real(fem.MultiPointConstraint._matrix)
    elif item_kind.startswith("contact"):
        # away from the open/closed switching point: sign pattern fixed by requires
        X = rg.mesh.points
        pts, c = [0, 2], 4
        closed = item_kind == "contact-closed"
        if item_kind == "contact-zero-initial-gap":
            # the rigid plane touches the points initially on axis 0 (gap exactly zero, an admissible state away
            # from the switching point as soon as the current gap is non-zero); other axes closed
            closed = True
            for p_ in pts:
                X[p_, 0] = X[c, 0]
        if vk.sym:
            for p_ in pts:
                for ax in range(dim):
                    gap0 = co(X[c, ax]) - co(X[p_, ax])
                    gap = gap0 + u[c, ax] - u[p_, ax]
                    if gap0.t:
                        oracle.assume(gap0, ">")
                    oracle.assume(gap, "<" if closed else ">")
        else:
            for p_ in pts:
                for ax in range(dim):
                    gap0 = X[c, ax] - X[p_, ax]
                    gap = gap0 + u[c, ax] - u[p_, ax]
                    if gap0 < 0 or (gap0 == 0 and item_kind != "contact-zero-initial-gap") or (gap < 0) != closed:
                        raise Skip("sign pattern")
        item = fem.MultiPointContact(fc, points=pts, centerpoint=c, multiplier=vk.real_scalar("k", near=10.0))
        vk.real(fem.MultiPointContact._vector)
        vk.real(fem.MultiPointContact._matrix)
    elif item_kind.startswith("pointload"):
        vals = vk.reals("load", (2, 2), near=1.0)
        item = fem.PointLoad(fc, points=[1, 3], values=vals, axisymmetric=item_kind.endswith("axi"))
        vk.real(fem.PointLoad._vector)
        vk.real(fem.PointLoad._matrix)
    elif item_kind == "bodyforce":
        item = fem.SolidBodyForce(fc, values=vk.reals("b", (2,), near=1.0), scale=vk.real_scalar("rho", near=2.0))
        vk.real(fem.SolidBodyForce._vector)
    else:
        import warnings

        with warnings.catch_warnings():
            warnings.simplefilter("ignore")
            item = fem.SolidBodyGravity(fc, gravity=vk.reals("b", (2,), near=1.0), density=vk.real_scalar("rho", near=2.0))
        vk.real(fem.SolidBodyGravity._vector)
    r, K = assemble_pair(vk, item, fc)
    tangent_obligations(vk, r, K, unknowns(fc), symmetric=symmetric)
    if vk.sym and item_kind == "contact-closed":
        vk.canary("contact-closed-has-stiffness", K, 0 * K)


@contract("C01", "formitem", configs=[dict(sym=s, parallel=p, dim=d) for s in (False, True) for p in (False, True) for d in (2, 3)])
def formitem(vk, cfg):
    """FormItem with a hyperelastic weak form written in the expression API (linear form = P : grad v,
    bilinear form = grad v : A : grad u, with the StubMaterial contract): matrix == D(vector), symmetric;
    for sym True/False and parallel True/False"""
    from felupe.math import ddot, grad

    vk.real(fem.FormItem._vector)
    vk.real(fem.FormItem._matrix)
    dim = cfg["dim"]
    cells = CELLS3 if dim == 3 else CELLS2
    rg = OpaqueRegion(vk, cells, dim, NQ)
    u = vk.reals("u", (rg.mesh.npoints, dim), near=0.0, spread=0.05)
    fc = fem.FieldContainer([fem.Field(rg, dim=dim, values=u)])
    umat = StubMaterial(vk, dim=dim, hyperelastic=True)

    @fem.Form(v=fc, u=fc)
    def bilinearform():
        def a(v, u):
            A = umat.hessian([fc.extract()[0], None])[0]
            return ddot(grad(v), ddot(A, grad(u), mode=(4, 2)))

        return [a]

    @fem.Form(v=fc)
    def linearform():
        def L(v):
            P = umat.gradient([fc.extract()[0], None])[0]
            return ddot(P, grad(v))

        return [L]

    item = fem.FormItem(bilinearform, linearform, sym=cfg["sym"])
    r, K = assemble_pair(vk, item, fc, parallel=cfg["parallel"])
    tangent_obligations(vk, r, K, unknowns(fc), symmetric=True)
    # items without a linear / bilinear form contribute zero blocks of the right size
    if vk.sym:
        with coo.bound():
            r0 = coo.todense(fem.FormItem(bilinearform).assemble.vector(fc))
            K0 = coo.todense(fem.FormItem(linearform=linearform).assemble.matrix(fc))
        vk.ensures_eq("no-linearform==zero-vector", r0, np.zeros((len(r), 1)) + 0 * r0)
        vk.ensures_eq("no-bilinearform==zero-matrix", K0, 0 * K)
