"""C11 -- tensortrax hyperelastic `morph_representative_directions` (MORPH by representative directions, written as a
pseudo strain energy for `Hyperelastic(fun, nstatevars=84)`) and its inner one-dimensional function `f`.

    def morph_representative_directions(C, statevars, p, ε=1e-8):
        def f(λ, statevars, **kwargs):
            dψdλ, statevars_new = morph_uniaxial(λ, statevars, **kwargs)
            return 5 * dψdλ.real_to_dual(λ), statevars_new
        return affine_stretch_statevars(C, statevars, f=f, kwargs={"p": p, "ε": ε})

The returned "energy" is  psi = sum_a w_a 5 W_a  with  W_a = real_to_dual(g_a, λ_a):  a tensortrax dual number whose
value is NaN and whose variation is  δW_a = g_a δλ_a  (g_a = force of the one-dimensional model along direction a,
λ_a = det(C)^(-1/6) sqrt(r_a.C.r_a) the unimodular stretch along the a-th point of the 21-point sphere rule).  The AD
contract of `real_to_dual` is an uninterpreted atom W(x) with the declared partial dW/dx = A (vk ghost atom).

Contracts (all E1, the real code executed on exact ring values; modular: callers against callee contracts)

integration  the real `Hyperelastic(morph_representative_directions, nstatevars=84)` pipeline (real wrapper class, real
             model function, real inner `f`, real `affine_stretch_statevars`; tensortrax AD by contract) on symbolic
             F (det F > 0), symbolic state (84), symbolic p (8) and ε, with the one-dimensional model `morph_uniaxial`
             replaced by its *callee contract*: an uninterpreted map (dψdλ, statevars_new) = G(λ, statevars, p, ε).
             Frame indifference  P(R_k F) == R_k P(F)  and  statevars_new(R_k F) == statevars_new(F)  for the rotation
             about axis 0 with a free real t and for the cyclic permutation Q of the axes (paper lemma A6: R_0(t), Q
             generate SO(3): R_1(t) = Q R_0(t) Q^T, R_2(t) = Q^T R_0(t) Q), Kirchhoff symmetry
             P F^T == F P^T, the one-dimensional model is fed exactly the 21 unimodular stretches, the input state,
             p and ε, and a vanishing one-dimensional force gives a vanishing stress (linearity in G; with
             `f`/virgin below: stress-free reference).  Holds for EVERY one-dimensional model G, in particular for
             the real `morph_uniaxial` on each of its branches.
f            the real inner closure `f` (captured from the real call of `morph_representative_directions` by a spy
             in place of `affine_stretch_statevars`; C, statevars, {"p": p, "ε": ε} are forwarded unchanged) executed
             with the real `morph_uniaxial` on 21 symbolic stretches, 84 symbolic state variables, symbolic p, ε:
             variation  dW_a/dλ_b == δ_ab 5 g_a  (g = the real morph_uniaxial on the same arguments), the state
             update is morph_uniaxial's; the force along direction a depends on λ_a and the four state variables of
             direction a only.  morph_uniaxial branches on |λ²-1/λ| (tension / compression), max(C_T, C_T,n^S)
             (loading beyond the previous maximum / inside) and |L1-L2| (stretch increasing / decreasing): the eight
             sign patterns are distributed over the 21 directions (the code is elementwise) and stated as `requires`.
f/virgin     `f` at λ = 1 with the virgin state (statevars = 0), symbolic p and ε: force 0, state stays 0
             (undeformed configuration with virgin state is stress free, together with `integration`).
composition  the full real composition on a symbolic C (9 free entries) with the real `morph_uniaxial`
             on one sign pattern per direction: 2 sym d psi/dC == sum_a w_a 5 g_a(λ_a) 2 sym dλ_a/dC with g from the
             real morph_uniaxial at the 21 stretches; roots are opaque atoms with their derivative rule
             (the algebraic relation root^n = base is not needed and not used).
"""
import contextlib
import inspect
from fractions import Fraction as Fr

import numpy as np

import felupe as fem
import felupe.constitution.tensortrax as mt
import felupe.constitution.tensortrax._hyperelastic as THYP
import felupe.constitution.tensortrax.models.hyperelastic as TT
import felupe.constitution.tensortrax.models.hyperelastic._morph_representative_directions as HM
import felupe.constitution.tensortrax.models.hyperelastic.microsphere._framework_affine as HFW
import felupe.constitution.tensortrax.models.lagrange as TL
from vk import models as M
from vk import oracle, ring, symnp
from vk.core import contract
from vk.ring import LP, co
from vk.symnp import det_ref

from .c11_objectivity import EYE, require_det, sym_F

TRUSTED = M.TRUSTED + [
    "C11/C12 morph_rd: AD contract of tensortrax `Tensor.real_to_dual(A, x)` (value NaN, variation dW = A dx, second variation dA dx + A d2x): an uninterpreted atom W(x) with the declared partial dW/dx = A (the value of W is never used: a stress that depended on it would contain the atom); the first output of morph_uniaxial is a Tensor (answers .real_to_dual)",
    "C11/C12 morph_rd: callee contract of the one-dimensional model: (dψdλ (21,), statevars_new (84,)) = G(λ (21,), statevars (84,), p (8,), ε), an uninterpreted function of ALL its arguments (no locality, no smoothness assumed; not differentiated by the stress); paired native run: a concrete elementwise tensortrax function",
    "C11/C12 morph_rd: branches of morph_uniaxial (tensortrax.math.abs / maximum on symbolic values) are decided by literal look-up in the contract's `requires` (the sign of exactly the quantity the code branches on is a precondition of the configuration; every direction carries one of the 8 sign patterns; the non-smooth boundaries are excluded, as in OgdenRoxburgh primary / unloading); an undeclared branch is *undecided*",
    "C11/C12 morph_rd (composition): fractional powers are opaque atoms rho = base^(1/q) with the declared derivative d rho = rho / (q base) d base (uninterpreted otherwise: identities that need rho^q == base are not provable, none is needed)",
]

QUAD = fem.quadrature.BazantOh(n=21)  # the 21-point sphere rule of the property text (spec side)
ND, NS = 21, 84
P_DOC = [0.011, 0.408, 0.421, 6.85, 0.0056, 5.54, 5.84, 0.117]  # docstring example (sampling centres only)


# ================================================================================================
# AD contract of Tensor.real_to_dual
RTD: dict = {}  # ghost generator -> (A, x)


class DualArr(np.ndarray):
    """object array that answers `.real_to_dual(x)` / `.x` like a tensortrax Tensor"""

    __array_priority__ = 20.0
    x = property(lambda s: s.view(np.ndarray))

    def real_to_dual(self, x, mul=None):
        if mul is not None:
            raise oracle.Undecided("real_to_dual(mul=...) has no ring contract")
        A, X = np.broadcast_arrays(np.asarray(self, dtype=object), np.asarray(x, dtype=object))
        out = np.empty(A.shape, dtype=object)
        for i in np.ndindex(*A.shape):
            a, xi = co(A[i]), co(X[i])
            g = ring.ghost(f"W{len(RTD)}", [xi])
            ring.set_partials(g, [a])
            RTD[g] = (a, xi)
            out[i] = LP.gen(g)
        return out.view(DualArr)


def dual_of(W):
    """(c, A, x) of an LP c * W(x) with W a real_to_dual atom: variation c A dx"""
    W = co(W)
    ((m, c),) = W.t.items()
    ((g, e),) = m
    assert e == 1 and g in RTD, "not a multiple of a real_to_dual atom"
    return (c,) + RTD[g]


def as_dual(fun):
    """the callee returns a Tensor as first output (answers .real_to_dual)"""

    def wrapped(*a, **k):
        d, s = fun(*a, **k)
        return np.asarray(d, dtype=object).view(DualArr), s

    wrapped.__name__ = getattr(fun, "__name__", "callee")
    return wrapped


# ================================================================================================
# branches by literal look-up in the requires
def declared(v, op):
    v = co(v)
    c = v.asconst()
    if c is not None:
        return {">=": c >= 0, ">": c > 0}[op]
    for q, o in oracle.ASSUME:
        r = oracle._ratio(v, q)
        if r is not None and r != 0:
            w = oracle._IMPLIES.get(o if r > 0 else oracle._FLIP[o], {}).get(op)
            if w is not None:
                return w
    raise oracle.Undecided(f"branch on {str(v)[:160]} {op} 0: not among the declared sign patterns")


def lit_abs(x):
    return M._each(lambda v: v if declared(v, ">=") else -v)(x)


def lit_maximum(a, b, *aa, **k):
    a, b = np.broadcast_arrays(np.asarray(M._obj(a), dtype=object), np.asarray(M._obj(b), dtype=object))
    out = np.empty(a.shape, dtype=object)
    for i in np.ndindex(*a.shape):
        x, y = co(a[i]), co(b[i])
        out[i] = x if not (x - y).t or declared(x - y, ">=") else y
    return out if out.ndim else out[()]


BRANCH = {"tensor_abs": lit_abs, "maximum": lit_maximum}


def pattern_of(a):
    """sign pattern of direction a: (tension, loading beyond the previous maximum, stretch increasing)"""
    return bool(a & 1), bool(a & 2), bool(a & 4)


def pattern_near(a):
    """sampling centres (λ, C_T,n^S, λ_n - 1) inside the sign pattern of direction a, with margins > the spreads"""
    tension, loading, increasing = pattern_of(a)
    lam = 1.5 if tension else 0.7
    return lam, (0.3 if loading else 3.0), (lam - 0.2 if increasing else lam + 0.2) - 1.0


def require_pattern(vk, lam, sv, pattern=pattern_of):
    """requires: the signs of the three quantities morph_uniaxial branches on, per direction (same expressions as in
    the code: C_T = λ² - 1/λ;  |C_T| - C_T,n^S;  L1 - L2)"""
    for a in range(ND):
        tension, loading, increasing = pattern(a)
        la, ln = lam[a], sv[ND + a] + 1
        CT = la**2 - 1 / la
        vk.requires(CT, ">" if tension else "<")
        vk.requires((CT if tension else -CT) - sv[a], ">" if loading else "<")
        L1 = 2 * (la**3 / ln - ln**2) / 3
        L2 = (ln**2 / la**3 - 1 / ln) / 3
        vk.requires(L1 - L2, ">" if increasing else "<")


# ================================================================================================
# inputs
def parameters(vk):
    p = [vk.reals(f"p{i}", (), near=P_DOC[i], spread=0.2 * P_DOC[i]) for i in range(8)]
    eps = vk.reals("eps", (), near=0.01, spread=0.005)
    return p, eps


def unimodular_stretches(vk, C):
    """spec: λ_a = det(C)^(-1/6) sqrt(r_a.C.r_a) over the 21-point sphere rule"""
    if not vk.sym:
        Cf = np.asarray(C, dtype=float)
        return np.linalg.det(Cf) ** (-1 / 6) * np.sqrt(np.einsum("ai,ij,aj->a", QUAD.points, Cf, QUAD.points))
    r = ring.lift(QUAD.points)
    u = co(det_ref(C)) ** Fr(-1, 6)
    out = np.empty(ND, dtype=object)
    for a in range(ND):
        rCr = sum((r[a, i] * C[i, j] * r[a, j] for i in range(3) for j in range(3)), LP())
        out[a] = u * rCr ** Fr(1, 2)
    return out


# ================================================================================================
# callee contract of morph_uniaxial
EPS_DEFAULT = inspect.signature(TL.morph_uniaxial).parameters["ε"].default


def concrete_numpy(lam, z, p, eps):
    """float version of the concrete one-dimensional model of the paired native run"""
    z0, z1, z2, z3 = z[:ND], z[ND : 2 * ND], z[2 * ND : 3 * ND], z[3 * ND :]
    g = (p[0] + z0) * lam**2 + (p[1] + eps) * z1 / lam + z2 - z3 * lam
    s = np.concatenate([z0 + lam, z1 * lam, z2 + p[2] * lam**2, z3 * eps + 1 / lam])
    return g, s


def concrete_tensortrax(λ, statevars, p, ε=EPS_DEFAULT):
    import tensortrax.math as tm

    z0, z1, z2, z3 = (tm.array(statevars[k * ND : (k + 1) * ND], like=λ, shape=(ND,)) for k in range(4))
    g = (p[0] + z0) * λ**2 + (p[1] + ε) * z1 / λ + z2 - z3 * λ
    s = tm.special.try_stack([z0 + λ, z1 * λ, z2 + p[2] * λ**2, z3 * ε + 1 / λ], fallback=statevars)
    return g, s


class GhostUniaxial:
    """(dψdλ, statevars_new) = G(λ, statevars, p, ε): 21 + 84 uninterpreted functions of 21 + 84 + 8 + 1 arguments"""

    NARGS = ND + NS + 8 + 1

    def __init__(self, name="G"):
        def impl(k):
            def f(*a):
                a = np.array(a, dtype=float)
                g, s = concrete_numpy(a[:ND], a[ND : ND + NS], a[ND + NS : ND + NS + 8], a[-1])
                return np.concatenate([g, s])[k]

            return f

        self.fams = [M.GhostFamily(f"{name}{k}", self.NARGS, impl=impl(k)) for k in range(ND + NS)]
        self.calls = []

    @staticmethod
    def args(lam, sv, p, eps):
        a = [co(v) for v in np.asarray(lam, dtype=object).ravel()] + [co(v) for v in np.asarray(sv, dtype=object).ravel()] + [co(v) for v in p] + [co(eps)]
        if len(a) != GhostUniaxial.NARGS or any(v is None for v in a):
            raise oracle.Undecided(f"one-dimensional model called with {len(a)} scalar arguments (declared {GhostUniaxial.NARGS})")
        return a

    def at(self, lam, sv, p, eps):
        a = self.args(lam, sv, p, eps)
        v = np.array([LP.gen(f.at(a)) for f in self.fams], dtype=object)
        return v[:ND], v[ND:]

    def __call__(self, λ, statevars, p, ε=EPS_DEFAULT):  # stands for morph_uniaxial
        self.calls.append((np.asarray(λ), np.asarray(statevars), list(p), ε))
        g, s = self.at(λ, statevars, p, ε)
        return g.view(DualArr), s


# ================================================================================================
@contextlib.contextmanager
def hyper_pipeline(vk, sv, p, eps, one_dim):
    """the real Hyperelastic(morph_representative_directions, nstatevars=84) around a one-dimensional model;
    yields F -> (P, statevars_new)"""
    vk.real(mt.Hyperelastic._stress, alias="felupe.constitution.tensortrax._hyperelastic.Hyperelastic._stress")
    M.mark_real(vk, TT.morph_representative_directions, alias="felupe.constitution.tensortrax.models.hyperelastic.morph_representative_directions")
    M.mark_real(vk, HFW.affine_stretch_statevars, alias="felupe.constitution.tensortrax.models.hyperelastic.microsphere.affine_stretch_statevars")
    mark_inner_f(vk)
    with contextlib.ExitStack() as st:
        st.enter_context(M.module_globals(HM, morph_uniaxial=one_dim))
        if vk.sym:
            st.enter_context(M.module_globals(THYP, tr=M.TensortraxStub()))
            st.enter_context(M.rebound(TT.morph_representative_directions))
        um = mt.Hyperelastic(TT.morph_representative_directions, nstatevars=NS, p=p, ε=eps)

        def gradient(Fx):
            P, s = um.gradient([Fx, sv])
            return np.asarray(P), np.asarray(s)

        yield gradient


def mark_inner_f(vk):
    """the inner closure `f` (a code constant of the model function): file, line, hash"""
    import hashlib

    for c in TT.morph_representative_directions.__code__.co_consts:
        if inspect.iscode(c) and c.co_name == "f":
            src = inspect.getsource(c)
            vk.functions["felupe.constitution.tensortrax.models.hyperelastic.morph_representative_directions.<locals>.f"] = {"file": c.co_filename, "line": c.co_firstlineno, "sha1": hashlib.sha1(src.encode()).hexdigest()[:12]}


PARTS = [dict(part="integration", axis=0), dict(part="integration", axis="cyc"), dict(part="integration", axis="balance"), dict(part="f"), dict(part="f/virgin"), dict(part="composition")]


@contract("C11", "morph_rd", configs=PARTS)
def morph_rd(vk, cfg):
    """tensortrax hyperelastic morph_representative_directions: frame indifference, Kirchhoff symmetry, stress-free
    virgin reference; inner f == 5 real_to_dual(morph_uniaxial)"""
    part = cfg["part"]
    RTD.clear()
    oracle.TIMEOUT_MS = 150  # budget per domain side condition (root bases / denominators; undecided ones are listed as assumed)
    if part == "integration":
        integration(vk, cfg["axis"])
    elif part == "f":
        inner_f(vk)
    elif part == "f/virgin":
        inner_f_virgin(vk)
    else:
        composition(vk)


# ------------------------------------------------------------------------------------------------
def integration_inputs(vk):
    F = vk.reals("F", (3, 3, 1, 1), near=EYE + np.array([[0.3, 0.1, 0.0], [-0.05, -0.1, 0.15], [0.1, 0.0, 0.05]]).reshape(3, 3, 1, 1), spread=0.1)
    require_det(vk, F)
    sv = vk.reals("z", (NS, 1, 1), near=0.3, spread=0.2)
    p, eps = parameters(vk)
    return F, sv, p, eps


def integration(vk, axis):
    F, sv, p, eps = integration_inputs(vk)
    G = GhostUniaxial("G") if vk.sym else concrete_tensortrax
    with hyper_pipeline(vk, sv, p, eps, G) as gradient:
        F0, sv0 = vk.snapshot(F), vk.snapshot(sv)
        P, sn = gradient(F)
        Fq = F[:, :, 0, 0]
        C = Fq.T @ Fq
        lam = unimodular_stretches(vk, C)
        if axis == "balance":
            if vk.sym:
                vk.ensures_true("one-dimensional model is called once per evaluation", len(G.calls) == 2, f"{len(G.calls)} calls for stress + state update (one gradient evaluation, one function evaluation)", backend="exec")
                lam_fed, sv_fed, p_fed, eps_fed = G.calls[-1]
                vk.ensures_eq("one-dimensional model is fed the 21 unimodular stretches det(C)^(-1/6).sqrt(r_a.C.r_a)", lam_fed, lam)
                vk.ensures_eq("one-dimensional model is fed the input state", sv_fed, sv[:, 0, 0])
                vk.ensures_eq("one-dimensional model is fed p", np.array(p_fed, dtype=object), np.array(p, dtype=object))
                vk.ensures_eq("one-dimensional model is fed ε", np.array(co(eps_fed)), np.array(eps))
                g, s = G.at(lam, sv[:, 0, 0], p, eps)
            else:
                g, s = concrete_numpy(lam, sv[:, 0, 0], p, eps)
            tau = M.mm(P, M.tr_(F))
            vk.ensures_eq("kirchhoff-symmetric/P.F^T", tau, M.tr_(tau))
            vk.ensures_eq("statevars_new==state-update-of-the-one-dimensional-model (passed through, not differentiated)", sn[:, 0, 0], s)
            vk.frame_unchanged("F", F, F0)
            vk.frame_unchanged("statevars-not-mutated", sv, sv0)
            if vk.sym:
                # linear in the one-dimensional forces: P == sum_a g_a dP/dg_a; hence g == 0 => P == 0
                lin = np.empty((3, 3), dtype=object)
                for i in range(3):
                    for j in range(3):
                        lin[i, j] = sum((g[a] * ring.D(P[i, j, 0, 0], g[a]) for a in range(ND)), LP())
                vk.ensures_eq("stress-free-reference/P-linear-in-the-one-dimensional-forces (g==0 => P==0)", P[:, :, 0, 0], lin)
                vk.canary("P-symmetric", P[:, :, 0, 0], P[:, :, 0, 0].T)
            else:
                vk.ensures_eq("stress-free-reference/P-linear-in-the-one-dimensional-forces (g==0 => P==0)", P[:, :, 0, 0], None)
            return
        k = axis
        if axis == "cyc":
            # the cyclic permutation of the axes (a proper rotation, e0 -> e1 -> e2 -> e0): with R0(t) for every real t it
            # generates SO(3) (R1(t) = Q.R0(t).Q^T, R2(t) = Q^T.R0(t).Q); objectivity for all F under each generator
            # carries over to products (paper lemma A6)
            Qm = np.array([[0, 0, 1], [1, 0, 0], [0, 1, 0]])
            R = (ring.lift(Qm) if vk.sym else Qm.astype(float)).reshape(3, 3, 1, 1)
        else:
            t = vk.reals("t", (), near=0.4, spread=0.9)
            R = M.rotation(t, k, batch=2)
        PR, snR = gradient(M.mm(R, F))
        vk.ensures_eq(f"objectivity/P(R{k}.F)==R{k}.P(F)", PR, M.mm(R, P))
        vk.ensures_eq(f"objectivity/history(R{k}.F)==history(F)", snR, sn)
        if vk.sym:
            vk.ensures_eq(f"objectivity/stretches(R{k}.F)==stretches(F)", G.calls[-1][0], lam)
            vk.canary(f"P(R{k}.F)==P(F)", PR, P)
            # micro-sphere models are isotropic only up to the sphere rule (excluded from the isotropy clause):
            # a rotation of the reference configuration must NOT commute
            vk.canary(f"isotropy/P(F.R{k})==P(F).R{k} (not claimed: 21-point rule)", gradient(M.mm(F, R))[0], M.mm(P, R))


# ------------------------------------------------------------------------------------------------
def capture_f(vk, C, sv, p, eps):
    """the inner closure f and what the real model function forwards to the integration framework"""
    rec = {}
    sentinel = object()

    def spy(*a, **k):
        rec.update(args=a, kwargs=k)
        return sentinel, "state"

    M.mark_real(vk, TT.morph_representative_directions, alias="felupe.constitution.tensortrax.models.hyperelastic.morph_representative_directions")
    mark_inner_f(vk)
    with M.module_globals(HM, affine_stretch_statevars=spy):
        out = TT.morph_representative_directions(C, sv, p=p, ε=eps)
    a, k = rec.get("args", ()), rec.get("kwargs", {})
    ok = len(a) == 2 and a[0] is C and a[1] is sv and set(k) == {"f", "kwargs"} and callable(k.get("f"))
    vk.ensures_true("C and statevars are forwarded unchanged to affine_stretch_statevars(C, statevars, f=f, kwargs=...) with the default 21-point rule", ok, f"positional {len(a)}, keywords {sorted(k)}", backend="exec")
    kw = k.get("kwargs", {})
    ok = isinstance(kw, dict) and set(kw) == {"p", "ε"} and kw["p"] is p and kw["ε"] is eps
    vk.ensures_true("kwargs == {'p': p, 'ε': ε}", ok, f"keys {sorted(kw) if isinstance(kw, dict) else kw!r}", backend="exec")
    vk.ensures_true("result of the integration framework is returned unchanged", isinstance(out, tuple) and out[0] is sentinel and out[1] == "state", "", backend="exec")
    quad = inspect.signature(HFW.affine_stretch_statevars).parameters["quadrature"].default
    ok = type(quad).__name__ == "BazantOh" and np.array_equal(quad.points, QUAD.points) and np.array_equal(quad.weights, QUAD.weights)
    vk.ensures_true("default sphere rule of affine_stretch_statevars is BazantOh(n=21)", ok, "", backend="exec")
    return k["f"], kw


def f_inputs(vk):
    near = np.array([pattern_near(a) for a in range(ND)])
    lam = vk.reals("lam", (ND,), near=near[:, 0], spread=0.05)
    sv = vk.reals("z", (NS,), near=np.concatenate([near[:, 1], near[:, 2], np.full(ND, 0.1), np.full(ND, 0.2)]), spread=0.05)
    p, eps = parameters(vk)
    return lam, sv, p, eps


def run_f(vk, f, lam, sv, kw):
    """(dW_a/dλ_b (21,21), statevars_new (84,)) of the real closure; morph_uniaxial executed"""
    M.mark_real(vk, TL.morph_uniaxial, alias="felupe.constitution.tensortrax.models.lagrange.morph_uniaxial")
    if not vk.sym:
        import tensortrax as tr

        J = tr.jacobian(lambda x, z: f(x, z, **kw)[0], wrt=0, ntrax=0)(lam, sv)
        s = tr.function(lambda x, z: f(x, z, **kw)[1], wrt=0, ntrax=0)(lam, sv)
        return np.asarray(J), np.asarray(s)
    with M.rebound(TL.morph_uniaxial, extra=BRANCH), M.module_globals(HM, morph_uniaxial=as_dual(TL.morph_uniaxial)):
        W, s = f(lam, sv, **kw)
    return W, np.asarray(s, dtype=object)


def inner_f(vk):
    oracle.NO_SOLVER = True  # branches: literal look-up only; side conditions (denominators) are listed as assumed
    lam, sv, p, eps = f_inputs(vk)
    require_pattern(vk, lam, sv)
    C = vk.reals("C", (3, 3), near=np.eye(3), spread=0.1)  # only forwarded
    f, kw = capture_f(vk, C, sv, p, eps)
    if not vk.sym:
        J, s = run_f(vk, f, lam, sv, kw)
        vk.ensures_eq("f/variation dW_a/dλ_b==δ_ab.5.morph_uniaxial_a", J, None)
        vk.ensures_eq("f/statevars_new==morph_uniaxial's", s, None)
        return
    W, s = run_f(vk, f, lam, sv, kw)
    with M.rebound(TL.morph_uniaxial, extra=BRANCH):
        g, s_ref = TL.morph_uniaxial(lam, sv, p=p, ε=eps)
    J = np.empty((ND, ND), dtype=object)
    spec = np.empty((ND, ND), dtype=object)
    for a in range(ND):
        for b in range(ND):
            J[a, b] = ring.D(co(W[a]), lam[b])
            spec[a, b] = 5 * co(g[a]) if a == b else LP()
    vk.ensures_eq("f/variation dW_a/dλ_b==δ_ab.5.morph_uniaxial_a", J, spec)
    vk.ensures_eq("f/statevars_new==morph_uniaxial's", s, np.asarray(s_ref, dtype=object))
    # the value of f is a dual number only: 5 W_a with W_a = real_to_dual(g_a, λ_a)
    ok = True
    for a in range(ND):
        c, A, x = dual_of(W[a])
        ok = ok and c == 5 and ring.iszero(A - co(g[a])) and ring.iszero(x - lam[a])
    vk.ensures_true("f/first output == 5.real_to_dual(morph_uniaxial_a, λ_a) for every direction", ok, "", backend="ring")
    # locality: direction a sees λ_a and its own four state variables only
    own = lambda a: {ring.gen_of(lam[a])} | {ring.gen_of(sv[k * ND + a]) for k in range(4)} | {ring.gen_of(v) for v in p} | {ring.gen_of(eps)}  # noqa: E731
    for a in range(ND):
        sup = support(co(g[a])) | set().union(*[support(co(s[k * ND + a])) for k in range(4)])
        vk.ensures_true(f"locality/direction-{a} (force and state update depend on λ_a, the state of direction a, p, ε only)", sup <= own(a), f"{len(sup)} variables", backend="ring")
    vk.canary("f==morph_uniaxial (factor 5 dropped)", np.diag(J), np.asarray(g, dtype=object))
    vk.note("f: domain of the executed code (denominators ε+L_T, ε+C_T^S, 1+β.L_T, λ, λ_n, p_6 non-zero; 1+x² > 0 under the roots): listed as assumed side conditions")


def support(p):
    """variable generators an LP depends on (through its atoms)"""
    out, seen, todo = set(), set(), list(p.gens())
    while todo:
        g = todo.pop()
        if g in seen:
            continue
        seen.add(g)
        d = ring.DEFS.get(g)
        if d is None:
            out.add(g)
            continue
        for x in d[1:]:
            if isinstance(x, LP):
                todo.extend(x.gens())
            elif isinstance(x, (list, tuple)):
                for y in x:
                    if isinstance(y, LP):
                        todo.extend(y.gens())
                    elif isinstance(y, (int, np.integer)) and not isinstance(y, bool) and d[0] == "ghost":
                        todo.append(int(y))
    return out


def inner_f_virgin(vk):
    p, eps = parameters(vk)
    one = ring.lift(np.ones(ND)) if vk.sym else np.ones(ND)
    zero = ring.lift(np.zeros(NS)) if vk.sym else np.zeros(NS)
    f, kw = capture_f(vk, None, zero, p, eps)
    if not vk.sym:
        J, s = run_f(vk, f, one, zero, kw)
        vk.ensures_eq("stress-free-reference/virgin-state/force(λ=1)==0", np.diag(J), None)
        vk.ensures_eq("virgin-state-preserved/statevars_new(λ=1,0)==0", s, None)
        return
    W, s = run_f(vk, f, one, zero, kw)
    force = np.empty(ND, dtype=object)
    for a in range(ND):
        c, A, x = dual_of(W[a])
        force[a] = c * A
    vk.ensures_zero("stress-free-reference/virgin-state/force(λ=1)==0", force)
    vk.ensures_zero("virgin-state-preserved/statevars_new(λ=1,0)==0", s)
    # vacuity: a state with stored additional stress S_A1,n = 1 is NOT stress free at λ = 1
    z1 = zero.copy()
    z1[2 * ND : 3 * ND] = ring.lift(np.ones(ND))
    W1, _ = run_f(vk, f, one, z1, kw)
    vk.canary("stored-additional-stress-is-stress-free", np.array([dual_of(W1[a])[0] * dual_of(W1[a])[1] for a in range(ND)], dtype=object), ring.lift(np.zeros(ND)))


# ------------------------------------------------------------------------------------------------
# the full real composition with opaque roots
class OpaqueRoots:
    """ring.nthroot replaced by atoms rho(base) with the declared derivative rho / (q base)"""

    def __init__(self):
        self.fam = {}

    def nthroot(self, p, q):
        p = co(p)
        c = p.asconst()
        if c is not None:
            return self.old(p, q)
        fam = self.fam.setdefault(q, [])
        for b, g in fam:
            if b.key() == p.key():
                return LP.gen(g)
        g = ring.ghost(f"rho{q}_{len(fam)}", [p], impl=lambda b, q=q: b ** (1.0 / q))
        ring.set_partials(g, [LP.gen(g) / (q * p)])
        fam.append((p, g))
        return LP.gen(g)

    def __enter__(self):
        self.old = ring.nthroot
        ring.nthroot = self.nthroot
        return self

    def __exit__(self, *a):
        ring.nthroot = self.old
        return False


def composition(vk):
    oracle.NO_SOLVER = True
    p, eps = parameters(vk)
    # a deformation with a definite sign pattern of λ_a - 1 (min |λ_a - 1| = 0.067; sampling centre only: the sign
    # pattern itself is a `requires`)
    F0 = np.array([[1.328125, 0.109375, -0.140625], [0.03125, 0.671875, 0.0], [-0.125, -0.046875, 0.796875]])
    C0 = F0.T @ F0
    l0 = np.linalg.det(C0) ** (-1 / 6) * np.sqrt(np.einsum("ai,ij,aj->a", QUAD.points, C0, QUAD.points))
    ct0 = np.abs(l0**2 - 1 / l0)
    C = vk.reals("C", (3, 3), near=C0, spread=0.005)
    pat = lambda a: (bool(l0[a] > 1), bool(a & 1), bool(a & 2))  # noqa: E731
    zn = np.array([(0.5 * ct0[a] if pat(a)[1] else ct0[a] + 1.0, (l0[a] - 0.1 if pat(a)[2] else l0[a] + 0.1) - 1.0) for a in range(ND)])
    sv = vk.reals("z", (NS,), near=np.concatenate([zn[:, 0], zn[:, 1], np.full(ND, 0.1), np.full(ND, 0.2)]), spread=0.01)
    M.mark_real(vk, TT.morph_representative_directions, alias="felupe.constitution.tensortrax.models.hyperelastic.morph_representative_directions")
    M.mark_real(vk, HFW.affine_stretch_statevars, alias="felupe.constitution.tensortrax.models.hyperelastic.microsphere.affine_stretch_statevars")
    M.mark_real(vk, TL.morph_uniaxial, alias="felupe.constitution.tensortrax.models.lagrange.morph_uniaxial")
    mark_inner_f(vk)
    if not vk.sym:
        import tensortrax as tr

        lam = unimodular_stretches(vk, C)
        if np.abs(lam - 1).min() < 1e-3:
            from vk.core import Skip

            raise Skip("a direction at the non-smooth boundary λ_a == 1")
        fun = lambda Cx, z: TT.morph_representative_directions(Cx, z, p=p, ε=eps)  # noqa: E731
        # the 9 entries of C are independent reals here (sampled unsymmetric): plain derivative, symmetrised -- the
        # reading of tr.gradient(sym=True) on a symmetric argument (AD contract)
        dW = np.asarray(tr.gradient(lambda Cx, z: fun(Cx, z)[0], wrt=0, ntrax=0, sym=False)(np.asarray(C, dtype=float), sv))
        s = tr.function(lambda Cx, z: fun(Cx, z)[1], wrt=0, ntrax=0)(np.asarray(C, dtype=float), sv)
        vk.ensures_eq("composition/2.sym(dpsi/dC)==sum_a w_a.5.morph_uniaxial_a(λ_a).2.sym(dλ_a/dC)", dW + dW.T, None)
        vk.ensures_eq("composition/statevars_new==morph_uniaxial's at the 21 stretches", np.asarray(s), None)
        return
    with OpaqueRoots():
        lam = unimodular_stretches(vk, C)
        require_pattern(vk, lam, sv, pattern=pat)
        stub = M.TensortraxStub()
        with M.rebound(TT.morph_representative_directions, extra=BRANCH), M.module_globals(HM, morph_uniaxial=as_dual(TL.morph_uniaxial)):
            fun = lambda Cx, z: TT.morph_representative_directions(Cx, z, p=p, ε=eps)  # noqa: E731
            dW = stub.gradient(stub.take(fun, 0), wrt=0, ntrax=0, sym=True)(C, sv)
            s = stub.function(stub.take(fun, 1), wrt=0, ntrax=0)(C, sv)
        with M.rebound(TL.morph_uniaxial, extra=BRANCH):
            g, s_ref = TL.morph_uniaxial(lam, sv, p=p, ε=eps)
        w = ring.lift(QUAD.weights)
        spec = np.empty((3, 3), dtype=object)
        for i in range(3):
            for j in range(3):
                spec[i, j] = sum((w[a] * 5 * co(g[a]) * (ring.D(lam[a], C[i, j]) + ring.D(lam[a], C[j, i])) for a in range(ND)), LP())
        vk.ensures_eq("composition/2.sym(dpsi/dC)==sum_a w_a.5.morph_uniaxial_a(λ_a).2.sym(dλ_a/dC)", 2 * np.asarray(dW, dtype=object), spec)
        vk.ensures_eq("composition/statevars_new==morph_uniaxial's at the 21 stretches", np.asarray(s, dtype=object), np.asarray(s_ref, dtype=object))
        vk.canary("composition/factor-5-dropped", 2 * np.asarray(dW, dtype=object), spec / 5)
    vk.note("composition: S depends on F through C = F^T F only; frame indifference of P = F.S(F^T F) by the wrapper contracts (C11/wrapper, C03 state wrappers) and by `integration` for every one-dimensional model")
