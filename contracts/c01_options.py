"""C01 (options) -- the matrix is the derivative of the vector under every per-call / constructor option of the items.

The item contracts of contracts/c01_items.py run `assemble.vector(field)` / `assemble.matrix(field)` with the default
options.  Here every remaining optional parameter of the items' `_vector / _matrix / _gradient / _hessian / _extract`
is given a non-default, meaningful value (thread flag `parallel`, `items` = number of leading blocks of the material's
output that belong to the fields, `args` = extra positional arguments forwarded to the material, `block`, `field`,
`statevars`, `resize` = array whose shape the result is enlarged to (the system of a larger container), `skip`), and
 (a) the matrix assembled under the option is still the derivative of the vector assembled under the same option with
     respect to ALL unknowns (for `resize`: the additional unknowns of the enlarged system included),
 (b) the result is the one the meaning of the option dictates (equal to the default call for `parallel`, for `items`
     equal to the number of field blocks and for `block=False` block 0; s times / the material with s bound for `args`;
     padded with zeros for `resize`; no force on a skipped axis).
"""
import contextlib
import warnings

import numpy as np

import felupe as fem
from contracts.c01_items import CELLS2, CELLS3, NQ, assemble_pair, boundary_region, require_detF, tangent_obligations, unknowns
from vk import coo, oracle, ring
from vk.core import Skip, contract
from vk.opaque import OpaqueRegion
from vk.ring import LP, co
from vk.stubs import StubAreaChange, StubMaterial, StubMixedMaterial, StubStateMaterial
from vk.symnp import det_ref

TRUSTED = [
    "C01 (options): opaque region / StubMaterial / StubMixedMaterial / StubStateMaterial / StubAreaChange callee contracts as in contracts/c01_items.py; ScaledMaterial (one extra positional parameter s: gradient = s P, hessian = s A) and ExtraOutputMaterial (an additional trailing output block after the field blocks) are spec-side wrappers of StubMaterial that give `args` and `items` a meaning",
    "C01 (options, A3): parallel=True executes einsumt: proved for the schedule that ran; scheduler independence assumed",
]

FIELD = {"3d": fem.Field, "2d": fem.Field, "planestrain": fem.FieldPlaneStrain, "axisymmetric": fem.FieldAxisymmetric}


class ScaledMaterial:
    """a material with one extra positional parameter s (no default: a caller that drops `args` cannot evaluate it):
    gradient([F, z], s) = [s P(F), z],  hessian([F, z], s) = [s A(F)]"""

    def __init__(self, inner):
        self.inner, self.x = inner, inner.x

    def gradient(self, x, s, out=None):
        P, z = self.inner.gradient(x)
        P = s * P
        if out is not None:
            out[...] = P
            P = out
        return [P, z]

    def hessian(self, x, s, out=None):
        A = s * self.inner.hessian(x)[0]
        if out is not None:
            out[...] = A
            A = out
        return [A]


class BoundMaterial(ScaledMaterial):
    """the same material with s bound at construction (the reference the `args` call is compared with)"""

    def __init__(self, inner, s):
        ScaledMaterial.__init__(self, inner)
        self.s = s

    def gradient(self, x, out=None):
        return ScaledMaterial.gradient(self, x, self.s, out=out)

    def hessian(self, x, out=None):
        return ScaledMaterial.hessian(self, x, self.s, out=out)


class ExtraOutputMaterial:
    """a material with an additional trailing output block that belongs to no field (here 2 P resp. 3 A):
    gradient = [P, extra, z],  hessian = [A, extra];  `items=1` names the one block of the one field"""

    def __init__(self, inner):
        self.inner, self.x = inner, inner.x

    def gradient(self, x):
        P, z = self.inner.gradient(x)
        return [P, 2 * P, z]

    def hessian(self, x):
        A = self.inner.hessian(x)[0]
        return [A, 3 * A]


def _field(vk, rg, kind, dim, name="u"):
    u = vk.reals(name, (rg.mesh.npoints, dim), near=0.0, spread=0.05)
    f = FIELD[kind](rg, dim=dim, values=u)
    if kind == "axisymmetric":
        if vk.sym:
            for x in f.radius.ravel():
                oracle.assume(co(x), ">")
        elif np.any(f.radius <= 0.05):
            raise Skip("radius")
    return f


def _dense(vk, run):
    if vk.sym:
        with coo.bound():
            return np.asarray(coo.todense(run()))
    return np.asarray(coo.todense(run()))


def _pair(vk, item, field, kv, km):
    """vector under the keywords kv, matrix under the keywords km"""
    r = _dense(vk, lambda: item.assemble.vector(field, **kv)).reshape(-1)
    K = _dense(vk, lambda: item.assemble.matrix(field, **km))
    return r, K


SOLID = [dict(option=o, field="planestrain", hyper=True) for o in ("parallel", "items", "args")]
SOLID += [dict(option="parallel", field="axisymmetric", hyper=False), dict(option="args", field="2d", hyper=False), dict(option="items", field="mixed-planestrain", hyper=True)]
SOLID += [dict(option=o, field="3d", hyper=True, tier="thorough") for o in ("parallel", "items", "args")]


@contract("C01", "options_solidbody", configs=SOLID)
def options_solidbody(vk, cfg):
    """SolidBody._vector / _matrix (parallel, items, args), _gradient / _hessian (args)"""
    for fn in (fem.SolidBody._vector, fem.SolidBody._matrix, fem.SolidBody._gradient, fem.SolidBody._hessian):
        vk.real(fn)
    opt, kind = cfg["option"], cfg["field"]
    if kind == "mixed-planestrain":
        # (u, p, J): the material returns three gradient blocks and six hessian blocks (upper triangle); `items` equal to
        # these numbers is the documented-by-construction meaning of "all blocks"
        dim, cells = 2, CELLS2
        rg = OpaqueRegion(vk, cells, dim, NQ)
        rd = OpaqueRegion(vk, np.array([[0], [1]]), dim, NQ, name="d", grad=False)
        rd.h = np.ones((1, NQ, 2)) if not vk.sym else ring.lift(np.ones((1, NQ, 2)))
        rd.dV = rg.dV
        fu = _field(vk, rg, "planestrain", dim)
        p = vk.reals("p", (2, 1), near=0.3, spread=0.2)
        J = vk.reals("J", (2, 1), near=1.0, spread=0.1)
        if vk.sym:
            for x in J.ravel():
                oracle.assume(x, ">")
        elif np.any(J <= 0.2):
            raise Skip("J")
        fc = fem.FieldContainer([fu, fem.Field(rd, dim=1, values=p), fem.Field(rd, dim=1, values=J)])
        body = fem.SolidBody(StubMixedMaterial(vk, dim=3), fc)
        r0, K0 = assemble_pair(vk, body, fc)
        r, K = _pair(vk, body, fc, dict(items=3), dict(items=6))
        vk.ensures_eq("items/vector(items=number of field blocks)==vector()", r, r0)
        vk.ensures_eq("items/matrix(items=number of upper-triangle blocks)==matrix()", K, K0)
        tangent_obligations(vk, r, K, unknowns(fc), symmetric=True, label="items/")
        return
    dim = 3 if kind == "3d" else 2
    rg = OpaqueRegion(vk, CELLS3 if dim == 3 else CELLS2, dim, NQ)
    f = _field(vk, rg, kind, dim)
    fc = fem.FieldContainer([f])
    umat = StubMaterial(vk, dim=2 if kind == "2d" else 3, hyperelastic=cfg["hyper"])
    plain = fem.SolidBody(umat, fc)
    r0, K0 = assemble_pair(vk, plain, fc)
    x = unknowns(fc)
    if opt == "parallel":
        body = fem.SolidBody(umat, fc)
        r, K = assemble_pair(vk, body, fc, parallel=True)
        vk.ensures_eq("parallel/vector(parallel=True)==vector()", r, r0)
        vk.ensures_eq("parallel/matrix(parallel=True)==matrix()", K, K0)
        tangent_obligations(vk, r, K, x, symmetric=cfg["hyper"], label="parallel/")
        # cached state (field=None), buffers of the first call reused
        r2, K2 = assemble_pair(vk, body, parallel=True)
        vk.ensures_eq("parallel/vector(cached, parallel=True)==vector()", r2, r0)
        vk.ensures_eq("parallel/matrix(cached, parallel=True)==matrix()", K2, K0)
    elif opt == "items":
        body = fem.SolidBody(ExtraOutputMaterial(umat), fc)
        r, K = assemble_pair(vk, body, fc, items=1)
        vk.ensures_eq("items/vector(items=1)==vector of the body whose material has the field block only", r, r0)
        vk.ensures_eq("items/matrix(items=1)==matrix of the body whose material has the field block only", K, K0)
        tangent_obligations(vk, r, K, x, symmetric=cfg["hyper"], label="items/")
        # on a material without extra output items=1 names all blocks: the default result
        r1, K1 = assemble_pair(vk, plain, fc, items=1)
        vk.ensures_eq("items/plain material: vector(items=1)==vector()", r1, r0)
        vk.ensures_eq("items/plain material: matrix(items=1)==matrix()", K1, K0)
    else:
        s = vk.real_scalar("s", near=0.7, spread=0.2)
        body = fem.SolidBody(ScaledMaterial(umat), fc)
        r, K = assemble_pair(vk, body, fc, args=(s,))
        vk.ensures_eq("args/vector(args=(s,))==s*vector of the unscaled material", r, s * r0)
        vk.ensures_eq("args/matrix(args=(s,))==s*matrix of the unscaled material", K, s * K0)
        tangent_obligations(vk, r, K, x, symmetric=cfg["hyper"], label="args/")
        F = fc.extract()
        P0, A0 = umat.gradient([*F, None])[0], umat.hessian([*F, None])[0]
        vk.ensures_eq("args/evaluate.gradient(field, args=(s,))==s*P", np.asarray(body.evaluate.gradient(fc, args=(s,))[0]), s * P0)
        vk.ensures_eq("args/evaluate.hessian(field, args=(s,))==s*A", np.asarray(body.evaluate.hessian(fc, args=(s,))[0]), s * A0)
        # the value 0 is a value like any other (an argument that is given)
        zero = 0.0
        rz, Kz = assemble_pair(vk, body, fc, args=(zero,))
        vk.ensures_eq("args/vector(args=(0.0,))==0", rz, 0 * r0)
        vk.ensures_eq("args/matrix(args=(0.0,))==0", Kz, 0 * K0)
        # cached state afterwards with another value: nothing of the previous call is kept
        r3, K3 = assemble_pair(vk, body, args=(2 * s,))
        vk.ensures_eq("args/vector(cached, args=(2s,))==2s*vector", r3, 2 * s * r0)
        vk.ensures_eq("args/matrix(cached, args=(2s,))==2s*matrix", K3, 2 * s * K0)
    if vk.sym:
        vk.canary(f"{opt}/vector==2*vector of the reference", r, 2 * r0 + 1)


@contextlib.contextmanager
def _area_change_contract(vk):
    """callee contract of AreaChange (C03 `kinematics`) in place of its body while bodies are constructed / evaluated in the
    symbolic run; the native float run uses the real callee"""
    import felupe.mechanics._helpers as _H
    import felupe.mechanics._solidbody_incompressible as _SI

    real_ac = fem.constitution.AreaChange
    if vk.sym:
        _H.AreaChange = _SI.AreaChange = StubAreaChange
    try:
        yield
    finally:
        _H.AreaChange = _SI.AreaChange = real_ac


NI = [dict(option=o, field="planestrain") for o in ("statevars", "field", "parallel", "items", "args", "block", "state-h")]
NI += [dict(option="field-other-state", field="planestrain", tier="thorough")]
NI += [dict(option=o, field=f, small=True) for o in ("parallel", "block") for f in ("3d", "axisymmetric")]


@contract("C01", "options_nearly_incompressible", configs=NI)
def options_nearly_incompressible(vk, cfg):
    """SolidBodyNearlyIncompressible.__init__ (statevars), _vector / _matrix (field, parallel, items, args, block),
    _extract (parallel), _gradient (parallel, args), _hessian (field, parallel, args),
    StateNearlyIncompressible.integrate_shape_function_gradient (parallel, out) -- at a settled state"""
    B = fem.SolidBodyNearlyIncompressible
    for fn in (B.__init__, B._vector, B._matrix, B._extract, B._gradient, B._hessian):
        vk.real(fn)
    vk.real(fem.mechanics.StateNearlyIncompressible.integrate_shape_function_gradient)
    opt, kind = cfg["option"], cfg["field"]
    dim = 3 if kind == "3d" else 2
    cells, nq = (CELLS3 if dim == 3 else CELLS2), NQ
    if cfg.get("small"):
        cells, nq = cells[:1], 1
    rg = OpaqueRegion(vk, cells, dim, nq)
    f = _field(vk, rg, kind, dim)
    fc = fem.FieldContainer([f])
    x = unknowns(fc)
    umat = StubMaterial(vk, dim=3, hyperelastic=True)
    bulk = vk.real_scalar("bulk", near=50.0, spread=10.0)
    w = rg.dV if kind != "axisymmetric" else 2 * (ring.PI() if vk.sym else np.pi) * f.radius * rg.dV
    V = np.sum(w, axis=0)

    def settled(field):
        v = np.sum(det_ref(field.extract()) * w, axis=0)
        return bulk * (v / V - 1)

    with _area_change_contract(vk):
        if opt == "statevars":
            # a history-dependent material: vector and matrix are evaluated at the COMMITTED state variables handed to the
            # constructor (not at the zeros of the default), assembling commits nothing
            z = vk.reals("z", (2, nq, cells.shape[0]), near=0.2, spread=0.1)
            z0 = vk.snapshot(z)
            smat = StubStateMaterial(vk, dim=3, nstate=2)
            body = B(smat, fc, bulk=bulk, statevars=z)
            r, K = assemble_pair(vk, body)
            tangent_obligations(vk, r, K, x, symmetric=True, label="statevars/")
            vk.frame_unchanged("statevars/committed statevars after vector+matrix", body.results.statevars, z0)
            F = f.extract()
            vk.ensures_eq("statevars/tentative statevars == material's new state at (F, committed state)", body.results._statevars, smat.gradient([F, z])[-1])
            P = smat.gradient([F, z])[0]
            cof = StubAreaChange().function([F])[0] if vk.sym else fem.constitution.AreaChange().function([F])[0]
            vk.ensures_eq("statevars/evaluate.gradient()==P(F, committed state)+p dJ/dF", np.asarray(body.evaluate.gradient()[0]), P + settled(f) * cof)
            if vk.sym:
                vk.canary("statevars/committed statevars are the default zeros", body.results.statevars, 0 * z0)
            return
        body = B(umat, fc, bulk=bulk)
        r0, K0 = assemble_pair(vk, body)
        vk.ensures_eq("settled: p==bulk*(v/V-1)", body.results.state.p, settled(f))
        if opt == "field":
            # the container the body was built with handed over again (what fun_items does): nothing moved, so the state
            # stays settled and the results are those of the cached state
            r, K = assemble_pair(vk, body, fc)
            vk.ensures_eq("field/vector(field)==vector()", r, r0)
            vk.ensures_eq("field/matrix(field)==matrix()", K, K0)
            vk.ensures_eq("field/still settled: p==bulk*(v/V-1)", body.results.state.p, settled(f))
            tangent_obligations(vk, r, K, x, symmetric=True, label="field/")
            # matrix first (a hand-written loop may assemble the tangent first)
            body2 = B(umat, fc, bulk=bulk)
            K2 = _dense(vk, lambda: body2.assemble.matrix(fc))
            vk.ensures_eq("field/matrix(field) as the first call==matrix()", K2, K0)
            A = np.asarray(body2.evaluate.hessian(fc)[0])
            vk.ensures_eq("field/evaluate.hessian(field)==evaluate.hessian()", A, np.asarray(body.evaluate.hessian()[0]))
        elif opt == "field-other-state":
            # another state B handed over twice: the first call moves the condensed state by the linearised update, the
            # second sees no further change, so the state is settled at B and vector / matrix are those of a fresh body at B
            fB = _field(vk, rg, kind, dim, name="uB")
            fcB = fem.FieldContainer([fB])
            require_detF(vk, fB.extract())
            snap = vk.snapshot(fB.values)
            _dense(vk, lambda: body.assemble.vector(fcB))
            rB, KB = assemble_pair(vk, body, fcB)
            vk.frame_unchanged("field/values of the state handed over", fB.values, snap)
            vk.ensures_eq("field/settled at the other state: p==bulk*(v/V-1)", body.results.state.p, settled(fB))
            fresh = B(umat, fem.FieldContainer([FIELD[kind](rg, dim=dim, values=np.array(fB.values))]), bulk=bulk)
            rF, KF = assemble_pair(vk, fresh)
            vk.ensures_eq("field/vector(field=B) seen twice==vector of a fresh body at B", rB, rF)
            vk.ensures_eq("field/matrix(field=B) seen twice==matrix of a fresh body at B", KB, KF)
            r, r0 = rB, rF
        elif opt == "parallel":
            r, K = assemble_pair(vk, body, parallel=True)
            vk.ensures_eq("parallel/vector(parallel=True)==vector()", r, r0)
            vk.ensures_eq("parallel/matrix(parallel=True)==matrix()", K, K0)
            tangent_obligations(vk, r, K, x, symmetric=True, label="parallel/")
            # with the field handed over the thread flag reaches _extract / _gradient / _hessian as well
            r2, K2 = assemble_pair(vk, body, fc, parallel=True)
            vk.ensures_eq("parallel/vector(field, parallel=True)==vector()", r2, r0)
            vk.ensures_eq("parallel/matrix(field, parallel=True)==matrix()", K2, K0)
            vk.ensures_eq("parallel/still settled: p==bulk*(v/V-1)", body.results.state.p, settled(f))
            P0 = np.array(body.evaluate.gradient()[0])
            vk.ensures_eq("parallel/evaluate.gradient(field, parallel=True)==evaluate.gradient()", np.asarray(body.evaluate.gradient(fc, parallel=True)[0]), P0)
            A0 = np.array(body.evaluate.hessian()[0])
            vk.ensures_eq("parallel/evaluate.hessian(field, parallel=True)==evaluate.hessian()", np.asarray(body.evaluate.hessian(fc, parallel=True)[0]), A0)
        elif opt == "items":
            # one field, one block: items=1 names all blocks
            r, K = assemble_pair(vk, body, items=1)
            vk.ensures_eq("items/vector(items=1)==vector()", r, r0)
            vk.ensures_eq("items/matrix(items=1)==matrix()", K, K0)
            tangent_obligations(vk, r, K, x, symmetric=True, label="items/")
            vk.note("observation (no clause): SolidBodyNearlyIncompressible._vector / _matrix accept items= but never read it (a material with extra output blocks is not supported by the condensed body: its _gradient unpacks exactly [P, statevars])")
        elif opt == "args":
            s = vk.real_scalar("s", near=0.7, spread=0.2)
            sbody = B(ScaledMaterial(umat), fc, bulk=bulk)
            r, K = assemble_pair(vk, sbody, args=(s,))
            ref = B(BoundMaterial(umat, s), fem.FieldContainer([FIELD[kind](rg, dim=dim, values=np.array(f.values))]), bulk=bulk)
            rR, KR = assemble_pair(vk, ref)
            vk.ensures_eq("args/vector(args=(s,))==vector of the body whose material has s bound", r, rR)
            vk.ensures_eq("args/matrix(args=(s,))==matrix of the body whose material has s bound", K, KR)
            tangent_obligations(vk, r, K, x, symmetric=True, label="args/")
            vk.ensures_eq("args/evaluate.gradient(args=(s,))==gradient of the body whose material has s bound", np.asarray(sbody.evaluate.gradient(args=(s,))[0]), np.asarray(ref.evaluate.gradient()[0]))
            vk.ensures_eq("args/evaluate.hessian(field, args=(s,))==hessian of the body whose material has s bound", np.asarray(sbody.evaluate.hessian(fc, args=(s,))[0]), np.asarray(ref.evaluate.hessian()[0]))
            # s = 0.0: only the volumetric (condensed) part is left
            rz, Kz = assemble_pair(vk, sbody, args=(0.0,))
            zref = B(BoundMaterial(umat, 0.0), fem.FieldContainer([FIELD[kind](rg, dim=dim, values=np.array(f.values))]), bulk=bulk)
            rZ, KZ = assemble_pair(vk, zref)
            vk.ensures_eq("args/vector(args=(0.0,))==vector of the body whose material has 0 bound", rz, rZ)
            vk.ensures_eq("args/matrix(args=(0.0,))==matrix of the body whose material has 0 bound", Kz, KZ)
            r0 = rR
        elif opt == "block":
            # block=False: the list of blocks (one field: one block) instead of the stacked system
            rl = body.assemble.vector(block=False) if not vk.sym else None
            if vk.sym:
                with coo.bound():
                    rl = body.assemble.vector(block=False)
                    Kl = body.assemble.matrix(block=False)
            else:
                Kl = body.assemble.matrix(block=False)
            ok = isinstance(rl, list) and isinstance(Kl, list) and len(rl) == 1 and len(Kl) == 1
            if vk.sym:
                vk.ensures_true("block/block=False returns the list of blocks (one per field)", ok, f"{type(rl).__name__}, {type(Kl).__name__}", backend="exec")
            if not ok:
                return
            r, K = np.asarray(coo.todense(rl[0])).reshape(-1), np.asarray(coo.todense(Kl[0]))
            vk.ensures_eq("block/vector(block=False)[0]==vector()", r, r0)
            vk.ensures_eq("block/matrix(block=False)[0]==matrix()", K, K0)
            tangent_obligations(vk, r, K, x, symmetric=True, label="block/")
            rb, Kb = assemble_pair(vk, body, block=True)
            vk.ensures_eq("block/vector(block=True)==vector()", rb, r0)
            vk.ensures_eq("block/matrix(block=True)==matrix()", Kb, K0)
        else:
            # K_up = int dF : dJ/dF dV (cell-wise): thread flag and work buffer
            st = body.results.state
            h0 = np.array(st.integrate_shape_function_gradient())
            h1 = st.integrate_shape_function_gradient(parallel=True)
            vk.ensures_eq("state-h/integrate_shape_function_gradient(parallel=True)==default", np.asarray(h1), h0)
            for tag in ("fresh", "stale"):
                buf = np.zeros(h0.shape, dtype=object if vk.sym else float)
                buf[...] = (co(7) if vk.sym else 7.0) if tag == "stale" else (LP() if vk.sym else 0.0)
                h2 = st.integrate_shape_function_gradient(out=[buf])
                vk.ensures_eq(f"state-h/integrate_shape_function_gradient(out=[{tag} buffer])==default", np.asarray(h2), h0)
                vk.ensures_eq(f"state-h/out=[{tag} buffer]: the buffer holds the result", buf, h0)
            # after the buffered calls vector / matrix are what they were
            r3, K3 = assemble_pair(vk, body)
            vk.ensures_eq("state-h/vector() afterwards unchanged", r3, r0)
            vk.ensures_eq("state-h/matrix() afterwards unchanged", K3, K0)
            r = np.asarray(h1).reshape(-1)
            r0 = h0.reshape(-1)
    if vk.sym:
        vk.canary(f"{opt}/vector==2*reference", r, 2 * r0 + 1)


LOADS = [dict(item=i, field="planestrain", option=o) for i in ("pressure", "cauchy_stress") for o in ("parallel", "resize")]
LOADS += [dict(item="pressure", field="axisymmetric", option=o) for o in ("parallel", "resize")]
LOADS += [dict(item=i, field="3d", option=o, tier="thorough") for i in ("pressure", "cauchy_stress") for o in ("parallel", "resize")]


@contract("C01", "options_follower_loads", configs=LOADS)
def options_follower_loads(vk, cfg):
    """SolidBodyPressure / SolidBodyCauchyStress._vector / _matrix (parallel, resize)"""
    kind, opt = cfg["field"], cfg["option"]
    dim = 3 if kind == "3d" else 2
    rg = boundary_region(vk, dim, kind == "axisymmetric")
    f = _field(vk, rg, kind, dim)
    fc = fem.FieldContainer([f])
    require_detF(vk, f.extract())
    if cfg["item"] == "pressure":
        item = fem.SolidBodyPressure(fc, pressure=vk.real_scalar("pressure", near=1.0))
        vk.real(fem.SolidBodyPressure._vector)
        vk.real(fem.SolidBodyPressure._matrix)
    else:
        sig = vk.reals("sigma", (3, 3), near=np.diag([1.0, 2.0, 0.5]), spread=0.3)
        item = fem.SolidBodyCauchyStress(fc, cauchy_stress=sig)
        vk.real(fem.SolidBodyCauchyStress._vector)
        vk.real(fem.SolidBodyCauchyStress._matrix)
    if vk.sym:
        item._area_change = StubAreaChange()
    x = unknowns(fc)
    n = len(x)
    r0, K0 = assemble_pair(vk, item)
    if opt == "parallel":
        r, K = assemble_pair(vk, item, parallel=True)
        vk.ensures_eq("parallel/vector(parallel=True)==vector()", r, r0)
        vk.ensures_eq("parallel/matrix(parallel=True)==matrix()", K, K0)
        tangent_obligations(vk, r, K, x, symmetric=False, label="parallel/")
        if vk.sym:
            vk.canary("parallel/vector is zero", r, 0 * r0 + 1)
        return
    # resize = an array of the enlarged system (the boundary item acts on the displacement field of a container that has
    # m further unknowns): the result has its shape, the item's entries stay where they are, the rest is zero -- so the
    # enlarged matrix is the derivative of the enlarged vector w.r.t. ALL unknowns of the enlarged system
    m = 3
    extra = vk.reals("q", (m,), near=0.3, spread=0.2)  # unknowns of the other fields (the item does not depend on them)
    big_v, big_m = np.zeros((n + m, 1)), np.zeros((n + m, n + m))
    rb = _dense(vk, lambda: item.assemble.vector(resize=big_v))
    Kb = _dense(vk, lambda: item.assemble.matrix(resize=big_m))
    ok = rb.shape == big_v.shape and Kb.shape == big_m.shape
    if vk.sym:
        vk.ensures_true("resize/vector and matrix have the shape of the array handed over", ok, f"vector {rb.shape} (expected {big_v.shape}), matrix {Kb.shape} (expected {big_m.shape})", backend="exec")
    if not ok:
        return
    rb = rb.reshape(-1)
    vk.ensures_eq("resize/vector: leading entries == vector()", rb[:n], r0)
    vk.ensures_eq("resize/vector: additional entries == 0", rb[n:], 0 * extra)
    vk.ensures_eq("resize/matrix: leading block == matrix()", Kb[:n, :n], K0)
    tangent_obligations(vk, rb, Kb, np.concatenate([x, extra]), symmetric=False, label="resize/")
    # an array of the item's own shape: nothing changes
    rs = _dense(vk, lambda: item.assemble.vector(resize=np.zeros((n, 1)))).reshape(-1)
    Ks = _dense(vk, lambda: item.assemble.matrix(resize=np.zeros((n, n))))
    ok = rs.shape == r0.shape and Ks.shape == K0.shape
    if vk.sym:
        vk.ensures_true("resize/array of the item's own shape: shapes kept", ok, f"{rs.shape}, {Ks.shape}", backend="exec")
    if ok:
        vk.ensures_eq("resize/array of the item's own shape: vector()", rs, r0)
        vk.ensures_eq("resize/array of the item's own shape: matrix()", Ks, K0)
    # resize does not stick: the next default call has the item's own shape again
    r1, K1 = assemble_pair(vk, item)
    ok = r1.shape == r0.shape and K1.shape == K0.shape
    if vk.sym:
        vk.ensures_true("resize/the following default call has the item's own shape", ok, f"{r1.shape}, {K1.shape}", backend="exec")
    if ok:
        vk.ensures_eq("resize/the following default call: vector()", r1, r0)
        vk.ensures_eq("resize/the following default call: matrix()", K1, K0)
    if vk.sym:
        vk.canary("resize/additional entries are non-zero", rb[n:], 0 * extra + 1)


CL = [dict(item=i, parallel=True) for i in ("mpc", "contact-closed", "contact-open", "pointload", "bodyforce", "gravity")]
CL += [dict(item=i, skip=s) for i in ("contact-closed", "contact-open") for s in ("010", "101")]


@contract("C01", "options_constraints_and_loads", configs=CL)
def options_constraints_and_loads(vk, cfg):
    """MultiPointConstraint / MultiPointContact / PointLoad / SolidBodyForce / SolidBodyGravity._vector / _matrix (parallel);
    MultiPointContact.__init__ (skip: "if True, the respective axis is not connected")"""
    item_kind = cfg["item"]
    par = cfg.get("parallel", False)
    dim = 3 if item_kind.startswith(("mpc", "contact")) else 2
    rg = OpaqueRegion(vk, CELLS3 if dim == 3 else CELLS2, dim, NQ)
    npts = rg.mesh.npoints
    unear = np.zeros((npts, dim))
    if item_kind == "contact-closed":
        unear[[0, 2]] = 3.0
    u = vk.reals("u", (npts, dim), near=unear, spread=0.05)
    fc = fem.FieldContainer([fem.Field(rg, dim=dim, values=u)])
    skip = tuple(c == "1" for c in cfg["skip"]) if cfg.get("skip") else (False, False, False)
    if cfg.get("skip") == "101":
        skip = tuple(int(b_) for b_ in skip)  # 0 / 1 flags as in the documented examples (skip=(1, 0, 0))
    kw = {}
    if item_kind == "mpc":
        mk = lambda: fem.MultiPointConstraint(fc, points=[0, 2, 3], centerpoint=4, multiplier=kmul)
        kmul = vk.real_scalar("k", near=10.0)
        vk.real(fem.MultiPointConstraint._vector)
        vk.real(fem.MultiPointConstraint._matrix)
    elif item_kind.startswith("contact"):
        X = rg.mesh.points
        pts, c = [0, 2], 4
        closed = item_kind == "contact-closed"
        # away from the switching point on EVERY axis (the skipped ones included: they must not matter)
        for p_ in pts:
            for ax in range(dim):
                if vk.sym:
                    gap0 = co(X[c, ax]) - co(X[p_, ax])
                    gap = gap0 + u[c, ax] - u[p_, ax]
                    if gap0.t:
                        oracle.assume(gap0, ">")
                    oracle.assume(gap, "<" if closed else ">")
                else:
                    gap0 = X[c, ax] - X[p_, ax]
                    gap = gap0 + u[c, ax] - u[p_, ax]
                    if gap0 <= 0 or (gap < 0) != closed:
                        raise Skip("sign pattern")
        kmul = vk.real_scalar("k", near=10.0)
        mk = lambda: fem.MultiPointContact(fc, points=pts, centerpoint=c, skip=skip, multiplier=kmul)
        vk.real(fem.MultiPointContact.__init__)
        vk.real(fem.MultiPointContact._vector)
        vk.real(fem.MultiPointContact._matrix)
    elif item_kind == "pointload":
        vals = vk.reals("load", (2, 2), near=1.0)
        mk = lambda: fem.PointLoad(fc, points=[1, 3], values=vals)
        vk.real(fem.PointLoad._vector)
        vk.real(fem.PointLoad._matrix)
    elif item_kind == "bodyforce":
        b, rho = vk.reals("b", (2,), near=1.0), vk.real_scalar("rho", near=2.0)
        mk = lambda: fem.SolidBodyForce(fc, values=b, scale=rho)
        vk.real(fem.SolidBodyForce._vector)
        vk.real(fem.SolidBodyForce._matrix)
    else:
        b, rho = vk.reals("b", (2,), near=1.0), vk.real_scalar("rho", near=2.0)

        def mk():
            with warnings.catch_warnings():
                warnings.simplefilter("ignore")
                return fem.SolidBodyGravity(fc, gravity=b, density=rho)

        vk.real(fem.SolidBodyGravity._vector)
        vk.real(fem.SolidBodyGravity._matrix)
    item = mk()
    x = unknowns(fc)
    if par:
        r0, K0 = assemble_pair(vk, mk(), fc)
        r, K = assemble_pair(vk, item, fc, parallel=True)
        vk.ensures_eq("parallel/vector(parallel=True)==vector()", r, r0)
        vk.ensures_eq("parallel/matrix(parallel=True)==matrix()", K, K0)
        tangent_obligations(vk, r, K, x, symmetric=True, label="parallel/")
        return
    # contact with skipped axes
    r, K = assemble_pair(vk, item, fc)
    tangent_obligations(vk, r, K, x, symmetric=True, label="skip/")
    R = r.reshape(npts, dim)
    sk = np.array(skip, dtype=bool)
    vk.ensures_eq("skip/no contact force on a skipped axis", R[:, sk], 0 * R[:, sk])
    dofs = np.arange(npts * dim).reshape(npts, dim)
    vk.ensures_eq("skip/no stiffness on a skipped axis (rows)", K[dofs[:, sk].ravel()], 0 * K[dofs[:, sk].ravel()])
    # the connected axes are those of the contact without skip
    full = fem.MultiPointContact(fc, points=pts, centerpoint=c, multiplier=kmul)
    rf, Kf = assemble_pair(vk, full, fc)
    vk.ensures_eq("skip/connected axes: force of the contact without skip", R[:, ~sk], rf.reshape(npts, dim)[:, ~sk])
    keep = dofs[:, ~sk].ravel()
    vk.ensures_eq("skip/connected axes: stiffness of the contact without skip", K[np.ix_(keep, keep)], Kf[np.ix_(keep, keep)])
    vk.ensures_eq("skip/forces self-equilibrated", np.sum(R, axis=0), 0 * R[0])
    if vk.sym and closed:
        vk.canary("skip/closed contact has no force on the connected axes", R[:, ~sk], 0 * R[:, ~sk])
