"""C16 (structured generators, every size) -- index structure of `expand`, `line_line`, `rectangle_quad`,
`cube_hexa`, `concatenate`, `stack` for a SYMBOLIC number of points per axis / of layers and an OPAQUE section mesh.

Engine E3 (vk/idxmap.py): the real functions of felupe/mesh/_tools.py and _line_rectangle_cube.py are executed
on index-map arrays -- the number of section points N, of section cells nc, of layers n (>= 2) and of points
per axis n0, n1, n2 (>= 2) are size symbols, the section connectivity cells(c, a) in [0, N) and the section
coordinates X(p, j), the bounds a, b, the thickness z / the thickness table T(l) are uninterpreted -- and the
postconditions are forall-statements over (layer, point) / (layer, cell, corner) decided by z3.  Sizes such as
N*n are polynomial forms (vk.idxmap.SZ); the division / remainder by a symbolic row length that `reshape(-1, k)`
introduces is resolved by two arithmetic lemmas which z3 PROVES in every run (`lemma/...` obligations) and
which are then used as instances (universal instantiation).

Stated from the property ("mesh generators ... produce valid meshes: every cell positively oriented, covered
volume preserved, no unused or coincident points") as the index-level facts that reduce a structured mesh of
ANY size to the generic prism whose geometry is proved per cell (E1) in contracts/c16_mesh.py `extrude`:

  expand   points: the result has N*n rows, row l*N + p (layer l < n, section point p < N) is
           pad(X_p) + z_l e_axis  with  z_l = l*z/(n-1)  (scalar thickness, np.linspace)  or  z_l = T(l)
           (thickness table, `n` ignored), for every admissible `axis` and `expand_dim` True / False
           (vertex -> line: first column dropped); every row index is exactly one such pair (lemma).
           cells: (n-1)*nc rows of 2*na corners, row l*nc + c (l < n-1, section cell c) lists
           cells[c] + N*l  followed by  cells[c] + N*(l+1)  in the order the new cell type requires
           (line -> quad: second half reversed = counter-clockwise quad; quad -> hexahedron and
           vertex -> line: same order) -- the prism over section cell c between z_l and z_(l+1) in the local
           numbering of the felupe reference cell.
           range / no unused points: every entry of the new connectivity lies in [0, N*n); for every layer
           l < n and every section point cells(c, k) used by a section cell, the new point l*N + cells(c, k) is
           a corner of an explicitly given new cell (witness form of "used"; conversely every new corner is
           cells(c, k) + N*l' by the cells clause) -- so the new mesh has an unused point iff the section has.
           no coincident layers: for z != 0 the layer coordinates z_l are pairwise different.
           n in {0, 1}: no expansion -- padded points, cells and cell type returned unchanged.  Frame: the
           arguments are not written.
  line_line  points a + i (b-a)/(n-1), cells (i, i+1) for i < n-1, every point used; n == 1: one point, no cell.
  rectangle_quad / cube_hexa  the composition: row (l2*n1 + l1)*n0 + l0 has the coordinates
           a_j + l_j (b_j - a_j)/(n_j - 1) (incl. the offset `points[:, -1] += a[-1]` written through a slice
           view), cell ((l2*(n1-1) + l1)*(n0-1) + l0) lists the corners of the grid cell in the counter-clockwise
           / bottom-then-top order of the reference quad / hexahedron; `n` per axis or scalar.

  concatenate / stack  (meshes with symbolic numbers of points N_i and cells nc_i, opaque connectivities) points
           rows OFF_i + p are the rows p of mesh i (OFF_i = N_0 + ... + N_(i-1)), cell rows COFF_i + c list
           cells_i[c] + OFF_i, i.e. the same points as before, all inside block i; stack: the first points array,
           cell blocks without offsets.  The Mesh constructor is a recording stub (callee).

Each contract is paired with native runs of the same real code (real numpy, small random sizes, all quantified
indices enumerated).  Canaries: second half not reversed for line -> quad, z_l = l*z/n, layer offset N-1, ...
"""
import itertools

import numpy as np
import z3

import felupe.mesh._line_rectangle_cube as ML
import felupe.mesh._tools as MT
from vk import e3fix as F
from vk import idxmap as X
from vk.core import contract

TRUSTED = list(X.TRUSTED) + [
    "E3 numpy contracts added for the structured generators (assumed, differentially tested against real numpy by vk.idxmap.selftest on every run): linspace(a, b, n)[k] = a + k (b - a)/(n - 1) as reals (A1: the float rounding of the abscissae is outside the model), pad with zeros, np.newaxis / Ellipsis / negative-step / open-ended slices, concatenate / vstack / hstack of nd arrays along an axis, array assignment and in-place arithmetic through basic slice views, isscalar, full(dim, n) of a size",
    "C16/structured: instances of the two division lemmas (euclid: 0 <= p < d => (l*d + p) div d = l and (l*d + p) mod d = p; decomposition: 0 <= m < h*d => m = (m div d)*d + m mod d with 0 <= m div d < h, 0 <= m mod d < d), which z3 proves in every run, are used as hypotheses (universal instantiation)",
    "C16/structured: the index-level facts proved here (row l*N + p = pad(X_p) + z_l e_axis; cell l*nc + c = corners of section cell c in layers l, l+1 in reference order) make every cell of a structured mesh of any size an instance of the generic prism / generic grid cell whose positive orientation and volume are proved per cell with engine E1 in contracts/c16_mesh.py (`extrude`, `generate`) under that contract's preconditions (valid section cells, increasing z_l resp. a < b); the composition of the two is a paper step (A6)",
    "C16/structured: concatenate / stack are verified against a recording stub of the Mesh constructor (Mesh.__init__ is under contract in contracts/c16_mesh_methods.py); the builtins len / int bound into felupe.mesh._tools return the symbolic size of an index-map array / a size symbol unchanged",
    "C16/structured: preconditions -- n >= 2 points per axis / layers (n in {0, 1} checked separately as 'no expansion'), a thickness table has at least two entries",
]

NA = {"vertex": 1, "line": 2, "quad": 4}
NEW = {"vertex": "line", "line": "quad", "quad": "hexahedron"}


# ------------------------------------------------------------------------------------------------ helpers
def _shape_is(a, shape):
    return len(a.shape) == len(shape) and all(X.same_size(p, q) for p, q in zip(a.shape, shape))


def _req(E, a, b):
    """equality of reals: exact in the symbolic run, up to rounding in the native float run"""
    if E.sym:
        return E.eq(a, b)
    return abs(a - b) <= 1e-12 * (1 + abs(b))


def _lin(E, a, b, i, n):
    """spec: the i-th of n equidistant abscissae from a to b"""
    if E.sym:
        return X._toreal(a) + X._toreal(i) * (X._toreal(b) - X._toreal(a)) / X._toreal(n - 1)
    return a + i * (b - a) / (n - 1)


def euclid(l, d, p):
    """instance of lemma/euclid for the row index l*d + p"""
    d = X.zdim(d)
    t = l * d + p
    return z3.Implies(z3.And(d > 0, p >= 0, p < d), z3.And(t / d == l, t % d == p))


def decomp(m, d, h):
    """instance of lemma/decomposition for a row index m < h*d"""
    d, h = X.zdim(d), X.zdim(h)
    return z3.Implies(z3.And(d > 0, m >= 0, m < h * d), z3.And(m / d >= 0, m / d < h, m % d >= 0, m % d < d, m == (m / d) * d + m % d))


def _lemmas(E):
    """the two division lemmas, proved (not assumed) in this run; natively enumerated on a small box"""
    rng = [("l", (-3, 12)), ("d", (-2, 9)), ("p", (-2, 9))]
    if E.sym:
        rng = [("l", None), ("d", None), ("p", None)]
    E.forall("lemma/euclid: 0<=p<d => (l*d+p) div d == l and (l*d+p) mod d == p", rng, lambda l, d, p: E.And(E.eq(E.div(l * d + p, d), l), E.eq(E.mod(l * d + p, d), p)), given=lambda l, d, p: E.And(d > 0, p >= 0, p < d))
    rng = [("m", (-2, 40)), ("d", (-2, 9)), ("h", (-2, 9))]
    if E.sym:
        rng = [("m", None), ("d", None), ("h", None)]
    E.forall("lemma/decomposition: 0<=m<h*d => m == (m div d)*d + m mod d, 0 <= m div d < h, 0 <= m mod d < d", rng, lambda m, d, h: E.And(E.div(m, d) >= 0, E.div(m, d) < h, E.mod(m, d) >= 0, E.mod(m, d) < d, E.eq(m, E.div(m, d) * d + E.mod(m, d))), given=lambda m, d, h: E.And(d > 0, m >= 0, m < h * d))
    E.canary("lemma-euclid-without-range", rng[:0] + [("l", (0, 6)), ("d", (1, 6)), ("p", (0, 12))], lambda l, d, p: E.eq(E.div(l * d + p, d), l))


def fa(E, clause, ranges, body, hint=None, given=None):
    """forall-obligation; `hint(*index variables)` lists lemma instances (symbolic run only)"""
    hints = ()
    if E.sym and hint is not None:
        hints = tuple(hint(*[z3.Int(nm) for nm, _ in ranges]))
    return E.forall(clause, ranges, body, given=given, hints=hints)


def guard(E, cond, thunk):
    """cond and thunk(), the second operand only evaluated where cond holds (native run: no out-of-range access)"""
    return E.If(cond, thunk, False)


def _snap(E, *arrs):
    return [a.version() if E.sym else np.array(a, copy=True) for a in arrs]


def _unchanged(E, arrs, snaps):
    return all((a.version() == s) if E.sym else np.array_equal(a, s) for a, s in zip(arrs, snaps))


def _perm(ct, na, k):
    """section corner listed at position na + k of the new cell"""
    return na - 1 - k if ct == "line" else k


# ------------------------------------------------------------------------------------------------ expand
def _expand(E, cfg):
    ct, dim, xd = cfg["ct"], cfg["dim"], cfg["expand_dim"]
    na = NA[ct]
    dim_new = dim + (1 if xd else 0)
    _lemmas(E)
    first = True
    axes = range(-dim_new, dim_new) if cfg.get("axes") == "all" else [-1] + list(range(dim_new))
    for axis, thick in itertools.product(axes, ("scalar", "table")):
        E.scope()
        tag = f"expand[{ct},dim={dim},expand_dim={int(xd)},axis={axis},z={thick}]"
        N, nc, n = E.size("N", 1), E.size("nc", 1), E.size("n", 2)
        m = F.mesh(E, "s", na, npoints=N, ncells=nc, mdim=dim, points=True)
        z = E.real("z") if thick == "scalar" else E.reals("T", (n,))
        snaps = _snap(E, m.points, m.cells, *([] if thick == "scalar" else [z]))
        with E.run(MT, all=dict(len=E.len)):
            # a thickness table overrides n: hand over a different (wrong) n to see it ignored
            P, C, new_ct = MT.expand(m.points, m.cells, ct, n=n if thick == "scalar" else 7, z=z, axis=axis, expand_dim=xd)
        Nz, ncz, nz = E.val(N), E.val(nc), E.val(n)
        drop = 1 if ct == "vertex" else 0
        cols = dim_new - drop
        E.check(f"{tag}/cell_type", new_ct == NEW[ct], f"{new_ct!r} == {NEW[ct]!r}")
        okP, okC = _shape_is(P, (N * n, cols)), _shape_is(C, ((n - 1) * nc, 2 * na))
        E.check(f"{tag}/points-shape", okP, f"{P.shape} == (N*n, {cols})")
        E.check(f"{tag}/cells-shape", okC, f"{C.shape} == ((n-1)*nc, {2 * na})")
        E.check(f"{tag}/frame: arguments not written", _unchanged(E, [m.points, m.cells] + ([] if thick == "scalar" else [z]), snaps), "")
        if not (okP and okC):
            continue
        zl = (lambda l: _lin(E, 0, E.val(z), l, nz)) if thick == "scalar" else (lambda l: E.at(z, l))
        ax = axis % dim_new

        def coord(l, p, j):  # spec: coordinate j of pad(X_p) + z_l e_axis
            base = E.at(m.points, p, j) if j < dim else 0.0
            return base + zl(l) if j == ax else base

        for jo in range(cols):
            fa(E, f"{tag}/points[l*N+p, {jo}] == pad(X_p)[{jo + drop}] + z_l*(axis=={jo + drop})", [("l", n), ("p", N)], lambda l, p, jo=jo: _req(E, E.at(P, l * Nz + p, jo), coord(l, p, jo + drop)), hint=lambda l, p: [euclid(l, N, p)])
        fa(E, f"{tag}/points: every row index m < N*n is l*N + p with l = m div N < n, p = m mod N < N", [("m", N * n)], lambda q: E.And(E.div(q, Nz) >= 0, E.div(q, Nz) < nz, E.mod(q, Nz) >= 0, E.mod(q, Nz) < Nz, E.eq(q, E.div(q, Nz) * Nz + E.mod(q, Nz))), hint=lambda q: [decomp(q, N, n)])
        rc = [("l", n - 1), ("c", nc)]
        fa(E, f"{tag}/cells[l*nc+c, :na] == cells[c] + N*l", rc, lambda l, c: E.And(*[E.eq(E.at(C, l * ncz + c, k), E.at(m.cells, c, k) + Nz * l) for k in range(na)]), hint=lambda l, c: [euclid(l, nc, c)])
        fa(E, f"{tag}/cells[l*nc+c, na:] == cells[c][{'::-1' if ct == 'line' else ':'}] + N*(l+1)", rc, lambda l, c: E.And(*[E.eq(E.at(C, l * ncz + c, na + k), E.at(m.cells, c, _perm(ct, na, k)) + Nz * (l + 1)) for k in range(na)]), hint=lambda l, c: [euclid(l, nc, c)])
        fa(E, f"{tag}/cells: every entry in [0, N*n)", [("m", (n - 1) * nc)], lambda q: E.And(*[E.And(E.at(C, q, k) >= 0, E.at(C, q, k) < Nz * nz) for k in range(2 * na)]), hint=lambda q: [decomp(q, nc, n - 1)])

        # no unused points (witness form): section point cells(c, k) in layer l is a corner of the new cell over c
        # in layer l (first half) if l < n-1, and of the new cell over c in layer l-1 (second half) if l >= 1
        def used(l, c):
            lo = guard(E, l < nz - 1, lambda: E.And(*[E.eq(E.at(C, l * ncz + c, k), l * Nz + E.at(m.cells, c, k)) for k in range(na)]))
            up = guard(E, l >= 1, lambda: E.And(*[E.eq(E.at(C, (l - 1) * ncz + c, na + _perm(ct, na, k)), l * Nz + E.at(m.cells, c, k)) for k in range(na)]))  # _perm is an involution
            return E.Or(lo, up)

        fa(E, f"{tag}/no-unused-points: point l*N + cells(c,k) is a corner of cell l*nc + c (l < n-1) or (l-1)*nc + c (l >= 1)", [("l", n), ("c", nc)], used, hint=lambda l, c: [euclid(l, nc, c), euclid(l - 1, nc, c)])
        if thick == "scalar" and cols > ax - drop >= 0:
            jo = ax - drop
            zz = E.val(z)
            fa(E, f"{tag}/no-coincident-layers: z != 0 and equal coordinates along the axis => same layer", [("l", n), ("p", N), ("l2", n), ("p2", N)], lambda l, p, l2, p2: E.Implies(E.And(E.Not(E.eq(zz, 0)), E.eq(E.at(m.points, p, ax) if ax < dim else 0.0, E.at(m.points, p2, ax) if ax < dim else 0.0), E.eq(E.at(P, l * Nz + p, jo), E.at(P, l2 * Nz + p2, jo))), E.eq(l, l2)), hint=lambda l, p, l2, p2: [euclid(l, N, p), euclid(l2, N, p2)])
        if first:
            first = False
            E.canary("second-half-in-section-order" if ct == "line" else "second-half-in-the-same-layer", rc, lambda l, c: E.And(*[E.eq(E.at(C, l * ncz + c, na + k), E.at(m.cells, c, k) + Nz * ((l + 1) if ct == "line" else l)) for k in range(na)]))
            E.canary("layer-offset-is-N-1", rc, lambda l, c: E.eq(E.at(C, l * ncz + c, 0), E.at(m.cells, c, 0) + (Nz - 1) * l))
        if thick == "scalar" and axis == dim_new - 1:
            E.canary("z_l==l*z/n", [("l", n), ("p", N)], lambda l, p: _req(E, E.at(P, l * Nz + p, cols - 1), (E.at(m.points, p, ax) if ax < dim else 0.0) + _lin(E, 0, E.val(z), l, nz + 1)))
    # no expansion: n in {0, 1}
    for n1 in (1, 0):
        E.scope()
        tag = f"expand[{ct},dim={dim},expand_dim={int(xd)},n={n1}]"
        N, nc = E.size("N", 1), E.size("nc", 1)
        m = F.mesh(E, "s", na, npoints=N, ncells=nc, mdim=dim, points=True)
        z = E.real("z")
        with E.run(MT, all=dict(len=E.len)):
            P, C, new_ct = MT.expand(m.points, m.cells, ct, n=n1, z=z, expand_dim=xd)
        E.check(f"{tag}/cell_type unchanged", new_ct == ct, f"{new_ct!r}")
        ok = _shape_is(P, (N, dim_new)) and _shape_is(C, (nc, na))
        E.check(f"{tag}/shapes", ok, f"{P.shape} {C.shape}")
        if not ok:
            continue
        E.forall(f"{tag}/points == pad(X)", [("p", N)], lambda p: E.And(*[_req(E, E.at(P, p, j), E.at(m.points, p, j) if j < dim else 0.0) for j in range(dim_new)]))
        E.forall(f"{tag}/cells unchanged", [("c", nc)], lambda c: E.And(*[E.eq(E.at(C, c, k), E.at(m.cells, c, k)) for k in range(na)]))


EXP_CFG = [
    dict(ct="vertex", dim=1, expand_dim=True),
    dict(ct="vertex", dim=2, expand_dim=True),
    dict(ct="vertex", dim=2, expand_dim=False),
    dict(ct="line", dim=1, expand_dim=True),
    dict(ct="line", dim=1, expand_dim=False),
    dict(ct="line", dim=2, expand_dim=True),
    dict(ct="line", dim=2, expand_dim=False),
    dict(ct="quad", dim=2, expand_dim=True),
    dict(ct="quad", dim=2, expand_dim=False),
    dict(ct="quad", dim=3, expand_dim=False),
]
EXP_CFG += [dict(c, axes="all", tier="thorough") for c in EXP_CFG]  # every negative alias of the axis as well


@contract("C16", "e3_expand", configs=EXP_CFG, engine="E3")
def e3_expand(vk, cfg):
    """mesh.expand on an opaque section mesh with a symbolic number of layers"""
    vk.real(MT.expand)
    X.paired(vk, _expand, cfg)


# ------------------------------------------------------------------------------------------------ line_line
def _line(E, cfg):
    _lemmas(E)
    E.scope()
    n = E.size("n", 2)
    a, b = E.real("a"), E.real("b")
    with E.run(ML, MT, all=dict(len=E.len)):
        P, C, ct = ML.line_line(a=a, b=b, n=n)
    nz = E.val(n)
    tag = "line_line"
    E.check(f"{tag}/cell_type", ct == "line", repr(ct))
    ok = _shape_is(P, (n, 1)) and _shape_is(C, (n - 1, 2))
    E.check(f"{tag}/shapes", ok, f"{P.shape} == (n, 1), {C.shape} == (n-1, 2)")
    if ok:
        E.forall(f"{tag}/points[i] == a + i (b-a)/(n-1)", [("i", n)], lambda i: _req(E, E.at(P, i, 0), _lin(E, E.val(a), E.val(b), i, nz)))
        E.forall(f"{tag}/cells[i] == (i, i+1)", [("i", n - 1)], lambda i: E.And(E.eq(E.at(C, i, 0), i), E.eq(E.at(C, i, 1), i + 1)))
        E.forall(f"{tag}/cells: every entry in [0, n)", [("i", n - 1)], lambda i: E.And(*[E.And(E.at(C, i, k) >= 0, E.at(C, i, k) < nz) for k in range(2)]))
        E.forall(f"{tag}/no-unused-points: point i is the first corner of cell i (i < n-1) or the second corner of cell i-1 (i >= 1)", [("i", n)], lambda i: E.Or(guard(E, i < nz - 1, lambda: E.eq(E.at(C, i, 0), i)), guard(E, i >= 1, lambda: E.eq(E.at(C, i - 1, 1), i))))
        E.forall(f"{tag}/end points are a and b", [("i", 1)], lambda i: E.And(_req(E, E.at(P, 0, 0), E.val(a)), _req(E, E.at(P, nz - 1, 0), E.val(b))))
        E.forall(f"{tag}/no-coincident-points: a != b => distinct abscissae", [("i", n), ("j", n)], lambda i, j: E.Implies(E.And(E.Not(E.eq(E.val(a), E.val(b))), E.eq(E.at(P, i, 0), E.at(P, j, 0))), E.eq(i, j)))
        E.canary("cells[i]==(i,i)", [("i", n - 1)], lambda i: E.eq(E.at(C, i, 1), i))
        E.canary("points[i]==a+i(b-a)/n", [("i", n)], lambda i: _req(E, E.at(P, i, 0), _lin(E, E.val(a), E.val(b), i, nz + 1)))
    # n == 1: a single point, no cell
    E.scope()
    a, b = E.real("a"), E.real("b")
    with E.run(ML, MT, all=dict(len=E.len)):
        P, C, ct = ML.line_line(a=a, b=b, n=1)
    ok = _shape_is(P, (1, 1)) and _shape_is(C, (0, 2))
    E.check("line_line[n=1]/one point, no cell", ok and ct == "line", f"{P.shape} {C.shape}")
    if ok:
        E.forall("line_line[n=1]/the point is a", [("i", 1)], lambda i: _req(E, E.at(P, 0, 0), E.val(a)))


@contract("C16", "e3_line", configs=[dict(gen="line_line")], engine="E3")
def e3_line(vk, cfg):
    """line_line for a symbolic number of points"""
    vk.real(ML.line_line)
    X.paired(vk, _line, cfg)


# ------------------------------------------------------------------------------------------------ rectangle / cube
QUAD = [(0, 0), (1, 0), (1, 1), (0, 1)]  # counter-clockwise corners of the reference quad (felupe / VTK)


def _rectangle(E, cfg):
    _lemmas(E)
    E.scope()
    scalar = cfg["n"] == "scalar"
    tag = f"rectangle_quad[n={cfg['n']}]"
    if scalar:
        n0 = n1 = E.size("n", 2)
        narg = n0
    else:
        n0, n1 = E.size("n0", 2), E.size("n1", 2)
        narg = {"tuple": tuple, "list": list, "ndarray": _obj}[cfg["n"]]((n0, n1))
    a, b = (E.real("a0"), E.real("a1")), (E.real("b0"), E.real("b1"))
    with E.run(ML, MT, all=dict(len=E.len)):
        P, C, ct = ML.rectangle_quad(a=a, b=b, n=narg)
    z0, z1 = E.val(n0), E.val(n1)
    E.check(f"{tag}/cell_type", ct == "quad", repr(ct))
    ok = _shape_is(P, (n0 * n1, 2)) and _shape_is(C, ((n0 - 1) * (n1 - 1), 4))
    E.check(f"{tag}/shapes", ok, f"{P.shape} == (n0*n1, 2), {C.shape} == ((n0-1)*(n1-1), 4)")
    if not ok:
        return
    rp = [("l1", n1), ("l0", n0)]
    fa(E, f"{tag}/points[l1*n0+l0] == (a0 + l0 (b0-a0)/(n0-1), a1 + l1 (b1-a1)/(n1-1))", rp, lambda l1, l0: E.And(_req(E, E.at(P, l1 * z0 + l0, 0), _lin(E, E.val(a[0]), E.val(b[0]), l0, z0)), _req(E, E.at(P, l1 * z0 + l0, 1), _lin(E, E.val(a[1]), E.val(b[1]), l1, z1))), hint=lambda l1, l0: [euclid(l1, n0, l0)])
    fa(E, f"{tag}/points: every row index m < n0*n1 is l1*n0 + l0", [("m", n0 * n1)], lambda q: E.And(E.div(q, z0) >= 0, E.div(q, z0) < z1, E.mod(q, z0) >= 0, E.mod(q, z0) < z0, E.eq(q, E.div(q, z0) * z0 + E.mod(q, z0))), hint=lambda q: [decomp(q, n0, n1)])
    rc = [("l1", n1 - 1), ("l0", n0 - 1)]
    fa(E, f"{tag}/cells[l1*(n0-1)+l0] == grid cell (l0, l1) counter-clockwise", rc, lambda l1, l0: E.And(*[E.eq(E.at(C, l1 * (z0 - 1) + l0, k), (l1 + f) * z0 + l0 + e) for k, (e, f) in enumerate(QUAD)]), hint=lambda l1, l0: [euclid(l1, n0 - 1, l0)])
    fa(E, f"{tag}/cells: every entry in [0, n0*n1)", [("m", (n1 - 1) * (n0 - 1))], lambda q: E.And(*[E.And(E.at(C, q, k) >= 0, E.at(C, q, k) < z0 * z1) for k in range(4)]), hint=lambda q: [decomp(q, n0 - 1, n1 - 1)])

    def used(l1, l0):  # point (l0, l1) is corner k = (e, f) of the grid cell (l0 - e, l1 - f), where that cell exists
        return E.Or(*[guard(E, E.And(l0 - e >= 0, l0 - e < z0 - 1, l1 - f >= 0, l1 - f < z1 - 1), lambda k=k, e=e, f=f: E.eq(E.at(C, (l1 - f) * (z0 - 1) + (l0 - e), k), l1 * z0 + l0)) for k, (e, f) in enumerate(QUAD)])

    fa(E, f"{tag}/no-unused-points: point (l0, l1) is corner (e, f) of an existing grid cell (l0-e, l1-f)", rp, used, hint=lambda l1, l0: [euclid(l1 - f, n0 - 1, l0 - e) for e, f in QUAD])
    E.canary("clockwise-cells", rc, lambda l1, l0: E.eq(E.at(C, l1 * (z0 - 1) + l0, 1), (l1 + 1) * z0 + l0))
    E.canary("offset-a1-forgotten", rp, lambda l1, l0: _req(E, E.at(P, l1 * z0 + l0, 1), _lin(E, 0.0, E.val(b[1]) - E.val(a[1]), l1, z1)))


def _obj(t):
    r = np.empty(len(t), dtype=object)
    for i, v in enumerate(t):
        r[i] = v
    return r


RECT_CFG = [dict(n="scalar"), dict(n="tuple"), dict(n="list"), dict(n="ndarray")]


@contract("C16", "e3_rectangle", configs=RECT_CFG, engine="E3")
def e3_rectangle(vk, cfg):
    """rectangle_quad = line_line + expand + offset, symbolic points per axis"""
    vk.real(ML.rectangle_quad)
    vk.real(ML.line_line)
    vk.real(MT.expand)
    X.paired(vk, _rectangle, cfg)


HEXA = [(0, 0, 0), (1, 0, 0), (1, 1, 0), (0, 1, 0), (0, 0, 1), (1, 0, 1), (1, 1, 1), (0, 1, 1)]


def _cube(E, cfg):
    _lemmas(E)
    E.scope()
    scalar = cfg["n"] == "scalar"
    tag = f"cube_hexa[n={'scalar' if scalar else 'per-axis'}]"
    if scalar:
        n0 = n1 = n2 = E.size("n", 2)
        narg = n0
    else:
        n0, n1, n2 = E.size("n0", 2), E.size("n1", 2), E.size("n2", 2)
        narg = (n0, n1, n2)
    a, b = tuple(E.real(f"a{i}") for i in range(3)), tuple(E.real(f"b{i}") for i in range(3))
    with E.run(ML, MT, all=dict(len=E.len)):
        P, C, ct = ML.cube_hexa(a=a, b=b, n=narg)
    z0, z1, z2 = E.val(n0), E.val(n1), E.val(n2)
    E.check(f"{tag}/cell_type", ct == "hexahedron", repr(ct))
    ok = _shape_is(P, (n0 * n1 * n2, 3)) and _shape_is(C, ((n0 - 1) * (n1 - 1) * (n2 - 1), 8))
    E.check(f"{tag}/shapes", ok, f"{P.shape} == (n0*n1*n2, 3), {C.shape} == ((n0-1)*(n1-1)*(n2-1), 8)")
    if not ok:
        return
    NN = z0 * z1  # points per layer
    MM = (z0 - 1) * (z1 - 1)  # cells per layer
    rp = [("l2", n2), ("l1", n1), ("l0", n0)]
    row = lambda l2, l1, l0: l2 * NN + (l1 * z0 + l0)  # noqa: E731
    ls = lambda l2, l1, l0: (l0, l1, l2)  # noqa: E731
    hp = lambda l2, l1, l0: [euclid(l1, n0, l0), euclid(l2, n0 * n1, l1 * X.zdim(n0) + l0), z3.Implies(z3.And(l1 >= 0, l1 < X.zdim(n1), l0 >= 0, l0 < X.zdim(n0)), z3.And(l1 * X.zdim(n0) + l0 >= 0, l1 * X.zdim(n0) + l0 < X.zdim(n0 * n1)))]  # noqa: E731
    fa(E, f"{tag}/lemma: 0 <= l1*n0 + l0 < n0*n1", rp[1:], lambda l1, l0: E.And(l1 * z0 + l0 >= 0, l1 * z0 + l0 < z0 * z1))
    for j in range(3):
        fa(E, f"{tag}/points[(l2*n1+l1)*n0+l0, {j}] == a{j} + l{j} (b{j}-a{j})/(n{j}-1)", rp, lambda l2, l1, l0, j=j: _req(E, E.at(P, row(l2, l1, l0), j), _lin(E, E.val(a[j]), E.val(b[j]), ls(l2, l1, l0)[j], (z0, z1, z2)[j])), hint=hp)
    rc = [("l2", n2 - 1), ("l1", n1 - 1), ("l0", n0 - 1)]
    crow = lambda l2, l1, l0: l2 * MM + (l1 * (z0 - 1) + l0)  # noqa: E731
    hc = lambda l2, l1, l0: [euclid(l1, n0 - 1, l0), euclid(l2, (n0 - 1) * (n1 - 1), l1 * X.zdim(n0 - 1) + l0), z3.Implies(z3.And(l1 >= 0, l1 < X.zdim(n1 - 1), l0 >= 0, l0 < X.zdim(n0 - 1)), z3.And(l1 * X.zdim(n0 - 1) + l0 >= 0, l1 * X.zdim(n0 - 1) + l0 < X.zdim((n0 - 1) * (n1 - 1))))]  # noqa: E731
    fa(E, f"{tag}/lemma: 0 <= l1*(n0-1) + l0 < (n0-1)*(n1-1)", rc[1:], lambda l1, l0: E.And(l1 * (z0 - 1) + l0 >= 0, l1 * (z0 - 1) + l0 < (z0 - 1) * (z1 - 1)))
    cells_proved = True
    for k, (e, f, g) in enumerate(HEXA):
        cells_proved &= "discharged" == fa(E, f"{tag}/cells[(l2*(n1-1)+l1)*(n0-1)+l0, {k}] == grid point (l0+{e}, l1+{f}, l2+{g})", rc, lambda l2, l1, l0, k=k, e=e, f=f, g=g: E.eq(E.at(C, crow(l2, l1, l0), k), row(l2 + g, l1 + f, l0 + e)), hint=hc)
    Z0, Z1, Z2 = X.zdim(n0), X.zdim(n1), X.zdim(n2)
    fa(E, f"{tag}/points: every row index m < n0*n1*n2 is (l2*n1 + l1)*n0 + l0 with l_j < n_j", [("m", n0 * n1 * n2)], lambda q: E.And(E.div(q, NN) >= 0, E.div(q, NN) < z2, E.div(E.mod(q, NN), z0) >= 0, E.div(E.mod(q, NN), z0) < z1, E.mod(E.mod(q, NN), z0) >= 0, E.mod(E.mod(q, NN), z0) < z0, E.eq(q, row(E.div(q, NN), E.div(E.mod(q, NN), z0), E.mod(E.mod(q, NN), z0)))), hint=lambda q: [decomp(q, n0 * n1, n2), decomp(q % (Z0 * Z1), n0, n1)])
    fa(E, f"{tag}/cells: every row index m < (n0-1)*(n1-1)*(n2-1) is (l2*(n1-1) + l1)*(n0-1) + l0 with l_j < n_j - 1", [("m", (n0 - 1) * (n1 - 1) * (n2 - 1))], lambda q: E.And(E.div(q, MM) >= 0, E.div(q, MM) < z2 - 1, E.div(E.mod(q, MM), z0 - 1) >= 0, E.div(E.mod(q, MM), z0 - 1) < z1 - 1, E.mod(E.mod(q, MM), z0 - 1) >= 0, E.mod(E.mod(q, MM), z0 - 1) < z0 - 1, E.eq(q, crow(E.div(q, MM), E.div(E.mod(q, MM), z0 - 1), E.mod(E.mod(q, MM), z0 - 1)))), hint=lambda q: [decomp(q, (n0 - 1) * (n1 - 1), n2 - 1), decomp(q % ((Z0 - 1) * (Z1 - 1)), n0 - 1, n1 - 1)])
    fa(E, f"{tag}/lemma: 0 <= (l2*n1 + l1)*n0 + l0 < n0*n1*n2", rp, lambda l2, l1, l0: E.And(row(l2, l1, l0) >= 0, row(l2, l1, l0) < z0 * z1 * z2), hint=lambda l2, l1, l0: hp(l2, l1, l0)[2:])
    for k, (e, f, g) in enumerate(HEXA):
        fa(E, f"{tag}/cells[., {k}] in [0, n0*n1*n2)", rc, lambda l2, l1, l0, k=k: E.And(E.at(C, crow(l2, l1, l0), k) >= 0, E.at(C, crow(l2, l1, l0), k) < z0 * z1 * z2), hint=lambda l2, l1, l0, e=e, f=f, g=g: hc(l2, l1, l0) + hp(l2 + g, l1 + f, l0 + e)[2:] + [z3.Implies(z3.And(l2 + g >= 0, l2 + g < Z2, l1 + f >= 0, l1 + f < Z1, l0 + e >= 0, l0 + e < Z0), z3.And(row(l2 + g, l1 + f, l0 + e) >= 0, row(l2 + g, l1 + f, l0 + e) < Z0 * Z1 * Z2))])

    def used(l2, l1, l0):  # point (l0, l1, l2) is corner k = (e, f, g) of the grid cell (l0-e, l1-f, l2-g), where that cell exists
        return E.Or(*[guard(E, E.And(l0 - e >= 0, l0 - e < z0 - 1, l1 - f >= 0, l1 - f < z1 - 1, l2 - g >= 0, l2 - g < z2 - 1), lambda k=k, e=e, f=f, g=g: E.eq(E.at(C, crow(l2 - g, l1 - f, l0 - e), k), row(l2, l1, l0))) for k, (e, f, g) in enumerate(HEXA)])

    # hypotheses: the instances (l2-g, l1-f, l0-e) of the cells clauses proved above -- only if every one of them was
    # discharged -- (the claim then is the covering argument: for n_j >= 2 every l_j < n_j has l_j < n_j - 1 or l_j - 1 >= 0)
    def cell_instances(l2, l1, l0):
        return [z3.Implies(z3.And(l0 - e >= 0, l0 - e < Z0 - 1, l1 - f >= 0, l1 - f < Z1 - 1, l2 - g >= 0, l2 - g < Z2 - 1), E.at(C, crow(l2 - g, l1 - f, l0 - e), k) == row(l2, l1, l0)) for k, (e, f, g) in enumerate(HEXA)]

    fa(E, f"{tag}/no-unused-points: point (l0, l1, l2) is corner (e, f, g) of an existing grid cell (l0-e, l1-f, l2-g)", rp, used, hint=cell_instances if cells_proved else None)
    E.canary("top-face-clockwise", rc, lambda l2, l1, l0: E.eq(E.at(C, crow(l2, l1, l0), 5), row(l2 + 1, l1 + 1, l0)))
    E.canary("offset-a2-forgotten", rp, lambda l2, l1, l0: _req(E, E.at(P, row(l2, l1, l0), 2), _lin(E, 0.0, E.val(b[2]) - E.val(a[2]), l2, z2)))


@contract("C16", "e3_cube", configs=[dict(n="per-axis"), dict(n="scalar")], engine="E3")
def e3_cube(vk, cfg):
    """cube_hexa = rectangle_quad + expand + offset, symbolic points per axis"""
    vk.real(ML.cube_hexa)
    vk.real(ML.rectangle_quad)
    vk.real(ML.line_line)
    vk.real(MT.expand)
    X.paired(vk, _cube, cfg)


# ------------------------------------------------------------------------------------------------ concatenate / stack
class _Rec:
    """records the arguments of the Mesh constructor call (callee: Mesh.__init__, under contract in c16_mesh_methods)"""

    def __init__(s, points, cells, cell_type):
        s.points, s.cells, s.cell_type = points, cells, cell_type


def _sym_int(x):
    """stand-in for the builtin `int` bound into the module: a symbolic size is an integer"""
    return x if isinstance(x, X.SZ) else int(x)


def _join(E, cfg):
    from types import SimpleNamespace

    k, na, dim = cfg["meshes"], cfg["na"], cfg["dim"]
    E.scope()
    Ns, ncs, ms = [], [], []
    for i in range(k):
        Ns.append(E.size(f"N{i}", 1))
        ncs.append(E.size(f"nc{i}", 1))
        m = F.mesh(E, f"m{i}", na, npoints=Ns[i], ncells=ncs[i], mdim=dim, points=True)
        ms.append(SimpleNamespace(points=m.points, cells=m.cells, npoints=Ns[i], cell_type="ct", __mesh__=_Rec))
    snaps = _snap(E, *[a for m in ms for a in (m.points, m.cells)])
    with E.run(MT, all=dict(len=E.len, int=_sym_int)):
        out = MT.concatenate(ms)
    OFF, COFF = [0], [0]
    for i in range(k):
        OFF.append(X.norm(OFF[-1] + Ns[i]))
        COFF.append(X.norm(COFF[-1] + ncs[i]))
    tag = f"concatenate[{k} meshes,na={na},dim={dim}]"
    ok = _shape_is(out.points, (OFF[-1], dim)) and _shape_is(out.cells, (COFF[-1], na)) and out.cell_type == "ct"
    E.check(f"{tag}/shapes: points (sum N_i, dim), cells (sum nc_i, na), cell type of the first mesh", ok, f"{out.points.shape} {out.cells.shape}")
    E.check(f"{tag}/frame: the given meshes are not written", _unchanged(E, [a for m in ms for a in (m.points, m.cells)], snaps), "")
    if ok:
        for i in range(k):
            oi, ci = E.val(OFF[i]), E.val(COFF[i])
            E.forall(f"{tag}/points[OFF_{i} + p] == points_{i}[p]", [("p", Ns[i])], lambda p, i=i, oi=oi: E.And(*[_req(E, E.at(out.points, oi + p, j), E.at(ms[i].points, p, j)) for j in range(dim)]))
            E.forall(f"{tag}/cells[COFF_{i} + c] == cells_{i}[c] + OFF_{i} (the same points as before), inside block {i}", [("c", ncs[i])], lambda c, i=i, oi=oi, ci=ci: E.And(*[E.And(E.eq(E.at(out.cells, ci + c, a), E.at(ms[i].cells, c, a) + oi), E.at(out.cells, ci + c, a) >= oi, E.at(out.cells, ci + c, a) < oi + E.val(Ns[i])) for a in range(na)]))
        E.canary("second-block-without-offset", [("c", ncs[1])], lambda c: E.eq(E.at(out.cells, E.val(COFF[1]) + c, 0), E.at(ms[1].cells, c, 0)))
    # stack: identical points arrays (the first is taken), cell blocks stacked without offsets
    E.scope()
    N = E.size("N", 1)
    ncs, ms = [], []
    Xp = E.reals("X", (N, dim))
    for i in range(k):
        ncs.append(E.size(f"nc{i}", 1))
        ms.append(SimpleNamespace(points=Xp, cells=E.ints(f"cells{i}", (ncs[i], na), 0, N), npoints=N, cell_type="ct", __mesh__=_Rec))
    with E.run(MT, all=dict(len=E.len, int=_sym_int)):
        out = MT.stack(ms)
    COFF = [0]
    for i in range(k):
        COFF.append(X.norm(COFF[-1] + ncs[i]))
    tag = f"stack[{k} meshes,na={na},dim={dim}]"
    ok = out.points is Xp and _shape_is(out.cells, (COFF[-1], na)) and out.cell_type == "ct"
    E.check(f"{tag}/points is the first mesh's array, cells (sum nc_i, na)", ok, f"{out.cells.shape}")
    if ok:
        for i in range(k):
            ci = E.val(COFF[i])
            E.forall(f"{tag}/cells[COFF_{i} + c] == cells_{i}[c]", [("c", ncs[i])], lambda c, i=i, ci=ci: E.And(*[E.eq(E.at(out.cells, ci + c, a), E.at(ms[i].cells, c, a)) for a in range(na)]))
        E.canary("stack-adds-offsets", [("c", ncs[1])], lambda c: E.eq(E.at(out.cells, E.val(COFF[1]) + c, 0), E.at(ms[1].cells, c, 0) + E.val(N)))


@contract("C16", "e3_join", configs=[dict(meshes=2, na=4, dim=2), dict(meshes=3, na=8, dim=3), dict(meshes=3, na=3, dim=2), dict(meshes=2, na=2, dim=1)], engine="E3")
def e3_join(vk, cfg):
    """mesh.concatenate / mesh.stack of meshes with symbolic numbers of points and cells"""
    vk.real(MT.concatenate)
    vk.real(MT.stack)
    X.paired(vk, _join, cfg)
