"""C12 (plane laws vs the 3D law) -- `LinearElasticPlaneStress` / `LinearElasticPlaneStrain` `.strain(x)` and
`.stress(x)` return the 3x3 strain and stress tensors belonging to the in-plane displacement gradient.

Clause ("plane stress and plane strain [agree] with the 3D law under the corresponding constraint"): they are
the 3D isotropic linear-elastic law  sigma = 2 mu eps + lambda tr(eps) 1  (Lame constants of E, nu) restricted
by the plane assumption: plane strain  eps_i3 = 0;  plane stress  sigma_i3 = 0  (=> eps_33 = -nu/(1-nu)
(eps_11 + eps_22));  eps in-plane = sym(F - 1);  the in-plane block of `stress` is what `gradient` returns, and
`gradient` itself is the in-plane block of the 3D law.  Symbolic E, nu and symbolic in-plane deformation
gradient at Q x C = 2 x 1 batch points (distinct symbols per point).
"""
import numpy as np

import felupe as fem
from contracts.c03_materials import C, Q, bc
from vk.core import contract
from vk.ring import LP

TRUSTED = [
    "C12 (plane laws): the 3D isotropic law sigma = 2 mu eps + lambda tr(eps) 1 with lambda = E nu / ((1 + nu)(1 - 2 nu)), mu = E / (2 (1 + nu)) is the specification (closed form); 1 - nu, 1 + nu, 1 - 2 nu non-zero is implied by admissible elastic constants",
]


def _lame(E, nu):
    return E * nu / ((1 + nu) * (1 - 2 * nu)), E / (2 * (1 + nu))


def _F2(vk):
    near = np.broadcast_to(np.eye(2).reshape(2, 2, 1, 1), (2, 2, Q, C))
    return vk.reals("F", (2, 2, Q, C), near=near, spread=0.25)


@contract("C12", "plane_outofplane", configs=[dict(model="LinearElasticPlaneStress"), dict(model="LinearElasticPlaneStrain")])
def plane_outofplane(vk, cfg):
    """strain(x), stress(x): the 3x3 tensors of the 3D law under the plane-stress / plane-strain assumption"""
    cls = getattr(fem.constitution, cfg["model"])
    E, nu = vk.real_scalar("E", near=2.0), vk.real_scalar("nu", near=0.3, spread=0.1)
    umat = cls(E=E, nu=nu)
    vk.real(cls.strain)
    vk.real(cls.stress)
    vk.real(cls.gradient)
    F = _F2(vk)
    F0 = vk.snapshot(F)
    lam, mu = _lame(E, nu)
    eye2 = np.eye(2).reshape(2, 2, 1, 1)
    H = F - eye2
    e2 = (H + np.swapaxes(H, 0, 1)) / 2
    eps = np.zeros((3, 3, Q, C), dtype=object if vk.sym else float)
    if vk.sym:
        eps[...] = LP()
    eps[:2, :2] = e2
    if cfg["model"] == "LinearElasticPlaneStress":
        # sigma_33 = 2 mu eps_33 + lambda (eps_11 + eps_22 + eps_33) = 0
        eps[2, 2] = -lam / (lam + 2 * mu) * (e2[0, 0] + e2[1, 1])
    tr = eps[0, 0] + eps[1, 1] + eps[2, 2]
    sig = 2 * mu * eps
    for i in range(3):
        sig[i, i] = sig[i, i] + lam * tr
    x = [F, None]
    e = umat.strain(x)
    s = umat.stress(x)
    P = umat.gradient(x)[0]
    if vk.sym:
        vk.ensures_true("strain/stress return one-item lists", isinstance(e, list) and isinstance(s, list) and len(e) == 1 and len(s) == 1, f"{type(e).__name__}, {type(s).__name__}", backend="exec")
    vk.ensures_eq("strain==3D strain under the plane assumption", bc(e[0], (3, 3, Q, C)), eps)
    vk.ensures_eq("stress==2 mu eps + lambda tr(eps) 1", bc(s[0], (3, 3, Q, C)), sig)
    vk.ensures_eq("stress[in-plane]==gradient", bc(s[0], (3, 3, Q, C))[:2, :2], bc(P, (2, 2, Q, C)))
    if cfg["model"] == "LinearElasticPlaneStress":
        vk.ensures_zero("plane-stress: sigma_i3==0", np.concatenate([bc(s[0], (3, 3, Q, C))[2, :].ravel(), bc(s[0], (3, 3, Q, C))[:2, 2].ravel()]))
        vk.ensures_eq("plane-stress: eps_33 (1-nu)==-nu (eps_11+eps_22)", bc(e[0], (3, 3, Q, C))[2, 2] * (1 - nu), -nu * (e2[0, 0] + e2[1, 1]))
    else:
        vk.ensures_zero("plane-strain: eps_i3==0", np.concatenate([bc(e[0], (3, 3, Q, C))[2, :].ravel(), bc(e[0], (3, 3, Q, C))[:2, 2].ravel()]))
        vk.ensures_eq("plane-strain: sigma_33==nu (sigma_11+sigma_22)", bc(s[0], (3, 3, Q, C))[2, 2], nu * (sig[0, 0] + sig[1, 1]))
    # the gradient itself is the in-plane block of the 3D law (links the C03 `linear` contract to the 3D law)
    vk.ensures_eq("gradient==in-plane block of the 3D law", bc(P, (2, 2, Q, C)), sig[:2, :2])
    vk.frame_unchanged("x[0]", F, F0)
    if vk.sym:
        vk.canary("stress_33 of plane strain vanishes / eps_33 of plane stress vanishes", sig[2, 2] + eps[2, 2], 0 * sig[2, 2])


