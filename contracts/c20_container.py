"""C20 (continued) -- the export / import / copy methods of `MeshContainer` and the PyVista exchange that the file
contracts of contracts/c20_files.py do not reach.

  * E1 on stubbed meshio (the recorder of c20_files.py; meshio contract A3: it stores what it is handed):
    `MeshContainer.as_meshio(combined=True / False, **kwargs)` -- the points handed to meshio ARE the container's
    one shared points array, every cell of every mesh arrives under its own cell type with the coordinates it
    has in the mesh it came from (combined: one block per cell type, rows stacked in mesh order; not combined:
    one block per mesh, in order), keyword arguments are forwarded; for all point coordinates.
  * E1: `MeshContainer.copy()` is deep -- equal to the original, nothing shared with it (modifying either side
    in place, appending / popping meshes leaves the other side unchanged), and the copy's meshes still refer to
    ONE shared points array.
  * G (ground, PyVista importable in the checker's environment; executed natively on exact binary rationals):
    `Mesh.as_unstructured_grid` -> `MeshContainer.from_unstructured_grid` gives back identical points, cells and
    cell type for every cell type of `mesh.cell_types()`; mixed grids: one mesh per cell type, cell types mapped
    back through the table, all meshes on one shared points array; `dim=` cuts the columns, `**kwargs`
    (merge / decimals) reach the container.
  * B (bounded, never counted): container.as_meshio(...).write -> mesh.read through the real meshio.
"""
import os
import tempfile
import warnings

import numpy as np

import felupe as fem
import felupe.mesh._read as MR
from contracts import c20_files as c20
from contracts.c20_files import MeshioRecorder, stubbed_meshio
from felupe import mesh as fm
from vk import symnp
from vk.core import contract

TRUSTED = [
    "C20/container: meshio is external (A3): `meshio.Mesh(points, cells, **kw)` / `meshio.CellBlock(type, data)` store what they are handed (recorder stub of c20_files.py); the real library is only exercised by the bounded round trips",
    "C20/container: PyVista / VTK are external (A3): `pv.UnstructuredGrid(cells, cell_types, points)` and `pv.UnstructuredGrid({cell_type: cells}, points)` store what they are handed; `grid.points` / `grid.cells_dict` return the points and, per VTK cell type present, the connectivity rows of the cells of that type in grid order",
    "C20/container: copy.deepcopy semantics of CPython (memo: objects shared inside the copied structure stay shared inside the copy)",
]


def _mark(vk, cls, name):
    """record a method of /repo as under contract from its own code object (no functools.wraps unwrapping;
    classmethods are unwrapped to their function)"""
    import types

    f = cls.__dict__[name]
    f = getattr(f, "__func__", f)
    g = types.FunctionType(f.__code__, f.__globals__, f.__code__.co_name, f.__defaults__, f.__closure__)
    vk.real(g, alias=f"{cls.__module__}.{cls.__qualname__}.{name}")


def _same(vk, clause, got, want, backend="exec"):
    ok = c20_same(got, want)
    vk.ensures_true(clause, ok, "" if ok else f"got {got!r}, expected {want!r}"[:500], backend=backend)


def c20_same(a, b):
    if isinstance(a, np.ndarray) or isinstance(b, np.ndarray):
        a_, b_ = np.asarray(a), np.asarray(b)
        return a_.shape == b_.shape and bool(np.all(a_ == b_))
    if isinstance(a, (tuple, list)) and isinstance(b, (tuple, list)):
        return len(a) == len(b) and all(c20_same(x, y) for x, y in zip(a, b))
    return bool(a == b)


def _sym_meshes(vk, dim):
    """three small meshes with free point coordinates; the first and the last have the same cell type"""
    if dim == 2:
        spec = [("quad", 6, [[0, 1, 4, 3], [1, 2, 5, 4]]), ("triangle", 4, [[0, 1, 2], [1, 3, 2]]), ("quad", 4, [[3, 2, 1, 0]])]
    else:
        spec = [("tetra", 5, [[0, 1, 2, 3], [1, 2, 3, 4]]), ("hexahedron", 8, [[0, 1, 2, 3, 4, 5, 6, 7]]), ("tetra", 4, [[0, 2, 1, 3]])]
    out = []
    for i, (ct, n, conn) in enumerate(spec):
        X = vk.reals(f"X{i}", (n, dim), near=np.arange(n * dim).reshape(n, dim) * 0.31 + i, spread=0.3)
        out.append(fem.Mesh(X, np.array(conn), ct))
    return out


# ================================================================================================ as_meshio
AS_MESHIO_CFG = [dict(dim=d, combined=c, kw=k) for d, c, k in ((2, True, False), (2, False, True), (3, True, True), (3, False, False))] + [dict(dim=2, combined=c, kw=False, meshes=1) for c in (True, False)]


@contract("C20", "MeshContainer.as_meshio", configs=AS_MESHIO_CFG, engine="E1")
def container_as_meshio(vk, cfg):
    """what MeshContainer.as_meshio hands to meshio: the container's ONE points array and every cell of every
    mesh under its own cell type, referring to the coordinates it has in the mesh it came from"""
    _mark(vk, fem.MeshContainer, "as_meshio")
    vk.real(fem.MeshContainer.__init__)
    vk.real(fem.MeshContainer.cells)
    ins = _sym_meshes(vk, cfg["dim"])[: cfg.get("meshes", 3)]
    coords = [vk.snapshot(m.points[m.cells]) for m in ins]
    stacked = vk.snapshot(np.vstack([m.points for m in ins]))
    cont = fem.MeshContainer(ins)
    cells_before = [m.cells.copy() for m in cont.meshes]
    extra = {"point_data": {"a": np.arange(len(stacked))}, "field_data": {"tag": np.array([1, 2])}} if cfg["kw"] else {}
    with stubbed_meshio(MeshioRecorder()) as rec:
        ok, out = c20.returns_normally(vk, "as_meshio(combined=...)", lambda: cont.as_meshio(combined=cfg["combined"], **extra) if not cfg["combined"] or cfg["kw"] else cont.as_meshio(**extra))
    if not ok:
        return
    made = rec.made[0] if len(rec.made) == 1 else None
    if vk.sym:
        _same(vk, "exactly one meshio.Mesh is created and returned; nothing is written", (len(rec.made), out is made, len(rec.written)), (1, True, 0))
    if made is None:
        return
    args, kw = made.args, made.kw
    pts = args[0] if args else kw.get("points")
    cl = args[1] if len(args) > 1 else kw.get("cells")
    if vk.sym:
        _same(vk, "meshio.Mesh(points, cells, **kwargs): the caller's keyword arguments are forwarded (the objects themselves), nothing else is passed", (len(args) + len([k for k in ("points", "cells") if k in kw]), sorted(k for k in kw if k not in ("points", "cells")), all(kw[k] is extra[k] for k in extra)), (2, sorted(extra), True))
        _same(vk, "the points handed over ARE the container's one shared points array (identity), which every mesh of the container refers to", (pts is cont.points, all(m.points is cont.points for m in cont.meshes)), (True, True))
    vk.ensures_eq("points == the meshes' points stacked in order (no padding, no re-ordering)", pts, stacked)
    types = [m.cell_type for m in ins]
    if not cfg["combined"]:
        okb = isinstance(cl, list) and len(cl) == len(ins) and all(isinstance(b, rec.CellBlock) for b in cl)
        if vk.sym:
            _same(vk, "combined=False: a list with one meshio.CellBlock per mesh, in order, with the mesh's cell type and the mesh's own cells array", (okb, [b.type for b in cl] if okb else None, all(b.data is m.cells for b, m in zip(cl, cont.meshes)) if okb else None), (True, types, True))
        if okb:
            for i, b in enumerate(cl):
                vk.ensures_eq(f"combined=False: block {i}: every cell refers to the coordinates it has in mesh {i}", np.asarray(pts)[b.data], coords[i])
    else:
        first = list(dict.fromkeys(types))
        okd = isinstance(cl, dict) and list(cl) == first
        if vk.sym:
            _same(vk, "combined=True: a dict with ONE entry per cell type, in order of first appearance", (okd, list(cl) if isinstance(cl, dict) else None), (True, first))
        if okd:
            for t in first:
                mine = [i for i, x in enumerate(types) if x == t]
                want = np.concatenate([coords[i] for i in mine])
                rows = np.asarray(cl[t])
                if vk.sym:
                    _same(vk, f"combined=True: '{t}': all cells of the meshes of that cell type, stacked in mesh order (row count, points per cell)", rows.shape, want.shape[:2])
                if rows.shape == want.shape[:2]:
                    vk.ensures_eq(f"combined=True: '{t}': every cell refers to the coordinates it has in the mesh it came from", np.asarray(pts)[rows], want)
    vk.frame_unchanged("container.points", cont.points, stacked)
    if vk.sym:
        _same(vk, "the container's meshes are not modified (cells, cell types, number of meshes)", ([m.cells for m in cont.meshes], [m.cell_type for m in cont.meshes]), (cells_before, types))
        if len(ins) > 1:
            vk.canary("mesh 1 keeps the numbering it had before it was put into the container", np.asarray(pts)[ins[1].cells], coords[1])
        else:
            vk.canary("points are doubled", pts, 2 * stacked)


@contract("C20", "MeshContainer.as_meshio(merged)", configs=[dict(nmesh=k) for k in (2, 3)], engine="ground")
def container_as_meshio_merged(vk, cfg):
    """G + B: a container created with merge=True hands meshio its ONE merged points array, every cell keeps its
    (rounded) coordinates; bounded: written through the real meshio and read back"""
    if not vk.sym:
        return
    _mark(vk, fem.MeshContainer, "as_meshio")
    vk.real(fem.MeshContainer.merge_duplicate_points)
    vk.real(MR.read)
    n, bad = 0, []
    with symnp.native(), warnings.catch_warnings():
        warnings.simplefilter("ignore")
        for jitter, dec in ((False, None), (True, 3)):
            for combined in (True, False):
                ins = c20._concrete_meshes(cfg["nmesh"], jitter)
                cont = fem.MeshContainer(ins, merge=True, decimals=dec)
                with stubbed_meshio(MeshioRecorder()) as rec:
                    cont.as_meshio(combined=combined)
                made = rec.made[0]
                pts, cl = made.args[0], made.args[1]
                tag = f"merge=True/jitter={jitter}/decimals={dec}/combined={combined}"
                inp = {"meshes": [(a.cell_type, a.points.tolist(), a.cells.tolist()) for a in ins], "decimals": dec, "combined": combined}
                shared = pts is cont.points and all(m.points is pts for m in cont.meshes)
                uniq = sorted(set(c20._rows(np.vstack([m.points for m in ins]), dec)))
                vk.ensures_true(f"{tag}: meshio gets the ONE shared (merged) points array: every distinct (rounded) point once", shared and sorted(c20._rows(pts)) == uniq, f"shared={shared}, {len(pts)} points, {len(uniq)} distinct", backend="exec", replay=c20._exec_replay(inp, f"{len(uniq)} distinct points, one array", f"{len(pts)} points, shared={shared}"))
                blocks = [(b.type, b.data) for b in cl] if not combined else list(cl.items())
                want = [(a.cell_type, c20._rows(a.points[a.cells].reshape(-1, 2), dec)) for a in ins]
                got = [(t, c20._rows(np.asarray(pts)[np.asarray(d)].reshape(-1, 2))) for t, d in blocks]
                vk.ensures_true(f"{tag}: every cell arrives under its cell type with its (rounded) coordinates", got == want, "", backend="exec", replay=c20._exec_replay(inp, str(want)[:300], str(got)[:300]))
                # bounded: the real meshio
                with tempfile.TemporaryDirectory() as tmp:
                    for ext in c20.FORMATS:
                        path = os.path.join(tmp, f"c.{ext}")
                        try:
                            back = c20._quiet(lambda: (cont.as_meshio(combined=combined).write(path), MR.read(path, dim=2))[1])
                        except Exception as e:  # noqa
                            bad.append(f"{tag}/{ext}: {type(e).__name__} {str(e)[:80]}")
                            continue
                        n += 1
                        rb = [(m.cell_type, c20._rows(back.points[m.cells].reshape(-1, 2))) for m in back.meshes]
                        if rb != got or not all(m.points is back.points for m in back.meshes):
                            bad.append(f"{tag}/{ext}: differs")
    vk.bounded_standin("real container.as_meshio(combined).write -> mesh.read through meshio (vtk / vtu / xdmf): every cell block comes back with its cell type and coordinates, one shared points array", "2 merged containers x combined in (True, False) x 3 formats", n, not bad, "; ".join(bad[:4]))
    vk.canary_bool("merging keeps every point", len(cont.points) < sum(len(m.points) for m in ins))


# ================================================================================================ copy
@contract("C20", "MeshContainer.copy", configs=[dict(dim=2), dict(dim=3), dict(dim=2, merged=True)], engine="E1")
def container_copy(vk, cfg):
    """copy() is a deep copy: equal to the original (points, cells, cell types), the copy's meshes refer to ONE
    shared points array of their own, and nothing is shared with the original -- writing into the copy's arrays,
    changing a cell type, appending or popping a mesh leaves the original unchanged, and vice versa"""
    _mark(vk, fem.MeshContainer, "copy")
    vk.real(fem.MeshContainer.__init__)
    if cfg.get("merged"):
        if not vk.sym:
            return
        with symnp.native():
            cont = fem.MeshContainer(c20._concrete_meshes(3, False), merge=True)
            cp = cont.copy()
            _same(vk, "merged container: the copy's meshes refer to ONE shared points array (the copy's), equal to the original's", (cp.points is not cont.points, all(m.points is cp.points for m in cp.meshes), np.array_equal(cp.points, cont.points), [m.cells.tolist() for m in cp.meshes], [m.cell_type for m in cp.meshes]), (True, True, True, [m.cells.tolist() for m in cont.meshes], [m.cell_type for m in cont.meshes]))
            ref = cont.points.copy()
            cp.points[:] = cp.points + 1.0
            cp.meshes[0].cells[:] = 0
            _same(vk, "merged container: writing into the copy leaves the original unchanged", (np.array_equal(cont.points, ref), int(cont.meshes[0].cells.max()) > 0), (True, True))
            vk.canary_bool("the copy shares the points array with the original", cp.points is not cont.points)
        return
    ins = _sym_meshes(vk, cfg["dim"])
    cont = fem.MeshContainer(ins)
    P0 = vk.snapshot(cont.points)
    C0 = [m.cells.copy() for m in cont.meshes]
    T0 = [m.cell_type for m in cont.meshes]
    cp = cont.copy()
    vk.ensures_eq("copy.points == original points", cp.points, P0)
    if vk.sym:
        _same(vk, "copy is a MeshContainer with equal cells, cell types, dimension", (type(cp) is fem.MeshContainer, [m.cells for m in cp.meshes], [m.cell_type for m in cp.meshes], cp.dim), (True, C0, T0, cont.dim))
        _same(vk, "the copy's meshes refer to ONE shared points array: the copy's own", (all(m.points is cp.points for m in cp.meshes), cp.points is not cont.points), (True, True))
        _same(vk, "no array of the copy shares memory with the original (points, cells), no mesh object is shared", (np.shares_memory(cp.points, cont.points), any(np.shares_memory(a.cells, b.cells) for a in cp.meshes for b in cont.meshes), any(a is b for a in cp.meshes for b in cont.meshes), cp.meshes is cont.meshes), (False, False, False, False))
    # modify the copy in every way the API offers
    cp.points[0, 0] = cp.points[0, 0] + 1
    cp.points[-1] = cp.points[-1] * 2 + 3
    cp.meshes[0].cells[0, 0] = cp.meshes[0].cells[0, 1]
    cp.meshes[1].cell_type = "changed"
    cp += ins[0]
    cp.pop(1)
    vk.frame_unchanged("modifying the copy/original points", cont.points, P0)
    for i, m in enumerate(cont.meshes):
        vk.ensures_eq(f"modifying the copy/mesh {i} of the original still refers to the original coordinates", m.points[m.cells], P0[C0[i]])
    if vk.sym:
        _same(vk, "modifying the copy/original cells, cell types, number of meshes, point count unchanged", ([m.cells for m in cont.meshes], [m.cell_type for m in cont.meshes], len(cont.points)), (C0, T0, len(P0)))
        _same(vk, "modifying the copy/the copy did change (3 meshes after += and pop, first point moved)", (len(cp.meshes), len(cp.points) == len(P0) + len(ins[0].points)), (3, True))
    # ... and the other way round
    cp2 = cont.copy()
    cont.points[0, 0] = cont.points[0, 0] - 5
    cont.meshes[0].cells[0, 0] = cont.meshes[0].cells[0, 2]
    cont.pop(0)
    vk.ensures_eq("modifying the original/the copy keeps the points it was made from", cp2.points, P0)
    if vk.sym:
        _same(vk, "modifying the original/the copy keeps cells, cell types, number of meshes", ([m.cells for m in cp2.meshes], [m.cell_type for m in cp2.meshes]), (C0, T0))
        vk.canary("the copy follows the original", cp2.points[0, 0], cont.points[0, 0])


# ================================================================================================ PyVista exchange
def _grid_meshes():
    """one small mesh per cell type of cell_types(), exact binary-rational coordinates (built natively by
    generators / conversions that are under contract in C16)"""
    r = fem.Rectangle(a=(-0.5, 0.25), b=(1.0, 2.25), n=(4, 3))
    c = fem.Cube(a=(0.0, -1.0, 0.5), b=(1.5, 1.0, 1.0), n=(3, 3, 2))
    meshes = {"line": fem.mesh.Line(a=-1.0, b=2.0, n=5), "quad": r, "triangle": r.triangulate(), "hexahedron": c, "tetra": c.triangulate(), "quad8": fem.Rectangle(a=(0.0, 0.0), b=(2.0, 1.0), n=(3, 2)).add_midpoints_edges()}
    meshes["vertex"] = fem.Point(a=0.5)
    meshes["triangle6"] = meshes["triangle"].add_midpoints_edges()
    meshes["tetra10"] = meshes["tetra"].add_midpoints_edges()
    meshes["quad9"] = meshes["quad"].convert(2, calc_midfaces=True)
    meshes["hexahedron20"] = meshes["hexahedron"].add_midpoints_edges()
    meshes["hexahedron27"] = meshes["hexahedron"].convert(2, calc_midfaces=True, calc_midvolumes=True)
    meshes["VTK_LAGRANGE_QUADRILATERAL"] = fem.mesh.RectangleArbitraryOrderQuad(order=3)
    meshes["VTK_LAGRANGE_HEXAHEDRON"] = fem.mesh.CubeArbitraryOrderHexahedron(order=2)
    lag = fem.mesh.Line(a=0.0, b=1.0, n=3)
    meshes["VTK_LAGRANGE_LINE"] = fem.Mesh(lag.points, np.array([[0, 2, 1]]), "VTK_LAGRANGE_LINE")
    return meshes


@contract("C20", "unstructured_grid", configs=[dict(part="round-trip"), dict(part="mixed")], engine="ground")
def unstructured_grid(vk, cfg):
    """G: Mesh.as_unstructured_grid -> MeshContainer.from_unstructured_grid yields the same points, cells and cell
    type for every cell type of cell_types(); a grid with several cell types becomes one mesh per cell type (cell
    types mapped back through the table, cells in grid order) on ONE shared points array; dim / kwargs"""
    if not vk.sym:
        return
    try:
        import pyvista as pv
    except Exception as e:  # noqa
        vk.ensures_true("pyvista importable", None, f"pyvista not importable in the checker's environment: {e}", backend="exec")
        return
    _mark(vk, fem.MeshContainer, "from_unstructured_grid")
    _mark(vk, fem.Mesh, "as_unstructured_grid")
    vk.real(fm.cell_types)
    with symnp.native(), warnings.catch_warnings():
        warnings.simplefilter("ignore")
        table = fm.cell_types()
        if cfg["part"] == "round-trip":
            meshes = _grid_meshes()
            _same(vk, "the family covers every cell type of cell_types()", sorted(m.cell_type for m in meshes.values() if m.cell_type in dict(table)), sorted(t[0] for t in table))
            for name, mesh in meshes.items():
                P, C = mesh.points.copy(), mesh.cells.copy()
                grid = mesh.as_unstructured_grid()
                back = fem.MeshContainer.from_unstructured_grid(grid, dim=mesh.dim)
                one = len(back.meshes) == 1
                m = back.meshes[0]
                _same(vk, f"{name}/grid -> container(dim={mesh.dim}): one mesh with the same cell type, identical cells, identical points (exact), on the container's points array", (one, m.cell_type, m.cells.shape == C.shape and np.array_equal(m.cells, C), m.points.shape == P.shape and np.array_equal(m.points, P), m.points is back.points, isinstance(back, fem.MeshContainer)), (True, mesh.cell_type, True, True, True, True))
                full = fem.MeshContainer.from_unstructured_grid(grid)
                pad = np.zeros((len(P), 3))
                pad[:, : P.shape[1]] = P
                _same(vk, f"{name}/dim=None: the grid's 3d points (mesh points padded with zeros)", (full.dim, np.array_equal(full.points, pad), np.array_equal(full.meshes[0].cells, C)), (3, True, True))
                _same(vk, f"{name}/mesh-untouched", np.array_equal(mesh.points, P) and np.array_equal(mesh.cells, C), True)
            vk.canary_bool("a quad comes back as a triangle", m.cell_type != "triangle")
            return
        # ---- grids with several cell types, given cell by cell in mixed order
        rev = {int(t[1]): t[0] for t in table}
        pts = np.array([[0.0, 0.0, 0.0], [1.0, 0.0, 0.0], [1.0, 1.0, 0.0], [0.0, 1.0, 0.0], [2.0, 0.0, 0.5], [2.0, 1.0, 0.5], [0.5, 2.0, 0.25], [1.0, 0.0, 0.0], [3.0, 0.5, 0.0]])
        cells_by_type = {"triangle": [[3, 2, 6]], "quad": [[0, 1, 2, 3], [7, 4, 5, 2]], "line": [[4, 8], [8, 5]]}
        seq = [("quad", 0), ("line", 0), ("triangle", 0), ("quad", 1), ("line", 1)]
        fwd = dict(table)
        flat, types_ = [], []
        for t, k in seq:
            row = cells_by_type[t][k]
            flat += [len(row)] + row
            types_.append(int(fwd[t]))
        for label, grid in (("pv.UnstructuredGrid(cells, types, points), cell types interleaved", pv.UnstructuredGrid(np.array(flat), np.array(types_), pts.copy())), ("pv.UnstructuredGrid({type: cells}, points)", pv.UnstructuredGrid({fwd[t]: np.array(c) for t, c in cells_by_type.items()}, pts.copy()))):
            for dim in (None, 2, 3):
                cont = fem.MeshContainer.from_unstructured_grid(grid, dim=dim)
                nm = f"mixed/{label}/dim={dim}"
                order = [rev[int(k)] for k in grid.cells_dict]
                _same(vk, nm + "/one mesh per cell type present, cell types mapped back through cell_types(), in the order of grid.cells_dict", ([m.cell_type for m in cont.meshes], sorted(order)), (order, sorted(cells_by_type)))
                cut = pts[:, :dim]
                # like mesh.read (c20_files.py): the container stacks the grid's points once per mesh and shifts the cells
                _same(vk, nm + "/every cell of every type refers to the coordinates it has in the grid (cut to dim), cells of a type in grid order", {m.cell_type: cont.points[m.cells].tolist() for m in cont.meshes}, {t: cut[np.array(c)].tolist() for t, c in cells_by_type.items()})
                _same(vk, nm + "/cells == the grid's cells of that type + number of points stacked before", [m.cells.tolist() for m in cont.meshes], [(np.array(cells_by_type[t]) + i * len(pts)).tolist() for i, t in enumerate(order)])
                _same(vk, nm + "/ONE shared points array == the grid's points (cut to dim, exact) stacked once per mesh", (all(m.points is cont.points for m in cont.meshes), np.array_equal(cont.points, np.concatenate([cut] * 3)), cont.dim), (True, True, 3 if dim is None else dim))
            # **kwargs reach the container: merge=True merges the repeated point 7 == 1 into one shared array
            merged = fem.MeshContainer.from_unstructured_grid(grid, dim=3, merge=True)
            coords = {m.cell_type: merged.points[m.cells].tolist() for m in merged.meshes}
            _same(vk, f"mixed/{label}/merge=True is forwarded: {len(pts) - 1} distinct points in ONE shared array, every cell keeps its coordinates", (len(merged.points), all(m.points is merged.points for m in merged.meshes), coords), (len(pts) - 1, True, {t: pts[np.array(c)].tolist() for t, c in cells_by_type.items()}))
            rounded = fem.MeshContainer.from_unstructured_grid(grid, dim=2, merge=True, decimals=0)
            _same(vk, f"mixed/{label}/merge=True, decimals=0 are forwarded (points rounded to integers and merged)", (sorted(c20._rows(rounded.points)), all(m.points is rounded.points for m in rounded.meshes)), (sorted(set(c20._rows(pts[:, :2], 0))), True))
        vk.canary_bool("a mixed grid becomes one mesh", len(cont.meshes) != 1)
        try:
            bad_grid = pv.UnstructuredGrid({pv.CellType.WEDGE: np.array([[0, 1, 2, 3, 4, 5]])}, pts.copy())
            fem.MeshContainer.from_unstructured_grid(bad_grid)
            raised = False
        except KeyError:
            raised = True
        _same(vk, "mixed/a VTK cell type that is not in cell_types() (wedge) is refused with KeyError (never mapped to another type)", raised, True)
